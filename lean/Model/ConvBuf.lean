/-!
# Model.ConvBuf — several calls of one registered callee in flight at once (C17)

`ReflectFunction.Call` / `ReflectMethod.Call` (`runtime/reflect_register.go`, `runtime/reflect_class.go`)
fill an argument list slot by slot — one `convertToGoValue` per parameter, left to right — and then hand
the list to `reflect.Value.Call`, which copies it before the Go code runs. Scripts are not
single-threaded (`spawn`, one goroutine per HTTP request) and a conversion or the Go code itself may
re-enter the VM and call the same callee again, so several calls of ONE registered callee can be
between their first conversion and their `reflect.Value.Call` at the same time.

This file models exactly that window. A *caller* is one call in flight (`c : Nat`), `args c` the
values it passes (already converted: the conversion itself is `Model.Conv`), `n` the callee's arity.
One step of caller `c` is either "write slot `pc c` of the argument list" or, when all `n` slots are
written, "invoke: Go receives a copy of the argument list". A schedule is any list of caller ids —
every interleaving of any number of callers, including nested (re-entrant) ones. Where the argument
list lives is the parameter `bufOf : caller → buffer`: the code as it is allocates one per call
(`bufOf = id`, any injective map); a list kept in the registration (`rf.args`, `rm.args`, a package-level
scratch slice) is `bufOf = fun _ => 0`.
-/
namespace Model.ConvBuf

/-- state of the window: per caller how many slots it has written (`n + 1` = invoked), the buffers,
and per caller what the Go code received -/
structure St (α : Type) where
  pc : Nat → Nat
  buf : Nat → Nat → Option α
  recv : Nat → Option (List (Option α))

def St.init {α : Type} : St α := ⟨fun _ => 0, fun _ _ => none, fun _ => none⟩

def upd {β : Type} (f : Nat → β) (k : Nat) (v : β) : Nat → β := fun x => if x = k then v else f x

/-- one step of caller `c` -/
def step {α : Type} (bufOf : Nat → Nat) (args : Nat → List α) (n : Nat) (s : St α) (c : Nat) : St α :=
  if s.pc c < n then
    { s with
      buf := upd s.buf (bufOf c) (upd (s.buf (bufOf c)) (s.pc c) ((args c)[s.pc c]?))
      pc := upd s.pc c (s.pc c + 1) }
  else if s.pc c = n then
    { s with
      recv := upd s.recv c (some ((List.range n).map (s.buf (bufOf c))))
      pc := upd s.pc c (n + 1) }
  else s

def runFrom {α : Type} (bufOf : Nat → Nat) (args : Nat → List α) (n : Nat) (s : St α) (sched : List Nat) : St α :=
  sched.foldl (step bufOf args n) s

def run {α : Type} (bufOf : Nat → Nat) (args : Nat → List α) (n : Nat) (sched : List Nat) : St α :=
  runFrom bufOf args n St.init sched

/-- what caller `c` passed, position by position (a missing argument is `none`: it arrives as null) -/
def passed {α : Type} (args : Nat → List α) (n c : Nat) : List (Option α) :=
  (List.range n).map (fun i => (args c)[i]?)

/-- where the argument list of a call lives, decided by the regenerated fact "the call path writes
nothing that outlives the call" -/
def bufPolicy (callPathWrites : List String) : Nat → Nat :=
  if callPathWrites.isEmpty then id else fun _ => 0

/-- the schedule of `k` complete calls one after the other (callers `cs`), the only kind a
single-goroutine stream without re-entrance can produce -/
def sequential (n : Nat) (cs : List Nat) : List Nat :=
  cs.flatMap (fun c => List.replicate (n + 1) c)

end Model.ConvBuf
