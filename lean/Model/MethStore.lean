import Model.Meth
/-!
C15 — the callback-taking array methods (`forEach`, `map`, `filter`, `find`,
`findIndex`, `every`, `some`, `flatMap`, `reduce`) at the level of the storage
they work on, as coded in `data/value_array_*.go` (with fix
C15-callback-invocation applied).

What the Go code has in its hands during one call:

* `recv` — the receiver variable's slots (`a.source`).  Script code can reach
  them while the method runs: a callback that captured the receiver by
  reference may replace any of them.
* `snap` — `sourceValues := tempArray.ToValueList()`, a slice of the
  receiver's values taken when the method starts.  It is private to the
  method, it is what the loop ranges over, and it is re-wrapped with
  `NewArrayValue(sourceValues)` for the callback's array argument at **every**
  invocation — so whatever is stored in `snap` between two invocations is what
  the next invocation sees.
* the result buffer of `map` / `filter` / `flatMap`.  `OutBuf` says where it
  lives: `fresh` (`var result []Value`, `make([]Value, n)` — storage of its
  own, what the code does), `inSnap` (`result := sourceValues[:0]`, the "filter
  in place" idiom: element `k` of the result is written to `snap[k]`) or
  `inRecv` (carved out of the receiver's slots).

`Model.Meth` gives the callback an immutable list; here the callback gets
whatever `snap` holds at the moment of the invocation, and may itself replace
the receiver.  `Proofs/Lemmas/MethStore.lean` shows that with a `fresh` result
buffer nothing the method writes can be seen through the callback's arguments
(`Model.MethStore.run .fresh` = the loops of `Model.Meth`), and that the two
aliased layouts are observably different.
-/
namespace Model.MethStore
open Model.Meth

/-- where the result buffer of map / filter / flatMap lives -/
inductive OutBuf where
  | fresh
  | inSnap
  | inRecv
  deriving DecidableEq, Repr

/-- the nine callback-taking methods -/
inductive Kind where
  | forEach | map | filter | find | findIndex | every | someP | flatMap | reduce
  deriving DecidableEq, Repr

/-- the storage during one call; `k` = `len(result)` -/
structure St where
  recv : List Val
  snap : List Val
  out : List Val
  k : Nat
  deriving Repr

/-- `buf = append(buf[:k], v)` while `k < cap` (the slot is overwritten in place);
beyond the end the model simply extends the list (Go would move the result to a
new backing array there — not reached by `filter`, whose `k` never exceeds the
number of elements already visited). -/
def writeAt (l : List Val) (k : Nat) (v : Val) : List Val :=
  if k < l.length then l.set k v else l.take k ++ [v]

/-- one element appended to the result -/
def emit (b : OutBuf) (st : St) (v : Val) : St :=
  match b with
  | .fresh => { st with out := st.out ++ [v], k := st.k + 1 }
  | .inSnap => { st with snap := writeAt st.snap st.k v, k := st.k + 1 }
  | .inRecv => { st with recv := writeAt st.recv st.k v, k := st.k + 1 }

def emitAll (b : OutBuf) (st : St) (vs : List Val) : St := vs.foldl (emit b) st

/-- the result buffer read back -/
def result (b : OutBuf) (st : St) : List Val :=
  match b with
  | .fresh => st.out
  | .inSnap => st.snap.take st.k
  | .inRecv => st.recv.take st.k

/-- what one invocation is given -/
structure Inv where
  acc : Val          -- reduce: the accumulator; `null` for the other methods
  el : Val
  idx : Nat
  arr : List Val
  deriving Repr

/-- a callback as script code: it sees its arguments and the receiver as it can reach it
now (through a captured reference); it answers a value and the receiver afterwards.
Everything else it may touch — its own copies of the arguments — is invisible to the method. -/
abbrev ECb := Inv → List Val → Val × List Val

/-- one observed invocation: the arguments and the receiver as the callback found it -/
structure Ev where
  inv : Inv
  recv : List Val
  deriving Repr

/-- `AsBool` of a predicate's answer, for the answers the model covers: real booleans
(a missing result is `null`, not true). -/
def truthy : Val → Bool
  | .bool true => true
  | _ => false

inductive Next where
  | cont (st : St) (acc : Val)
  | stop (st : St) (ret : Val)

/-- the storage after one step, whichever way the method goes on -/
def Next.st : Next → St
  | .cont st _ => st
  | .stop st _ => st

/-- what the method does with the callback's answer `r` for element `el` at index `i` -/
def consume (b : OutBuf) (kind : Kind) (st : St) (acc el : Val) (i : Nat) (r : Val) : Next :=
  match kind with
  | .forEach => .cont st acc
  | .map => .cont (emit b st r) acc
  | .filter => .cont (if truthy r then emit b st el else st) acc
  | .flatMap => .cont (emitAll b st (spread r)) acc
  | .find => if truthy r then .stop st el else .cont st acc
  | .findIndex => if truthy r then .stop st (.int i) else .cont st acc
  | .every => if truthy r then .cont st acc else .stop st (.bool false)
  | .someP => if truthy r then .stop st (.bool true) else .cont st acc
  | .reduce => .cont st r

/-- the value returned when the loop runs to its end -/
def finish (b : OutBuf) (kind : Kind) (st : St) (acc : Val) : Val :=
  match kind with
  | .forEach => .null
  | .find => .null
  | .map => .list (result b st)
  | .filter => .list (result b st)
  | .flatMap => .list (result b st)
  | .findIndex => .int (-1)
  | .every => .bool true
  | .someP => .bool false
  | .reduce => acc

/-- `for i := start; i < n; i++`: the element is read from `snap[i]` when its turn comes, the
callback gets `NewArrayValue(snap)` as `snap` is then.  `none` = index out of range (Go panic). -/
def loop (b : OutBuf) (kind : Kind) (cb : ECb) : Nat → Nat → St → Val → Option (Val × St × List Ev)
  | 0, _, st, acc => some (finish b kind st acc, st, [])
  | fuel + 1, i, st, acc =>
    match st.snap[i]? with
    | none => none
    | some el =>
      let inv : Inv := ⟨acc, el, i, st.snap⟩
      let ev : Ev := ⟨inv, st.recv⟩
      match consume b kind { st with recv := (cb inv st.recv).2 } acc el i (cb inv st.recv).1 with
      | .stop st' ret => some (ret, st', [ev])
      | .cont st' acc' =>
        match loop b kind cb fuel (i + 1) st' acc' with
        | none => none
        | some (v, s, t) => some (v, s, ev :: t)

/-- one call.  `args` are the arguments after the callback (reduce's initial value). -/
def run (b : OutBuf) (kind : Kind) (cb : ECb) (xs args : List Val) : Option (Val × St × List Ev) :=
  let st : St := ⟨xs, xs, [], 0⟩
  match kind with
  | .reduce =>
    if given (slot args 0) then loop b kind cb xs.length 0 st (slot args 0)
    else match xs with
      | [] => some (.null, st, [])
      | a :: _ => loop b kind cb (xs.length - 1) 1 st a
  | _ => loop b kind cb xs.length 0 st .null

/-- the answer in the shape of `Model.Meth.Res`: returned value and receiver afterwards -/
def runRes (b : OutBuf) (kind : Kind) (cb : ECb) (xs args : List Val) : Res :=
  match run b kind cb xs args with
  | none => .crash
  | some (v, st, _) => .ok ⟨v, st.recv⟩

/-- the invocations of one call -/
def trace (b : OutBuf) (kind : Kind) (cb : ECb) (xs args : List Val) : List Ev :=
  match run b kind cb xs args with
  | none => []
  | some (_, _, t) => t

/-! ## callbacks without effects, as `Model.Meth` has them -/

def ofCb (f : Cb) : ECb := fun inv recv => (f inv.el inv.idx inv.arr, recv)
def ofPred (p : Pred) : ECb := fun inv recv => (.bool (p inv.el inv.idx inv.arr), recv)
def ofCb4 (f : Cb4) : ECb := fun inv recv => (f inv.acc inv.el inv.idx inv.arr, recv)

end Model.MethStore
