/-! C12 — code parsed ONCE on the base VM and executed through several VMs.

A function / method / closure body defined on the base VM is one AST; every TempVM that calls
it executes the very same nodes, and `ctx.GetVM()` decides at run time which VM a declaration
statement inside it registers into (`node/function.go`, `FunctionStatement.GetValue` →
`ctx.GetVM().AddFunc(f)`). State kept on such a node is therefore state shared by every VM.

The model: function tables of the base and of any number of TempVMs (`name ↦ node`, newest
binding first), a per-node flag store (what an implementation may keep on the AST node), and
histories of `run v body` (VM `v` executes the shared body) and `discard i`. `Impl.nodeFlag`
says how the declaration statement is coded: `false` = as on the pinned tree (it consults
nothing but the executing VM), `true` = it keeps a "declared" flag on the node and skips the
registration when the flag is set.

`NodeFact` / `NodesStateless`: the regenerated facts about package `node` (translator
`extract/c12`) and the decidable obligation tying the model's `nodeFlag = false` to the code.
-/
namespace Model.TempShared

inductive VM where
  | base
  | temp (i : Nat)
  deriving DecidableEq, Repr

abbrev Tab := List (Nat × Nat)

/-- one `function name() {…}` statement inside a shared body; `node` = identity of the AST node,
`guarded` = wrapped in `if (!function_exists(name))` -/
structure Decl where
  node : Nat
  name : Nat
  guarded : Bool := false
  deriving DecidableEq, Repr

structure Impl where
  nodeFlag : Bool
  deriving DecidableEq, Repr

structure State where
  base : Tab := []
  temp : Nat → Tab := fun _ => []
  flag : Nat → Bool := fun _ => false

def State.loc (s : State) : VM → Tab
  | .base => []
  | .temp i => s.temp i

/-- `TempVM.GetFunc`: the request-local table first, then the base (`VM.GetFunc` with `l = []`) -/
def lookupV (b l : Tab) (n : Nat) : Option Nat :=
  match l.lookup n with
  | some x => some x
  | none => b.lookup n

def resolve (s : State) (v : VM) (n : Nat) : Option Nat := lookupV s.base (s.loc v) n

/-- tables of the executing VM, the node flags, and whether the body goes on -/
structure Ex where
  b : Tab
  l : Tab
  fl : Nat → Bool
  ok : Bool

def setFlag (fl : Nat → Bool) (k : Nat) : Nat → Bool := fun j => if j = k then true else fl j

/-- one declaration statement executed by a VM with tables `(b, l)`: `VM.AddFunc` refuses a
duplicate (the error ends the body), `TempVM.AddFunc` overwrites its local table -/
def declExec (impl : Impl) (isBase : Bool) (b l : Tab) (fl : Nat → Bool) (d : Decl) : Ex :=
  if d.guarded && (lookupV b l d.name).isSome then ⟨b, l, fl, true⟩
  else if impl.nodeFlag && fl d.node then ⟨b, l, fl, true⟩
  else if isBase then
    (if (b.lookup d.name).isSome then ⟨b, l, fl, false⟩
     else ⟨(d.name, d.node) :: b, l, if impl.nodeFlag then setFlag fl d.node else fl, true⟩)
  else ⟨b, (d.name, d.node) :: l, if impl.nodeFlag then setFlag fl d.node else fl, true⟩

def bodyExec (impl : Impl) (isBase : Bool) (b l : Tab) (fl : Nat → Bool) : List Decl → Ex
  | [] => ⟨b, l, fl, true⟩
  | d :: ds =>
    let r := declExec impl isBase b l fl d
    if r.ok then bodyExec impl isBase r.b r.l r.fl ds else r

inductive Op where
  | run (v : VM) (body : List Decl)
  | discard (i : Nat)

def Op.vm : Op → VM
  | .run v _ => v
  | .discard i => .temp i

def upd (f : Nat → Tab) (i : Nat) (t : Tab) : Nat → Tab := fun j => if j = i then t else f j

def step (impl : Impl) (s : State) : Op → State
  | .run .base body =>
    let r := bodyExec impl true s.base [] s.flag body
    { s with base := r.b, flag := r.fl }
  | .run (.temp i) body =>
    let r := bodyExec impl false s.base (s.temp i) s.flag body
    { s with temp := upd s.temp i r.l, flag := r.fl }
  | .discard i => { s with temp := upd s.temp i [] }

def runH (impl : Impl) (s : State) : List Op → State
  | [] => s
  | o :: os => runH impl (step impl s o) os

/-- the operations of a history that `v` may depend on: its own and the base's -/
def keeps (v : VM) (o : Op) : Bool := o.vm == v || o.vm == .base

def purge (v : VM) (h : List Op) : List Op := h.filter (keeps v)

/-- noninterference: what `v` resolves after `h` is what it resolves after only its own and the
base's operations -/
def NonInterfering (impl : Impl) : Prop :=
  ∀ (h : List Op) (v : VM) (n : Nat),
    resolve (runH impl {} h) v n = resolve (runH impl {} (purge v h)) v n

/-! ### regenerated facts about package `node` -/

structure NodeFact where
  typ : String
  method : String
  defines : List String
  resolves : List String
  recvWrites : List String
  globalWrites : List String
  deriving DecidableEq, Repr

/-- how the model reads a defining node function: it keeps state on the node iff it assigns a field of its receiver -/
def implOf (f : NodeFact) : Impl := ⟨!f.recvWrites.isEmpty⟩

/-- known: `node.IncludeCore` keeps the process-wide `includeOnceCache` (and consults the shared
file cache): a file included through one VM is never included again by any other
(finding `nonint:shared-include`) -/
def KnownStateful : List (String × String) := [("", "IncludeCore")]

/-- known: resolve-once caches on use nodes — the class / function / static member a `new`, call or
static access resolved the first time it ran is kept on the AST node and answers for every VM
that runs the node later (findings `nonint:shared-use:call:foreign-hit`, `…:new:foreign-hit`) -/
def KnownCaches : List (String × String × String) :=
  [("Annotation", "resolveClass", "class"), ("CallFunctionLater", "resolveFun", "Fun"),
   ("CallLater", "GetValue", "Fun"), ("CallLater", "GetValue", "FunName"),
   ("CallStaticMethodLater", "resolveCall", "call"), ("CallStaticPropertyLater", "resolveAccess", "access"),
   ("NewClassGenerated", "resolveClass", "class"), ("NewExpression", "resolveClass", "class")]

def NodeFact.defining (f : NodeFact) : Bool := !f.defines.isEmpty

/-- a defining node function keeps no state (no receiver field, no package-level variable), unless known -/
def statelessOrKnown (f : NodeFact) : Bool :=
  (f.recvWrites.isEmpty && f.globalWrites.isEmpty) || KnownStateful.contains (f.typ, f.method)

/-- a resolving node function writes only the known caches -/
def cachesKnown (f : NodeFact) : Bool :=
  f.globalWrites.isEmpty && f.recvWrites.all (fun w => KnownCaches.contains (f.typ, f.method, w))

/-- the obligation on the regenerated facts: the translator read package `node`; the declaration
statement the model covers is there (`FunctionStatement.GetValue` → `AddFunc`); every function
that calls a defining VM method keeps no state on its node or in the package (or is known);
every other listed function (resolves + writes) writes known caches only -/
def NodesStateless (err : Option String) (facts : List NodeFact) : Prop :=
  err = none ∧
  (facts.any fun f => f.typ == "FunctionStatement" && f.method == "GetValue" && f.defines.contains "AddFunc") = true ∧
  (facts.all fun f => if f.defining then statelessOrKnown f else cachesKnown f) = true

instance (err : Option String) (facts : List NodeFact) : Decidable (NodesStateless err facts) := by
  unfold NodesStateless; infer_instance

end Model.TempShared
