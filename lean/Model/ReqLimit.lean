import Model.ReqFacts
/-!
# Model.ReqLimit — limits next to process-wide counters (C11)

The VM is one object for the whole process: under the HTTP server every in-flight request runs
its handler on it (a `TempVM` forwards to its base).  `vm.EnterCall()` / `vm.LeaveCall()` count in
one field of that VM (`VM.callDepth`), so the number `EnterCall` returns is the **sum** of the
counted frames of *all* requests that are in flight.

What the Go code does (node/class.go `ClassMethod.Call`, node/call_depth.go):

    if vm.EnterCall() > maxCallDepth {                 // c := c + 1;  c > limit ?
        if depth := ownCallDepth(); depth > maxCallDepth {   // frames of THIS goroutine, the entering one included
            vm.LeaveCall(); return error "…(depth)"
        }
    }
    defer vm.LeaveCall()

The model: a request is a list of `Step`s — enter a frame executed by the Go function `k`
(`"node.ClassMethod.Call"`, `"node.FunctionStatement.Call"`, `"node.LambdaExpression.Call"`), leave
the innermost frame, gate, write.  Which Go functions enter the counter, against which limit and
**what the refusal is decided on** (`own`: the goroutine's own frames, as above; `shared`: the
process-wide number alone, `if depth := vm.EnterCall(); depth > 500 { … return error }`) is the
parameter `Guards`, read from the regenerated facts (`guardsOf`).  A refused call raises a script
error: the request unwinds all its frames (each deferred `LeaveCall` runs) and answers with the
error, which carries the number the guard looked at.

One counter: the source has one (`Facts.guardViolations` names any other).
-/
namespace Model.ReqLimit
open Model.Req (Rid Facts DepthGuard)

/-- the Go function executing a frame -/
abbrev Callee := String

inductive DecidesOn | own | shared | never
  deriving DecidableEq, Repr

structure Guard where
  limit     : Nat            -- the process-wide number is compared with this
  ownLimit  : Nat            -- the goroutine-local count is compared with this
  on        : DecidesOn
  ownCounts : List Callee    -- the frames the goroutine-local count counts
  deriving DecidableEq, Repr

abbrev Guards := Callee → Option Guard

inductive Step
  | enter (k : Callee)
  | leave
  | gate
  | write
  deriving DecidableEq, Repr

inductive Outcome
  | running
  | ok
  | refused (reported : Nat)
  deriving DecidableEq, Repr

structure ReqSt where
  pc    : List Step := []
  stack : List Callee := []     -- frames held, innermost first
  out   : Outcome := .running
  deriving DecidableEq, Repr

/-- the frame is counted in the VM's counter -/
def counted (g : Guards) (k : Callee) : Bool := (g k).isSome

/-- `d_i`: the request's frames that are counted in the VM's counter -/
def depth (g : Guards) (q : ReqSt) : Nat := (q.stack.filter (counted g)).length

/-- what `ownCallDepth()` returns inside the call that enters a frame of `k`: the frames of the
calling goroutine the guard's own count counts, the entering one included -/
def ownDepth (gd : Guard) (k : Callee) (q : ReqSt) : Nat :=
  (q.stack.filter (fun j => gd.ownCounts.contains j)).length + (if gd.ownCounts.contains k then 1 else 0)

/-- the decision of a guard: `c` = the process-wide number after the increment, `own` = the
goroutine's own count -/
def refuse (gd : Guard) (c own : Nat) : Bool :=
  match gd.on with
  | .own => decide (c > gd.limit) && decide (own > gd.ownLimit)
  | .shared => decide (c > gd.limit)
  | .never => false

/-- the number the error message carries -/
def reported (gd : Guard) (c own : Nat) : Nat :=
  match gd.on with
  | .own => own
  | _ => c

def enter (g : Guards) (k : Callee) (q : ReqSt) (c : Nat) : ReqSt × Nat :=
  match g k with
  | none => ({ q with stack := k :: q.stack }, c)
  | some gd =>
    if refuse gd (c + 1) (ownDepth gd k q) then
      -- LeaveCall of this call, then the error unwinds every frame the request holds
      ({ pc := [], stack := [], out := .refused (reported gd (c + 1) (ownDepth gd k q)) }, c - depth g q)
    else ({ q with stack := k :: q.stack }, c + 1)

def leave (g : Guards) (q : ReqSt) (c : Nat) : ReqSt × Nat :=
  match q.stack with
  | [] => (q, c)
  | k :: rest => ({ q with stack := rest }, if counted g k then c - 1 else c)

/-- the effect of one step (already taken off the program counter) on the request's own state
and the VM's counter -/
def exec (g : Guards) (q : ReqSt) (c : Nat) : Step → ReqSt × Nat
  | .enter k => enter g k q c
  | .leave => leave g q c
  | .gate => (q, c)
  | .write => ({ q with out := .ok }, c)

def localStep (g : Guards) (q : ReqSt) (c : Nat) : ReqSt × Nat :=
  match q.pc with
  | [] => (q, c)
  | st :: rest => exec g { q with pc := rest } c st

structure World where
  n      : Nat                  -- requests 0 … n-1 exist
  guards : Guards
  prog   : Rid → List Step

structure State where
  req : Rid → ReqSt
  cnt : Nat                     -- `VM.callDepth`

def stepReq (w : World) (s : State) (r : Rid) : State :=
  if r < w.n then
    let res := localStep w.guards (s.req r) s.cnt
    { req := fun r' => if r' = r then res.1 else s.req r', cnt := res.2 }
  else s

def init (w : World) : State := { req := fun r => { pc := w.prog r }, cnt := 0 }

def run (w : World) (s : State) (sched : List Rid) : State := sched.foldl (stepReq w) s

def response (s : State) (r : Rid) : Outcome := (s.req r).out

def solo (w : World) (r : Rid) : State := run w (init w) (List.replicate (w.prog r).length r)

def soloResponse (w : World) (r : Rid) : Outcome := response (solo w r) r

/-- `Σ d_i` over the requests that exist -/
def total (g : Guards) (s : State) (n : Nat) : Nat := ((List.range n).map (fun i => depth g (s.req i))).sum

/-! ### the guards of the analysed tree -/

def guardOfFact (d : DepthGuard) : Guard :=
  { limit := d.limit, ownLimit := d.ownLimit, ownCounts := d.ownCounts,
    on := if d.decidesOn == "own" then .own else if d.decidesOn == "never" then .never else .shared }

def guardsOf (f : Facts) : Guards := fun k => (f.guardOf k).map guardOfFact

end Model.ReqLimit
