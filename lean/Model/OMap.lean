/-
C20 (i) — implementation-shaped model of `data/ordered_map.go` (`OrderedMap`):
a slice `data []*ZVal` plus two Go maps `indexMap map[string]int` (key ↦ position)
and `nameMap map[int]string` (position ↦ key), with `Set / Delete / Get / Range /
Len / GetByIndex` as coded, including the bounds guards (`idx >= 0 && idx <
len(om.data)`, `if key, exists := om.nameMap[i]; exists`) that the representation
invariant proves dead.

Modelled-not-verified: a Go map is a finite partial function (`GoMap`): lookup,
single-key store, fresh map. Values are `ZVal.Value` only (the pointer identity of
a `*ZVal`, which `GetZVal` hands out, is not part of the enumeration order). The
`sync.RWMutex` is not modelled (sequential programs). Positions are natural numbers:
the only `int`s ever stored in `indexMap` are values of `len(om.data)`.
-/
namespace Model.OMap

/-- a Go `map[K]V` -/
abbrev GoMap (κ ν : Type) := κ → Option ν

def GoMap.empty {κ ν : Type} : GoMap κ ν := fun _ => none

def GoMap.put {κ ν : Type} [DecidableEq κ] (m : GoMap κ ν) (k : κ) (v : ν) : GoMap κ ν :=
  fun k' => if k' = k then some v else m k'

/-- the `OrderedMap` struct -/
structure OM (κ ν : Type) where
  data : List ν
  indexMap : GoMap κ Nat
  nameMap : GoMap Nat κ

variable {κ ν : Type} [DecidableEq κ]

/-- `NewOrderedMap()` -/
def empty : OM κ ν := ⟨[], GoMap.empty, GoMap.empty⟩

/-- the "new key" branch of `Set` (also the loop body of `Delete`):
`index := len(data); data = append(data, v); indexMap[key] = index; nameMap[index] = key` -/
def OM.push (m : OM κ ν) (k : κ) (v : ν) : OM κ ν :=
  ⟨m.data ++ [v], m.indexMap.put k m.data.length, m.nameMap.put m.data.length k⟩

/-- `Set(key, value)` -/
def set (m : OM κ ν) (k : κ) (v : ν) : OM κ ν :=
  match m.indexMap k with
  | some idx => if idx < m.data.length then { m with data := m.data.set idx v } else m
  | none => m.push k v

/-- the loop of `Delete`: `for i, z := range om.data { k, ok := om.nameMap[i]; if !ok || k == key
{ continue }; newIndex[k] = len(newData); newName[len(newData)] = k; newData = append(newData, z) }` -/
def delLoop (key : κ) (nameMap : GoMap Nat κ) : Nat → List ν → OM κ ν → OM κ ν
  | _, [], acc => acc
  | i, z :: rest, acc =>
    match nameMap i with
    | none => delLoop key nameMap (i + 1) rest acc
    | some k => if k = key then delLoop key nameMap (i + 1) rest acc
                else delLoop key nameMap (i + 1) rest (acc.push k z)

/-- `Delete(key)` -/
def delete (m : OM κ ν) (key : κ) : OM κ ν :=
  match m.indexMap key with
  | none => m
  | some _ => delLoop key m.nameMap 0 m.data empty

/-- `Get(key)` -/
def get (m : OM κ ν) (k : κ) : Option ν :=
  match m.indexMap k with
  | some idx => if h : idx < m.data.length then some m.data[idx] else none
  | none => none

/-- the loop of `Range`: `for i, zval := range om.data { if key, exists := om.nameMap[i]; exists { fn(key, zval.Value) } }` -/
def rangeFrom (nameMap : GoMap Nat κ) : Nat → List ν → List (κ × ν)
  | _, [] => []
  | i, z :: rest =>
    match nameMap i with
    | some k => (k, z) :: rangeFrom nameMap (i + 1) rest
    | none => rangeFrom nameMap (i + 1) rest

/-- `Range(fn)` with an `fn` that never stops: the pairs handed to `fn`, in call order -/
def range (m : OM κ ν) : List (κ × ν) := rangeFrom m.nameMap 0 m.data

/-- the pairs handed to an `fn` that returns `false` (stop) exactly when `stop` holds:
everything up to and including the first such pair -/
def visited {α : Type} (stop : α → Bool) : List α → List α
  | [] => []
  | x :: xs => if stop x then [x] else x :: visited stop xs

def rangeUntil (m : OM κ ν) (stop : κ × ν → Bool) : List (κ × ν) := visited stop (range m)

/-- `Len()` -/
def len (m : OM κ ν) : Nat := m.data.length

/-- `GetByIndex(index)` (`index` is a Go `int`) -/
def getByIndex (m : OM κ ν) (index : Int) : Option (κ × ν) :=
  if h : 0 ≤ index ∧ index.toNat < m.data.length then
    match m.nameMap index.toNat with
    | some k => some (k, m.data[index.toNat]'h.2)
    | none => none
  else none

/-- operations of a client of the store -/
inductive Op (κ ν : Type)
  | set (k : κ) (v : ν)
  | delete (k : κ)
deriving Repr

def step (m : OM κ ν) : Op κ ν → OM κ ν
  | .set k v => set m k v
  | .delete k => delete m k

def run (ops : List (Op κ ν)) : OM κ ν := ops.foldl step empty

end Model.OMap
