/-!
# Model.Wire — protobuf wire format primitives and the generic parser (C14, part 2)

Mirrors `std/protowire/parser.go` (`ParseRawFields`, `parseFields`,
`consumeFieldValue`, `consumeGroup`, `unpackPacked`) over the primitives of
`google.golang.org/protobuf/encoding/protowire` (`ConsumeVarint`, `ConsumeTag`,
`ConsumeFixed32/64`, `ConsumeBytes`, `AppendVarint`, `AppendTag`, …), which are
re-modelled here and tied to the real ones by the correspondence run.

A primitive returns `none` where the Go one returns a negative length (the
parser only tests `n <= 0`), and the remaining input where Go returns `n`
(`data[n:]`). The parser is written with explicit fuel (`parse` supplies
`len + 1`; `Proofs` shows this is always enough).

`parseFields` on an end-group tag: the pinned code did `break` and reported
success with the remaining bytes dropped; the model is the code after fix
C14-endgroup (→ `ErrUnexpectedEndGroup`).
-/
namespace Model.Wire

abbrev Bytes := List Nat

/-! ## primitives -/

/-- `ConsumeVarint`, `k` = number of bytes still allowed (10 at the start).
Value = little-endian base-128 digits; the tenth byte must be `0` or `1`. -/
def cvAux : Nat → Bytes → Option (Nat × Bytes)
  | 0, _ => none                                     -- more than ten bytes: overflow
  | _ + 1, [] => none                                -- truncated
  | k + 1, b :: rest =>
      if b < 128 then
        if k = 0 ∧ 2 ≤ b then none else some (b, rest)
      else
        match cvAux k rest with
        | some (v, r) => some (b - 128 + 128 * v, r)
        | none => none

def consumeVarint (b : Bytes) : Option (Nat × Bytes) := cvAux 10 b

/-- `AppendVarint`, `f` = continuation bytes still allowed (9 at the start) -/
def avAux : Nat → Nat → Bytes
  | 0, v => [v % 128]
  | f + 1, v => if v < 128 then [v] else (v % 128 + 128) :: avAux f (v / 128)

def appendVarint (v : Nat) : Bytes := avAux 9 v

/-- `ConsumeTag`: varint, `DecodeTag` (`x>>3 > MaxInt32` → -1), `num < 1` → error -/
def consumeTag (b : Bytes) : Option (Nat × Nat × Bytes) :=
  match consumeVarint b with
  | none => none
  | some (x, rest) =>
      if x / 8 > 2147483647 then none
      else if x / 8 < 1 then none
      else some (x / 8, x % 8, rest)

/-- `AppendTag(num, typ)` = `AppendVarint(num<<3 | typ&7)` -/
def appendTag (num wt : Nat) : Bytes := appendVarint (num * 8 + wt % 8)

def consumeFixed32 : Bytes → Option (Nat × Bytes)
  | b0 :: b1 :: b2 :: b3 :: rest => some (b0 + 256 * b1 + 65536 * b2 + 16777216 * b3, rest)
  | _ => none

def appendFixed32 (v : Nat) : Bytes := [v % 256, v / 256 % 256, v / 65536 % 256, v / 16777216 % 256]

def consumeFixed64 : Bytes → Option (Nat × Bytes)
  | b0 :: b1 :: b2 :: b3 :: b4 :: b5 :: b6 :: b7 :: rest =>
      some (b0 + 256 * b1 + 65536 * b2 + 16777216 * b3 + 4294967296 * b4 + 1099511627776 * b5
        + 281474976710656 * b6 + 72057594037927936 * b7, rest)
  | _ => none

def appendFixed64 (v : Nat) : Bytes :=
  [v % 256, v / 256 % 256, v / 65536 % 256, v / 16777216 % 256, v / 4294967296 % 256,
   v / 1099511627776 % 256, v / 281474976710656 % 256, v / 72057594037927936 % 256]

/-- `ConsumeBytes`: length varint `m`, `m > len(rest)` → truncated -/
def consumeBytes (b : Bytes) : Option (Bytes × Bytes) :=
  match consumeVarint b with
  | none => none
  | some (m, rest) => if m > rest.length then none else some (rest.take m, rest.drop m)

def appendBytes (v : Bytes) : Bytes := appendVarint v.length ++ v

/-! ## parse result -/

inductive Err where
  | maxDepth | tag | varint | fixed64 | fixed32 | length | unexpectedEnd
  | endGroup | mismatch | wireType | packedCfg | packedType | fuel
  deriving DecidableEq, Repr

/-- `Field.Value` of a field that has no sub-fields. A packed field keeps its
element wire type (`[]uint32` for 5, `[]uint64` for 0 and 1). -/
inductive Leaf where
  | varint (v : Nat)
  | fixed64 (v : Nat)
  | fixed32 (v : Nat)
  | bytes (bs : Bytes)
  | packed (et : Nat) (vs : List Nat)
  deriving DecidableEq, Repr

/-- a `[]Field`: `leaf` = scalar / bytes / packed field, `sub` = a field whose value is
itself a `[]Field` (`grp = false`: length-delimited message, wire type 2;
`grp = true`: group, wire type 3), each followed by the remaining fields. -/
inductive FT where
  | nil
  | leaf (num : Nat) (v : Leaf) (rest : FT)
  | sub (num : Nat) (grp : Bool) (kids : FT) (rest : FT)
  deriving DecidableEq, Repr

/-- what `consumeFieldValue` stores into `field.Value` -/
inductive V where
  | leaf (v : Leaf)
  | sub (grp : Bool) (kids : FT)

def FT.cons (num : Nat) : V → FT → FT
  | .leaf v, rest => .leaf num v rest
  | .sub g kids, rest => .sub num g kids rest

/-- `ParseOptions` (maps with value `true` as key lists) -/
structure Opts where
  msg : List Nat := []
  packed : List Nat := []
  elemType : List (Nat × Nat) := []
  maxDepth : Int := 0

/-- `if opts.MaxDepth <= 0 { opts.MaxDepth = 64 }` -/
def Opts.max (o : Opts) : Nat := if o.maxDepth ≤ 0 then 64 else o.maxDepth.toNat

/-! ## packed payloads -/

def unpackVarints : Nat → Bytes → Except Err (List Nat)
  | 0, _ => .error .fuel
  | _ + 1, [] => .ok []
  | fuel + 1, b :: tl =>
      match consumeVarint (b :: tl) with
      | none => .error .varint
      | some (v, rest) =>
          match unpackVarints fuel rest with
          | .ok vs => .ok (v :: vs)
          | .error e => .error e

def unpackFixed32 : Nat → Bytes → Except Err (List Nat)
  | 0, _ => .error .fuel
  | _ + 1, [] => .ok []
  | fuel + 1, b :: tl =>
      match consumeFixed32 (b :: tl) with
      | none => .error .fixed32
      | some (v, rest) =>
          match unpackFixed32 fuel rest with
          | .ok vs => .ok (v :: vs)
          | .error e => .error e

def unpackFixed64 : Nat → Bytes → Except Err (List Nat)
  | 0, _ => .error .fuel
  | _ + 1, [] => .ok []
  | fuel + 1, b :: tl =>
      match consumeFixed64 (b :: tl) with
      | none => .error .fixed64
      | some (v, rest) =>
          match unpackFixed64 fuel rest with
          | .ok vs => .ok (v :: vs)
          | .error e => .error e

/-- `unpackPacked(data, elemWireType)` -/
def unpackPacked (et : Nat) (data : Bytes) : Except Err (List Nat) :=
  if et = 0 then unpackVarints (data.length + 1) data
  else if et = 5 then unpackFixed32 (data.length + 1) data
  else if et = 1 then unpackFixed64 (data.length + 1) data
  else .error .packedType

/-! ## the parser -/

def okV (r : Option (Nat × Bytes)) (e : Err) (mk : Nat → Leaf) : Except Err (V × Bytes) :=
  match r with
  | none => .error e
  | some (v, rest) => .ok (.leaf (mk v), rest)

def subOf (g : Bool) (rest : Bytes) : Except Err FT → Except Err (V × Bytes)
  | .ok kids => .ok (.sub g kids, rest)
  | .error e => .error e

def subOfG : Except Err (FT × Bytes) → Except Err (V × Bytes)
  | .ok (kids, rest) => .ok (.sub true kids, rest)
  | .error e => .error e

def packedOf (et : Nat) (rest : Bytes) : Except Err (List Nat) → Except Err (V × Bytes)
  | .ok vs => .ok (.leaf (.packed et vs), rest)
  | .error e => .error e

/-- `consumeFieldValue(data, field, opts, depth)`; `recF` is `parseFields` without its
entry check, `recG` is `consumeGroup` without its entry check (the checks are
made here, at the call sites). -/
def valueWith (o : Opts) (recF : Bytes → Nat → Except Err FT)
    (recG : Bytes → Nat → Nat → Except Err (FT × Bytes))
    (num wt : Nat) (data : Bytes) (depth : Nat) : Except Err (V × Bytes) :=
  if wt = 0 then okV (consumeVarint data) .varint .varint
  else if wt = 1 then okV (consumeFixed64 data) .fixed64 .fixed64
  else if wt = 2 then
    match consumeBytes data with
    | none => .error .length
    | some (payload, rest) =>
        if o.packed.contains num then
          match o.elemType.lookup num with
          | none => .error .packedCfg
          | some et => packedOf et rest (unpackPacked et payload)
        else if o.msg.contains num then
          if depth + 1 ≥ o.max then .error .maxDepth
          else subOf false rest (recF payload (depth + 1))
        else .ok (.leaf (.bytes payload), rest)
  else if wt = 3 then
    if depth ≥ o.max then .error .maxDepth
    else subOfG (recG data num depth)
  else if wt = 4 then .error .endGroup
  else if wt = 5 then okV (consumeFixed32 data) .fixed32 .fixed32
  else .error .wireType

def consF (num : Nat) (v : V) : Except Err FT → Except Err FT
  | .ok fs => .ok (FT.cons num v fs)
  | .error e => .error e

def consG (num : Nat) (v : V) : Except Err (FT × Bytes) → Except Err (FT × Bytes)
  | .ok (fs, rest) => .ok (FT.cons num v fs, rest)
  | .error e => .error e

mutual
/-- the field loop of `parseFields(data, opts, depth)` -/
def loopF (o : Opts) : Nat → Bytes → Nat → Except Err FT
  | 0, _, _ => .error .fuel
  | _ + 1, [], _ => .ok .nil
  | fuel + 1, b :: tl, depth =>
      match consumeTag (b :: tl) with
      | none => .error .tag
      | some (num, wt, data1) =>
          if wt = 4 then .error .endGroup
          else
            match valueWith o (loopF o fuel) (loopG o fuel) num wt data1 depth with
            | .error e => .error e
            | .ok (v, rest) => consF num v (loopF o fuel rest depth)
/-- the field loop of `consumeGroup(data, groupNum, opts, depth)` -/
def loopG (o : Opts) : Nat → Bytes → Nat → Nat → Except Err (FT × Bytes)
  | 0, _, _, _ => .error .fuel
  | _ + 1, [], _, _ => .error .unexpectedEnd
  | fuel + 1, b :: tl, gnum, depth =>
      match consumeTag (b :: tl) with
      | none => .error .tag
      | some (num, wt, data1) =>
          if wt = 4 then
            if num ≠ gnum then .error .mismatch else .ok (.nil, data1)
          else
            match valueWith o (loopF o fuel) (loopG o fuel) num wt data1 (depth + 1) with
            | .error e => .error e
            | .ok (v, rest) => consG num v (loopG o fuel rest gnum depth)
end

/-- `ParseRawFields(data, opts)` -/
def parse (o : Opts) (data : Bytes) : Except Err FT :=
  if 0 ≥ o.max then .error .maxDepth else loopF o (data.length + 1) data 0

end Model.Wire
