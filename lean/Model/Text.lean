/-
C15 — text primitives.

Go strings are byte sequences; a script string literal is valid UTF-8.  The
string methods of `data/value_string_*.go` measure and cut **bytes**
(`len(s)`, `s[a:b]`, the offset returned by `strings.Index`), so the model
keeps a receiver as its code points (`List Char`) and derives the byte view
with `utf8`.

`strings.ReplaceAll`, `strings.Split`, `strings.Fields`, `strings.TrimSpace`,
`strings.HasPrefix/HasSuffix`, `strings.ToUpper/ToLower` are Go standard
library: they are *modelled, not verified* — written here from their
documentation at the code-point level (on valid UTF-8 a byte-level match of
valid UTF-8 needles starts at a code-point boundary) and exercised against the
real calls by the correspondence run on ASCII and multi-byte text.
-/
namespace Model.Text

/-- UTF-8 encoding of one code point, bytes as naturals -/
def encodeChar (c : Char) : List Nat :=
  let v := c.toNat
  if v < 0x80 then [v]
  else if v < 0x800 then [0xC0 + v / 64, 0x80 + v % 64]
  else if v < 0x10000 then [0xE0 + v / 4096, 0x80 + (v / 64) % 64, 0x80 + v % 64]
  else [0xF0 + v / 262144, 0x80 + (v / 4096) % 64, 0x80 + (v / 64) % 64, 0x80 + v % 64]

/-- the bytes of a text -/
def utf8 (s : List Char) : List Nat := s.flatMap encodeChar

/-- `strings.Index`: offset of the first occurrence of `pat` at or after
position `i` of the original text (`hay` is what remains), empty `pat` matches at once -/
def indexFrom {α : Type} [BEq α] (pat : List α) : List α → Nat → Option Nat
  | [], i => if pat.isEmpty then some i else none
  | c :: t, i => if pat.isPrefixOf (c :: t) then some i else indexFrom pat t (i + 1)

/-- `strings.ReplaceAll` for a non-empty `old`: left to right, non-overlapping;
`skip` = characters of the current match still to be dropped -/
def replaceGo (old new : List Char) : Nat → List Char → List Char
  | _, [] => []
  | skip + 1, _ :: t => replaceGo old new skip t
  | 0, c :: t =>
    if old.isPrefixOf (c :: t) then new ++ replaceGo old new (old.length - 1) t
    else c :: replaceGo old new 0 t

/-- `strings.ReplaceAll(s, old, new)`; an empty `old` matches before every
code point and at the end -/
def replaceAll (s old new : List Char) : List Char :=
  if old.isEmpty then new ++ s.flatMap (fun c => c :: new) else replaceGo old new 0 s

/-- `strings.Split` for a non-empty separator; `cur` = current part, reversed -/
def splitGo (sep : List Char) : Nat → List Char → List Char → List (List Char)
  | _, cur, [] => [cur.reverse]
  | skip + 1, cur, _ :: t => splitGo sep skip cur t
  | 0, cur, c :: t =>
    if sep.isPrefixOf (c :: t) then cur.reverse :: splitGo sep (sep.length - 1) [] t
    else splitGo sep 0 (c :: cur) t

/-- `strings.Split(s, sep)`; an empty separator explodes into code points -/
def split (s sep : List Char) : List (List Char) :=
  if sep.isEmpty then s.map (fun c => [c]) else splitGo sep 0 [] s

/-- `unicode.IsSpace` (the White_Space property) -/
def isSpace (c : Char) : Bool :=
  let v := c.toNat
  (9 ≤ v && v ≤ 13) || v == 0x20 || v == 0x85 || v == 0xA0 || v == 0x1680 ||
  (0x2000 ≤ v && v ≤ 0x200A) || v == 0x2028 || v == 0x2029 || v == 0x202F || v == 0x205F || v == 0x3000

/-- `strings.Fields`: maximal runs of non-space characters; `cur` reversed -/
def fieldsGo : List Char → List Char → List (List Char)
  | cur, [] => if cur.isEmpty then [] else [cur.reverse]
  | cur, c :: t =>
    if isSpace c then (if cur.isEmpty then fieldsGo [] t else cur.reverse :: fieldsGo [] t)
    else fieldsGo (c :: cur) t

def fields (s : List Char) : List (List Char) := fieldsGo [] s

/-- `strings.TrimSpace` -/
def trimSpace (s : List Char) : List Char :=
  ((s.dropWhile isSpace).reverse.dropWhile isSpace).reverse

/-- `strings.ToUpper` / `ToLower` restricted to what is modelled: the ASCII
letters.  Non-ASCII cased letters go through Go's `unicode` tables, which are
not modelled (the correspondence run compares them against Go's own tables,
outside the model). -/
def upper (s : List Char) : List Char := s.map Char.toUpper
def lower (s : List Char) : List Char := s.map Char.toLower

end Model.Text
