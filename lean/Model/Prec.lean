/-
C04 — table-driven model of origami's expression parser
(`parser/expression_parser.go`: parseAssignment → parseTernary → parseNullCoalesce →
parseConcatenation → parseLogicalOr → … → parseFactor → parseUnary → parsePower → parsePrimary).

The table (levels, loosest first; each with a shape, its operator tokens and, for the
ternary, the separator) is regenerated from the source by `extract/c04`
(`Generated.C04Precedence`). Shapes:

* `binL`   `x := next(); for cur ∈ ops { r := next(); x = bin(op, x, r) }`
* `binR`   `x := next(); if cur ∈ ops { r := self(); x = bin(op, x, r) }`     (`**`, assignment)
* `prefix` `if cur ∈ ops { e := self(); return un(op, e) }; x := next();`
           then the assignment re-entry of `parseUnary`:
           `for cur ∈ ops(reenter level) { r := parseAssignment(); x = bin(op, x, r) }`
* `tern`   `c := next(); if cur = ? { t := self(); expect ':'; f := self(); return tern(c,t,f) }`

`primary` = atom | `(` expression `)`.
-/
namespace Model.Prec

inductive Shape | binL | binR | prefix | tern
deriving DecidableEq, Repr

structure Level where
  shape : Shape
  ops : List Nat
  sep : Nat := 0
deriving Repr, DecidableEq

structure Table where
  levels : List Level          -- loosest first
  reenter : Option Nat := none -- level whose operators are also accepted inside the prefix level
deriving Repr

inductive Tok | atom (n : Nat) | op (o : Nat) | lp | rp
deriving DecidableEq, Repr

inductive Expr
  | atom (n : Nat)
  | bin (o : Nat) (l r : Expr)
  | un (o : Nat) (e : Expr)
  | tern (q : Nat) (c t f : Expr)
deriving DecidableEq, Repr

inductive Res | ok (e : Expr) (rest : List Tok) | fail | oof
deriving DecidableEq, Repr

@[inline] def Res.bind (r : Res) (k : Expr → List Tok → Res) : Res :=
  match r with
  | .ok e rest => k e rest
  | .fail => .fail
  | .oof => .oof

def levelAt (T : Table) (k : Nat) : Option Level := T.levels[k]?

/-- the next token is one of `ops` -/
def headOp (ops : List Nat) : List Tok → Option (Nat × List Tok)
  | .op o :: rest => if o ∈ ops then some (o, rest) else none
  | _ => none

/-- operators that trigger the assignment re-entry inside `parseUnary` -/
def reenterOps (T : Table) : List Nat :=
  match T.reenter with
  | some a => ((levelAt T a).map (·.ops)).getD []
  | none => []

def reenterLevel (T : Table) : Nat := T.reenter.getD 0

def expectRp (e : Expr) : List Tok → Res
  | .rp :: rest => .ok e rest
  | _ => .fail

def primary (rec0 : List Tok → Res) : List Tok → Res
  | .atom n :: rest => .ok (.atom n) rest
  | .lp :: rest => (rec0 rest).bind expectRp
  | _ => .fail

/-- continuation of the ternary after the true branch: expect the separator, parse the false branch -/
def ternRest (sep : Nat) (recK : List Tok → Res) (q : Nat) (c t : Expr) : List Tok → Res
  | .op s :: rest => if s = sep then (recK rest).bind fun f rest' => .ok (.tern q c t f) rest' else .fail
  | _ => .fail

mutual
def parse (T : Table) : Nat → Nat → List Tok → Res
  | 0, _, _ => .oof
  | f+1, k, ts =>
    match levelAt T k with
    | none => primary (fun ts' => parse T f 0 ts') ts
    | some L =>
      match L.shape with
      | .binL => (parse T f (k+1) ts).bind fun l rest => loopL T f k L.ops l rest
      | .binR => (parse T f (k+1) ts).bind fun l rest =>
          match headOp L.ops rest with
          | some (o, rest') => (parse T f k rest').bind fun r rest'' => .ok (.bin o l r) rest''
          | none => .ok l rest
      | .prefix =>
          match headOp L.ops ts with
          | some (o, rest) => (parse T f k rest).bind fun e rest' => .ok (.un o e) rest'
          | none => (parse T f (k+1) ts).bind fun e rest =>
              match headOp (reenterOps T) rest with
              | some (o, rest') => (parse T f (reenterLevel T) rest').bind fun r rest'' => .ok (.bin o e r) rest''
              | none => .ok e rest
      | .tern => (parse T f (k+1) ts).bind fun c rest =>
          match headOp L.ops rest with
          | some (q, rest') => (parse T f k rest').bind fun t rest2 =>
              ternRest L.sep (fun ts' => parse T f k ts') q c t rest2
          | none => .ok c rest
def loopL (T : Table) : Nat → Nat → List Nat → Expr → List Tok → Res
  | 0, _, _, _, _ => .oof
  | f+1, k, ops, l, ts =>
    match headOp ops ts with
    | some (o, rest) => (parse T f (k+1) rest).bind fun r rest' => loopL T f k ops (.bin o l r) rest'
    | none => .ok l ts
end

/-! ### printing -/

def shapeAt (T : Table) (k : Nat) : Option Shape := (levelAt T k).map (·.shape)
def opsAt (T : Table) (k : Nat) : List Nat := ((levelAt T k).map (·.ops)).getD []
def sepAt (T : Table) (k : Nat) : Nat := ((levelAt T k).map (·.sep)).getD 0

/-- level of a continuation operator (binary or `?`): first non-prefix level listing it -/
def levelOfC (T : Table) (o : Nat) : Nat :=
  T.levels.findIdx (fun L => L.shape != .prefix && L.ops.contains o)

/-- level of a prefix operator -/
def levelOfP (T : Table) (o : Nat) : Nat :=
  T.levels.findIdx (fun L => L.shape == .prefix && L.ops.contains o)

def lvl (T : Table) : Expr → Nat
  | .atom _ => T.levels.length
  | .bin o _ _ => levelOfC T o
  | .un o _ => levelOfP T o
  | .tern q _ _ _ => levelOfC T q

def paren (b : Bool) (ts : List Tok) : List Tok := if b then [.lp] ++ ts ++ [.rp] else ts

/-- print `e` for a context that accepts level `k` and tighter; `X e = true` adds
    redundant parentheses around `e` (so `X = fun _ => false` is minimal printing and
    `X = fun e => e is not an atom` is full parenthesisation) -/
def pr (T : Table) (X : Expr → Bool) : Nat → Expr → List Tok
  | _, .atom n => [.atom n]
  | k, .bin o l r =>
    let j := levelOfC T o
    let b := match shapeAt T j with
      | some .binL => pr T X j l ++ [.op o] ++ pr T X (j+1) r
      | _ => pr T X (j+1) l ++ [.op o] ++ pr T X j r
    paren (decide (j < k) || X (.bin o l r)) b
  | k, .un o e =>
    let j := levelOfP T o
    paren (decide (j < k) || X (.un o e)) ([.op o] ++ pr T X j e)
  | k, .tern q c t f =>
    let j := levelOfC T q
    paren (decide (j < k) || X (.tern q c t f))
      (pr T X (j+1) c ++ [.op q] ++ pr T X j t ++ [.op (sepAt T j)] ++ pr T X j f)

def isAtom : Expr → Bool
  | .atom _ => true
  | _ => false

def printMin (T : Table) (e : Expr) : List Tok := pr T (fun _ => false) 0 e
def printFull (T : Table) (e : Expr) : List Tok := pr T (fun e => !isAtom e) 0 e

def size : Expr → Nat
  | .atom _ => 1
  | .bin _ l r => size l + size r + 1
  | .un _ e => size e + 1
  | .tern _ c t f => size c + size t + size f + 1

end Model.Prec
