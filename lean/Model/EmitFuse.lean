/-!
# Model.EmitFuse — special handlers that write ANOTHER node than the parser built

A special handler of cmd/compile may substitute the node it is handed: a constructor that re-derives
it (`NewCallTodo`), a fused fast-path node, an algebraic rewrite. The substitution is
behaviour-preserving only if the two nodes agree on the WHOLE operand domain, not just on the
integers a fast path was written for.

Two parts:

* `HandlerOut` — the regenerated description of what every special handler writes
  (`Generated.C16CompileNodes.handlerOuts`): the node / data constructors and literal types named in
  the format strings of its body, and the node / data values it BUILDS at generation time (a handler
  that calls `g.Emit(node.NewBinaryLe(…))` builds a node the parser did not build). `writesOwn` says
  when the first thing written is the handler's own type (`&node.T{` or `node.NewT…(`).
* a value-level model of the fused comparison: `VarIntLe{VarIdx, Lit, Le}` (node/fused_assign.go) takes
  its integer path when the slot holds an `*IntValue` and evaluates the embedded `BinaryLe` otherwise;
  `BinaryLe` / `BinaryLt` (node/binary_le.go, binary_lt.go) test `data.LooseCompare` for `-1 or 0` /
  `-1`. `LooseCompare` (data/value_compare.go) against an integer right operand is modelled for ints,
  floats that are a multiple of one half (enough to sit strictly between two integers), bools, null
  and values without order (arrays, objects); for the generic theorems it is a parameter.
-/
namespace Model.EmitFuse

/-- what one special handler writes (regenerated) -/
structure HandlerOut where
  ty : String
  fn : String
  heads : List String     -- constructors / literal types named in the handler's format strings, source order
  builds : List String    -- node / data values built at generation time by the handler and its helpers
  deriving DecidableEq, Repr

/-- the handler's first written head is its own type: `&node.T{…}` or a constructor `node.NewT…(` -/
def writesOwn (o : HandlerOut) : Bool :=
  match o.heads with
  | [] => false
  | h :: _ =>
    h == o.ty ||
      (match o.ty.toList with
       | 'n' :: 'o' :: 'd' :: 'e' :: '.' :: rest => ("node.New".toList ++ rest).isPrefixOf h.toList
       | _ => false)

/-- a substitution on record: (type, function, first head written) -/
abbrev Subst := String × String × String

def firstHead (o : HandlerOut) : String :=
  match o.heads with
  | [] => ""
  | h :: _ => h

/-- every handler builds nothing at generation time and writes its own type, or is a substitution
on record -/
def handlersKnown (known : List Subst) (outs : List HandlerOut) : Bool :=
  outs.all fun o => o.builds.isEmpty && (writesOwn o || known.contains (o.ty, o.fn, firstHead o))

/-! ## the fused comparison at value level -/

/-- result of `data.LooseCompare` -/
inductive Cmp where
  | lt | eq | gt | unordered
  deriving DecidableEq, Repr

/-- operand values: an int, a float `twice / 2`, a bool, null, a value that has no order with an
int (array, object) -/
inductive V where
  | int (i : Int)
  | half (twice : Int)
  | bool (b : Bool)
  | null
  | noOrder
  deriving DecidableEq, Repr

def cmpInt (a b : Int) : Cmp := if a < b then .lt else if a = b then .eq else .gt

/-- `LooseCompare(v, IntValue n)` for a non-int `v`, as a parameter of the generic statements -/
abbrev LooseNonInt := V → Int → Cmp

/-- `LooseCompare(v, IntValue n)`: two ints are compared exactly (`cmp.Compare`), everything else is
`loose` -/
def looseCmp (loose : LooseNonInt) (v : V) (n : Int) : Cmp :=
  match v with
  | .int i => cmpInt i n
  | v => loose v n

/-- `BinaryLt.GetValue`: `LooseCompare(l, r) == -1` -/
def evalLt (loose : LooseNonInt) (v : V) (n : Int) : Bool := looseCmp loose v n == .lt

/-- `BinaryLe.GetValue`: `c == -1 || c == 0` -/
def evalLe (loose : LooseNonInt) (v : V) (n : Int) : Bool :=
  looseCmp loose v n == .lt || looseCmp loose v n == .eq

/-- `VarIntLe.testBool`: the slot holds an `*IntValue` → `iv.Value <= f.Lit`; else the embedded
`BinaryLe` -/
def evalVarIntLe (loose : LooseNonInt) (v : V) (lit : Int) : Bool :=
  match v with
  | .int i => decide (i ≤ lit)
  | v => evalLe loose v lit

/-- what the compiled program evaluates for `$v < n` after the rewrite `$v < N` → `$v <= N-1`
(`NewBinaryLe(from, $v, N-1)` = `VarIntLe{Lit: N-1, Le: BinaryLe{$v, N-1}}`) -/
def evalLtRewritten (loose : LooseNonInt) (v : V) (n : Int) : Bool := evalVarIntLe loose v (n - 1)

/-- `looseBool` of the left operand (`AsBool`) -/
def truthy : V → Bool
  | .int i => i != 0
  | .half t => t != 0
  | .bool b => b
  | .null => false
  | .noOrder => true

/-- the concrete `LooseCompare(v, IntValue n)` of data/value_compare.go for the modelled kinds: a
float compares numerically (`compareFloat(l, float64(n))`), null / bool compare as booleans
(`!b1 && b2 → -1`, `b1 && !b2 → 1`, else 0), an array or object has no order with an int -/
def looseReal : LooseNonInt := fun v n =>
  match v with
  | .int i => cmpInt i n
  | .half t => cmpInt t (2 * n)
  | .bool b => if !b && n != 0 then .lt else if b && n == 0 then .gt else .eq
  | .null => if n != 0 then .lt else .eq
  | .noOrder => .unordered

end Model.EmitFuse
