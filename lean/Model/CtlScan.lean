import Model.Ctl
/-!
# C02 — pre-scans of a function body

`NewFunctionStatement` decides some things once, from a scan of the body: `IsGenerator := containsYield body`
(a seeded change added `hasStatic := containsStatic body` and bound the static store only under it). A scan is a
recursive walk that opens the statement-list fields of the node types it knows. This file says what such a walk
computes (`scanBlk opened`), what it should compute (`hasBlk`: every field opened), and what the flag means for
`FunctionStatement.Call` when it guards the binding of the static store (`bindStaticsIf`).

A statement, as a scan sees it: the construct looked for, a statement without statement lists, or a node with
named statement-list fields (`"IfStatement.ThenBranch"`, `"SwitchCase.Statements"`, … — the names the translator
writes to `Generated.C02.stmtContainers`). Explicit mutual list types (structural recursion).
-/
namespace Model.CtlScan
open Spec.Ctl (Val FName aget aset)
open Model.Ctl

/-- a body scan found in node/ (regenerated): the `Type.Field` selectors it reads -/
structure ScanFn where
  name : String
  opened : List String
deriving Repr, DecidableEq

mutual
inductive St where
  | hit
  | other
  | node (parts : Parts)
inductive Parts where
  | nil
  | cons (field : String) (body : Blk) (rest : Parts)
inductive Blk where
  | nil
  | cons (s : St) (rest : Blk)
end

mutual
/-- the walk of a scan that opens the fields in `o` only -/
def scanSt (o : List String) : St → Bool
  | .hit => true
  | .other => false
  | .node ps => scanParts o ps
def scanParts (o : List String) : Parts → Bool
  | .nil => false
  | .cons f b rest => (decide (f ∈ o) && scanBlk o b) || scanParts o rest
def scanBlk (o : List String) : Blk → Bool
  | .nil => false
  | .cons s rest => scanSt o s || scanBlk o rest
end

mutual
/-- does the body hold the construct (nested functions are no `node`: a scan stops there) -/
def hasSt : St → Bool
  | .hit => true
  | .other => false
  | .node ps => hasParts ps
def hasParts : Parts → Bool
  | .nil => false
  | .cons _ b rest => hasBlk b || hasParts rest
def hasBlk : Blk → Bool
  | .nil => false
  | .cons s rest => hasSt s || hasBlk rest
end

mutual
/-- the statement-list fields that occur in a body -/
def fieldsSt : St → List String
  | .hit => []
  | .other => []
  | .node ps => fieldsParts ps
def fieldsParts : Parts → List String
  | .nil => []
  | .cons f b rest => f :: (fieldsBlk b ++ fieldsParts rest)
def fieldsBlk : Blk → List String
  | .nil => []
  | .cons s rest => fieldsSt s ++ fieldsBlk rest
end

/-- `StaticVarStatement.GetValue` when the Context has no store bound (`staticLocalsFromCtx(ctx) == nil`): the
initialiser is assigned to the call's own slot — a fresh local. (`List.set` leaves an out-of-range index alone;
the real code throws there. No theorem below depends on that case.) -/
def localStatic (s : MSt) (i : Nat) (init : Val) : MSt :=
  { s with fr := { s.fr with slots := s.fr.slots.set i init } }

def localStatics : List (Nat × Val) → MSt → MSt
  | [], s => s
  | (i, v) :: rest, s => localStatics rest (localStatic s i v)

/-- `FunctionStatement.Call` binding the store only under a flag computed when the node was built -/
def bindStaticsIf (flag : Bool) (g : FName) (statics : List (Nat × Val)) (s : MSt) : MSt :=
  if flag then bindStatics g statics s else localStatics statics s

/-- statement lists of nodes that cannot occur inside a function body, or that are no syntax at all
(`FuncYieldStackState` is the run-time state of a generator; html nodes and namespaces / the program are file level) -/
def notInFunctionBody : List String :=
  ["FuncYieldStackState.Body", "HtmlDocTypeNode.Children", "HtmlNode.Children", "Namespace.Statements", "Program.Statements"]

/-- (scan, container) pairs the pinned tree is known not to open (known findings `ctl:placement:yield{…}`: a
`yield` there does not make the function a generator; no syntax was found that puts a yield directly into a
`BlockStatement`, which the parser builds for `static $a, $b;`) -/
def knownUnopened : List (String × String) :=
  let y := "containsYield+isYieldNode"
  [(y, "BlockStatement.Statements"), (y, "CatchBlock.Body"), (y, "MatchArm.Statements"), (y, "MatchStatement.Default"),
   (y, "SwitchCase.Statements"), (y, "SwitchStatement.DefaultCase"), (y, "TryStatement.FinallyBlock"), (y, "TryStatement.TryBlock")]

/-- the containers a given scan has to open -/
def mustOpen (containers : List String) (name : String) : List String :=
  containers.filter fun c => !(notInFunctionBody.contains c) && !(knownUnopened.contains (name, c))

def scanFnOK (containers : List String) (s : ScanFn) : Bool :=
  (mustOpen containers s.name).all fun c => s.opened.contains c

end Model.CtlScan
