import Model.ReqFacts
/-!
# Model.ReqSite — values a request creates by evaluating a syntax node (C11)

The AST of a handler is shared by all in-flight requests: `Handler.ServeHTTP` gives every
request a fresh variable context, but the closure literal `function (…) {…}` inside the handler
(or inside a method the handler calls) is one `*LambdaExpression` for the whole process.

What the Go code does (node/lambda.go): `LambdaExpression.GetValue(ctx)` returns
`NewFuncValue(&LambdaExpression{…, ctx: ctx})` — a **fresh** object per evaluation that carries
the defining context (`$this`, the variables named in `use`); `Call` runs the body against that
context.  The closure value is stored in a local of the request.

The model: a request is a list of `Step`s — evaluate the closure literal at syntax node `site`
into a local, call the closure held in a local (which *observes* the environment it runs
with), gate, write.  Where the environment of the closure made at a site lives is the parameter
`World.scope`: `perEvaluation` = in the fresh object (what the pinned tree does), `inNode` = in a
field of the syntax node itself (`f.ctx = ctx; return NewFuncValue(f)`), one cell per site for
the whole process.  The same shape covers every value made per evaluation: generators
(`FuncYieldStackState`), objects, bound closures.  Which scope the analysed tree has is decided
by the regenerated facts (`Facts.nodeWriteViolations`).
-/
namespace Model.ReqSite
open Model.Req (Rid Facts)

abbrev Site := Nat
abbrev Val := Nat

inductive SiteScope | perEvaluation | inNode
  deriving DecidableEq, Repr

/-- a closure value held in a local -/
inductive Clo
  | own (env : Val)     -- a fresh object carrying the environment of the evaluation that made it
  | node (s : Site)     -- the syntax node itself; its environment is whatever the node's field holds
  deriving DecidableEq, Repr

inductive Step
  | mk (site : Site) (slot : Nat)   -- `$l_slot = function (…) {…};` evaluated in the request's own environment
  | call (slot : Nat)               -- `$t[] = $l_slot(…)`: observes the environment the closure runs with
  | gate
  | write
  deriving DecidableEq, Repr

abbrev Obs := Option Val

structure ReqSt where
  pc      : List Step := []
  locals  : List (Nat × Clo) := []
  pending : List Obs := []
  body    : List Obs := []
  deriving DecidableEq, Repr

/-- the environment field of every closure-literal node -/
abbrev Fields := Site → Option Val

structure World where
  scope : Site → SiteScope
  prog  : Rid → List Step
  env   : Rid → Val          -- the request's own environment (`$this`, captured variables): its datum

/-- the effect of one step (already taken off the program counter) on the request's own state
and the node fields -/
def exec (scope : Site → SiteScope) (d : Val) (q : ReqSt) (f : Fields) : Step → ReqSt × Fields
  | .mk s slot =>
    match scope s with
    | .perEvaluation => ({ q with locals := (slot, .own d) :: q.locals }, f)
    | .inNode => ({ q with locals := (slot, .node s) :: q.locals }, fun s' => if s' = s then some d else f s')
  | .call slot =>
    match q.locals.lookup slot with
    | some (.own e) => ({ q with pending := q.pending ++ [some e] }, f)
    | some (.node s) => ({ q with pending := q.pending ++ [f s] }, f)
    | none => ({ q with pending := q.pending ++ [none] }, f)
  | .gate => (q, f)
  | .write => ({ q with body := q.body ++ q.pending, pending := [] }, f)

/-- one step of a request on its own state and the node fields -/
def localStep (scope : Site → SiteScope) (d : Val) (q : ReqSt) (f : Fields) : ReqSt × Fields :=
  match q.pc with
  | [] => (q, f)
  | st :: rest => exec scope d { q with pc := rest } f st

structure State where
  req    : Rid → ReqSt
  fields : Fields

def stepReq (w : World) (s : State) (r : Rid) : State :=
  let res := localStep w.scope (w.env r) (s.req r) s.fields
  { req := fun r' => if r' = r then res.1 else s.req r', fields := res.2 }

def init (w : World) : State := { req := fun r => { pc := w.prog r }, fields := fun _ => none }

def run (w : World) (s : State) (sched : List Rid) : State := sched.foldl (stepReq w) s

def response (s : State) (r : Rid) : List Obs := (s.req r).body

def solo (w : World) (r : Rid) : State := run w (init w) (List.replicate (w.prog r).length r)

def soloResponse (w : World) (r : Rid) : List Obs := response (solo w r) r

/-- the scope the regenerated facts give every site: per evaluation iff no evaluation-time
method of a syntax node stores into its receiver outside the listed definition memos
(an unlisted store: assume the worst for every site) -/
def scopeOf (f : Facts) : Site → SiteScope :=
  fun _ => if f.nodeWriteViolations.isEmpty then .perEvaluation else .inNode

end Model.ReqSite
