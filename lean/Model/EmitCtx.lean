import Model.Emit
/-!
# Model.EmitCtx — per-FILE state of the generator versus per-NODE state of the AST

`Generator.Generate` (cmd/compile/gen.go) translates one file at a time and keeps per-file values:
`g.file = pf.Path`, `g.namespace = pf.Namespace`, where `pf.Namespace` is the parser's namespace
AFTER the whole file was parsed (`clone.GetNamespace()` in parseFiles) — the LAST `namespace`
section of the file. Some AST nodes carry the same kind of value per NODE: `CallLater.namespace`,
`CallStaticMethodLater.namespace`, `CallStaticPropertyLater.namespace` hold the namespace in force
WHERE the call was written. An emitter that prints the generator's value where the node has its
own produces the same text for every file whose nodes all agree with the file-level value (zero or
one `namespace` line: every file of the repository's tests) and another program otherwise.

Three parts:

* `CtxRead` — the regenerated description of every use a registered handler (with the helpers it
  calls) makes of a `Generator` field, and the decidable obligations on it (`emitsKnown`,
  `noShadowing`);
* a tree model of the substitution: `mapAttr f` rewrites the attribute every *site* of a tree
  carries; the faithful emitter is `mapAttr id`, the emitter that takes the value from the
  generator is `mapAttr (fun _ => c)`; a *file* is a list of sections whose sites the parser labels
  with the section's name, `c` is the name of the last section;
* the run-time meaning of the attribute: `resolve`, the lookup of `CallLater.GetValue`
  (node/call.go) — the name as written, then `namespace\name` — over an arbitrary function table.
-/
namespace Model.EmitCtx
open Model.Emit

/-! ## regenerated facts -/

/-- one use of a `Generator` field in the closure of a registered handler -/
structure CtxRead where
  fn : String      -- the registered handler
  ty : String      -- the type it is registered for
  field : String   -- the field of `Generator`
  use : String     -- emit | diag | write | pass:<fn> | bind | other
  deriving DecidableEq, Repr

/-- the printer's own state: where the text goes, how far it is indented, which imports it needs -/
def printerState : List String := ["buf", "indent", "importAliases"]

/-- a per-file value that only reaches the message of a compile error -/
def diagOnly (r : CtxRead) : Bool := r.field == "file" && r.use == "diag"

/-- a use on record: (type, handler, field) printed into the generated text -/
abbrev KnownEmit := String × String × String

/-- every use of a generator field by a handler is printer state, a diagnostic, or a print of a
per-file value that is on record -/
def emitsKnown (known : List KnownEmit) (reads : List CtxRead) : Bool :=
  reads.all fun r =>
    printerState.contains r.field || diagOnly r || (r.use == "emit" && known.contains (r.ty, r.fn, r.field))

/-- the field names of a described struct -/
def fieldNames (tbl : Tables) (ty : String) : List String :=
  match findStruct tbl ty with
  | some d => d.fields.map (·.name)
  | none => []

/-- the handled type has a field of its own named like the generator's (`namespace` / `Namespace`) -/
def shadowed (tbl : Tables) (r : CtxRead) : Bool :=
  (fieldNames tbl r.ty).any fun f => f.toLower == r.field.toLower

/-- **No handler takes from the generator what its node carries itself**: a handler whose type has
a field named like a per-file field of the generator does not use the generator's -/
def noShadowing (tbl : Tables) (reads : List CtxRead) : Bool :=
  reads.all fun r => printerState.contains r.field || diagOnly r || !shadowed tbl r

/-- the per-file fields some handler prints (driver: the tie with the real Generator) -/
def emittedCtx (reads : List CtxRead) (ty : String) : List String :=
  ((reads.filter fun r => r.ty == ty && !printerState.contains r.field && !diagOnly r).map (·.field)).eraseDups

/-! ## the substitution on trees -/

/-- An AST as far as the attribute is concerned: a *site* carries a value of the attribute (the
namespace of an unresolved call) and has children; any other node only has children. Child chains
are `cons`/`nil` inside the same type (structural recursion). -/
inductive T (α : Type) where
  | site (attr : α) (kids : T α)
  | other (tag : String) (kids : T α)
  | nil
  | cons (head : T α) (tail : T α)
  deriving DecidableEq, Repr

/-- what is emitted when every site's attribute is written as `f attr` -/
def mapAttr {α : Type} (f : α → α) : T α → T α
  | .site a k => .site (f a) (mapAttr f k)
  | .other t k => .other t (mapAttr f k)
  | .nil => .nil
  | .cons h t => .cons (mapAttr f h) (mapAttr f t)

/-- the faithful emitter: every site keeps its own attribute -/
def emitFaithful {α : Type} (t : T α) : T α := mapAttr id t

/-- the emitter that takes the attribute from the generator: one constant for the whole file -/
def emitConst {α : Type} (c : α) (t : T α) : T α := mapAttr (fun _ => c) t

/-- the attributes of all sites, in source order -/
def attrs {α : Type} : T α → List α
  | .site a k => a :: attrs k
  | .other _ k => attrs k
  | .nil => []
  | .cons h t => attrs h ++ attrs t

/-- what the parser does with a section: every site written in it is labelled with the section's
name, whatever label the tree had -/
def label {α : Type} (name : α) (t : T α) : T α := mapAttr (fun _ => name) t

/-- a file: its `namespace` sections in source order, each a name and the statements written in it -/
structure Section (α : Type) where
  name : α
  body : T α

/-- the parsed file: the sections' bodies, labelled, as one chain of statements -/
def parseFile {α : Type} : List (Section α) → T α
  | [] => .nil
  | s :: rest => .cons (label s.name s.body) (parseFile rest)

/-- `ParsedFile.Namespace`: the name of the last section (`dflt` for a file without `namespace`) -/
def lastName {α : Type} (dflt : α) : List (Section α) → α
  | [] => dflt
  | [s] => s.name
  | _ :: rest => lastName dflt rest

/-- the number of sites of a tree -/
def sites {α : Type} (t : T α) : Nat := (attrs t).length

/-! ## what the attribute means at run time: `CallLater.GetValue` -/

/-- a qualified name as its segments: `A\Sub\f` = `["A", "Sub", "f"]` -/
abbrev Name := List String

/-- `CallLater.GetValue` (node/call.go): `GetFunc(FunName)`, else `GetFunc(namespace + "\\" + FunName)`
(the third lookup repeats the second for a non-empty namespace and the first for the empty one);
`none` = "function not found". `defined` is the VM's function table. -/
def resolve (defined : Name → Bool) (ns q : Name) : Option Name :=
  if defined q then some q
  else if defined (ns ++ q) then some (ns ++ q)
  else none

/-- a call site of a program: the namespace it was written in, the name as written -/
structure Call where
  ns : Name
  q : Name
  deriving DecidableEq, Repr

/-- the compiled program with the namespace `c` at every call site resolves every call as the
parser's tree does -/
def sameResolution (defined : Name → Bool) (c : Name) (calls : List Call) : Prop :=
  ∀ s ∈ calls, resolve defined c s.q = resolve defined s.ns s.q

end Model.EmitCtx
