/-
C20 — references held in package-level variables, and the error object a raise hands out.

`SharedRef`: shape of the facts `extract/c20/shared.go` regenerates (data only).

`ErrObj`: what `*data.ThrowValue` is while it unwinds — a position that is filled ONCE
(`fillThrowFrom`: `Error.From` is written only while it is still missing) and a list of frames that
every function / method / try boundary APPENDS to (`AddStackWithInfo`). A raise is the sequence of
such steps its unwinding performs (determined by the program alone); what the script can observe of
the error (`getFile` / `getLine` / `getTraceAsString`, the uncaught diagnostic) is the object after
them. Two allocation disciplines: a fresh object per raise (what `data.NewErrorThrow` at the raise
site gives), or one object for the whole process (a package-level "sentinel").
-/
namespace Model.Shared

/-- one package-level variable that holds a reference: the struct behind it, the field paths of that
struct that some statement of the linked packages assigns, and the number of places where the
variable is used as a value (returned, passed, stored) -/
structure SharedRef where
  pkg : String
  name : String
  referent : String
  mutableFields : List String
  escapes : Nat
deriving DecidableEq, Repr

/-- the error object: `P` positions, `F` frames -/
structure ErrObj (P F : Type) where
  pos : Option P
  frames : List F
deriving DecidableEq, Repr

/-- what a raise site constructs -/
def ErrObj.fresh {P F : Type} : ErrObj P F := ⟨none, []⟩

/-- one step of an unwinding -/
inductive Step (P F : Type)
  | fill (p : P)   -- a node that knows a position offers it (`fillThrowFrom`)
  | push (f : F)   -- a boundary records itself (`AddStackWithInfo`)
deriving DecidableEq, Repr

def Step.apply {P F : Type} : Step P F → ErrObj P F → ErrObj P F
  | .fill p, e => match e.pos with
      | none => { e with pos := some p }
      | some _ => e
  | .push f, e => { e with frames := e.frames ++ [f] }

/-- a raise: the steps of its unwinding, applied in order to the object the raise site handed out -/
def unwind {P F : Type} (r : List (Step P F)) (e : ErrObj P F) : ErrObj P F :=
  r.foldl (fun e s => s.apply e) e

/-- the first position offered during an unwinding -/
def firstFill {P F : Type} : List (Step P F) → Option P
  | [] => none
  | .fill p :: _ => some p
  | .push _ :: r => firstFill r

/-- the frames recorded during an unwinding, in order -/
def pushes {P F : Type} : List (Step P F) → List F
  | [] => []
  | .fill _ :: r => pushes r
  | .push f :: r => f :: pushes r

/-- how a raise site obtains the object it returns -/
inductive Alloc
  | perRaise   -- constructed at the raise
  | shared     -- one package-level object
deriving DecidableEq, Repr

/-- a process: the raises of all its programs, in execution order (program boundaries and VMs do not
matter to a package-level object). `st` is the state of the shared object. Returns the final state
and what each raise showed. -/
def runRaises {P F : Type} (a : Alloc) : ErrObj P F → List (List (Step P F)) → ErrObj P F × List (ErrObj P F)
  | st, [] => (st, [])
  | st, r :: rs =>
    match a with
    | .perRaise =>
      let o := unwind r ErrObj.fresh
      let (st', os) := runRaises a st rs
      (st', o :: os)
    | .shared =>
      let o := unwind r st
      let (st', os) := runRaises a o rs
      (st', o :: os)

/-- what the raises of program `b` show when the raises of the history `h` came first in the process -/
def shows {P F : Type} (a : Alloc) (h b : List (List (Step P F))) : List (ErrObj P F) :=
  ((runRaises a ErrObj.fresh (h ++ b)).2).drop h.length

end Model.Shared
