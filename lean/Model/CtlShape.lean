import Model.Ctl
/-!
# Model.CtlShape — what the regenerated facts about the control-flow nodes MEAN

`extract/c02` reads, on every run, the Go source of the loop / switch / call / if / static-local
nodes and writes `Generated/C02Shapes.lean`: pure data (tables of arms, phase lists, store
operations).  This file gives that data a meaning *inside Model.Ctl*: evaluators that are
parameterised by the facts (`loopBy`, `foreachBy`, `runBodiesBy`, `callResultBy`, `elifsBy`,
`initBy`) and run the same `evalM` / `execM` / `discardM` the hand-written node rules run.  The
property file proves, for EVERY table, `…OK facts → …By facts = the hand-written rule`
(`whileM`, `doM`, `forM`, `foreachM`, `runBodiesM`, `callResultM`, `elifsM`, `bindStatic`), and
discharges `…OK Generated.….facts` by `decide`.  So the node rules of Model.Ctl — the thing all
C02 theorems speak about — are what the source says *as long as the obligation holds*, and a
source change that invalidates a rule breaks the obligation that names it.

What the translator looks at (Go side):

* a *statement loop* is `for _, st := range <stmts> { v, c = st.GetValue(ctx); <dispatch> }`.
  For each class of control (`c == nil`, Break, Continue, Return, Throw) the dispatch code is
  executed symbolically (type assertions / type switches on `c`, `IsBreak()`, `IsContinue()`;
  Go's own `break` / `continue` / `goto` are bound to the construct they really leave) and
  the way it ends is the **arm** of that class.  A condition the translator cannot decide
  contributes both branches, so an arm is a *list* (one element when the code is decided).
* the statements of the enclosing `for { … }` are the **phases** of one iteration, in order.
-/
namespace Model.CtlShape
open Spec.Ctl (Val FName aget aset)
open Model.Ctl

/-! ## arms and phases -/

/-- how the dispatch code of a statement loop ends for one class of control -/
inductive Arm where
  /-- `return _, nil`: the construct is over and hands nothing on -/
  | leave
  /-- Go `break` out of the statement loop: what follows the body in the iteration still runs
  (`for`: the increments; `do-while`: the condition; `switch`: the next case body) -/
  | next
  /-- `continue <outer loop>` / `goto <end of iteration>`: the next iteration starts at once -/
  | restart
  /-- `return nil, c` (also through a wrapper that takes `c`) -/
  | propagate
  /-- nothing: the control is dropped and the next statement of the body runs -/
  | swallow
  /-- `return nil, NewErrorThrow(…)`: replaced by a fresh thrown error -/
  | throwNew
  /-- anything the translator does not understand -/
  | unknown
  deriving DecidableEq, Repr

/-- the top-level statements of the enclosing `for { … }` -/
inductive Phase where
  | cond | body | incr | other
  deriving DecidableEq, Repr

structure Dispatch where
  /-- `c == nil` goes on with the next statement -/
  noneProceeds : Bool
  onBreak : List Arm
  onContinue : List Arm
  onReturn : List Arm
  onThrow : List Arm
  deriving DecidableEq, Repr

/-- a decided arm -/
def pick : List Arm → Arm
  | [a] => a
  | _ => .unknown

def Dispatch.arm (d : Dispatch) : Ctl → Arm
  | .brk _ => pick d.onBreak
  | .cont => pick d.onContinue
  | .ret _ => pick d.onReturn
  | .thr => pick d.onThrow
  | .crash => .propagate        -- a Go panic is not dispatched

/-- the statement loop itself: like `execMB`, but a swallowed control lets the rest of the
body run (this is what `C02-while-continue` was) -/
def execBody (funs : List MFun) (d : Dispatch) : Nat → MBlock → Val → MSt → MRes Val
  | 0, _, _, _ => .timeout
  | _+1, .nil, v, s => .ok v s
  | f+1, .cons st rest, _, s =>
    match execM funs f st s with
    | .ok v s1 => execBody funs d f rest v s1
    | .ctl c s1 => if d.arm c = .swallow then execBody funs d f rest .null s1 else .ctl c s1
    | .timeout => .timeout

/-- what the construct does after its body -/
inductive Step where
  | fallOut (v : Val) (s : MSt)
  | skipRest (s : MSt)
  | stop (r : MRes Val)

def Arm.step (a : Arm) (c : Ctl) (s : MSt) : Step :=
  match a with
  | .leave => .stop (.ok .null s)
  | .next => .fallOut .null s
  | .restart => .skipRest s
  | .propagate => .stop (.ctl c s)
  | .swallow => .fallOut .null s
  | .throwNew => .stop (.ctl .thr s)
  | .unknown => .stop (.ctl .crash s)

def Dispatch.step (d : Dispatch) : MRes Val → Step
  | .ok v s => .fallOut v s
  | .ctl c s => (d.arm c).step c s
  | .timeout => .stop .timeout

/-! ## while / do-while / for -/

structure LoopFacts where
  /-- `Type.Method` the statement loop is in -/
  fn : String
  /-- the iteration: top-level statements of the enclosing `for { … }` (`[other]` when the
  statement loop is not directly inside a condition-less `for`) -/
  phases : List Phase
  /-- the condition phase leaves the loop (Go `break` bound to it) -/
  condFalseExits : Bool
  dispatch : Dispatch
  /-- statements in front of the loop that can leave the function other than by handing on a
  control of the header (a specialised early path) -/
  preExits : List String
  /-- type assertions on the node's own fields: (field, asserted type) -/
  asserts : List (String × String)
  deriving DecidableEq, Repr

/-- one iteration; `k` = the next one -/
def runPhases (L : LoopFacts) (funs : List MFun) (f : Nat) (cond : MExpr) (incs : MArgs) (b : MBlock)
    (k : Val → MSt → MRes Val) : List Phase → Val → MSt → MRes Val
  | [], v, s => k v s
  | .cond :: ps, v, s =>
    (evalM funs f cond s).bind fun vc s1 =>
    if vc.truthy || !L.condFalseExits then runPhases L funs f cond incs b k ps v s1 else .ok v s1
  | .body :: ps, v, s =>
    match L.dispatch.step (execBody funs L.dispatch f b v s) with
    | .fallOut v' s' => runPhases L funs f cond incs b k ps v' s'
    | .skipRest s' => k .null s'
    | .stop r => r
  | .incr :: ps, v, s =>
    (discardM funs f incs s).bind fun _ s1 => runPhases L funs f cond incs b k ps v s1
  | .other :: ps, v, s => runPhases L funs f cond incs b k ps v s

/-- the loop the facts describe -/
def loopBy (L : LoopFacts) (funs : List MFun) : Nat → MExpr → MArgs → MBlock → Val → MSt → MRes Val
  | 0, _, _, _, _, _ => .timeout
  | f+1, cond, incs, b, v, s =>
    runPhases L funs f cond incs b (fun v' s' => loopBy L funs f cond incs b v' s') L.phases v s

/-- Break ends the loop, Return / Throw go to the caller, `c == nil` goes on -/
def Dispatch.loopBase (d : Dispatch) : Bool :=
  d.noneProceeds && pick d.onBreak == .leave && pick d.onReturn == .propagate && pick d.onThrow == .propagate

/-- type assertions a loop may make on its header: the `BoolTest` short cut of the condition -/
def allowedAsserts : List (String × String) := [("Condition", "BoolTest")]

def LoopFacts.base (L : LoopFacts) : Bool :=
  L.dispatch.loopBase && L.condFalseExits && L.preExits.isEmpty && L.asserts.all (· ∈ allowedAsserts)

/-- `while`: condition, body; Continue goes back to the condition (the body is the last phase,
so `next` and `restart` are the same thing) -/
def whileOK (L : LoopFacts) : Bool :=
  L.base && L.phases == [.cond, .body] && (pick L.dispatch.onContinue == .next || pick L.dispatch.onContinue == .restart)

/-- `do-while`: body, condition; Continue must still reach the condition -/
def doOK (L : LoopFacts) : Bool :=
  L.base && L.phases == [.body, .cond] && pick L.dispatch.onContinue == .next

/-- `for`: condition, body, increments; Continue must still reach the increments -/
def forOK (L : LoopFacts) : Bool :=
  L.base && L.phases == [.cond, .body, .incr] && pick L.dispatch.onContinue == .next

/-! ## foreach, switch bodies, plain blocks -/

/-- a statement loop with its arms (no phases) -/
structure BodyFacts where
  fn : String
  /-- what the statement loop is nested in: `range .List`, `for`, `closure`, `none` … -/
  over : String
  dispatch : Dispatch
  deriving DecidableEq, Repr

def foreachBy (d : Dispatch) (funs : List MFun) :
    Nat → Option Nat → Nat → MBlock → List Int → Nat → Val → MSt → MRes Val
  | 0, _, _, _, _, _, _, _ => .timeout
  | _+1, _, _, _, [], _, v, s => .ok v s
  | f+1, k, vi, b, x :: xs, i, v, s =>
    (assignTo s vi (.int x)).bind fun _ s1 =>
    let s2 := match k with
      | some ki => (s1.setSlot ki (.int i)).getD s1
      | none => s1
    match d.step (execBody funs d f b v s2) with
    | .fallOut v' s3 => foreachBy d funs f k vi b xs (i+1) v' s3
    | .skipRest s3 => foreachBy d funs f k vi b xs (i+1) .null s3
    | .stop r => r

/-- the body is the last thing an element does: `next` = `restart` -/
def foreachOK (d : Dispatch) : Bool :=
  d.loopBase && (pick d.onContinue == .next || pick d.onContinue == .restart)

/-- which loops of node/foreach.go the Lean model covers (the array path) -/
def BodyFacts.isArrayPath (B : BodyFacts) : Bool := B.over == "range .List"

/-- every statement loop of node/foreach.go whose arms the translator could decide obeys the
loop rule; the array path exists and is decided -/
def foreachAllOK (bs : List BodyFacts) : Bool :=
  bs.any (·.isArrayPath) &&
  bs.all (fun B => if B.isArrayPath then foreachOK B.dispatch
                   else B.dispatch.onBreak.all (· ∈ [.leave, .unknown]) &&
                        B.dispatch.onContinue.all (· ∈ [.next, .restart, .unknown]))

/-- `runSwitchBody` + the case loop: `fallOut` = fall through into the next body -/
def runBodiesBy (d : Dispatch) (funs : List MFun) : Nat → MCases → MBlock → MSt → MRes Val
  | 0, _, _, _ => .timeout
  | f+1, .nil, dflt, s =>
    match d.step (execBody funs d f dflt .null s) with
    | .fallOut v s1 => .ok v s1
    | .skipRest s1 => .ok .null s1
    | .stop r => r
  | f+1, .cons _ b rest, dflt, s =>
    match d.step (execBody funs d f b .null s) with
    | .fallOut _ s1 => runBodiesBy d funs f rest dflt s1
    | .skipRest s1 => runBodiesBy d funs f rest dflt s1
    | .stop r => r

/-- a switch is one level for both Break and Continue (PHP) -/
def switchBodyOK (d : Dispatch) : Bool :=
  d.noneProceeds && pick d.onBreak == .leave && pick d.onContinue == .leave &&
  pick d.onReturn == .propagate && pick d.onThrow == .propagate

/-- a block that is no jump target (`if` branches, `match` arms): every control goes up -/
def blockOK (d : Dispatch) : Bool :=
  d.noneProceeds && pick d.onBreak == .propagate && pick d.onContinue == .propagate &&
  pick d.onReturn == .propagate && pick d.onThrow == .propagate

/-- `execBody` under a dispatch that swallows nothing and hands everything on = `execMB` -/
def blockBy (d : Dispatch) (funs : List MFun) (f : Nat) (b : MBlock) (v : Val) (s : MSt) : MRes Val :=
  match d.step (execBody funs d f b v s) with
  | .fallOut v' s' => .ok v' s'
  | .skipRest s' => .ok .null s'
  | .stop r => r

/-! ## the call boundary (`FunctionStatement.Call`) -/

/-- at the call boundary an arm may have a second alternative behind a test the core never
satisfies (a declared return type that refuses the value): the decided arm is the one that
is not `throwNew` -/
def callPick (l : List Arm) : Arm :=
  match l.filter (· != .throwNew) with
  | [a] => a
  | [] => if l.isEmpty then .unknown else .throwNew
  | _ => .unknown

def callArm (d : Dispatch) : Ctl → Arm
  | .brk _ => callPick d.onBreak
  | .cont => callPick d.onContinue
  | .ret _ => callPick d.onReturn
  | .thr => callPick d.onThrow
  | .crash => .propagate

def callResultBy (d : Dispatch) (caller : Frame) : MRes Val → MRes Val
  | .ok v s => .ok v { s with fr := caller }
  | .ctl c s =>
    match callArm d c with
    | .leave => (match c with
        | .ret v => .ok v { s with fr := caller }
        | _ => .ok .null { s with fr := caller })
    | .throwNew => .ctl .thr { s with fr := caller }
    | .propagate => .ctl c { s with fr := caller }
    | _ => .ctl .crash { s with fr := caller }
  | .timeout => .timeout

/-- Return becomes the value; an escaping Break / Continue must not reach the caller's loop -/
def callOK (d : Dispatch) : Bool :=
  d.noneProceeds && callPick d.onReturn == .leave && callPick d.onBreak == .throwNew &&
  callPick d.onContinue == .throwNew && callPick d.onThrow == .propagate

/-! ## which tests a clause scan evaluates (`if/elseif`, `match`, `switch`) -/

inductive TestGuard where
  /-- the test is evaluated on every trip of the loop -/
  | always
  /-- the test sits under `if !matched { … }` and `matched` is set once a test succeeds -/
  | untilMatched
  deriving DecidableEq, Repr

inductive AfterMatch where
  /-- the branch that handles a successful test leaves the scan (`break` / `return`) -/
  | stop
  /-- the scan goes on with the next clause -/
  | goOn
  deriving DecidableEq, Repr

structure ScanFacts where
  fn : String
  /-- the field the loop ranges over (`ElseIf`, `Arms`, `Cases`) -/
  over : String
  forward : Bool
  testGuard : TestGuard
  afterMatch : AfterMatch
  deriving DecidableEq, Repr

/-- per clause: is its test evaluated, given the outcomes the tests would have -/
def scanTests (F : ScanFacts) : Bool → List Bool → List Bool
  | _, [] => []
  | true, _ :: ts => (F.testGuard != .untilMatched) :: scanTests F true ts
  | false, true :: ts =>
    true :: (if F.afterMatch = .stop then ts.map (fun _ => false) else scanTests F true ts)
  | false, false :: ts => true :: scanTests F false ts

/-- the reference: tests are evaluated up to and including the first that succeeds -/
def refTests : List Bool → List Bool
  | [] => []
  | true :: ts => true :: ts.map (fun _ => false)
  | false :: ts => true :: refTests ts

def scanOK (F : ScanFacts) : Bool :=
  F.forward && (F.testGuard == .untilMatched || F.afterMatch == .stop)

/-- the `elseif` chain as the facts describe it; `sel` = the branch a successful test selected
when the scan did not stop there (it runs after the scan) -/
def elifsBy (F : ScanFacts) (funs : List MFun) : Nat → MElseIfs → MBlock → Option MBlock → MSt → MRes Val
  | 0, _, _, _, _ => .timeout
  | f+1, .nil, els, sel, s => execMB funs f (sel.getD els) .null s
  | f+1, .cons c b rest, els, sel, s =>
    if sel.isSome && F.testGuard = .untilMatched then elifsBy F funs f rest els sel s
    else
      (evalM funs f c s).bind fun vc s1 =>
      if vc.truthy && sel.isNone then
        (if F.afterMatch = .stop then execMB funs f b .null s1 else elifsBy F funs f rest els (some b) s1)
      else elifsBy F funs f rest els sel s1

/-- the `if` node runs the branch inside the scan: it must stop there -/
def ifScanOK (F : ScanFacts) : Bool := F.forward && F.afterMatch == .stop

/-! ## the store of `static` locals (`data/static_locals.go`) -/

/-- one statement of `StaticLocals.Init` (behind the "already there" test) that touches the
container of cells -/
inductive StoreOp where
  /-- `cells[index] = <new cell>` -/
  | insertFresh
  /-- a new, larger container that first receives every existing cell -/
  | growKeep
  /-- a new container that replaces the old one without receiving its cells -/
  | growDrop
  /-- existing entries are overwritten from somewhere else (`copy(s.cells, …)`) -/
  | clobber
  | deleteKey
  | clear
  /-- `cells[index].Value = …`: the cell's content is overwritten through the store -/
  | setValue
  | unknown
  deriving DecidableEq, Repr

structure StoreFacts where
  /-- Go type of the container -/
  container : String
  /-- Init starts with "cell exists → return it, write nothing" -/
  presentGuard : Bool
  initOps : List StoreOp
  /-- writes to the container (or through it) outside the constructor and Init: (method, op) -/
  otherWrites : List (String × StoreOp)
  /-- the `static` statement: the same index expression reaches Init, Cell and SetIndexZVal,
  and the slot is bound on every execution (not only when the cell is created) -/
  stmtSameKey : Bool
  stmtBindsAlways : Bool
  /-- the statement calls Init only under "the store has no cell for this index" -/
  stmtInitGuarded : Bool
  deriving DecidableEq, Repr

def StoreOp.apply {κ : Type} [DecidableEq κ] (i : κ) (v : Val) (cells : List (κ × Val)) : StoreOp → List (κ × Val)
  | .insertFresh => aset cells i v
  | .growKeep => cells
  | .growDrop => []
  | .clobber => []
  | .deleteKey => cells.filter (fun p => p.1 != i)
  | .clear => []
  | .setValue => aset cells i v
  | .unknown => []

/-- `store.Init(index, val)` as the `static` statement reaches it, as the facts describe it (the
"already there" test may be Init's own or the statement's) -/
def initBy {κ : Type} [DecidableEq κ] (F : StoreFacts) (cells : List (κ × Val)) (i : κ) (v : Val) : List (κ × Val) :=
  if (F.presentGuard || F.stmtInitGuarded) && (aget cells i).isSome then cells
  else F.initOps.foldl (fun cs op => op.apply i v cs) cells

def storeOK (F : StoreFacts) : Bool :=
  (F.presentGuard || F.stmtInitGuarded) && F.initOps.all (fun op => op == .insertFresh || op == .growKeep) &&
  F.initOps.contains .insertFresh && F.otherWrites.isEmpty && F.stmtSameKey && F.stmtBindsAlways

/-- `bindStatic` with the store the facts describe -/
def bindStaticBy (F : StoreFacts) (g : FName) (s : MSt) (i : Nat) (init : Val) : MSt :=
  let st := initBy F s.statics (g, i) init
  let bound := if i < s.fr.slots.length then i :: s.fr.bound else s.fr.bound
  { s with statics := st, fr := { s.fr with bound := bound } }

/-! ## specialised nodes around the `for` header -/

structure Rewrite where
  /-- constructor parameter whose elements are rewritten -/
  param : String
  fromType : String
  toType : String
  /-- (field of the new node, field of the old node it is copied from) -/
  fields : List (String × String)
  deriving DecidableEq, Repr

structure ForCtor where
  rewrites : List Rewrite
  /-- (ForStatement field, constructor parameter stored in it) -/
  fields : List (String × String)
  deriving DecidableEq, Repr

structure BoolTestImpl where
  type : String
  /-- its GetValue is `NewBoolValue(testBool(ctx))`: one definition of the test -/
  getValueViaTestBool : Bool
  deriving DecidableEq, Repr

/-- `compile` makes a `$x++` increment a `stmtIncr` on the same slot with the same fallback, and
touches nothing else -/
def forCtorOK (C : ForCtor) : Bool :=
  C.rewrites.all (fun r => r.param == "increments" && r.fromType == "VarPostIncr" && r.toType == "VarStmtIncr" &&
    ("VarIdx", "VarIdx") ∈ r.fields && ("Fallback", "Fallback") ∈ r.fields &&
    r.fields.all (fun p => p.1 == p.2)) &&
  C.rewrites.length == 1 &&
  C.fields == [("Initializers", "initializers"), ("Condition", "condition"), ("Increments", "increments"), ("Body", "body")]

/-- the control values: (type, [(method, constant it returns)]) for IsBreak / IsContinue -/
def controlsOK (cs : List (String × List (String × Bool))) : Bool :=
  cs == [("BreakStatement", [("IsBreak", true)]), ("ContinueStatement", [("IsContinue", true)])]

end Model.CtlShape
