/-
C20 — first-of-ties reductions over the entries of an array (round 6).

`max`, `min`, `array_search`, `in_array` … walk a list of candidates and keep one of them:

    maxVal := args[0]; maxNum := toFloat(maxVal)
    for _, v := range args[1:] {
        if n := toFloat(v); n > maxNum { maxNum = n; maxVal = v }      -- std/php/max.go
    }
    return maxVal

The candidate that is *returned* is the first of those that nothing beats — returned as itself, with
its own type and spelling (`3`, `3.0`, `"3"` all have `toFloat` 3). For a list and for separate
arguments "first" is the order of the program's data. When the candidates are collected by ranging
over the Go map behind a string-keyed array (`for _, v := range arr.GetProperties()`), "first" is
the map iterator's choice: the candidate list is an arbitrary permutation of the entries.
-/
namespace Model.Reduce

variable {α : Type}

/-- one step of the loop: the current best `m` is replaced by `v` only when `v` is strictly better -/
def step (gt : α → α → Bool) (m v : α) : α := if gt v m then v else m

/-- the loop: `best := l[0]; for v in l[1:] { if gt v best { best = v } }`; no candidates, no result -/
def firstBest (gt : α → α → Bool) : List α → Option α
  | [] => none
  | a :: l => some (l.foldl (step gt) a)

/-- `a` is a candidate that nothing in `l` beats -/
def Maximal (gt : α → α → Bool) (l : List α) (a : α) : Prop := a ∈ l ∧ ∀ x ∈ l, gt x a = false

/-- a PHP value as far as `max` / `min` look at it: what it is (so that the output tells the
candidates apart) and its number (`toFloat`; strings by their numeric prefix, `true` = 1) -/
inductive PVal
  | int (n : Int)
  | float (n : Int)       -- a float with an integral value, printed `float(n)`
  | numstr (n : Int)      -- the numeric string "n"
  | bool (b : Bool)
deriving DecidableEq, Repr

def toNum : PVal → Int
  | .int n => n
  | .float n => n
  | .numstr n => n
  | .bool b => if b then 1 else 0

/-- `n > maxNum` of max.go -/
def numGt (a b : PVal) : Bool := decide (toNum a > toNum b)

/-- `n < minNum` of min.go -/
def numLt (a b : PVal) : Bool := decide (toNum a < toNum b)

/-- `max($array)` over the entries as the loop meets them (key, value): the value of the first best -/
def maxOf {κ : Type} (collected : List (κ × PVal)) : Option PVal :=
  (firstBest (fun a b => numGt a.2 b.2) collected).map (·.2)

def minOf {κ : Type} (collected : List (κ × PVal)) : Option PVal :=
  (firstBest (fun a b => numLt a.2 b.2) collected).map (·.2)

end Model.Reduce
