/-
C06 — record types of the regenerated facts `Generated.C06ArrayFields` (written by
`extract/c06`): the fields of `data.ArrayValue` / `data.ObjectValue`, and every Go site that
edits the element storage of one of them.
-/
namespace Model.ArrayFields

/-- one field of `data.ArrayValue` / `data.ObjectValue`. `role`: `storage` (the elements),
`cursor` (iteration position), `tag` (where the value came from), `embedded`, or `derived` —
anything else: a field the check does not know is taken to be a cached statement ABOUT the
elements (flag, count, kind tag, hash), which every editor of the storage has to maintain. -/
structure Field where
  owner : String
  name : String
  role : String
deriving DecidableEq, Repr

/-- one site that edits the element storage: `what` = `list` (`x.List = …`, `*p = …` on a
pointer to a slot list), `slot` (`x.List[i] = …`), `property` (`x.property.Set/Delete`).
`resets`: the fields of the owner, other than the storage, that the enclosing function assigns
(itself or through a method of the owner it calls). `ord` numbers the sites of one (function, what). -/
structure ListEdit where
  file : String
  fn : String
  owner : String
  what : String
  ord : Nat
  resets : List String
deriving DecidableEq, Repr

def derivedOf (fs : List Field) (owner : String) : List String :=
  (fs.filter (fun f => f.owner == owner && f.role == "derived")).map (·.name)

/-- editing sites that leave some derived field of their owner alone -/
def unmaintained (fs : List Field) (es : List ListEdit) : List ListEdit :=
  es.filter (fun e => !(derivedOf fs e.owner).all (fun d => e.resets.contains d))

end Model.ArrayFields
