import Model.ExcShape
/-!
# C05 — a try statement that remembers how it dispatched

`Model.Exc.execC` scans the clauses for every thrown value afresh: the statement (the AST node) has no state. An
"optimisation" gives the node a memo — *which clause handled a thrown value with this key* (`-1`: none) — and answers
from the memo when the key was seen before (`node/try.go tryValue` with a `sync.Map` on `TryStatement`, keyed by the
class NAME of the thrown value). What the statement then does depends on its *history*: on what the same node met in
earlier executions (an earlier iteration of the loop, an earlier call of the function, an outer activation).

Here: the memo as a model, generic in the thrown values `X`, the clauses `C`, the test `m` and the key `key : X → K`.
`firstIdx` is the memo-free dispatch (index of the first clause whose test answers yes — what `sel` computes);
`runHist` is what a node with a memo answers along a history of thrown values, starting from the empty memo.
-/
namespace Model.ExcMemo

section
variable {X K C : Type} [DecidableEq K]

/-- memo-free dispatch: index (source order) of the first clause whose test answers yes -/
def firstIdx (m : C → X → Bool) : List C → X → Option Nat
  | [], _ => none
  | c :: cs, x => if m c x then some 0 else (firstIdx m cs x).map (· + 1)

/-- the memo of one node: key ↦ the answer given the first time the key was met -/
abbrev Memo (K : Type) := List (K × Option Nat)

/-- one dispatch of a node with a memo: a key met before is answered from the memo without any clause test,
otherwise the scan runs and its answer (a clause index or "none") is remembered under the key -/
def step (key : X → K) (m : C → X → Bool) (cs : List C) (memo : Memo K) (x : X) : Option Nat × Memo K :=
  match memo.lookup (key x) with
  | some r => (r, memo)
  | none => (firstIdx m cs x, (key x, firstIdx m cs x) :: memo)

/-- the answers the node gives along a history of thrown values -/
def runHist (key : X → K) (m : C → X → Bool) (cs : List C) : Memo K → List X → List (Option Nat)
  | _, [] => []
  | memo, x :: xs => (step key m cs memo x).1 :: runHist key m cs (step key m cs memo x).2 xs

/-- the memo only holds what the scan would answer -/
def Faithful (key : X → K) (m : C → X → Bool) (cs : List C) (memo : Memo K) : Prop :=
  ∀ x r, memo.lookup (key x) = some r → r = firstIdx m cs x

end

open Model.Exc (Thrown Clause clauseMatches)
open Model.Hier (Name Graph exceptionName)

/-- the key of the seeded memo: `ThrowValue.GetName()` — the class name of the object, `"Exception"` for an
object-less (interpreter-raised) throwable -/
def nameKey : Thrown → Name
  | .obj n _ => n
  | .internal => exceptionName

/-- a key that keeps object-less throwables apart from every class -/
def classKey : Thrown → Option Name
  | .obj n _ => some n
  | .internal => none

/-- the clause test of the model on `Clause`s -/
def test (G : Graph) (c : Clause) (x : Thrown) : Bool := clauseMatches G c.1 x

/-- facts about the node state of `TryStatement`: every write to a field of the receiver (assignment, `++`, `Store` /
`LoadOrStore` / `Swap` / `Add` / `Delete` … on a field, `&t.F` handed on) inside its methods, and the fields the
struct has beyond the three blocks the parser fills -/
structure NodeFacts where
  writes : List String        -- `func: statement`
  extraFields : List String   -- fields of TryStatement other than Node / TryBlock / CatchBlocks / FinallyBlock
deriving Repr

def stateless (F : NodeFacts) : Bool := F.writes.isEmpty && F.extraFields.isEmpty

end Model.ExcMemo
