/-
C06 — arrays that carry a cached SUMMARY of their contents.

An array object keeps, next to its element list, a flag `hint` ("the last copy found no array
among my elements"); the copy routine consults it: a flagged array is copied by copying the
element list only, an unflagged one element by element (inner arrays get fresh objects, and the
flag of the result is recomputed). The flag is a statement about the element list, so EVERY
piece of code that edits the list has to keep it true — `Cfg.maintains` says, per editor, whether
it does (clears the flag when it stores an array). Two levels are enough to see a leak: the
elements of an array are scalars or inner arrays of scalars; an inner array is an OBJECT with an
identity, written in place (`$x[k][j] = n` changes the object, hence every holder of it).

Unfolded representation (as in `Model.Heap`): every occurrence of an inner array carries its
identity and its content; an in-place write rewrites every occurrence of the identity.
-/
namespace Model.Summary

/-- the ways an element enters an array: index syntax (`$a[k] = v`), append syntax (`$a[] = v`),
a library function that edits the element list itself (`array_push`, `array_unshift`, …), an
array method (`->push`, `->splice`, …) -/
inductive Editor where
  | store | append | libfn | method
deriving DecidableEq, Repr

structure Cfg where
  /-- the copy routine trusts the flag -/
  useHint : Bool
  /-- the editor clears the flag when it stores an array -/
  maintains : Editor → Bool

inductive Elem where
  | sc (n : Nat)
  | inner (id : Nat) (c : List Nat)
deriving DecidableEq, Repr

structure Arr where
  hint : Bool
  elems : List Elem
deriving DecidableEq, Repr

structure State where
  vars : List Arr
  next : Nat
deriving DecidableEq, Repr

/-- element of a literal / right-hand side: a scalar or a (fresh) array of scalars -/
inductive LitE where
  | sc (n : Nat)
  | arr (c : List Nat)
deriving DecidableEq, Repr

inductive Op where
  /-- `$x = [ … ]` -/
  | lit (x : Nat) (es : List LitE)
  /-- `$y = $x` -/
  | copy (x y : Nat)
  /-- editor `e` puts `v` at position `k` of `$x` (replaces it; appends when `k` is past the end) -/
  | put (e : Editor) (x k : Nat) (v : LitE)
  /-- remove position `k` of `$x` -/
  | del (x k : Nat)
  /-- `$x[k][j] = n`, in place on the inner array object (nothing when `$x[k]` is a scalar) -/
  | wr (x k j n : Nat)
deriving DecidableEq, Repr

def Elem.isSc : Elem → Bool
  | .sc _ => true
  | .inner _ _ => false

/-- elements of a literal, inner arrays get fresh identities -/
def build : List LitE → Nat → List Elem × Nat
  | [], n => ([], n)
  | .sc v :: r, n => let p := build r n; (.sc v :: p.1, p.2)
  | .arr c :: r, n => let p := build r (n + 1); (.inner n c :: p.1, p.2)

/-- element-by-element copy: inner arrays get fresh identities -/
def freshen : List Elem → Nat → List Elem × Nat
  | [], n => ([], n)
  | .sc v :: r, n => let p := freshen r n; (.sc v :: p.1, p.2)
  | .inner _ c :: r, n => let p := freshen r (n + 1); (.inner n c :: p.1, p.2)

/-- the copy routine -/
def clone (cfg : Cfg) (a : Arr) (n : Nat) : Arr × Nat :=
  if cfg.useHint && a.hint then (⟨true, a.elems⟩, n)
  else let p := freshen a.elems n; (⟨p.1.all Elem.isSc, p.1⟩, p.2)

def putAt (l : List Elem) (k : Nat) (e : Elem) : List Elem :=
  if k < l.length then l.set k e else l ++ [e]

/-- in-place write on the object `id` -/
def Elem.poke (id j n : Nat) : Elem → Elem
  | .sc v => .sc v
  | .inner i c => if i = id then .inner i (c.set j n) else .inner i c

def Arr.poke (id j n : Nat) (a : Arr) : Arr := ⟨a.hint, a.elems.map (Elem.poke id j n)⟩

def setVar (s : State) (x : Nat) (a : Arr) : State := { s with vars := s.vars.set x a }

def step (cfg : Cfg) (s : State) : Op → State
  | .lit x es =>
    let p := build es s.next
    { vars := s.vars.set x ⟨false, p.1⟩, next := p.2 }
  | .copy x y =>
    match s.vars[x]? with
    | none => s
    | some a => let p := clone cfg a s.next; { vars := s.vars.set y p.1, next := p.2 }
  | .put e x k v =>
    match s.vars[x]? with
    | none => s
    | some a =>
      match v with
      | .sc n => setVar s x ⟨a.hint, putAt a.elems k (.sc n)⟩
      | .arr c =>
        { vars := s.vars.set x ⟨if cfg.maintains e then false else a.hint, putAt a.elems k (.inner s.next c)⟩,
          next := s.next + 1 }
  | .del x k =>
    match s.vars[x]? with
    | none => s
    | some a => setVar s x ⟨a.hint, a.elems.eraseIdx k⟩
  | .wr x k j n =>
    match s.vars[x]? with
    | none => s
    | some a =>
      match a.elems[k]? with
      | some (.inner id _) => { s with vars := s.vars.map (Arr.poke id j n) }
      | _ => s

def init (nv : Nat) : State := ⟨List.replicate nv ⟨false, []⟩, 0⟩

def run (cfg : Cfg) (nv : Nat) (p : List Op) : State := p.foldl (step cfg) (init nv)

/-- this tree: no flag is consulted -/
def Cfg.plain : Cfg := ⟨false, fun _ => false⟩
/-- the flag is consulted and every editor maintains it -/
def Cfg.maintained : Cfg := ⟨true, fun _ => true⟩
/-- the flag is consulted; index and append syntax maintain it, library functions and methods do not -/
def Cfg.stale : Cfg := ⟨true, fun e => e == .store || e == .append⟩

end Model.Summary
