/-
C12 — vocabulary and well-formedness predicate for the regenerated routing table of
`runtime/vm_temp.go` (`lean/Generated/C12TempVm.lean`, written by `extract/c12` on every
check run): per `TempVM` method, which maps it writes and which methods of the base VM
it hands work to.
-/
namespace Model.TempRoutes

/-- what the body of one `TempVM` method (or `NewTempVM`) does, syntactically -/
structure Fact where
  method : String
  /-- request-local definition maps assigned (`vm.addedClasses[...] = …`); for
  `NewTempVM`: the map fields initialised with a fresh `make(map…)` -/
  writesLocal : List String
  /-- assignment / `delete` targets reached through `vm.Base` -/
  writesBase : List String
  /-- `vm.Base.M(…)` calls (`M@self` when the TempVM itself is passed as an argument) -/
  baseCalls : List String
  /-- `vm.M(…)` calls on the TempVM itself; `SetVM(self)` = some `X.SetVM(vm)` binds a parser
  clone / a context to the TempVM -/
  selfCalls : List String
  /-- autoloads with its own parser: `….LoadClass(name, vm.parser)` -/
  ownLoader : Bool
  /-- set when the extractor did not find the syntactic shape it understands -/
  shapeChanged : Option String
  /-- how the base's parser `vm.Base.parser` is used: `"PrepareParse"` = handed to
  `vm.PrepareParse(…)` (cloned, the clone bound to the TempVM), `"other"` = anything else
  (cloned / used directly: a parser bound to the *base*) -/
  baseParser : List String := []
  /-- `X.Parse…(…)` calls on a parser value (`ParseFile`, `ParseString`, …) -/
  parses : List String := []
  /-- the contexts in which it evaluates a program, `X.GetValue(ctx)`: `"self.CreateContext"`
  (`vm.CreateContext(…)`, bound to the TempVM), `"param"` (handed in by the caller),
  `"base.CreateContext"`, `"other"` -/
  evalCtx : List String := []
  /-- assigns `vm.parser` -/
  setsParser : Bool := false
deriving Repr, DecidableEq

/-- one method of the base `runtime.VM` -/
structure VmFact where
  method : String
  /-- parses / autoloads with the base-bound parser: `vm.parser.Clone()`, `vm.parser.Parse…(…)`,
  or `vm.parser` (a clone of it) handed to a call (`LoadClass(pkg, vm.parser)`) -/
  ownParser : Bool
  /-- `vm.M(…)` calls on itself -/
  selfCalls : List String
deriving Repr, DecidableEq

/-- methods of the base VM that cannot register a class / interface / function (lookups
and the state that is shared by design: file cache, constants, globals, handlers, call
depth, throw hook, namespace map, compiled-file registry). `parseFileOn@self` is the
base's template runner invoked *with the TempVM as owner* (fix C12-parsefile-tempvm). -/
def pureBase : List String :=
  ["GetClass", "GetInterface", "GetFunc", "GetPhpFileCache", "SetPhpFileCache", "CreateContext",
   "SetThrowControl", "ThrowControl", "AddNamespace", "SetConstant", "GetConstant",
   "EnsureGlobalZVal", "SetExceptionHandler", "GetExceptionHandler", "AddShutdownCallback",
   "RunShutdownCallbacks", "EnterCall", "LeaveCall", "RegisterCompiledFile", "parseFileOn@self"]

/-- the method hands work to a base method that may define something in the base -/
def Fact.delegatesDefining (f : Fact) : Bool := !(f.baseCalls.all pureBase.contains)

/-- the **intended delegations**: `TempVM` methods that hand parsing / defining work to the
base on purpose. `CompileLoad`, `RunCompiledFile` — compile mode only, documented in the
code; `RegisterFunction`, `RegisterReflectClass` — host registration API, global by design. -/
def Intended : List String :=
  ["CompileLoad", "RunCompiledFile", "RegisterFunction", "RegisterReflectClass"]

/-- the known finding C12-temp-autoload-through-base (props/C12.json): these two autoload
through the base's parser -/
def KnownLeaks : List String := ["GetOrLoadInterface", "LoadPkg"]

/-- `TempVM` methods known to reach a defining method of the base on the pinned tree -/
def Known : List String := KnownLeaks ++ Intended

/-- routing `Model.Temp` was written against, for the methods that register definitions -/
def expectedOk (f : Fact) : Bool :=
  if f.method == "AddClass" then f.writesLocal == ["addedClasses"]
  else if f.method == "AddInterface" then f.writesLocal == ["addedInterfaces"]
  else if f.method == "AddFunc" then f.writesLocal == ["addedFuncs"]
  else if f.method == "NewTempVM" then f.writesLocal == ["addedClasses", "addedFuncs", "addedInterfaces"]
  else if f.method == "LoadAndRun" then f.selfCalls.contains "PrepareParse" && f.selfCalls.contains "CreateContext"
  else if f.method == "ParseFile" then f.selfCalls.contains "PrepareParse" && f.baseCalls == ["parseFileOn@self"]
  else if f.method == "GetOrLoadClass" then f.ownLoader
  else if f.method == "CreateContext" then f.baseCalls == ["CreateContext"] && f.selfCalls.contains "SetVM(self)"
  else if f.method == "PrepareParse" then f.selfCalls.contains "SetVM(self)"
  else true

/-- methods the model covers; all must be present in the table -/
def required : List String :=
  ["NewTempVM", "AddClass", "AddInterface", "AddFunc", "GetClass", "GetInterface", "GetFunc",
   "LoadAndRun", "ParseFile", "GetOrLoadClass", "GetOrLoadInterface", "LoadPkg", "CreateContext",
   "PrepareParse"]

def factOk (f : Fact) : Bool :=
  f.shapeChanged.isNone && f.writesBase.isEmpty && expectedOk f &&
    (Known.contains f.method || !f.delegatesDefining)

/-- `defs_stay_local`, stated as "violations ⊆ Known" (DESIGN §2.6): better code never
alarms, a new write-through to the base does. -/
def WellRouted (fs : List Fact) : Bool :=
  required.all (fun m => fs.any (fun f => f.method == m)) && fs.all factOk

/-! ### parsers and contexts are bound to the TempVM

Classes, interfaces, traits and enums register *while parsing*, through the VM the parser is
bound to; functions register *while running*, through the VM of the context. So a `TempVM`
method that parses or evaluates code must do it with a parser obtained from `PrepareParse`
(a clone bound to the TempVM) and in a context of the TempVM — never with the base's
parser, and never by handing the code to a method of the base that parses with `vm.parser`. -/

/-- one round of "uses the base-bound parser, directly or through one of its own methods" -/
def parsingStep (vs : List VmFact) (acc : List String) : List String :=
  (vs.filter (fun f => f.ownParser || f.selfCalls.any acc.contains)).map (·.method)

/-- `P` contains every method of the base VM that parses / autoloads with the base-bound
parser, directly or through its own methods: it is closed under `parsingStep` (so it
includes the least such set; the translator emits that one as `vmParsing`). -/
def closedUnder (vs : List VmFact) (P : List String) : Bool :=
  (parsingStep vs P).all P.contains

/-- strip the `@self` marker of a recorded base call -/
def callName (c : String) : String := String.ofList (c.toList.takeWhile (· != '@'))

/-- the method hands code to a method of the base that parses with the base's own parser -/
def Fact.delegatesParsing (P : List String) (f : Fact) : Bool :=
  f.baseCalls.any (fun c => P.contains (callName c))

def parserOk (P : List String) (f : Fact) : Bool :=
  -- the base's parser is only ever handed to `PrepareParse`
  f.baseParser.all (· == "PrepareParse") &&
  -- whoever parses does it with a parser from `PrepareParse`
  (f.parses.isEmpty || f.selfCalls.contains "PrepareParse") &&
  -- programs are evaluated in a context of the TempVM, or in the caller's
  f.evalCtx.all (fun c => c == "self.CreateContext" || c == "param") &&
  -- only `PrepareParse` binds `vm.parser`
  (!f.setsParser || f.method == "PrepareParse") &&
  -- nothing is handed to a base method that parses with the base-bound parser, except by
  -- the intended delegations (and the known finding)
  (Known.contains f.method || !f.delegatesParsing P)

/-- **parsers bound to the TempVM**: the translator found the base's methods and `P` covers
all of them that parse with the base-bound parser; every `TempVM` method satisfies
`parserOk`; and the hand-written allow-list `pureBase` contains no method that the
regenerated facts show to parse with the base's parser. -/
def ParsersBound (vs : List VmFact) (P : List String) (fs : List Fact) : Bool :=
  !vs.isEmpty && closedUnder vs P && fs.all (parserOk P) &&
    pureBase.all (fun m => !P.contains (callName m))

end Model.TempRoutes
