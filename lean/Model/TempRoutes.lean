/-
C12 — vocabulary and well-formedness predicate for the regenerated routing table of
`runtime/vm_temp.go` (`lean/Generated/C12TempVm.lean`, written by `extract/c12` on every
check run): per `TempVM` method, which maps it writes and which methods of the base VM
it hands work to.
-/
namespace Model.TempRoutes

/-- what the body of one `TempVM` method (or `NewTempVM`) does, syntactically -/
structure Fact where
  method : String
  /-- request-local definition maps assigned (`vm.addedClasses[...] = …`); for
  `NewTempVM`: the map fields initialised with a fresh `make(map…)` -/
  writesLocal : List String
  /-- assignment / `delete` targets reached through `vm.Base` -/
  writesBase : List String
  /-- `vm.Base.M(…)` calls (`M@self` when the TempVM itself is passed as an argument) -/
  baseCalls : List String
  /-- `vm.M(…)` calls on the TempVM itself; `SetVM(self)` = some `X.SetVM(vm)` binds a parser
  clone / a context to the TempVM -/
  selfCalls : List String
  /-- autoloads with its own parser: `….LoadClass(name, vm.parser)` -/
  ownLoader : Bool
  /-- set when the extractor did not find the syntactic shape it understands -/
  shapeChanged : Option String
deriving Repr, DecidableEq

/-- methods of the base VM that cannot register a class / interface / function (lookups
and the state that is shared by design: file cache, constants, globals, handlers, call
depth, throw hook, namespace map, compiled-file registry). `parseFileOn@self` is the
base's template runner invoked *with the TempVM as owner* (fix C12-parsefile-tempvm). -/
def pureBase : List String :=
  ["GetClass", "GetInterface", "GetFunc", "GetPhpFileCache", "SetPhpFileCache", "CreateContext",
   "SetThrowControl", "ThrowControl", "AddNamespace", "SetConstant", "GetConstant",
   "EnsureGlobalZVal", "SetExceptionHandler", "GetExceptionHandler", "AddShutdownCallback",
   "RunShutdownCallbacks", "EnterCall", "LeaveCall", "RegisterCompiledFile", "parseFileOn@self"]

/-- the method hands work to a base method that may define something in the base -/
def Fact.delegatesDefining (f : Fact) : Bool := !(f.baseCalls.all pureBase.contains)

/-- `TempVM` methods known to reach a defining method of the base on the pinned tree
(mirrors the `known` entries of props/C12.json plus the documented by-design ones):
`GetOrLoadInterface`, `LoadPkg` — known finding C12-temp-autoload-through-base;
`CompileLoad`, `RunCompiledFile` — compile mode only, documented in the code;
`RegisterFunction`, `RegisterReflectClass` — host registration API, global by design. -/
def Known : List String :=
  ["GetOrLoadInterface", "LoadPkg", "CompileLoad", "RunCompiledFile", "RegisterFunction",
   "RegisterReflectClass"]

/-- routing `Model.Temp` was written against, for the methods that register definitions -/
def expectedOk (f : Fact) : Bool :=
  if f.method == "AddClass" then f.writesLocal == ["addedClasses"]
  else if f.method == "AddInterface" then f.writesLocal == ["addedInterfaces"]
  else if f.method == "AddFunc" then f.writesLocal == ["addedFuncs"]
  else if f.method == "NewTempVM" then f.writesLocal == ["addedClasses", "addedFuncs", "addedInterfaces"]
  else if f.method == "LoadAndRun" then f.selfCalls.contains "PrepareParse" && f.selfCalls.contains "CreateContext"
  else if f.method == "ParseFile" then f.selfCalls.contains "PrepareParse" && f.baseCalls == ["parseFileOn@self"]
  else if f.method == "GetOrLoadClass" then f.ownLoader
  else if f.method == "CreateContext" then f.baseCalls == ["CreateContext"] && f.selfCalls.contains "SetVM(self)"
  else if f.method == "PrepareParse" then f.selfCalls.contains "SetVM(self)"
  else true

/-- methods the model covers; all must be present in the table -/
def required : List String :=
  ["NewTempVM", "AddClass", "AddInterface", "AddFunc", "GetClass", "GetInterface", "GetFunc",
   "LoadAndRun", "ParseFile", "GetOrLoadClass", "GetOrLoadInterface", "LoadPkg", "CreateContext",
   "PrepareParse"]

def factOk (f : Fact) : Bool :=
  f.shapeChanged.isNone && f.writesBase.isEmpty && expectedOk f &&
    (Known.contains f.method || !f.delegatesDefining)

/-- `defs_stay_local`, stated as "violations ⊆ Known" (DESIGN §2.6): better code never
alarms, a new write-through to the base does. -/
def WellRouted (fs : List Fact) : Bool :=
  required.all (fun m => fs.any (fun f => f.method == m)) && fs.all factOk

end Model.TempRoutes
