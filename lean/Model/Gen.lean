/-!
# Model.Gen — generic classes, their instantiations and typed member writes

Mirrors (origami, Go):

* `node/class_generic.go`  `ClassGeneric{*ClassStatement; Generic; GenericMap}`,
  `Clone(mT)` (shares the `ClassStatement`, swaps only the map) and
  `GetProperty(name)` (substitutes the type parameter on lookup);
* `node/new.go` `NewClassGenerated.resolveClass` (builds the map by walking
  `GenericList()` and indexing the written type arguments `n.T[i]` — unguarded:
  fewer arguments than parameters is a Go index-out-of-range panic),
  `NewExpression` on a generic class (raw `new Box()`: the registered
  `ClassGeneric` itself, whose `GenericMap` is the nil map) and
  `createInstanceAndCallConstructorWithStmt` (constructor body runs on the new
  object; a throw aborts the `new`);
* the typed store `node/binary_assign.go` / `node/call_object_property.go` /
  `node/call_object_dynamic_property.go`: all of them do
  `object.GetPropertyStmt(name)` → `Class.GetProperty(name)` and then
  `property.GetType() != nil && !property.GetType().Is(v)` ⇒ throw; an
  undeclared name is stored as a dynamic property without any check;
* `data/type_int.go`, `type_string.go`, `type_array.go`, `type_class.go`: `Is`.

A `new` expression is an AST node that can be executed many times (factory
function, loop body, method, closure).  Both `NewExpression` and
`NewClassGenerated` keep the class they resolved in the node (`n.class`, read
first on every later execution), so the node is part of the state: `State.cache`
maps a node id to what that node stored, the sited operations `instAt`,
`instRawAt`, `instCtorAt` name the node they are executed through, and
`resolveAt` is `resolveClass` with its early return.  The un-sited operations
are nodes executed once (straight-line script).

Two step functions are given.  `step` is the code as it is now (the lookup
returns a *copy* of the declaration carrying this instantiation's type
argument).  `stepShared` is the code before the fix `C19-generic-property-copy`
(the lookup overwrote the type stored on the declaration shared by all
instantiations); it is kept for the negation witness and so that the harness
can say which of the two an implementation under test agrees with.
-/
namespace Model.Gen

/-- Concrete types that can be written as a type argument / property type. -/
inductive Ty where
  | int | string | array
  | cls (n : Nat)            -- a user class, by id
  deriving DecidableEq, Repr, Inhabited

/-- Kinds of run-time values (what `Types.Is` dispatches on). -/
inductive Val where
  | int | string | array | float | bool | null
  | obj (n : Nat)            -- an instance of user class `n` (user classes unrelated to each other)
  deriving DecidableEq, Repr, Inhabited

/-- `data.Int.Is`, `data.String.Is`, `data.Arrays.Is`, `data.Class.Is`
restricted to the value kinds above (`float`/`bool` are deliberately not type
arguments of the model: their `Is` is a weak "has AsFloat/AsBool"). -/
def Ty.accepts : Ty → Val → Bool
  | .int, .int => true
  | .string, .string => true
  | .array, .array => true
  | .cls n, .obj m => n == m
  | _, _ => false

/-- Declared type of a property (`ClassProperty.Type`). -/
inductive PTy where
  | untyped                  -- `Type == nil` (no declaration / `mixed`)
  | conc (t : Ty)            -- a concrete type
  | generic (name : Nat)     -- `data.Generic{Name}`: a type parameter, by name
  deriving DecidableEq, Repr, Inhabited

/-- A generic class declaration: `ClassGeneric.Generic` (parameter names in
order) and `ClassStatement.Properties` (index = property id). -/
structure Class where
  params : List Nat
  props : List PTy
  deriving DecidableEq, Repr, Inhabited

/-- `GenericMap` as a Go map read through `m[name]`: a total lookup whose
default is the nil `Types` (`none`); writes replace. The nil map of a raw
`new C()` is the everywhere-`none` map. -/
abbrev GMap := Nat → Option Ty

def GMap.empty : GMap := fun _ => none

def GMap.set (m : GMap) (k : Nat) (t : Ty) : GMap :=
  fun k' => if k' = k then some t else m k'

def GMap.get (m : GMap) (k : Nat) : Option Ty := m k

/-- `resolveClass`: `for i, types := range GenericList() { mT[name] = NewBaseType(n.T[i]) }`.
`none` = `n.T[i]` out of range (Go panic); surplus arguments are ignored. -/
def buildMap : List Nat → List Ty → GMap → Option GMap
  | [], _, m => some m
  | _ :: _, [], _ => none
  | p :: ps, t :: ts, m => buildMap ps ts (m.set p t)

/-- A live object: the class it was cloned from and its own `GenericMap`. -/
structure Inst where
  cls : Nat
  gmap : GMap

/-- Process state: the declarations (shared by every instantiation; Go keeps
them behind a pointer, so they are state) and the live objects in creation order. -/
structure State where
  classes : List Class
  insts : List Inst
  /-- per-AST-node cache `NewExpression.class` (node id ↦ the class the node resolved on its
  first successful execution: the clone with its own `GenericMap`, or the registered class). -/
  cache : Nat → Option Inst := fun _ => none

inductive Op where
  | inst (c : Nat) (args : List Ty)                     -- `$x = new C<args>()`
  | instRaw (c : Nat)                                   -- `$x = new C()`
  | instCtor (c : Nat) (args : List Ty) (p : Nat) (v : Val)  -- `$x = new C<args>(v)`, constructor body `$this->p = v`
  | write (i p : Nat) (v : Val)                         -- `$x_i->p = v` (also through a method / `$x_i->$name`)
  | read (i p : Nat)                                    -- `$x_i->p`
  | call (i name : Nat) (v : Val)                       -- `$x_i->take(v)`, `function take(T $x)` with `T` = type parameter `name`
  | instAt (site c : Nat) (args : List Ty)              -- `new C<args>()` executed through AST node `site`
  | instRawAt (site c : Nat)                            -- `new C()` executed through AST node `site`
  | instCtorAt (site c : Nat) (args : List Ty) (p : Nat) (v : Val)  -- `new C<args>($x)` through node `site`, `$x = v`
  deriving DecidableEq, Repr, Inhabited

inductive Out where
  | created (i : Nat)   -- object bound, its index
  | crash               -- Go runtime panic (index out of range in `resolveClass`)
  | accepted
  | rejected            -- "… 属性 … 因为类型不一致无法赋值" thrown
  | noInst | noClass    -- the script names something that does not exist
  | readOk
  | noMember            -- `call` with a name that is not a type parameter of the object's class
  deriving DecidableEq, Repr, Inhabited

/-- The effective type after substitution: `none` = no check. -/
def subst (g : GMap) : PTy → Option Ty
  | .untyped => none
  | .conc t => some t
  | .generic n => g.get n

/-- The check of the typed store. -/
def check : Option Ty → Val → Bool
  | none, _ => true
  | some t, v => t.accepts v

/-! ## The code as it is now: `GetProperty` returns a substituted copy -/

/-- `ClassGeneric.GetProperty`: `none` = name not declared; otherwise the type
of the returned property. The declaration is not touched. -/
def getProperty (c : Class) (g : GMap) (p : Nat) : Option (Option Ty) :=
  (c.props[p]?).map (subst g)

/-- Typed store on a live object. -/
def writeOut (s : State) (i p : Nat) (v : Val) : Out :=
  match s.insts[i]? with
  | none => .noInst
  | some o =>
    match s.classes[o.cls]? with
    | none => .noClass
    | some c =>
      match getProperty c o.gmap p with
      | none => .accepted            -- dynamic property, unchecked
      | some ty => if check ty v then .accepted else .rejected

/-- Method call whose parameter is declared with type parameter `name`
(`bindTypedParameter` / `genericParamType`): `pt := GenericMap[name]`;
`pt != nil && !isNull && !pt.Is(v)` ⇒ throw. -/
def callOut (s : State) (i name : Nat) (v : Val) : Out :=
  match s.insts[i]? with
  | none => .noInst
  | some o =>
    match s.classes[o.cls]? with
    | none => .noClass
    | some c =>
      if name ∈ c.params then
        if v = .null then .accepted
        else if check (o.gmap.get name) v then .accepted else .rejected
      else .noMember

/-- What a `new` node resolves when it has nothing cached. -/
inductive Built where
  | noClass | crash
  | ok (o : Inst)

/-- The class a `new C<args>` (`some args`) / `new C` (`none`) node computes:
`GetOrLoadClass`, then for written type arguments the loop over `GenericList()` and `Clone(mT)`. -/
def build (cs : List Class) (c : Nat) : Option (List Ty) → Built
  | none =>
    match cs[c]? with
    | none => .noClass
    | some _ => .ok ⟨c, GMap.empty⟩
  | some args =>
    match cs[c]? with
    | none => .noClass
    | some cl =>
      match buildMap cl.params args GMap.empty with
      | none => .crash
      | some g => .ok ⟨c, g⟩

/-- `resolveClass` of the node `site`: `if n.class != nil { return n.class }`; otherwise compute,
and on success store the result in the node (`n.class = stmt`) — what is stored is what is returned. -/
def resolveAt (s : State) (site c : Nat) (args : Option (List Ty)) : State × Built :=
  match s.cache site with
  | some o => (s, .ok o)
  | none =>
    match build s.classes c args with
    | .ok o => ({ s with cache := fun k => if k = site then some o else s.cache k }, .ok o)
    | .crash => (s, .crash)
    | .noClass => (s, .noClass)

def step (s : State) : Op → State × Out
  | .inst c args =>
    match s.classes[c]? with
    | none => (s, .noClass)
    | some cl =>
      match buildMap cl.params args GMap.empty with
      | none => (s, .crash)
      | some g => ({ s with insts := s.insts ++ [⟨c, g⟩] }, .created s.insts.length)
  | .instAt site c args =>
    match resolveAt s site c (some args) with
    | (s1, .noClass) => (s1, .noClass)
    | (s1, .crash) => (s1, .crash)
    | (s1, .ok o) => ({ s1 with insts := s1.insts ++ [o] }, .created s1.insts.length)
  | .instRawAt site c =>
    match resolveAt s site c none with
    | (s1, .noClass) => (s1, .noClass)
    | (s1, .crash) => (s1, .crash)
    | (s1, .ok o) => ({ s1 with insts := s1.insts ++ [o] }, .created s1.insts.length)
  | .instCtorAt site c args p v =>
    match resolveAt s site c (some args) with
    | (s1, .noClass) => (s1, .noClass)
    | (s1, .crash) => (s1, .crash)
    | (s1, .ok o) =>
      let s' : State := { s1 with insts := s1.insts ++ [o] }
      match writeOut s' s1.insts.length p v with
      | .rejected => (s1, .rejected)          -- the node keeps what it resolved; the object is dropped
      | _ => (s', .created s1.insts.length)
  | .call i name v => (s, callOut s i name v)
  | .instRaw c =>
    match s.classes[c]? with
    | none => (s, .noClass)
    | some _ => ({ s with insts := s.insts ++ [⟨c, GMap.empty⟩] }, .created s.insts.length)
  | .instCtor c args p v =>
    match s.classes[c]? with
    | none => (s, .noClass)
    | some cl =>
      match buildMap cl.params args GMap.empty with
      | none => (s, .crash)
      | some g =>
        let s' : State := { s with insts := s.insts ++ [⟨c, g⟩] }
        match writeOut s' s.insts.length p v with
        | .rejected => (s, .rejected)          -- the throw aborts `new`; the object is dropped
        | _ => (s', .created s.insts.length)
  | .write i p v => (s, writeOut s i p v)
  | .read i _ =>
    match s.insts[i]? with
    | none => (s, .noInst)
    | some _ => (s, .readOk)

def runFrom (s : State) : List Op → State × List Out
  | [] => (s, [])
  | o :: os =>
    let (s1, r) := step s o
    let (s2, rs) := runFrom s1 os
    (s2, r :: rs)

def init (decls : List Class) : State := ⟨decls, [], fun _ => none⟩

def run (decls : List Class) (h : List Op) : State × List Out := runFrom (init decls) h

/-! ## The code before the fix: `GetProperty` calls `SetType` on the shared declaration -/

/-- `f.SetType(c.GenericMap[gt.Name])` when the stored type is still `Generic`;
returns the updated declarations and the type now stored. -/
def getPropertyShared (cs : List Class) (ci : Nat) (g : GMap) (p : Nat) : List Class × Option (Option Ty) :=
  match cs[ci]? with
  | none => (cs, none)
  | some c =>
    match c.props[p]? with
    | none => (cs, none)
    | some (.generic n) =>
      let nt : PTy := match g.get n with
        | some t => .conc t
        | none => .untyped
      (cs.set ci { c with props := c.props.set p nt }, some (g.get n))
    | some d => (cs, some (subst g d))

def writeShared (s : State) (i p : Nat) (v : Val) : State × Out :=
  match s.insts[i]? with
  | none => (s, .noInst)
  | some o =>
    match s.classes[o.cls]? with
    | none => (s, .noClass)
    | some _ =>
      match getPropertyShared s.classes o.cls o.gmap p with
      | (cs, none) => ({ s with classes := cs }, .accepted)
      | (cs, some ty) => ({ s with classes := cs }, if check ty v then .accepted else .rejected)

def stepShared (s : State) : Op → State × Out
  | .inst c args =>
    match s.classes[c]? with
    | none => (s, .noClass)
    | some cl =>
      match buildMap cl.params args GMap.empty with
      | none => (s, .crash)
      | some g => ({ s with insts := s.insts ++ [⟨c, g⟩] }, .created s.insts.length)
  | .instRaw c =>
    match s.classes[c]? with
    | none => (s, .noClass)
    | some _ => ({ s with insts := s.insts ++ [⟨c, GMap.empty⟩] }, .created s.insts.length)
  | .instCtor c args p v =>
    match s.classes[c]? with
    | none => (s, .noClass)
    | some cl =>
      match buildMap cl.params args GMap.empty with
      | none => (s, .crash)
      | some g =>
        let s' : State := { s with insts := s.insts ++ [⟨c, g⟩] }
        match writeShared s' s.insts.length p v with
        | (s'', .rejected) => ({ s'' with insts := s.insts }, .rejected)
        | (s'', _) => (s'', .created s.insts.length)
  | .write i p v => writeShared s i p v
  | .read i p =>
    match s.insts[i]? with
    | none => (s, .noInst)
    | some o => ({ s with classes := (getPropertyShared s.classes o.cls o.gmap p).1 }, .readOk)
  -- the pre-fix lookup is about property declarations; the node cache and the parameter check are as in `step`
  | .call i name v => (s, callOut s i name v)
  | .instAt site c args =>
    match resolveAt s site c (some args) with
    | (s1, .noClass) => (s1, .noClass)
    | (s1, .crash) => (s1, .crash)
    | (s1, .ok o) => ({ s1 with insts := s1.insts ++ [o] }, .created s1.insts.length)
  | .instRawAt site c =>
    match resolveAt s site c none with
    | (s1, .noClass) => (s1, .noClass)
    | (s1, .crash) => (s1, .crash)
    | (s1, .ok o) => ({ s1 with insts := s1.insts ++ [o] }, .created s1.insts.length)
  | .instCtorAt site c args p v =>
    match resolveAt s site c (some args) with
    | (s1, .noClass) => (s1, .noClass)
    | (s1, .crash) => (s1, .crash)
    | (s1, .ok o) =>
      let s' : State := { s1 with insts := s1.insts ++ [o] }
      match writeShared s' s1.insts.length p v with
      | (s'', .rejected) => ({ s'' with insts := s1.insts }, .rejected)
      | (s'', _) => (s'', .created s1.insts.length)

def runFromShared (s : State) : List Op → State × List Out
  | [] => (s, [])
  | o :: os =>
    let (s1, r) := stepShared s o
    let (s2, rs) := runFromShared s1 os
    (s2, r :: rs)

def runShared (decls : List Class) (h : List Op) : State × List Out := runFromShared (init decls) h

end Model.Gen
