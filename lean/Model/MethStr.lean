/-
C15 — built-in string methods as coded in `data/value_string*.go`.

Argument binding is the one of `Model.Meth` (`callMethodParams`): a declared
parameter without argument holds `null`.  `split` and `substring` declare their
optional parameter with an explicit `null` default and test for `*NullValue`.
The receiver is held by value (`&StringValueXxx{s.Value}`): no string method
can change it.

Lengths, offsets and cut points are **bytes** (see `Model.Text`).
-/
import Model.Meth
import Model.Text
namespace Model.MethStr
open Model.Meth (Val asString slot)
open Model.Text

inductive SRes where
  | int (i : Int)
  | bool (b : Bool)
  | bytes (b : List Nat)            -- a string result given by its bytes (may cut a code point)
  | text (s : List Char)
  | texts (l : List (List Char))
  | crash                           -- Go would panic
  | unsupported                     -- argument type outside the model
  deriving Repr, DecidableEq

/-- the `switch v := searchParam.(type)` of indexOf / replace / startsWith /
endsWith: every scalar through `AsString()`, `null` as the text "null" -/
def argText : Val → List Char
  | .null => "null".toList
  | v => (asString v).toList

/-- length(): `len(s.source)` -/
def length (s : List Char) : SRes := .int (utf8 s).length

/-- indexOf(search): `strings.Index(s.source, searchStr)` — a byte offset -/
def indexOf (s : List Char) (args : List Val) : SRes :=
  match indexFrom (utf8 (argText (slot args 0))) (utf8 s) 0 with
  | some i => .int i
  | none => .int (-1)

/-- integer reading of substring's `start` (`dflt` = 0) and `end` (`dflt` = len):
IntValue itself, BoolValue 0/1, NullValue and other types the default.
Numeric strings (`strconv.Atoi`) and floats are outside the model. -/
def cutArg (v : Val) (dflt : Int) : Option Int :=
  match v with
  | .int i => some i
  | .bool b => some (if b then 1 else 0)
  | .null => some dflt
  | .list _ => some dflt
  | .str _ => none

/-- the clamping of `StringValueSubstring.Call` (with fix C15-substring-swap):
both ends into `0..len`, then `if start > end { start, end = end, start }` -/
def cutBounds (len start stop : Int) : Int × Int :=
  let start := if start < 0 then 0 else start
  let start := if start > len then len else start
  let stop := if stop < 0 then 0 else stop
  let stop := if stop > len then len else stop
  if start > stop then (stop, start) else (start, stop)

/-- substring(start, end?) -/
def substring (s : List Char) (args : List Val) : SRes :=
  let src := utf8 s
  let len : Int := src.length
  match cutArg (slot args 0) 0, cutArg (slot args 1) len with
  | some start, some stop =>
    let p := cutBounds len start stop
    if 0 ≤ p.1 ∧ p.1 ≤ p.2 ∧ p.2 ≤ len then
      .bytes ((src.drop p.1.toNat).take (p.2 - p.1).toNat)      -- s.source[start:end]
    else .crash
  | _, _ => .unsupported

/-- replace(search, replace): `strings.ReplaceAll` -/
def replace (s : List Char) (args : List Val) : SRes :=
  .text (replaceAll s (argText (slot args 0)) (argText (slot args 1)))

/-- split(separator?): `null` (omitted) → `strings.Fields`, else `strings.Split` -/
def split (s : List Char) (args : List Val) : SRes :=
  match slot args 0 with
  | .null => .texts (fields s)
  | v => .texts (Model.Text.split s (asString v).toList)

def trim (s : List Char) : SRes := .text (trimSpace s)
def toUpperCase (s : List Char) : SRes := .text (upper s)
def toLowerCase (s : List Char) : SRes := .text (lower s)

def startsWith (s : List Char) (args : List Val) : SRes :=
  .bool ((argText (slot args 0)).isPrefixOf s)

def endsWith (s : List Char) (args : List Val) : SRes :=
  .bool ((argText (slot args 0)).isSuffixOf s)

end Model.MethStr
