/-!
# C02 — a clause list dispatched through a construction-time table

`switch`, `match`, `if / elseif` (and a `catch` list) are ORDERED scans over their clauses: the tests are evaluated
top to bottom up to and including the first that succeeds, and that clause is the entry point. A seeded change built,
in `NewSwitchStatement`, a map `label → case index` (`table[v] = i`, top to bottom) and let `GetValue` find the start
case with one lookup. This file says what the scan computes (`scanDispatch`), what a table built by a Go loop
`for i, l := range labels { [if _, ok := t[l]; !ok] t[l] = i }` holds (`buildBy guarded`), and which label expressions
each of the two evaluates (`scanEvaluates`; the lookup evaluates none).

Keys are `Nat` (the value of a literal label); a clause is its key and whether evaluating its label has an effect.
-/
namespace Model.CtlTable

/-- the ordered scan: index of the first clause carrying key `k` -/
def scanDispatch : List Nat → Nat → Option Nat
  | [], _ => none
  | l :: ls, k => if l = k then some 0 else (scanDispatch ls k).map (· + 1)

/-- index of the LAST clause carrying key `k` -/
def lastDispatch : List Nat → Nat → Option Nat
  | [], _ => none
  | l :: ls, k =>
    match lastDispatch ls k with
    | some j => some (j + 1)
    | none => if l = k then some 0 else none

/-- a Go map from label value to clause index -/
abbrev Table := Nat → Option Nat

def Table.empty : Table := fun _ => none

/-- `t[k] = i` -/
def Table.set (t : Table) (k i : Nat) : Table := fun x => if x = k then some i else t x

/-- the construction loop: `for i, l := range labels { t[l] = i }`, with (`guarded`) or without
`if _, ok := t[l]; !ok` around the store; `i` = index of the head of the list -/
def buildBy (guarded : Bool) : List Nat → Nat → Table → Table
  | [], _, t => t
  | l :: ls, i, t => buildBy guarded ls (i + 1) (if guarded && (t l).isSome then t else t.set l i)

/-- dispatch through the table: one lookup -/
def tableDispatch (t : Table) (k : Nat) : Option Nat := t k

/-- the reference: the entry point of key `k` is the first clause carrying it -/
def FirstWins (ls : List Nat) (t : Table) : Prop :=
  ∀ k, match t k with
    | some i => ls[i]? = some k ∧ ∀ j, j < i → ls[j]? ≠ some k
    | none => k ∉ ls

/-- a clause: key of the label, and whether evaluating the label expression has an effect -/
structure Clause where
  key : Nat
  effect : Bool
  deriving DecidableEq, Repr

/-- the effects the ordered scan performs for condition `k`: positions of the effectful labels it evaluates (`i` =
position of the head) -/
def scanEffects : List Clause → Nat → Nat → List Nat
  | [], _, _ => []
  | c :: cs, i, k => (if c.effect then [i] else []) ++ (if c.key = k then [] else scanEffects cs (i + 1) k)

end Model.CtlTable
