import Model.Access
/-!
# C07 — how a member's modifier set is derived from the keywords written in front of it

The access nodes (`Model.Access`) enforce the modifier a member CARRIES (`Property.GetModifier()`,
`Method.GetModifier()`); which modifier it carries is decided once, by the parser, from the keywords written in
front of the declaration. Mirrors (file → definition):

* `parser/parameter_parser.go parseSingleParameter`: the leading `for { if checkPositionIs(0, READONLY) { … continue }
  if checkPositionIs(0, PUBLIC, PRIVATE, PROTECTED) { switch … ; continue } break }` in front of a constructor
  parameter → one repeated `Stage`; `paramModifier` starts as `""` (`Mods.vis = none`: the parameter is not promoted);
* the member loops of `parser/class_parser.go` (named class), `new_parser.go` (anonymous class), `trait_parser.go`,
  `enum_parser.go`, `interface_parser.go`: a fixed SEQUENCE of keyword tests in front of the dispatch on
  `var | const | $name | type | function` — `for cur == FINAL || cur == ABSTRACT { … }` (repeated stage),
  `modifier := p.parseModifier()` (a switch that consumes one visibility keyword; its `default:` result is the
  initial value `Parser.init.vis`), `if cur == READONLY { isReadonly = true; next }` (stage taken at most once) …;
* a declaration whose keywords are not all consumed by the stages does not reach the dispatch with a member
  introducer under the cursor: the parser reports an error (`parse = none`).

What each keyword branch ASSIGNS is data in the source: the translator `extract/c07` regenerates
`Generated.C07Decl.parsers` (stage list, per branch the token and the assignments to the variables that are later
handed to `node.NewProperty…` / `parse…WithAnnotations` as modifier / static / readonly / abstract) on every run,
and `parse` is generic over such a `Parser`.
-/
namespace Model.DeclMods
open Model.Access

/-- the boolean parser variables a keyword may set -/
inductive Flag where
  | static | readonly | final | abstract
  /-- a variable the translator could not give a role -/
  | other
deriving DecidableEq, Repr, Inhabited

/-- a modifier keyword in front of a member declaration -/
inductive Kw where
  | vis (v : Mod)     -- `public` / `protected` / `private`
  | flag (f : Flag)   -- `static` / `readonly` / `final` / `abstract`
  | var               -- PHP 4's `var`
deriving DecidableEq, Repr, Inhabited

/-- one assignment inside a keyword branch -/
inductive Act where
  | setVis (v : Mod)    -- `modifier = "private"` / `return "private"` in `parseModifier`
  | setFlag (f : Flag)  -- `isReadonly = true`
deriving DecidableEq, Repr, Inhabited

/-- what the parser knows about the member when it reaches the dispatch -/
structure Mods where
  /-- `none`: the empty string (a constructor parameter that is not promoted) -/
  vis : Option Mod
  static : Bool
  readonly : Bool
  final : Bool
  abstract : Bool
  other : Bool
deriving DecidableEq, Repr, Inhabited

def Mods.setFlag (m : Mods) : Flag → Mods
  | .static => { m with static := true }
  | .readonly => { m with readonly := true }
  | .final => { m with final := true }
  | .abstract => { m with abstract := true }
  | .other => { m with other := true }

def Mods.flag (m : Mods) : Flag → Bool
  | .static => m.static
  | .readonly => m.readonly
  | .final => m.final
  | .abstract => m.abstract
  | .other => m.other

def applyAct (m : Mods) : Act → Mods
  | .setVis v => { m with vis := some v }
  | .setFlag f => m.setFlag f

def applyActs (m : Mods) (as : List Act) : Mods := as.foldl applyAct m

/-- `if cur == tok { acts…; next }` -/
structure Branch where
  tok : Kw
  acts : List Act
deriving DecidableEq, Repr, Inhabited

/-- `rep = true`: `for cur ∈ toks { … }`; `rep = false`: the test is made once -/
structure Stage where
  rep : Bool
  branches : List Branch
deriving DecidableEq, Repr, Inhabited

structure Parser where
  name : String
  /-- the variables before the first keyword is looked at (`init.vis` = what `parseModifier` returns by default) -/
  init : Mods
  stages : List Stage
  /-- `if isAbstractMethod && isFinalMethod { return CompileFatal }` -/
  finalXorAbstract : Bool
deriving DecidableEq, Repr, Inhabited

def findBranch : List Branch → Kw → Option Branch
  | [], _ => none
  | b :: bs, k => if b.tok = k then some b else findBranch bs k

/-- a repeated stage: consume keywords as long as one of the branches matches -/
def runRep (bs : List Branch) : List Kw → Mods → Mods × List Kw
  | [], m => (m, [])
  | k :: ks, m =>
    match findBranch bs k with
    | some b => runRep bs ks (applyActs m b.acts)
    | none => (m, k :: ks)

/-- a stage that is tried once -/
def runOnce (bs : List Branch) : List Kw → Mods → Mods × List Kw
  | [], m => (m, [])
  | k :: ks, m =>
    match findBranch bs k with
    | some b => (applyActs m b.acts, ks)
    | none => (m, k :: ks)

def runStage (st : Stage) (ks : List Kw) (m : Mods) : Mods × List Kw :=
  if st.rep then runRep st.branches ks m else runOnce st.branches ks m

def runStages : List Stage → List Kw → Mods → Mods × List Kw
  | [], ks, m => (m, ks)
  | st :: sts, ks, m =>
    let r := runStage st ks m
    runStages sts r.2 r.1

/-- the modifiers the parser hands to the node constructor for a member written `kws … $name | function | const`;
`none`: the declaration is refused (a keyword is left under the cursor where the member must start, or
`abstract final`) -/
def parse (p : Parser) (kws : List Kw) : Option Mods :=
  let r := runStages p.stages kws p.init
  if r.2 = [] then
    (if p.finalXorAbstract && r.1.final && r.1.abstract then none else some r.1)
  else none

/-! ### what a branch must assign -/

/-- the assignments PHP's meaning of the keyword asks for: a visibility keyword sets the visibility to ITSELF,
every other keyword sets its own flag and nothing else -/
def canon : Kw → List Act
  | .vis v => [.setVis v]
  | .flag f => [.setFlag f]
  | .var => []

def wfBranch (b : Branch) : Bool := b.acts == canon b.tok && b.tok != .flag .other
def wfStage (st : Stage) : Bool := st.branches.all wfBranch
/-- every keyword branch of every stage assigns its own variable, and only that -/
def wf (p : Parser) : Bool := p.stages.all wfStage

/-- a branch of a keyword that is not a visibility keyword assigns the visibility variable
(the kind of change `C07-promoted-readonly-public-override` made) -/
def foreignVis (b : Branch) : Bool :=
  match b.tok with
  | .vis _ => false
  | _ => b.acts.any (fun a => match a with | .setVis _ => true | _ => false)

/-! ### the parsers of the pinned tree (the regenerated ones must equal them) -/

def visBranches : List Branch :=
  [⟨.vis .pub, [.setVis .pub]⟩, ⟨.vis .prot, [.setVis .prot]⟩, ⟨.vis .priv, [.setVis .priv]⟩]

def finalAbstract : Stage :=
  ⟨true, [⟨.flag .final, [.setFlag .final]⟩, ⟨.flag .abstract, [.setFlag .abstract]⟩]⟩

def noMods : Mods := ⟨none, false, false, false, false, false⟩
def pubMods : Mods := ⟨some .pub, false, false, false, false, false⟩

/-- `parseSingleParameter` -/
def pinnedParam : Parser :=
  { name := "param", init := noMods, finalXorAbstract := false,
    stages := [⟨true, [⟨.flag .readonly, [.setFlag .readonly]⟩, ⟨.vis .pub, [.setVis .pub]⟩,
                       ⟨.vis .priv, [.setVis .priv]⟩, ⟨.vis .prot, [.setVis .prot]⟩]⟩] }

/-- the member loop of `ClassParser.Parse` -/
def pinnedClass : Parser :=
  { name := "class", init := pubMods, finalXorAbstract := true,
    stages := [finalAbstract, ⟨false, visBranches⟩, finalAbstract,
               ⟨false, [⟨.flag .readonly, [.setFlag .readonly]⟩]⟩, ⟨false, [⟨.flag .static, [.setFlag .static]⟩]⟩] }

/-- `parseSingleParameter` with the change `C07-promoted-readonly-public-override`: the `readonly` branch also
assigns `paramModifier = "public"` -/
def seededParam : Parser :=
  { pinnedParam with
    stages := [⟨true, [⟨.flag .readonly, [.setFlag .readonly, .setVis .pub]⟩, ⟨.vis .pub, [.setVis .pub]⟩,
                       ⟨.vis .priv, [.setVis .priv]⟩, ⟨.vis .prot, [.setVis .prot]⟩]⟩] }

end Model.DeclMods
