import Model.Chan
/-!
# Model.ChanRacy — the close protocol of `channel.go` *before* fix `C09-close-send-race`

```
Send:  if c.closed { return false }      ← step (idle → sendChecked / returns false)
       c.channel <- v ; return true      ← step (panics when the Go channel is closed)
Close: if !c.closed {                    ← step (idle → closeChecked / returns)
         c.closed = true; close(c.channel) }   ← step (panics when already closed)
```
`closed` was a plain bool with no lock. Kept only to record why the fix was needed: the two
negation witnesses in `Proofs/Properties/C09.lean` were replayed on the pinned code (forced by
yield points at the two `←` boundaries) and killed the process.
-/
namespace Model.ChanRacy
open Model.Chan (Op Msg upd)

inductive Pc | idle | sendChecked | closeChecked
deriving DecidableEq, Repr

structure St where
  cap      : Nat
  prog     : Nat → List Op
  pc       : Nat → Pc := fun _ => .idle
  flag     : Bool := false
  chClosed : Bool := false
  buf      : List Nat := []
  panicked : Bool := false

def init (cap : Nat) (prog : Nat → List Op) : St := { cap := cap, prog := prog }

def St.finish (s : St) (t : Nat) : St :=
  { s with prog := upd s.prog t (s.prog t).tail, pc := upd s.pc t .idle }

def step (s : St) (t : Nat) : Option St :=
  if s.panicked then none else
  match s.pc t, s.prog t with
  | .idle, .send _ :: _ => if s.flag then some (s.finish t) else some { s with pc := upd s.pc t .sendChecked }
  | .sendChecked, .send v :: _ =>
    if s.chClosed then some { s with panicked := true }          -- panic: send on closed channel
    else if s.buf.length < s.cap then some ({ s with buf := s.buf ++ [v] }.finish t)
    else none
  | .idle, .close :: _ => if s.flag then some (s.finish t) else some { s with pc := upd s.pc t .closeChecked }
  | .closeChecked, .close :: _ =>
    if s.chClosed then some { s with flag := true, panicked := true }   -- panic: close of closed channel
    else some ({ s with flag := true, chClosed := true }.finish t)
  | .idle, .recv :: _ =>
    match s.buf with
    | _ :: rest => some ({ s with buf := rest }.finish t)
    | [] => if s.chClosed then some (s.finish t) else none
  | .idle, .isClosed :: _ => some (s.finish t)
  | _, _ => none

def exec (s : St) : List Nat → St
  | [] => s
  | t :: ts => match step s t with
    | some s' => exec s' ts
    | none => exec s ts

end Model.ChanRacy
