/-
C20 — sorting a slice that was collected in Go's map order (round 5).

`ksort`, `krsort`, `strtr`, `get_class_methods` … all do the same three steps:

    keys := make([]string, 0, len(props))
    for k := range props { keys = append(keys, k) }      -- any permutation of the keys
    sort.Slice(keys, func(i, j int) bool { return less(keys[i], keys[j]) })
    … use `keys` in that order …

The collection order is the adversary's (Go randomises it on every execution). Whether it reaches
the result depends on the comparator alone: when two different collected elements tie
(`¬ less a b ∧ ¬ less b a`), the sort leaves them in an order that is a function of the collection
order.

`sort.Slice` is modelled as a *stable* sort (`List.mergeSort`): on fewer than 12 elements Go's
pdqsort is insertion sort, which is stable, and on longer slices it still is a deterministic function
of the input slice — so with a tie the collection order shows either way; the stable sort is the
simplest function that exhibits it. The positive theorems (`Pattern_sort_perm`) hold for *every*
algorithm that returns a sorted permutation.
-/
namespace Model.SortKeys

variable {α ν : Type}

/-- Go's `less(i, j)` says "element i must come before element j". A stable sort may keep `a` in
front of `b` exactly when `b` need not come before `a`. -/
def leOf (less : α → α → Bool) (a b : α) : Bool := !less b a

/-- `sort.Slice(s, less)` / `sort.SliceStable(s, less)` applied to the slice as collected -/
def sortSlice (less : α → α → Bool) (l : List α) : List α := l.mergeSort (leOf less)

/-- a comparator that looks at the elements through a sort key:
`less(a, b) = key(a) < key(b)` (`numericSortKey(ki) < numericSortKey(kj)`, `len(ki) > len(kj)`,
`ms[i].GetName() < ms[j].GetName()`) -/
def byKey (lt : ν → ν → Bool) (f : α → ν) (a b : α) : Bool := lt (f a) (f b)

/-- two different elements the comparator cannot tell apart -/
def tie (less : α → α → Bool) (a b : α) : Prop := less a b = false ∧ less b a = false

/-- Go's `<` on strings: bytewise lexicographic -/
def bytesLt : List Nat → List Nat → Bool
  | [], [] => false
  | [], _ :: _ => true
  | _ :: _, [] => false
  | a :: as, b :: bs => if a < b then true else if b < a then false else bytesLt as bs

/-- the comparator of `ksort` (`ki < kj`) and of `krsort` (`keys[i] > keys[j]`) at the pinned
tree, for every value of `$flags` -/
def rawLess (desc : Bool) (a b : List Nat) : Bool := if desc then bytesLt b a else bytesLt a b

/-- `ksort($a, $flags)` / `krsort($a, $flags)` on a string-keyed array as coded: the keys as the
map iterator delivered them (`collected`), sorted; the array is rebuilt in that order. -/
def ksort (desc : Bool) (collected : List (List Nat)) : List (List Nat) := sortSlice (rawLess desc) collected

end Model.SortKeys
