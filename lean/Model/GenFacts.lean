import Model.Gen
/-!
# Model.GenFacts — what the source has to look like for `Model.Gen` to be a model of it (C19, tie)

`Model.Gen` rests on a handful of facts about the anchored source, all of the kind "this is per
instantiation, that is shared":

* `ClassGeneric.Clone(mT)` builds a NEW class object whose type-argument map is the parameter; the
  declaration (`*ClassStatement`) and the parameter list are shared and never written; any other table a
  method of the class fills lazily (a memo of substituted declarations, …) is NOT taken over from the
  receiver; `Clone` does not hand back an object it kept from an earlier call;
* a `new` AST node keeps the class it resolved — and what it keeps is what it returns (the specialised
  clone); no other AST node of the typed-store / call path keeps anything between executions;
* every typed store obtains the declaration through the run-time object (`GetPropertyStmt`), so the type it
  checks is the one of that object's own instantiation, and rejects exactly on `type != nil && !type.Is(v)`;
* a written type argument reaches `data.NewBaseType` untouched, `data.Class.Is` compares names with `==`,
  the k-th argument goes to the k-th parameter's name.

The translator `extract/c19` regenerates these facts (`Generated.C19…`) from the source on every run.  This
file gives the record types the generated file is written in, and for each group a small PARAMETRISED
version of the corresponding piece of `Model.Gen`: the parameter is the fact, and the instance at the
well-formed fact is the piece of `Model.Gen` itself (proved in `Proofs.Lemmas.GenFacts`).  An ill-formed fact
selects a different machine, on which the guarantee fails (negation witnesses).
-/
namespace Model.GenFacts
open Model.Gen

/-! ## Record types of the generated facts -/

/-- where `Clone` takes the value of a field of the object it returns from -/
inductive Src where
  | receiver   -- from the receiver (`c.F`, `inst := *c`, anything computed from the receiver)
  | param      -- from the `mT` parameter
  | fresh      -- `make(…)`, a literal
  | zero       -- not mentioned / `nil`
  | other
  deriving DecidableEq, Repr, Inhabited

inductive Role where
  | decl       -- the embedded `*ClassStatement`: the class text, shared by every instantiation
  | params     -- the type-parameter list handed out by `GenericList()`
  | tyargs     -- the per-instantiation type-argument map
  | aux        -- anything else
  deriving DecidableEq, Repr, Inhabited

structure Field where
  name : String
  ty : String
  role : Role
  clone : Src
  /-- a method of `ClassGeneric` assigns the field, stores into it, or writes through it after construction -/
  written : Bool
  deriving DecidableEq, Repr, Inhabited

/-- what a `return` of `Clone` hands back -/
inductive Ret where
  | fresh      -- the object constructed by this call
  | stored     -- something read out of the receiver (a memo of earlier instantiations, the receiver itself)
  | other
  deriving DecidableEq, Repr, Inhabited

structure ClassWrite where
  fn : String
  field : String
  how : String
  deriving DecidableEq, Repr, Inhabited

inductive Owner where
  | receiver      -- the map of the class object the method was called on
  | objectClass   -- the map of the class of the run-time object / context handed in
  | nodeState     -- a map reached through the AST node that is executing
  | other
  deriving DecidableEq, Repr, Inhabited

inductive Key where
  | genericName   -- `<data.Generic>.Name`
  | typeString    -- `<declared type>.String()`
  | nodeText      -- the name written at the node (`new T()`)
  | other
  deriving DecidableEq, Repr, Inhabited

structure Lookup where
  fn : String
  owner : Owner
  key : Key
  deriving DecidableEq, Repr, Inhabited

structure NodeWrite where
  node : String
  field : String
  fn : String
  how : String
  value : String
  deriving DecidableEq, Repr, Inhabited

/-- what a resolver leaves in the node field, relative to what it returns -/
inductive Stored where
  | returned   -- the last store before every successful `return x` is `n.f = x`
  | other      -- something else (an earlier value of the variable, what a callee stored, …)
  | none       -- nothing
  deriving DecidableEq, Repr, Inhabited

structure Resolver where
  node : String
  field : String
  fn : String
  /-- the field is read back somewhere (`if n.f != nil { return n.f }`) -/
  cacheRead : Bool
  stored : Stored
  /-- the returned variable is bound to `<generic class>.Clone(<map>)` -/
  specialises : Bool
  deriving DecidableEq, Repr, Inhabited

inductive PropSrc where
  | objLookup    -- `<run-time object>.GetPropertyStmt(name)`
  | objTypeArg   -- a function that reads the type-argument map of the run-time object's class
  | nodeState    -- through the executing AST node (a field or a method of it)
  | other
  deriving DecidableEq, Repr, Inhabited

inductive Conj where
  | typeNotNil | notIs | notNull | other
  deriving DecidableEq, Repr, Inhabited

inductive SiteKind where
  | prop | param
  deriving DecidableEq, Repr, Inhabited

structure Site where
  file : String
  fn : String
  kind : SiteKind
  src : PropSrc
  conj : List Conj
  rejects : Bool
  deriving DecidableEq, Repr, Inhabited

/-- `data.ClassValue.GetPropertyStmt` -/
structure ObjLookup where
  /-- the first thing it does is `<receiver>.Class.GetProperty(name)` -/
  ownClassFirst : Bool
  /-- writes to the object (or through it) made by the lookup -/
  writes : List String
  deriving DecidableEq, Repr, Inhabited

def ObjLookup.ok (o : ObjLookup) : Bool := o.ownClassFirst && o.writes.isEmpty

inductive NameStep where
  | lower | upper
  | other (fn : String)
  deriving DecidableEq, Repr, Inhabited

structure BuildLoop where
  /-- `n.T[i]` is indexed with the index of the loop over the type parameters -/
  indexIsRange : Bool
  /-- the map key is the name of the type parameter of this iteration -/
  keyIsParamName : Bool
  /-- the map filled by the loop is the one handed to `Clone` -/
  mapCloned : Bool
  /-- the result of that `Clone` is what the function returns -/
  cloneReturned : Bool
  ctor : String
  deriving DecidableEq, Repr, Inhabited

inductive CmpOp where
  | eq | fold | other
  deriving DecidableEq, Repr, Inhabited

structure NameCmp where
  fn : String
  op : CmpOp
  /-- the other side is a name as stored (identifier, field, `GetName()`), not a computed string -/
  plainName : Bool
  against : String
  deriving DecidableEq, Repr, Inhabited

/-! ## A. `Clone` and the tables an instantiation keeps -/

/-- some method fills an auxiliary table of the class object lazily -/
def memoised (fs : List Field) : Bool :=
  fs.any fun f => f.role == .aux && f.written

/-- … and `Clone` lets the new object start with the receiver's table -/
def sharedAux (fs : List Field) : Bool :=
  fs.any fun f => f.role == .aux && f.written && !(f.clone == .fresh || f.clone == .zero)

/-- the declaration, the parameter list or the type-argument map is written after construction -/
def sharedWritten (fs : List Field) : Bool :=
  fs.any fun f => f.role != .aux && f.written

def tyargsFromParam (fs : List Field) : Bool :=
  (fs.filter (·.role == .tyargs)).map (·.clone) == [.param]

/-- `Clone` may hand back an object that is not the one it has just built -/
def cloneMemo (rets : List Ret) : Bool :=
  rets.isEmpty || rets.any (· != .fresh)

def CloneWF (fs : List Field) (rets : List Ret) : Bool :=
  tyargsFromParam fs && !sharedAux fs && !sharedWritten fs && !cloneMemo rets

/-- a class object as `GetProperty` sees it: its own type arguments and the table it memoises in -/
structure Obj where
  gmap : GMap
  cell : Nat

/-- the class objects of one generic class (index 0 = the registered, un-instantiated one) and the memo
tables (table ↦ member ↦ effective type of the member as first computed) -/
structure Heap where
  cells : Nat → Nat → Option (Option Ty)
  next : Nat
  objs : List Obj

inductive TOp where
  | clone (g : GMap)       -- `Clone(g)` on the registered class
  | lookup (i p : Nat)     -- `GetProperty(p)` on class object `i`

/-- answer of a lookup: `none` = no such class object, `some none` = member not declared,
`some (some t)` = effective type `t` (`none` = unchecked) -/
abbrev Ans := Option (Option (Option Ty))

def tinit : Heap := ⟨fun _ _ => none, 1, [⟨GMap.empty, 0⟩]⟩

/-- one operation under the discipline (`shared`, `memo`) read off the field table.  A shared table is
modelled at its worst: the template's table exists when `Clone` copies the header. -/
def tstep (shared memo : Bool) (c : Class) (h : Heap) : TOp → Heap × Ans
  | .clone g =>
    if shared then ({ h with objs := h.objs ++ [⟨g, 0⟩] }, none)
    else ({ h with objs := h.objs ++ [⟨g, h.next⟩], next := h.next + 1 }, none)
  | .lookup i p =>
    match h.objs[i]? with
    | none => (h, none)
    | some o =>
      if memo then
        match h.cells o.cell p with
        | some t => (h, some (some t))
        | none =>
          match getProperty c o.gmap p with
          | none => (h, some none)
          | some t =>
            ({ h with cells := fun k q => if k = o.cell ∧ q = p then some t else h.cells k q }, some (some t))
      else (h, some (getProperty c o.gmap p))

def trun (shared memo : Bool) (c : Class) : Heap → List TOp → Heap × List Ans
  | h, [] => (h, [])
  | h, o :: os =>
    let (h1, a) := tstep shared memo c h o
    let (h2, as) := trun shared memo c h1 os
    (h2, a :: as)

/-- what `Model.Gen` assumes: every lookup is `getProperty` with the class object's OWN map -/
def tspec (c : Class) : List GMap → List TOp → List Ans
  | _, [] => []
  | gs, .clone g :: os => none :: tspec c (gs ++ [g]) os
  | gs, .lookup i p :: os => (gs[i]?).map (fun g => getProperty c g p) :: tspec c gs os

/-- the machine the field table selects -/
def trunOf (fs : List Field) (c : Class) (ops : List TOp) : List Ans :=
  (trun (sharedAux fs) (memoised fs) c tinit ops).2

/-- whose type arguments a read of the type-argument map sees: `own` = those of the class object the
operation is about, `kept` = whatever is reachable through the executing AST node -/
def Lookup.map (l : Lookup) (own kept : GMap) : GMap :=
  if l.owner == .receiver || l.owner == .objectClass then own else kept

def Lookup.ok (l : Lookup) : Bool :=
  (l.owner == .receiver || l.owner == .objectClass) && l.key != .other

/-! ### `Clone` that hands back a kept instantiation -/

/-- `Clone` memoised under `key`: the arguments of the instantiation a request for `args` really gets -/
def cloneVia {K : Type} [DecidableEq K] (key : List Ty → K) (tbl : List (K × List Ty)) (args : List Ty) :
    List Ty × List (K × List Ty) :=
  match tbl.find? (fun e => e.1 = key args) with
  | some e => (e.2, tbl)
  | none => (args, (key args, args) :: tbl)

def cloneRun {K : Type} [DecidableEq K] (key : List Ty → K) : List (K × List Ty) → List (List Ty) → List (List Ty)
  | _, [] => []
  | tbl, a :: as =>
    let (r, tbl') := cloneVia key tbl a
    r :: cloneRun key tbl' as

/-- what the sequence of requests gets under the `returns` fact -/
def cloneRunOf {K : Type} [DecidableEq K] (rets : List Ret) (key : List Ty → K) (reqs : List (List Ty)) : List (List Ty) :=
  if cloneMemo rets then cloneRun key [] reqs else reqs

def Ty.code : Ty → Nat
  | .int => 0 | .string => 1 | .array => 2 | .cls n => 3 + n

def insertSorted (x : Nat) : List Nat → List Nat
  | [] => [x]
  | y :: ys => if x ≤ y then x :: y :: ys else y :: insertSorted x ys

/-- "a stable key for a set of type arguments": the sorted argument names -/
def sortedKey (args : List Ty) : List Nat :=
  (args.map Ty.code).foldr insertSorted []

/-! ## C. AST nodes that keep state -/

def Resolver.ok (r : Resolver) : Bool :=
  !r.cacheRead || r.stored != .other

/-- one execution of a node under resolver discipline `r`: `raw` is the registered class, `spec` what
this node's text denotes (the specialised clone; `raw` itself for a plain `new C`) -/
def execNode {α : Type} (r : Resolver) (raw spec : α) (cache : Option α) : α × Option α :=
  match (if r.cacheRead then cache else none) with
  | some x => (x, cache)
  | none =>
    (spec, match r.stored with
      | .returned => some spec
      | .other => some raw
      | .none => cache)

/-- the classes the first `n` executions of one node obtain -/
def nodeRuns {α : Type} (r : Resolver) (raw spec : α) : Nat → Option α → List α
  | 0, _ => []
  | n + 1, cache =>
    let (x, cache') := execNode r raw spec cache
    x :: nodeRuns r raw spec n cache'

/-- `Model.Gen.resolveAt` with the resolver discipline as a parameter -/
def resolveAtR (r : Resolver) (s : State) (site c : Nat) (args : Option (List Ty)) : State × Built :=
  match (if r.cacheRead then s.cache site else none) with
  | some o => (s, .ok o)
  | none =>
    match build s.classes c args with
    | .ok o =>
      let kept : Option Inst :=
        match r.stored with
        | .returned => some o
        | .other => (match build s.classes c none with | .ok w => some w | _ => none)
        | .none => s.cache site
      ({ s with cache := fun k => if k = site then kept else s.cache k }, .ok o)
    | .crash => (s, .crash)
    | .noClass => (s, .noClass)

/-- `new C<args>()` through node `site` under discipline `r` (`Model.Gen.step` on `instAt`) -/
def instAtR (r : Resolver) (s : State) (site c : Nat) (args : List Ty) : State × Out :=
  match resolveAtR r s site c (some args) with
  | (s1, .noClass) => (s1, .noClass)
  | (s1, .crash) => (s1, .crash)
  | (s1, .ok o) => ({ s1 with insts := s1.insts ++ [o] }, .created s1.insts.length)

/-- node state the model knows about: the class cache of `new` nodes -/
def modelledNodeState : List (String × String) := [("NewExpression", "class")]

def NodesWF (ws : List NodeWrite) (rs : List Resolver) (pkgWrites : List String) : Bool :=
  ws.all (fun w => modelledNodeState.contains (w.node, w.field) &&
    rs.any (fun r => r.fn == w.fn && r.node == w.node && r.field == w.field)) &&
  rs.all (fun r => modelledNodeState.contains (r.node, r.field) && r.ok) &&
  pkgWrites.isEmpty

/-! ## E. The type checks of the typed-store / call path -/

def Conj.holds (ty : Option Ty) (v : Val) (extra : Bool) : Conj → Bool
  | .typeNotNil => ty.isSome
  | .notIs => !(check ty v)
  | .notNull => v != .null
  | .other => extra

/-- does the site reject `v`?  `own` = the effective type under the receiver object's own instantiation,
`kept` = whatever the executing node has kept from earlier executions, `extra` = the value of a conjunct the
translator does not understand -/
def Site.rejected (s : Site) (own kept : Option Ty) (extra : Bool) (v : Val) : Bool :=
  s.rejects && s.conj.all (Conj.holds (if s.src == .objLookup || s.src == .objTypeArg then own else kept) v extra)

def Site.ok (s : Site) : Bool :=
  s.rejects && (s.src == .objLookup || s.src == .objTypeArg) &&
  s.conj.contains .notIs && s.conj.contains .typeNotNil &&
  (match s.kind with
   | .prop => s.conj.all (fun c => c == .typeNotNil || c == .notIs)
   | .param => s.conj.contains .notNull && s.conj.all (fun c => c == .typeNotNil || c == .notIs || c == .notNull))

/-! ## D. From the written type argument to the specialised type -/

/-- the wrappers applied to a name, innermost first; `sem` gives each wrapper its meaning -/
def applyChain {N : Type} (sem : NameStep → N → N) : List NameStep → N → N
  | [], n => n
  | s :: rest, n => applyChain sem rest (sem s n)

/-- `Class{Name: f a}.Is(<object of class d>)` when names are compared through `q` (`q = id`: `==`;
`q = lower`: `strings.EqualFold`) -/
def acceptsName {N Q : Type} [DecidableEq Q] (q : N → Q) (f : N → N) (a d : N) : Bool :=
  q (f a) == q d

def NamesWF (arg parse : List NameStep) (cmps : List NameCmp) (loop : BuildLoop) (defaultIsClassOfArg : Bool) : Bool :=
  arg.isEmpty && parse.isEmpty && !cmps.isEmpty && cmps.all (fun c => c.op == .eq && c.plainName) &&
  loop.indexIsRange && loop.keyIsParamName && loop.mapCloned && loop.cloneReturned && loop.ctor == "data.NewBaseType" && defaultIsClassOfArg

/-- names as the interpreter has them -/
abbrev Name := List Char

def lowerName (n : Name) : Name := n.map Char.toLower

def charSem : NameStep → Name → Name
  | .lower, n => lowerName n
  | .upper, n => n.map Char.toUpper
  | .other _, n => n

/-- `resolveClass`'s loop with the argument index as a function of the loop index -/
def buildMapIx (π : Nat → Nat) (args : List Ty) : List Nat → Nat → GMap → Option GMap
  | [], _, m => some m
  | p :: ps, i, m =>
    match args[π i]? with
    | none => none
    | some t => buildMapIx π args ps (i + 1) (m.set p t)

/-! ## F. The argument-binding loops of the generic call path

`createInstanceAndCallConstructorWithStmt` (the constructor of `new C<…>(…)`) and `CallObjectMethod` each have
their own copy of the loop that binds the arguments of a call to the parameters, one `bindTypedParameter`
(= one `Site` of kind `param`) per position.  What the loop does with the results is regenerated
(`Generated.C19.bindLoops`). -/

inductive LoopShape where
  | eachChecked   -- the result of binding one argument is tested (and returned) before the next one is bound
  | lastOnly      -- the results are kept in ONE variable that is tested after the loop
  | unchecked     -- the result is dropped
  | other
  deriving DecidableEq, Repr, Inhabited

structure BindLoop where
  file : String
  fn : String
  shape : LoopShape
  deriving DecidableEq, Repr, Inhabited

/-- one argument position of a call: the effective type of the parameter under the receiver object's OWN
instantiation (`none`: untyped parameter / raw instantiation) and the value passed -/
abbrev Arg := Option Ty × Val

/-- what a well-formed `param` site answers for this position (`C19_sites_generic`) -/
def argRefused (a : Arg) : Bool := a.2 != .null && !(check a.1 a.2)

/-- the loop as written in the unchanged code: the first refusal leaves the function; the parameters bound so far
are all that happened.  Result: (call refused?, per position reached: parameter bound?) -/
def bindEach : List Arg → Bool × List Bool
  | [] => (false, [])
  | a :: as => if argRefused a then (true, []) else ((bindEach as).1, true :: (bindEach as).2)

/-- the loop with ONE result variable: every iteration overwrites what the one before left -/
def bindLastGo (ctl : Bool) : List Arg → Bool
  | [] => ctl
  | a :: as => bindLastGo (argRefused a) as

/-- a binding loop of the given shape run over the arguments of one call: is the call refused (no body, no
instance), and which parameters are bound when the loop is left (a refused position binds nothing) -/
def bindRun : LoopShape → List Arg → Bool × List Bool
  | .eachChecked, args => bindEach args
  | .lastOnly, args => (bindLastGo false args, args.map (fun a => !argRefused a))
  | _, args => (false, args.map (fun a => !argRefused a))

def BindLoop.ok (l : BindLoop) : Bool := l.shape == .eachChecked

def BindLoopsWF (ls : List BindLoop) : Bool :=
  ls.all BindLoop.ok && ls.any (·.file == "new.go") && ls.any (·.file == "call_object_method.go")

end Model.GenFacts
