import Model.AccessDecl
/-!
# C07 — how a piece of code comes to run: entry paths and the scope class

`node/visibility.go scopeClassOf` answers "whose code is running" from per-call state:

    case *data.ClassMethodContext:  if c.SelfClass != nil { return c.SelfClass };  return c.Class

`SelfClass` — the class in whose text the code is written — is not a property of the context when it is created;
each way of ENTERING a body has to record it before the first statement of that body runs:

    ClassMethod.Call            first statement: `cmc.SelfClass = lexicalClassOfMethod(…)`; after it the function
                                leaves through several exits: the generator branch (`if m.IsGenerator { … return }`:
                                the body runs LATER, in this very context, driven by the consumer of the generator),
                                the depth-limit error, the body loop
    LambdaExpression.Call       `cmc.SelfClass = defineClassCtx.SelfClass` (closures, arrow functions; called inside
                                the method or long after it returned)
    FunctionStatement.Call      the same for a function declared inside a method

An entry path that does not record it leaves `SelfClass == nil`, and `scopeClassOf` falls back to the RUNTIME class
of `$this`: inherited code is then judged as code of the receiver's class — it reaches the subclass's private
members and is refused its own. `Entry.records` is that one bit per path; which paths exist and whether each
records the class is regenerated from the source (`Generated.C07Access.entryPaths`).
-/
namespace Model.ScopeEntry
open Model.Access Model.AccessDecl

/-- one way a body written in a class comes to run -/
structure Entry where
  name : String
  /-- the path records the class of the code (`SelfClass`) before a statement of the body can run -/
  records : Bool
deriving DecidableEq, Repr, Inhabited

/-- `scopeClassOf` on the context the body runs in: `lexical` is the class where the code is written, `runtime`
the class of `$this` in that context -/
def scopeOf (e : Entry) (lexical runtime : Name) : Name :=
  if e.records then lexical else runtime

/-- the access decision (`Model.AccessDecl.accessJ`) taken by code that was entered through `e` -/
def accessVia (H : Hier) (fb : Fallback) (j : Judge) (D : Decls) (e : Entry) (lexical runtime recv : Name) : Ans :=
  accessJ H fb j D (some (scopeOf e lexical runtime)) recv

/-- look an entry path up by name; a path the translator does not list is taken to record the class (the harness
then meets the difference as a mismatch) -/
def find (es : List Entry) (n : String) : Entry :=
  (es.find? (fun e => e.name == n)).getD ⟨n, true⟩

/-- the paths as the repaired interpreter has them -/
def pinned : List Entry :=
  [⟨"generator", true⟩, ⟨"depthLimit", true⟩, ⟨"body", true⟩, ⟨"closure", true⟩, ⟨"functionInMethod", true⟩]

/-- the seeded change `C07-generator-method-scope-unset`: the recording statement below the generator branch -/
def seeded : List Entry :=
  [⟨"generator", false⟩, ⟨"depthLimit", false⟩, ⟨"body", true⟩, ⟨"closure", true⟩, ⟨"functionInMethod", true⟩]

end Model.ScopeEntry
