import Model.Exc
/-!
# C05 — the clause list of a `try` statement: how it is built, how it is scanned, what may be rewritten

`Model.Exc.execC` mirrors the scan of `node/try.go tryValue` over `t.CatchBlocks`. Two pieces of glue sit between the
source text of a `try` statement and that scan, and `Model.Exc` says nothing about them:

* `parser/try_parser.go TryParser.Parse` builds the list: a loop `for p.checkPositionIs(0, token.CATCH)` parses one
  clause per trip and appends it to `catchBlocks`, which goes to `node.NewTryStatement` as it is. A "parse-time
  optimisation" that leaves a clause out (or reorders, merges, folds) changes the list the scan sees — soundly for some
  clause lists only. `ClauseLoop` is what the translator `extract/c05` reports of that loop; `built` is the list it
  produces from the clauses of the source.
* the scan itself: one forward `range` over `t.CatchBlocks` whose body is `if catchTypeMatches(…) { …; return }` —
  `ScanLoop`, with `ScanLoop.select` the clause such a loop ends up running.

Also here: `sel`, the closed form of `execC` (index and body of the clause the scan stops at); `keepC`, a clause list
filtered by a predicate (what *any* rewrite that only leaves clauses out does); `hide`, the projection of a trace to
the markers a script rendered *without* some of its markers prints (the harness' shape streams render catch bodies
that are exactly `throw $e;`, empty, `return` … — a rewrite keyed on the shape of a body never triggers on a body that
starts with a marker).
-/
namespace Model.Exc
open Model.Hier (Name Graph)

/-! ### the clause the scan stops at -/

/-- a catch clause: the types it names and its body -/
abbrev Clause := List Name × Block

def Catches.toList : Catches → List Clause
  | .nil => []
  | .cons tys body rest => (tys, body) :: rest.toList

def Catches.ofList : List Clause → Catches
  | [] => .nil
  | (tys, body) :: rest => .cons tys body (Catches.ofList rest)

/-- index (source order, 0-based) and body of the first clause whose `catchTypeMatches` answers yes -/
def sel (G : Graph) (x : Thrown) : Catches → Option (Nat × Block)
  | .nil => none
  | .cons tys body rest =>
    if clauseMatches G tys x then some (0, body) else (sel G x rest).map (fun p => (p.1 + 1, p.2))

/-- what the catch phase does once the scan has stopped (`k` = index of the head of the scanned list): run the body of
the selected clause after its `caught` event with the variable bound to `x`, or leave `x` pending -/
def handleWith (G : Graph) (cfg : Cfg) (A : Act) (i k : Nat) (x : Thrown) (tr : List Ev) : Option (Nat × Block) → Res
  | none => (.thr x, tr)
  | some (j, h) => execB G cfg (some x) A h (tr ++ [.caught A.lvl i (k + j) x])

/-- the same on lists: the first clause that matches -/
def selClause (G : Graph) (x : Thrown) (cs : List Clause) : Option Clause :=
  cs.find? (fun c => clauseMatches G c.1 x)

/-- the clause list with the clauses that fail `keep` left out -/
def keepC (keep : Clause → Bool) : Catches → Catches
  | .nil => .nil
  | .cons tys body rest => if keep (tys, body) then .cons tys body (keepC keep rest) else keepC keep rest

/-- the body is exactly `throw $e;` -/
def rethrowOnly : Block → Bool
  | .cons .rethrow .nil => true
  | _ => false

/-- the body is empty -/
def emptyBody : Block → Bool
  | .nil => true
  | _ => false

/-! ### a script rendered without some of its markers -/

/-- the markers a rendering leaves out: `echo "T<i>;"` of try blocks, `echo "F<i>;"` of finally blocks,
`echo "C<i>.<k>:…"` of clauses (by try id and clause index, whatever the activation) -/
structure Quiet where
  tries : List Nat
  fins : List Nat
  clauses : List (Nat × Nat)
deriving Repr

def Quiet.shows (q : Quiet) : Ev → Bool
  | .enterTry _ i => !q.tries.contains i
  | .enterFinally _ i => !q.fins.contains i
  | .caught _ i k _ => !q.clauses.contains (i, k)
  | _ => true

/-- what the script prints: the events of the parts that kept their marker -/
def hide (q : Quiet) (tr : List Ev) : List Ev := tr.filter q.shows

/-- a run seen through a rendering: the way it ends is untouched -/
def observe (q : Quiet) (r : Final × List Ev) : Final × List Ev := (r.1, hide q r.2)

end Model.Exc

namespace Model.ExcShape
open Model.Exc (Clause Thrown clauseMatches)
open Model.Hier (Graph)

/-! ### `TryParser.Parse`: the loop that builds the clause list -/

/-- an `if` condition around a statement of the clause loop, as the translator classifies it -/
inductive Guard where
  | always (src : String)   -- cannot fail for a clause that was parsed without error: `catchBlock != nil`
  | never (src : String)    -- cannot hold for such a clause: `catchBlock == nil`
  | other (src : String)    -- anything else: a test on the clause (its body, its type, its variable …)
deriving DecidableEq, Repr

/-- what is stored into one of the three variables that `node.NewTryStatement` receives -/
inductive Stored where
  | parsedBlock             -- `v, acl = p.parseBlock()`
  | appendParsed            -- `v = append(v, *c)` with `c` the result of `p.parseCatchBlock(…)` of this trip
  | other (src : String)
deriving DecidableEq, Repr

structure Write where
  role : String             -- "try" | "catch" | "finally": which argument of NewTryStatement the variable is
  stored : Stored
  inClauseLoop : Bool
  guards : List Guard       -- the conditions the statement is under, outermost first (the loop condition excluded)
deriving DecidableEq, Repr

/-- facts about `TryParser.Parse` and `parseCatchBlock` -/
structure ParserFacts where
  writes : List Write
  skips : List (List Guard)         -- every `continue` / `break` / `goto` inside the clause loop, with its conditions
  tryReturns : Nat                  -- returns of `node.NewTryStatement(_, <try var>, <catch var>, <finally var>)`
  otherReturns : List String        -- any other non-error return of Parse (a different node, a re-wrapped statement)
  clauseBodyParsed : Bool           -- parseCatchBlock returns &node.CatchBlock{…, Body: <v>} with `v` written once, from p.parseBlock()
  clauseReturns : Nat               -- non-error returns of parseCatchBlock (exactly that literal)
deriving Repr

def Guard.holds (ev : String → Clause → Bool) : Guard → Clause → Bool
  | .always _, _ => true
  | .never _, _ => false
  | .other s, c => ev s c

def ParserFacts.appends (F : ParserFacts) : List Write :=
  F.writes.filter (fun w => w.role == "catch" && w.stored == .appendParsed && w.inClauseLoop)

/-- one trip of the clause loop for the parsed clause `c`: a `continue` / `break` whose conditions hold ends the trip
(read as placed before the appends — the pessimistic reading; `clauseLoopOK` admits no skip that can fire anyway),
otherwise every append whose conditions hold stores `c` -/
def step (ev : String → Clause → Bool) (F : ParserFacts) (acc : List Clause) (c : Clause) : List Clause :=
  if F.skips.any (fun gs => gs.all (fun g => g.holds ev c)) then acc
  else acc ++ (F.appends.filter (fun w => w.guards.all (fun g => g.holds ev c))).map (fun _ => c)

/-- the list `NewTryStatement` receives when the source has the clauses `src`, in this order; `ev` gives the value
of every `other` test on every clause -/
def built (ev : String → Clause → Bool) (F : ParserFacts) (src : List Clause) : List Clause :=
  src.foldl (step ev F) []

def Guard.isAlways : Guard → Bool
  | .always _ => true
  | _ => false

def Guard.isNever : Guard → Bool
  | .never _ => true
  | _ => false

/-- every parsed clause is appended, once, whatever it looks like; nothing else touches the list -/
def clauseLoopOK (F : ParserFacts) : Bool :=
  (match F.appends with
   | [w] => w.guards.all Guard.isAlways
   | _ => false) &&
  F.skips.all (fun gs => gs.any Guard.isNever) &&
  (F.writes.filter (fun w => w.role == "catch")).length == 1

/-- the try block and the finally block are what `parseBlock` returned, stored once; the statement is returned as
built; a clause's body is what `parseBlock` returned -/
def blocksOK (F : ParserFacts) : Bool :=
  (F.writes.filter (fun w => w.role == "try")).all (fun w => w.stored == .parsedBlock && w.guards.isEmpty && !w.inClauseLoop) &&
  (F.writes.filter (fun w => w.role == "try")).length == 1 &&
  (F.writes.filter (fun w => w.role == "finally")).all (fun w => w.stored == .parsedBlock && !w.inClauseLoop) &&
  (F.writes.filter (fun w => w.role == "finally")).length == 1 &&
  F.tryReturns == 1 && F.otherReturns.isEmpty && F.clauseBodyParsed && F.clauseReturns == 1

def parserOK (F : ParserFacts) : Bool := clauseLoopOK F && blocksOK F

/-! ### `tryValue`: the loop that scans the clause list -/

/-- one loop over `t.CatchBlocks` in `node/try.go` -/
structure ScanLoop where
  fn : String
  forward : Bool            -- `for _, cb := range t.CatchBlocks` (not an index loop, not reversed)
  testIsMatch : Bool        -- the body is one `if catchTypeMatches(cb.ExceptionType, <thrown>) { … }`, nothing else, no else
  stopsAtMatch : Bool       -- that `if` block cannot fall out of its end: every path returns
deriving DecidableEq, Repr

structure ScanFacts where
  loops : List ScanLoop
  otherUses : List String   -- every other mention of `.CatchBlocks` in node/ (reads, writes, re-slices), as `file:func`
  storedAsGiven : Bool      -- NewTryStatement stores its `catchBlocks` parameter in the field, untouched
deriving Repr

/-- the clause whose body such a loop ends up running for the thrown value `x`: the first match when the loop stops
at a match, the last one when it goes on (the later result overwrites the earlier), from the other end when the
order is reversed -/
def ScanLoop.select (l : ScanLoop) (G : Graph) (x : Thrown) (cs : List Clause) : Option Clause :=
  let cs := if l.forward then cs else cs.reverse
  if l.stopsAtMatch then cs.find? (fun c => clauseMatches G c.1 x)
  else cs.reverse.find? (fun c => clauseMatches G c.1 x)

/-- several loops one after the other (a "fast path" first): the first that finds a clause decides -/
def scanSelect (G : Graph) (x : Thrown) (cs : List Clause) : List ScanLoop → Option Clause
  | [] => none
  | l :: rest =>
    match l.select G x cs with
    | some c => some c
    | none => scanSelect G x cs rest

def scanOK (S : ScanFacts) : Bool :=
  (match S.loops with
   | [l] => l.forward && l.testIsMatch && l.stopsAtMatch
   | _ => false) && S.otherUses.isEmpty && S.storedAsGiven

end Model.ExcShape
