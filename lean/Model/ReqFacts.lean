import Model.Req
/-!
Shape of the facts the translator `extract/c11` regenerates from the source on every run
(`lean/Generated/C11Superglobals.lean`), and the decidable predicates stated over them.
-/
namespace Model.Req

/-- one superglobal node type of `node/globals_*_variable.go` -/
structure CellFact where
  kind  : Kind
  name  : String          -- "$_GET"
  vars  : List String     -- package-level variables its `GetValue` reads or assigns (directly or
                          -- through package functions it calls); `[]` = it goes through none
  reset : Bool            -- every one of them is set to nil by `ResetSuperglobals`
  deriving DecidableEq, Repr

/-- one function of `std/net/http` that receives `(ResponseWriter, *Request)` -/
structure EntryFact where
  name         : String
  runsScript   : Bool     -- it calls script code (`X.Call(ctx)` / `executeMiddlewareChain`)
  resetsFirst  : Bool     -- its first statement is `node.ResetSuperglobals()`
  freshContext : Bool     -- every context it hands to script code is created inside it (`CreateContext`)
  nested       : Bool     -- registered on a mux that is local to a function called from script code
  deriving DecidableEq, Repr

structure PkgVar where
  pkg  : String
  name : String
  type : String
  deriving DecidableEq, Repr

/-- a store into a field of its own receiver by an evaluation-time method (one with a
`data.Context` parameter, or a method of the same receiver such a method calls) of a type of
package `node` -/
structure NodeWrite where
  typ         : String
  method      : String
  field       : String
  parserBuilt : Bool   -- package parser constructs the type: the receiver is a syntax node, shared by
                       -- every request that runs the code (false: an object made per evaluation)
  called      : Bool   -- a call `.method(` exists somewhere in the repository
  deriving DecidableEq, Repr

/-- one place where the interpreter enters a process-wide counter of the VM (a call of a method
of `runtime.VM` that increments a numeric field, e.g. `vm.EnterCall()` → `VM.callDepth`) -/
structure DepthGuard where
  fn        : String        -- the Go function executing the frame: "node.ClassMethod.Call"
  counter   : String        -- the field the entered method increments: "VM.callDepth"
  limit     : Nat           -- the constant the value returned by the increment is compared with (`> limit`); 0 = none
  decidesOn : String        -- "own":    every refusal (return) under `shared > limit` is nested in
                            --           `if own := <goroutine-local frame count>(); own > ownLimit`
                            -- "shared": a refusal is decided by the process-wide number alone
                            -- "never":  the counter is entered but nothing is refused here
  ownLimit  : Nat           -- the constant the goroutine-local count is compared with (0 = none)
  ownCounts : List String   -- the Go functions whose frames the goroutine-local count counts ("node.ClassMethod.Call")
  balanced  : Bool          -- the refusal path leaves the counter before returning and a `defer …Leave…()` follows the guard
  deriving DecidableEq, Repr

/-- a numeric field of `runtime.VM` / `runtime.TempVM` (process-wide: one VM serves all requests) -/
structure VMCounter where
  name   : String           -- "VM.callDepth"
  type   : String           -- "atomic.Int64"
  atomic : Bool
  deriving DecidableEq, Repr

/-- one use of a package-level map / `sync.Map` of `std/net/http` (every non-test Go file): the
registries in which the request path keeps per-request state for the whole process -/
structure RegistrySite where
  var   : String   -- the package-level variable: "requestFormatterSlots"
  fn    : String   -- the function the site is in: "attachRequestFormatter"
  op    : String   -- Store | Load | LoadOrStore | LoadAndDelete | Delete | Swap | CompareAndSwap |
                   -- CompareAndDelete (sync.Map), index | index-assign | delete (plain map),
                   -- call (a call of a function that uses its parameter as such a key: fn = caller→callee),
                   -- Range | Clear | range | escapes | method:<m> (the whole map is walked, cleared or handed on)
  key   : String   -- the key expression as written: "r"
  keyIs : String   -- "request": an identifier declared `*http.Request` in that function — the request's
                   -- identity; "derived:<why>": anything computed (`r.Context()`, `requestKey(r)`, a
                   -- string, an int …); "none": the operation has no key
  deriving DecidableEq, Repr

/-- round 7: what a method of package `node` does with a value it read out of a context kept in a
field of its own receiver (the environment a closure was DEFINED in — it lives as long as the
closure, for a route handler as long as the server): `op` = `copy` (`X.SetVariableValue(var, v)`:
the slot store that copies value types), `alias` (`X.SetIndexZVal(i, z)`: the callee's slot is the
environment's slot; `guard = "byref"` iff under `if _, ok := ….(*VariableReference); ok`), `direct`
(the pointer stored as is: `zv.Value = v`), `escape` (handed to another function) -/
structure CaptureBind where
  fn    : String
  env   : String
  op    : String
  guard : String
  text  : String
  deriving DecidableEq, Repr

/-- one case of the type switch of `runtime.(*Context).SetVariableValue`: the case type and the
`Clone…` function applied before the store ("" = stored as is) -/
structure SlotCopy where
  typ   : String
  clone : String
  deriving DecidableEq, Repr

/-- round 8: a store into another package's package-level variable (`data.WriteOutput = …`: a process-wide
"current" hook) made by per-request code (`pkg = "std/net/http"`) or by a script-callable function
(`pkg = "std/php/core"`) -/
structure HookStore where
  pkg    : String
  fn     : String
  target : String
  deriving DecidableEq, Repr

structure Facts where
  cells           : List CellFact
  entries         : List EntryFact
  outerReset      : Bool   -- `finalizeHandler`'s outermost wrapper resets the caches before serving
  routesFinalized : Bool   -- every registration on a Server's mux passes its handler through `finalizeHandler`
  pkgVars         : List PkgVar   -- package-level variables of std/net/http and node/globals_*.go, env_lookup.go
  nodeWrites      : List NodeWrite -- stores of evaluation-time methods of package node into their own receiver
  depthGuards     : List DepthGuard -- every place that enters a process-wide counter of the VM
  vmCounters      : List VMCounter  -- numeric fields of the VM types
  registries      : List RegistrySite -- every use of a package-level map / sync.Map of std/net/http
  captureBinds    : List CaptureBind  -- what closures do with values read from their definition-time environment
  slotCopies      : List SlotCopy     -- the type switch of the slot store `(*Context).SetVariableValue`
  hookStores      : List HookStore := [] -- stores into process-wide hooks of other packages from per-request / per-call code
  shape           : List String   -- places where the source no longer has the shape the translator understands
  deriving Repr

/-- where the cache cell of a kind lives on the analysed tree (unknown kind: assume the worst) -/
def Facts.scope (f : Facts) (k : Kind) : Scope :=
  match f.cells.find? (fun c => c.kind = k) with
  | some c => if c.vars.isEmpty then .perRequest else .packageLevel
  | none => .packageLevel

/-- the closure handler (`Handler.ServeHTTP`) resets the caches before running the script -/
def Facts.handlerResets (f : Facts) : Bool :=
  match f.entries.find? (fun e => e.name = "Handler.ServeHTTP") with
  | some e => e.resetsFirst
  | none => false

/-- everything of a request (middlewares included) runs after a reset -/
def Facts.outer (f : Facts) : Bool := f.outerReset && f.routesFinalized

/-- `Generated.C11Superglobals.all_per_request` of DESIGN §5 -/
def Facts.allPerRequest (f : Facts) : Bool := Kind.all.all (fun k => f.scope k = .perRequest)

/-- package-level state of the request path that is keyed by the request (and dropped when it ends) -/
def requestKeyed : List PkgVar :=
  [⟨"std/net/http", "requestAttrBags", "sync.Map"⟩, ⟨"std/net/http", "requestFormatterSlots", "sync.Map"⟩]

/-- caches of `os.Args` (`$argv`, `$argc`): filled once, the same for every request -/
def processConstant : List PkgVar :=
  [⟨"node", "argvValue", "*data.ArrayValue"⟩, ⟨"node", "argcValue", "*data.IntValue"⟩]

/-! ### Per-evaluation state must not be kept in syntax nodes

The AST of a handler is shared by all requests.  A value a request *creates* by evaluating a
node (a closure, a generator, an object) must therefore live in a fresh Go object, never in a
field of the node itself: `f.ctx = ctx; return NewFuncValue(f)` in `LambdaExpression.GetValue`
would hand every request the same closure value, whose `$this` / captured variables are those
of whichever request evaluated the literal last.  The translator lists every store of an
evaluation-time method into its receiver; the ones allowed on syntax nodes are the two groups
below (type, field — the method name may change), everything else is a violation. -/

/-- memo of the *definition* a syntax node names — the function or class looked up by name in
the VM's process-wide registry, or the call node built from it: the same for every request
that evaluates the node, whoever stores it first -/
def definitionMemo : List (String × String) :=
  [("Annotation", "class"),                 -- attribute class, `GetOrLoadClass(a.Name)`
   ("CallFunctionLater", "Fun"),            -- function by name, `GetFunc(c.Name)`
   ("CallLater", "Fun"), ("CallLater", "FunName"),   -- function by (namespaced) name
   ("CallStaticMethodLater", "call"),       -- `NewCallStaticMethod(class by name, method)`
   ("CallStaticPropertyLater", "access"),   -- `NewCallStaticProperty(class by name, property)`
   ("NewClassGenerated", "class"),          -- class by name (generic instantiation of it)
   ("NewExpression", "class")]              -- class by name

/-- process-wide by the language's design and excluded by the property's assumptions: the
cells of `static $x` locals of a function / method, the value of a static property -/
def sharedByDesign : List (String × String) :=
  [("ClassMethod", "staticLocals"), ("FunctionStatement", "staticLocals"), ("ClassProperty", "DefaultValue")]

/-- stores into syntax nodes that are neither definition memos nor shared by design.  Stores of
types the parser never builds (generator / loop resumption states: `FuncYieldStackState`,
`ForYieldControl`, `ForeachArrayYieldControl`, `YieldFromControl`, `arrayGenerator` — created by
the call that starts the generator) and of methods nothing calls are not on the request path. -/
def Facts.nodeWriteViolations (f : Facts) : List String :=
  ((f.nodeWrites.filter (fun w => w.parserBuilt && w.called &&
      !(definitionMemo.contains (w.typ, w.field)) && !(sharedByDesign.contains (w.typ, w.field)))).map
    (fun w => "nodewrite:" ++ w.typ ++ "." ++ w.method ++ "." ++ w.field)).eraseDups

/-! ### By-value captures copy every mutable kind of value

A closure's definition-time environment outlives every call; the route handler is ONE closure for
all requests.  A by-value capture must hand each call its own copy of every value that can be
changed in place — arrays and `{k: v}` objects (value types of the language; the foreach cursor is
part of the value) —, i.e. go through the slot store, and the slot store must clone these kinds.
Scalars, closures and class instances (handles, shared by the language's design) need no copy. -/

/-- the Go types of the values that are mutable in place and have value semantics -/
def mutableValueTypes : List String := ["ArrayValue", "ObjectValue"]

/-- does the slot store clone values of this Go type? -/
def Facts.slotClones (f : Facts) (typ : String) : Bool :=
  f.slotCopies.any (fun c => c.typ == typ && c.clone != "")

def Facts.captureViolations (f : Facts) : List String :=
  ((f.captureBinds.filter (fun b => b.op == "direct")).map
      (fun b => "capture-stored-without-copy:" ++ b.fn ++ ":" ++ b.text)) ++
  ((f.captureBinds.filter (fun b => b.op == "alias" && b.guard != "byref")).map
      (fun b => "capture-aliased-without-reference:" ++ b.fn ++ ":" ++ b.text)) ++
  ((f.captureBinds.filter (fun b => b.op == "escape")).map
      (fun b => "capture-escapes:" ++ b.fn ++ ":" ++ b.text)) ++
  ((f.captureBinds.filter (fun b => !(["copy", "alias", "direct", "escape"].contains b.op))).map
      (fun b => "capture-unknown-op:" ++ b.fn ++ ":" ++ b.op)) ++
  (if f.captureBinds.any (fun b => b.fn == "LambdaExpression.Call" && b.op == "copy") then []
   else ["capture-binder-without-copying-store:LambdaExpression.Call"]) ++
  ((mutableValueTypes.filter (fun t => !f.slotClones t)).map (fun t => "slot-store-does-not-copy:" ++ t))

/-! ### Process-wide "current" hooks (round 8)

A request that points a process-wide hook at itself and puts the previous value back when it ends is
right for nested requests only (`Model.ReqOut`, `C11_output_overlap_leaks`). -/

/-- stores made by the request path itself -/
def Facts.requestHookStores (f : Facts) : List HookStore :=
  f.hookStores.filter (fun h => h.pkg == "std/net/http")

def Facts.hookViolations (f : Facts) : List String :=
  f.hookStores.map (fun h =>
    (if h.pkg == "std/net/http" then "request-path-swaps-process-hook:" else "script-function-swaps-process-hook:")
      ++ h.fn ++ ":" ++ h.target)

/-- known: the `ob_*` family keeps ONE buffer stack per process and points `data.WriteOutput` at its top
(finding `output:ob-shared-buffer`) -/
def knownHookViolations : List String :=
  ["script-function-swaps-process-hook:outputBufferStack.syncWriter:data.WriteOutput"]

/-- the isolation violations visible in the facts: superglobals cached in package-level
variables, cached variables the reset does not clear, any other package-level variable on
the request path that is not keyed by the request, per-evaluation state stored in a syntax node,
and unknown shapes -/
def Facts.violations (f : Facts) : List String :=
  (f.cells.filter (fun c => !c.vars.isEmpty)).map (fun c => "shared:" ++ c.name) ++
  (f.cells.filter (fun c => !c.reset)).map (fun c => "not-reset:" ++ c.name) ++
  (Kind.all.filter (fun k => (f.cells.find? (fun c => c.kind = k)).isNone)).map (fun k => "no-fact:" ++ reprStr k) ++
  ((f.pkgVars.filter (fun v => !(requestKeyed.contains v) && !(processConstant.contains v) &&
      !(f.cells.any (fun c => c.vars.contains v.name)))).map (fun v => "pkgvar:" ++ v.pkg ++ "." ++ v.name)) ++
  f.nodeWriteViolations ++
  f.captureViolations ++
  f.shape.map (fun s => "shape:" ++ s)

/-! ### Registries of per-request state are keyed by the request's identity

State a request keeps in a process-wide registry (the `onFormat` slot, the attribute bag) stays
its own only if the key under which it stores, loads and deletes identifies the request uniquely
among the requests in flight: the `*http.Request` pointer does (net/http makes one per request and
the registry itself keeps it alive until the entry is deleted).  Anything derived from the
request — its `Context()` (equal for all requests built in-process: `context.Background()`), URL,
client address, a header, a counter that is recycled — can coincide for two requests in flight:
they then share the entry, and the first to finish deletes it for the other.  The translator
lists every use of every package-level map of `std/net/http` with its key expression. -/

def keyedOps : List String :=
  ["Store", "Load", "LoadOrStore", "LoadAndDelete", "Delete", "Swap", "CompareAndSwap", "CompareAndDelete",
   "index", "index-assign", "delete", "call"]

def deleteOps : List String := ["Delete", "LoadAndDelete", "CompareAndDelete", "delete"]

/-- what the facts show against request-keyed registries, by name -/
def Facts.registryViolations (f : Facts) : List String :=
  List.eraseDups <|
  -- a key that is not the request itself
  ((f.registries.filter (fun s => keyedOps.contains s.op && s.keyIs != "request")).map
      (fun s => "registry-key-not-request-identity:" ++ s.var ++ ":" ++ s.fn ++ ":" ++ s.key)) ++
  -- the whole registry walked / cleared / handed on: entries of other requests are reached
  ((f.registries.filter (fun s => !(keyedOps.contains s.op))).map
      (fun s => "registry-swept:" ++ s.var ++ ":" ++ s.fn ++ ":" ++ s.op)) ++
  -- a registry the model was told is request-keyed but nothing uses / nothing ever deletes from
  ((requestKeyed.filter (fun v => !(f.registries.any (fun s => s.var == v.name)))).map
      (fun v => "registry-without-sites:" ++ v.name)) ++
  ((requestKeyed.filter (fun v => f.registries.any (fun s => s.var == v.name) &&
        !(f.registries.any (fun s => s.var == v.name && deleteOps.contains s.op)))).map
      (fun v => "registry-never-detached:" ++ v.name)) ++
  -- a registry with sites that is not in the list of request-keyed package variables
  ((f.registries.filter (fun s => !(requestKeyed.any (fun v => v.name == s.var)))).map
      (fun s => "registry-unknown:" ++ s.var ++ ":" ++ s.fn))

/-- every site of every registry uses the request's identity as the key -/
def Facts.registryKeysIdentity (f : Facts) : Bool := f.registryViolations.isEmpty

/-! ### Limits are accounted per request

The VM is one object for the whole process; under the HTTP server every in-flight request runs
on it.  A counter kept in the VM is therefore the *sum* over all in-flight requests.  A limit
whose refusal (an error, a different answer) is decided on such a sum makes a shallow request
fail because *other* requests are deep.  The translator lists every place that enters a VM
counter, the limit it is compared with and whether the refusal is conditioned on a count of the
calling goroutine's own frames. -/

/-- the process-wide counters the model knows (`Model.ReqLimit`: one call-depth counter) -/
def knownCounters : List String := ["VM.callDepth"]

/-- the guard fact of a Go function, if it enters a counter -/
def Facts.guardOf (f : Facts) (fn : String) : Option DepthGuard := f.depthGuards.find? (fun d => d.fn == fn)

/-- a guard is isolated: it never refuses, or its refusal is decided by the goroutine's own
frames — frames that are all counted in the process-wide number, against a limit that is not
below the process-wide one (so that `shared > limit ∧ own > ownLimit ↔ own > ownLimit`) -/
def Facts.guardIsolated (f : Facts) (d : DepthGuard) : Bool :=
  d.decidesOn == "never" ||
  (d.decidesOn == "own" && decide (d.limit ≤ d.ownLimit) && d.ownCounts.all (fun j => (f.guardOf j).isSome))

def Facts.guardsIsolated (f : Facts) : Bool := f.depthGuards.all f.guardIsolated

/-- what the facts show against per-request accounting, by name -/
def Facts.guardViolations (f : Facts) : List String :=
  ((f.depthGuards.filter (fun d => d.decidesOn == "shared")).map
      (fun d => "refusal-decided-on-process-wide-counter:" ++ d.fn ++ ":" ++ d.counter)) ++
  ((f.depthGuards.filter (fun d => d.decidesOn != "shared" && !(f.guardIsolated d))).map
      (fun d => "own-frame-count-does-not-bound-the-decision:" ++ d.fn)) ++
  ((f.depthGuards.filter (fun d => !d.balanced)).map (fun d => "counter-not-left-on-every-path:" ++ d.fn)) ++
  ((f.depthGuards.filter (fun d => !(knownCounters.contains d.counter))).map
      (fun d => "unknown-counter:" ++ d.fn ++ ":" ++ d.counter)) ++
  ((f.vmCounters.filter (fun c => !(knownCounters.contains c.name))).map (fun c => "vm-counter:" ++ c.name)) ++
  ((f.vmCounters.filter (fun c => !c.atomic)).map (fun c => "vm-counter-not-atomic:" ++ c.name))

/-- the limits the source enforces next to process-wide counters (the harness parks frames
around and beyond every one of them) -/
def Facts.limits (f : Facts) : List Nat :=
  ((f.depthGuards.map (·.limit)) ++ (f.depthGuards.map (·.ownLimit))).filter (· > 0) |>.eraseDups

/-- script code that can run before the caches are reset for its request, or on a context
shared between requests -/
def Facts.entryViolations (f : Facts) : List String :=
  ((f.entries.filter (fun e => e.runsScript && !(e.resetsFirst || e.nested || f.outer))).map
      (fun e => "no-reset-before:" ++ e.name)) ++
  ((f.entries.filter (fun e => e.runsScript && !e.freshContext)).map (fun e => "shared-context:" ++ e.name))

end Model.Req
