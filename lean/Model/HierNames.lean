import Model.Hier
/-!
# C08 — the NAME-based special cases of the subtype deciders

`node/try.go catchTypeMatches` gives one type name a meaning of its own: when the reachability test fails and the
catch type *is the root interface `Throwable`*, everything derived from `Exception` / `Error` is accepted. Which
names count as "the root interface" is decided by a test on the SPELLING of the name
(`name == "Throwable" || strings.HasSuffix(name, "\\Throwable")`); `Class.Is` arm `*ThrowValue` has a second one
for interpreter-raised errors, `instanceof` a `switch` over `"object"`, `"Closure"`.

* `isThrownP p` is `Model.Hier.isThrown` with the special-name test abstracted to a predicate `p` on type names
  (`isThrown = isThrownP (· = throwableName)`, `Proofs.Hier.isThrownP_eq`).
* `NameTest` is what the translator `extract/c08` records for every comparison of a type name with a string
  literal inside the deciders (`Generated.C08Walks.nameTests`): the literal and the KIND of comparison.
  `NameKind.holds` says what each kind means on spellings (`List Char`), `NameKind.exact` which kinds can only
  hold for the special name's own spelling (bare or with one leading backslash).
-/
namespace Model.Hier

/-- `catchTypeMatches` with the special-name test `isThrowableTypeName` abstracted: `p t` = "the catch type `t`
is taken for the root interface" -/
def isThrownP (p : Name → Bool) (G : Graph) (t : Name) (c : Cls) : R :=
  match isClassValue G t c with
  | .no =>
    if p t then
      match isClassValue G exceptionName c with
      | .no => isClassValue G errorName c
      | r => r
    else .no
  | r => r

/-- how a decider compares a type name with a string literal -/
inductive NameKind where
  | eq           -- `name == "S"`, `switch name { case "S": }`
  | eqStripLead  -- `strings.TrimPrefix(name, "\\") == "S"`
  | fold         -- `strings.EqualFold(name, "S")`, `strings.ToLower(name) == "s"`
  | suffixSep    -- `strings.HasSuffix(name, "\\S")`: any namespace, base name S
  | baseName     -- `name[strings.LastIndex(name, "\\")+1:] == "S"`: the part after the last backslash
  | suffix       -- `strings.HasSuffix(name, "S")`
  | «prefix»     -- `strings.HasPrefix(name, "S")`
  | contains     -- `strings.Contains(name, "S")`, `strings.Index(name, "S") >= 0`
  | other        -- anything the translator cannot classify
deriving DecidableEq, Repr, Inhabited

/-- one comparison of a type name with the literal `special` in decider `fn` -/
structure NameTest where
  fn : String
  special : String
  kind : NameKind
deriving DecidableEq, Repr, Inhabited

/-- `strings.TrimPrefix(name, "\\")` -/
def stripLead : List Char → List Char
  | [] => []
  | ch :: r => if ch = '\\' then r else ch :: r

/-- the part of a name after its last backslash (`acc` = what has been read since the last one, reversed) -/
def baseNameAux : List Char → List Char → List Char
  | acc, [] => acc.reverse
  | acc, ch :: r => if ch = '\\' then baseNameAux [] r else baseNameAux (ch :: acc) r

def baseNameOf (n : List Char) : List Char := baseNameAux [] n

def isInfix (s : List Char) : List Char → Bool
  | [] => s.isEmpty
  | ch :: r => s.isPrefixOf (ch :: r) || isInfix s r

/-- what a comparison of kind `k` with the literal `s` answers for the spelling `n`; `none` = not interpreted -/
def NameKind.holds (k : NameKind) (s n : List Char) : Option Bool :=
  match k with
  | .eq => some (n == s)
  | .eqStripLead => some (stripLead n == s)
  | .fold => some (n.map Char.toLower == s.map Char.toLower)
  | .suffixSep => some (('\\' :: s).isSuffixOf n)
  | .baseName => some (baseNameOf n == s)
  | .suffix => some (s.isSuffixOf n)
  | .prefix => some (s.isPrefixOf n)
  | .contains => some (isInfix s n)
  | .other => none

/-- the kinds that can hold only for the special name itself -/
def NameKind.exact : NameKind → Bool
  | .eq | .eqStripLead => true
  | _ => false

def NameTest.key (t : NameTest) : String × String × NameKind := (t.fn, t.special, t.kind)

/-- the obligation on the regenerated table: every comparison is exact, except the recorded ones -/
def nameTestsOK (known : List (String × String × NameKind)) (tests : List NameTest) : Bool :=
  tests.all (fun t => t.kind.exact || known.contains t.key)

/-- the tests of the table that are not exact -/
def looseTests (tests : List NameTest) : List NameTest := tests.filter (fun t => !t.kind.exact)

end Model.Hier
