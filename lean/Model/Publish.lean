/-!
C10 — PUBLICATION of a declaration object (round 7).

`Model.Reg` registers finished declarations; the parser does more: it BUILDS a declaration object
(`*node.ClassStatement`, `*node.InterfaceStatement`, …) with a sequence of field writes and, at some
point of that sequence, inserts the pointer into the process-wide registry (`vm.AddClass(c)`).  From that
step on every other goroutine reaches the same object through `GetClass` / `GetOrLoadClass` / `new` /
`class_exists`, without any further synchronisation with the registrant.

    registrant of o :  init f₁ · init f₂ · … · publish · init g₁ · …      (its program, source order)
    any goroutine   :  look o   →  miss (not published yet) | the object AS IT IS NOW

The object is abstracted to the list of field writes performed so far (a write is a visible change of the
object: `c.Construct = inherited`, `i.Extends[k] = full name`, `append(c.Annotations, a)`); the *final*
object is the one after the registrant's whole program.  Objects are all of `Nat` (unbounded), so are the
observing goroutines; an event schedule is any list of `reg o` (the registrant of `o` takes its next
step; objects registered by one goroutine one after the other are simply scheduled that way) and
`obs t o`.  The registry insert itself is one atomic step (`C10.RW_sections_atomic`).

Discipline (decidable, read off regenerated facts — `PubFact`, `progOf`): no field write follows the
publication step.
-/
namespace Model.Publish

inductive Step
  /-- a write of field `f` of the object under construction -/
  | init (f : String)
  /-- the object is inserted into the shared registry -/
  | publish
deriving DecidableEq, Repr

abbrev Prog := List Step

/-- the registrant's view of one object: steps still to run, fields written so far, published -/
structure Obj where
  rest : Prog
  done : List String
  pub : Bool
deriving DecidableEq, Repr

def Obj.start (p : Prog) : Obj := ⟨p, [], false⟩

def Obj.step (o : Obj) : Obj :=
  match o.rest with
  | [] => o
  | .init f :: r => { o with rest := r, done := o.done ++ [f] }
  | .publish :: r => { o with rest := r, pub := true }

/-- what a lookup returns: a miss, or the object as it is at this moment -/
def Obj.look (o : Obj) : Option (List String) := if o.pub then some o.done else none

/-- the field writes of a program, in order -/
def inits : Prog → List String
  | [] => []
  | .init f :: r => f :: inits r
  | .publish :: r => inits r

/-- the object once its registrant has finished -/
abbrev final (p : Prog) : List String := inits p

inductive Ev
  /-- the registrant of object `o` takes its next step -/
  | reg (o : Nat)
  /-- goroutine `t` looks object `o` up -/
  | obs (t : Nat) (o : Nat)
deriving DecidableEq, Repr

structure State where
  objs : Nat → Obj
  log : List (Nat × Nat × Option (List String))

def init (progs : Nat → Prog) : State := ⟨fun o => Obj.start (progs o), []⟩

def step (s : State) : Ev → State
  | .reg o => { s with objs := fun k => if k = o then (s.objs k).step else s.objs k }
  | .obs t o => { s with log := s.log ++ [(t, o, (s.objs o).look)] }

def run (s : State) (sched : List Ev) : State := sched.foldl step s

/-! ## The discipline -/

/-- what follows the (first) publication step -/
def afterPub : Prog → Prog
  | [] => []
  | .publish :: r => r
  | .init _ :: r => afterPub r

/-- the field writes made after the object has been published -/
def postWrites (p : Prog) : List String := inits (afterPub p)

def Prog.ok (p : Prog) : Bool := (postWrites p).isEmpty

/-- number of steps up to and including the publication -/
def pubIdx : Prog → Nat
  | [] => 0
  | .publish :: _ => 1
  | .init _ :: r => pubIdx r + 1

/-! ## What the user relies on: registration is ONE step

The sequential reading of "register class C": before it a lookup misses, after it a lookup returns the
class — the finished one.  `specLook` answers from the number of steps the registrant has taken. -/

def specLook (p : Prog) (n : Nat) : Option (List String) :=
  if (p.take n).contains .publish then some (final p) else none

/-! ## Facts regenerated from the source (see `extract/c10`: publication sites) -/

/-- one call that inserts a declaration object into a registry (`vm.AddClass(x)`, `AddInterface`, `AddFunc`,
`SetConstant`), in a parser or a declaration node: the function, the call, the published expression, and
the writes to the object (fields of it, elements of its fields, self-synchronised containers in it, helper
calls that hand it to a mutating function) BEFORE and AFTER the call in source order, through aliases -/
structure PubFact where
  func : String
  call : String
  obj : String
  before : List String
  after : List String
deriving DecidableEq, Repr

def progOf (f : PubFact) : Prog := f.before.map .init ++ [.publish] ++ f.after.map .init

/-- `func:call(obj):write` for every write that follows the publication of `obj` -/
def pubViolations (facts : List PubFact) : List String :=
  facts.flatMap (fun f => f.after.map (fun w => f.func ++ ":" ++ f.call ++ "(" ++ f.obj ++ "):" ++ w))

end Model.Publish
