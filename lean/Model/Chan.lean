/-!
# Model.Chan — `std/channel/channel.go` as a small-step transition system (C09)

Mirrors the (fixed) close protocol of `Channel`:

```
Send:   mu.RLock()                                   ┐ step `run t`  (pc idle → sendChecked
        if closed.Load() { RUnlock; return false }   ┘                or returns false)
        -- verifYield("send:checked")
        select { case channel <- v: return true      ← step `run t`  (room in the buffer)
                                                        or `hand t r` (unbuffered rendezvous)
                 case <-done:       return false }   ← step `abort t`
        mu.RUnlock()
Close:  if !closed.CompareAndSwap(false,true) {return}  ← `run t` (idle → closeFlagged / returns)
        -- verifYield("close:flagged")
        close(done)                                     ← `run t` (→ closeSignalled)
        -- verifYield("close:signalled")
        mu.Lock(); close(channel); mu.Unlock()          ← `run t` (enabled iff nobody holds mu.R)
Receive: v, ok := <-channel                             ← `run t` (enabled iff data or closed)
IsClosed: closed.Load()
```

Blocking is "the step is not enabled". Go primitives are modelled, not verified:
`chan` (FIFO buffer of capacity `cap`, rendezvous when `cap = 0`, receive on a
closed channel drains then yields the zero value, **panic** on send to / close of
a closed channel), `sync.RWMutex` (set of shared holders; `Lock` waits for the
set to be empty; its critical section has no yield point and is one step),
`atomic.Bool`, `select` (any ready case may be taken).

Ghost state (never read by a guard): `recvd` (global receive order with the
receiver), `sentLog` (per sender, the messages whose send returned true),
`hist` (per thread, the completed operations with their results).
-/
namespace Model.Chan

structure Msg where
  tid : Nat   -- sender
  seq : Nat   -- index among the sender's successful sends (ghost identity)
  val : Nat   -- payload
deriving DecidableEq, Repr

inductive Op | send (v : Nat) | recv | close | isClosed
deriving DecidableEq, Repr

inductive Res | ok (b : Bool) | got (m : Msg) | null | unit
deriving DecidableEq, Repr

/-- thread-local control inside one `Send` / `Close` call -/
inductive Pc
  | idle            -- between operations
  | sendChecked     -- holds `mu` shared, read `closed = false`, at the `select`
  | closeFlagged    -- won the CompareAndSwap; `close(done)` still to come
  | closeSignalled  -- `done` closed; `mu.Lock(); close(channel)` still to come
deriving DecidableEq, Repr

def upd {α : Type} (f : Nat → α) (t : Nat) (v : α) : Nat → α := fun x => if x = t then v else f x

structure St where
  cap      : Nat
  prog     : Nat → List Op                 -- remaining operations of each thread (head = current)
  pc       : Nat → Pc := fun _ => .idle
  flag     : Bool := false                 -- Channel.closed
  done     : Bool := false                 -- `done` channel is closed
  chClosed : Bool := false                 -- the Go channel is closed
  buf      : List Msg := []
  holders  : List Nat := []                -- threads holding `mu` shared
  recvd    : List (Nat × Msg) := []        -- ghost: (receiver, message) in global receive order
  sentLog  : Nat → List Msg := fun _ => [] -- ghost: messages whose send returned true
  hist     : Nat → List (Op × Res) := fun _ => []   -- ghost: completed operations
  panicked : Bool := false                 -- a Go runtime panic happened (process is gone)

def init (cap : Nat) (prog : Nat → List Op) : St := { cap := cap, prog := prog }

/-- thread `t` returns from its current operation `op` with result `r` -/
def St.finish (s : St) (t : Nat) (op : Op) (r : Res) : St :=
  { s with prog := upd s.prog t (s.prog t).tail,
           hist := upd s.hist t (s.hist t ++ [(op, r)]),
           pc := upd s.pc t .idle }

def St.newMsg (s : St) (t v : Nat) : Msg := ⟨t, (s.sentLog t).length, v⟩

def St.release (s : St) (t : Nat) : List Nat := s.holders.filter (fun x => x != t)

/-- `mu.RLock(); if closed.Load() { return false }` -/
def stepSendCheck (s : St) (t v : Nat) : St :=
  if s.flag then s.finish t (.send v) (.ok false)
  else { s with pc := upd s.pc t .sendChecked, holders := t :: s.holders }

/-- `case channel <- v` into the buffer -/
def stepSendDo (s : St) (t v : Nat) : Option St :=
  if s.chClosed then some { s with panicked := true }     -- Go: panic: send on closed channel
  else if s.buf.length < s.cap then
    let m := s.newMsg t v
    some ({ s with buf := s.buf ++ [m], sentLog := upd s.sentLog t (s.sentLog t ++ [m]),
                   holders := s.release t }.finish t (.send v) (.ok true))
  else none

/-- `case <-done` -/
def stepAbort (s : St) (t v : Nat) : Option St :=
  if s.done then some ({ s with holders := s.release t }.finish t (.send v) (.ok false)) else none

/-- `v, ok := <-channel` -/
def stepRecv (s : St) (r : Nat) : Option St :=
  match s.buf with
  | m :: rest => some ({ s with buf := rest, recvd := s.recvd ++ [(r, m)] }.finish r .recv (.got m))
  | [] => if s.chClosed then some (s.finish r .recv .null) else none

/-- `closed.CompareAndSwap(false, true)` -/
def stepCloseCas (s : St) (t : Nat) : St :=
  if s.flag then s.finish t .close .unit
  else { s with flag := true, pc := upd s.pc t .closeFlagged }

/-- `close(done)` -/
def stepCloseSignal (s : St) (t : Nat) : St :=
  if s.done then { s with panicked := true }               -- Go: panic: close of closed channel
  else { s with done := true, pc := upd s.pc t .closeSignalled }

/-- `mu.Lock(); close(channel); mu.Unlock()` -/
def stepCloseFinal (s : St) (t : Nat) : Option St :=
  if s.holders ≠ [] then none                              -- Lock waits for the shared holders
  else if s.chClosed then some { s with panicked := true } -- Go: panic: close of closed channel
  else some ({ s with chClosed := true }.finish t .close .unit)

def stepIsClosed (s : St) (t : Nat) : St := s.finish t .isClosed (.ok s.flag)

/-- the next atomic step of thread `t` on its own (everything except `case <-done` and rendezvous) -/
def stepRun (s : St) (t : Nat) : Option St :=
  match s.pc t, s.prog t with
  | .idle, .send v :: _ => some (stepSendCheck s t v)
  | .idle, .recv :: _ => stepRecv s t
  | .idle, .close :: _ => some (stepCloseCas s t)
  | .idle, .isClosed :: _ => some (stepIsClosed s t)
  | .sendChecked, .send v :: _ => stepSendDo s t v
  | .closeFlagged, .close :: _ => some (stepCloseSignal s t)
  | .closeSignalled, .close :: _ => stepCloseFinal s t
  | _, _ => none

def stepAbortT (s : St) (t : Nat) : Option St :=
  match s.pc t, s.prog t with
  | .sendChecked, .send v :: _ => stepAbort s t v
  | _, _ => none

/-- unbuffered rendezvous: sender `t` at its `select`, receiver `r` at `<-channel` -/
def stepHand (s : St) (t r : Nat) : Option St :=
  match s.pc t, s.prog t, s.pc r, s.prog r with
  | .sendChecked, .send v :: _, .idle, .recv :: _ =>
    if s.chClosed then none
    else if s.cap = 0 ∧ s.buf = [] then
      let m := s.newMsg t v
      some ((({ s with recvd := s.recvd ++ [(r, m)], sentLog := upd s.sentLog t (s.sentLog t ++ [m]),
                       holders := s.release t }.finish t (.send v) (.ok true))).finish r .recv (.got m))
    else none
  | _, _, _, _ => none

/-- scheduler choices -/
inductive Act
  | run (t : Nat)
  | abort (t : Nat)
  | hand (t r : Nat)
deriving DecidableEq, Repr

/-- one step; `none` = not enabled (the thread is blocked, finished, or the process has panicked) -/
def step (s : St) (a : Act) : Option St :=
  if s.panicked then none else
  match a with
  | .run t => stepRun s t
  | .abort t => stepAbortT s t
  | .hand t r => stepHand s t r

/-- run a schedule; a choice that is not enabled is skipped -/
def exec (s : St) : List Act → St
  | [] => s
  | a :: as => match step s a with
    | some s' => exec s' as
    | none => exec s as

/-! ### observable histories -/

/-- payloads of the sends that reported success, in program order -/
def okSends : List (Op × Res) → List Nat
  | [] => []
  | (.send v, .ok true) :: h => v :: okSends h
  | _ :: h => okSends h

/-- messages a thread received, in program order -/
def gots : List (Op × Res) → List Msg
  | [] => []
  | (_, .got m) :: h => m :: gots h
  | _ :: h => gots h

/-! ### the protocol as a sequence of source events

`extract/c09` lists, for each method of `Channel` in `std/channel/channel.go`, the sync-relevant
events in source order (`Generated.C09ChanLocks`); `C09_locks_match_model` requires them to be
exactly the sequences this model's steps stand for. -/

inductive Ev
  | rlock | deferRUnlock | runlock | lock | unlock | deferUnlock
  | loadFlag | casFlag | storeFlag | readFlagPlain | writeFlagPlain
  | closeDone | closeChan | sendChan | recvChan | recvDone | makeChan | makeDone
  | selectBegin | selectEnd | ret
  | yieldSendChecked | yieldCloseFlagged | yieldCloseSignalled | yieldOther
  | callClose | callSend | callReceive | goStmt | other
deriving DecidableEq, Repr

inductive FieldTy | rwMutex | mutex | atomicBool | bool | chanStruct | chanValue | missing | other
deriving DecidableEq, Repr

open Ev in
/-- `Send`: shared lock held (deferred unlock) from before the flag read to after the select;
yield point between the flag read and the select; the select offers exactly `channel <- v` and `<-done` -/
def sendProtocol : List Ev :=
  [rlock, deferRUnlock, loadFlag, ret, yieldSendChecked, selectBegin, sendChan, ret, recvDone, ret, selectEnd]

open Ev in
/-- `Close`: CAS on the flag, `close(done)`, then `close(channel)` inside the exclusive lock -/
def closeProtocol : List Ev :=
  [casFlag, ret, yieldCloseFlagged, closeDone, yieldCloseSignalled, lock, closeChan, unlock]

open Ev in
def receiveProtocol : List Ev := [ret, recvChan, ret]

open Ev in
def isClosedProtocol : List Ev := [loadFlag, ret]

open Ev in
/-- `Construct` (not part of the modelled alphabet: it runs before the channel is shared) closes a
previous channel through `Close` and installs the new one under the exclusive lock -/
def constructProtocol : List Ev := [callClose, lock, makeChan, makeDone, storeFlag, unlock]

/-- field types the model's primitives stand for: mu, closed, done, channel -/
def fieldProtocol : List FieldTy := [.rwMutex, .atomicBool, .chanStruct, .chanValue]

end Model.Chan
