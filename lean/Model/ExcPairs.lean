/-!
# C05 — paired enter/leave operations on the call path

`Model.Exc` threads nothing but the trace through a statement: that is why every iteration of a loop does what the
first one does (`C05_iteration_independence`). The interpreter does have state that outlives a statement — the
call-depth counter of the VM (`runtime/vm.go EnterCall / LeaveCall`, the recursion guard of `node/class.go
ClassMethod.Call`), locks — and the abstraction is sound only if every Go function that raises such a resource
lowers it again on **every** way out: a plain return, a control handed to the caller (in origami `return`, `break`,
`continue` and exceptions all travel as Go return values), and a Go panic (which `TryStatement`'s guard turns into a
script exception, so the process lives on).

The translator `extract/c05` lists every such function of `node/`, `runtime/`, `data/` as a `Site`
(`Generated.C05Pairs.sites`); this file says what one execution of a site does to the resource.
-/
namespace Model.ExcPairs

/-- how the Leave is arranged in the Go function that calls the Enter -/
inductive Mode where
  | deferred    -- `defer X.Leave()` registered while entered; every return before that point leaves explicitly
  | everyExit   -- no defer; every `return` and the end of the function are reached with the operation left
  | leaks       -- some `return` (or the end of the function) is reached with the operation still entered
deriving DecidableEq, Repr

/-- how control leaves the function after the Enter -/
inductive Exit where
  | returnAt (line : Nat)   -- a `return` statement (line 0: falling off the end): normal results and controls alike
  | goPanic                 -- a Go panic passes through the function
deriving DecidableEq, Repr

structure Site where
  file : String
  fn : String
  enter : String
  leave : String
  mode : Mode
  unbalanced : List Nat    -- the returns reached with the operation still entered
  runsScript : Bool        -- script code is evaluated while the operation is entered
deriving Repr

/-- the resource (a nesting counter) after one execution of the site that found it at `d` and is left by `e` -/
def after (s : Site) (e : Exit) (d : Nat) : Nat :=
  match s.mode, e with
  | .deferred, _ => d                 -- the deferred Leave runs on every exit, a Go panic included
  | _, .goPanic => d + 1              -- explicit Leaves are skipped by a panic
  | _, .returnAt l => if s.unbalanced.contains l then d + 1 else d

/-- `n` executions in a row, each left the same way (a loop whose iterations are alike) -/
def afterN (s : Site) (e : Exit) : Nat → Nat → Nat
  | 0, d => d
  | n+1, d => afterN s e n (after s e d)

/-- the recursion guard: `if depth := vm.EnterCall(); depth > limit { … refuse the call … }` -/
def refused (limit d : Nat) : Bool := d + 1 > limit

/-- what the property needs of a site: the Leave is deferred; an explicit Leave on every exit is accepted only where
no script code runs in between (no Go panic of a script-level construct can come out of the region) -/
def siteOK (s : Site) : Bool :=
  match s.mode with
  | .deferred => true
  | .everyExit => s.unbalanced.isEmpty && !s.runsScript
  | .leaks => false

/-- an operation defined as counter arithmetic: Enter and Leave of one counter cancel -/
def countersCancel (cs : List (String × String × Int)) : Bool :=
  cs.all (fun c => (cs.filter (fun c' => c'.2.1 == c.2.1)).foldl (fun acc c' => acc + c'.2.2) 0 == 0)

end Model.ExcPairs
