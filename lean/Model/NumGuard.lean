/-!
# C14: the float → int step of the number decoders

`convertJsonNumber` (std/php/json_decode.go) reads a number text: an int64 literal (`strconv.ParseInt` succeeds) is that
int; anything else is read as a float64 `f`, and `f` becomes `int(f)` when a *range guard* and an *integrality test* let it
through, a float otherwise.  Which float64 a text denotes is `strconv`'s (trusted; the harness judges it with exact
arithmetic).  What is modelled here is everything after that: the guard as written in the source (comparison operators
and constants — the constants as the float64 they are converted to, so `math.MaxInt64` is `2^63`), the integrality test,
and Go's conversion `int64(f)`, whose result for a float outside int64 is implementation-defined (`Hw`).
Int arithmetic only.
-/
namespace Model.NumGuard

def minInt : Int := -9223372036854775808
def maxIntP1 : Int := 9223372036854775808

/-- `n` is an int64 -/
def InRange (n : Int) : Prop := minInt ≤ n ∧ n < maxIntP1

instance (n : Int) : Decidable (InRange n) := by unfold InRange; exact inferInstance

/-- a float64 as far as the conversion can tell -/
inductive Fl where
  | int (k : Int)      -- an integral float (every float of magnitude ≥ 2^52 is one)
  | frac (fl : Int)    -- not integral; `fl` is its floor
  | inf (neg : Bool)
  | nan
  deriving DecidableEq, Repr

inductive Lo where
  | ge (c : Int) | gt (c : Int) | none
  deriving DecidableEq, Repr

inductive Hi where
  | lt (c : Int) | le (c : Int) | none
  deriving DecidableEq, Repr

inductive Integral where
  | cast    -- f == float64(int64(f))
  | trunc   -- f == math.Trunc(f)
  | none
  deriving DecidableEq, Repr

structure Site where
  file : String := ""
  fn : String := ""
  lo : Lo
  hi : Hi
  integral : Integral
  deriving DecidableEq, Repr

/-- what the machine does where the language leaves it open: `int64(f)` for an integral `f` outside int64 (amd64: `-2^63`;
arm64: saturates), for ±Inf / NaN, and whether the round-trip test `f == float64(int64(f))` passes there. Whatever it
answers is an int64. -/
structure Hw where
  conv : Int → Int
  convSpecial : Int
  castPass : Int → Bool
  castPassSpecial : Bool
  conv_range : ∀ k, InRange (conv k)
  special_range : InRange convSpecial

/-- f ≥ c, f > c, f < c, f ≤ c for an integer constant c (comparisons with NaN are false) -/
def Fl.ge : Fl → Int → Bool
  | .int k, c => decide (c ≤ k)
  | .frac fl, c => decide (c ≤ fl)
  | .inf neg, _ => !neg
  | .nan, _ => false

def Fl.gt : Fl → Int → Bool
  | .int k, c => decide (c < k)
  | .frac fl, c => decide (c ≤ fl)
  | .inf neg, _ => !neg
  | .nan, _ => false

def Fl.lt : Fl → Int → Bool
  | .int k, c => decide (k < c)
  | .frac fl, c => decide (fl < c)
  | .inf neg, _ => neg
  | .nan, _ => false

def Fl.le : Fl → Int → Bool
  | .int k, c => decide (k ≤ c)
  | .frac fl, c => decide (fl < c)
  | .inf neg, _ => neg
  | .nan, _ => false

def Lo.holds : Lo → Fl → Bool
  | .ge c, f => f.ge c
  | .gt c, f => f.gt c
  | .none, _ => true

def Hi.holds : Hi → Fl → Bool
  | .lt c, f => f.lt c
  | .le c, f => f.le c
  | .none, _ => true

/-- Go's `int64(f)`: truncation toward zero inside int64, the machine's answer outside -/
def toInt (hw : Hw) : Fl → Int
  | .int k => if InRange k then k else hw.conv k
  | .frac fl => let t := if 0 ≤ fl then fl else fl + 1
                if InRange t then t else hw.conv t
  | .inf _ => hw.convSpecial
  | .nan => hw.convSpecial

def Integral.holds (hw : Hw) : Integral → Fl → Bool
  | .cast, .int k => if InRange k then true else hw.castPass k
  | .cast, .frac fl => if InRange (if 0 ≤ fl then fl else fl + 1) then false else hw.castPass fl
  | .cast, .inf _ => hw.castPassSpecial
  | .cast, .nan => false
  | .trunc, .int _ => true
  | .trunc, .frac _ => false
  | .trunc, .inf _ => true      -- Trunc(±Inf) = ±Inf
  | .trunc, .nan => false
  | .none, _ => true

inductive Out where
  | int (n : Int)
  | float (f : Fl)
  deriving DecidableEq, Repr

/-- the guarded conversion: `if lo && hi && integral { return int(f) }; return f` -/
def Site.convert (hw : Hw) (s : Site) (f : Fl) : Out :=
  if s.lo.holds f && s.hi.holds f && s.integral.holds hw f then .int (toInt hw f) else .float f

/-- `convertJsonNumber`: the literal branch first -/
def Site.decode (hw : Hw) (s : Site) (lit : Option Int) (f : Fl) : Out :=
  match lit with
  | some i => .int i
  | none => s.convert hw f

/-- the guard lets nothing outside int64 through, and there is a test for integrality (decidable) -/
def Site.WF (s : Site) : Bool :=
  (match s.lo with
   | .ge c => decide (minInt ≤ c)
   | .gt c => decide (minInt - 1 ≤ c)
   | .none => false) &&
  (match s.hi with
   | .lt c => decide (c ≤ maxIntP1)
   | .le c => decide (c < maxIntP1)
   | .none => false) &&
  (s.integral != .none)

/-- the guard is exactly the int64 range -/
def Site.Tight (s : Site) : Bool :=
  (s.lo == .ge minInt || s.lo == .gt (minInt - 1)) && (s.hi == .lt maxIntP1 || s.hi == .le (maxIntP1 - 1)) &&
  (s.integral != .none)

/-- the site as written in `convertJsonNumber` -/
def pinned : Site :=
  { lo := .ge (-9223372036854775808), hi := .lt 9223372036854775808, integral := .cast }

def Site.shape (s : Site) : Lo × Hi × Integral := (s.lo, s.hi, s.integral)

/-- amd64: every out-of-range conversion is `-2^63`, so the round-trip test fails there -/
def amd64 : Hw :=
  { conv := fun _ => minInt, convSpecial := minInt, castPass := fun _ => false, castPassSpecial := false,
    conv_range := by intro _; decide, special_range := by decide }

/-- arm64: the conversion saturates, and `float64(MaxInt64)` is `2^63` again -/
def arm64 : Hw :=
  { conv := fun k => if 0 ≤ k then maxIntP1 - 1 else minInt, convSpecial := 0,
    castPass := fun k => decide (k = maxIntP1), castPassSpecial := false,
    conv_range := by intro k; by_cases h : 0 ≤ k <;> simp [h] <;> decide, special_range := by decide }

end Model.NumGuard
