/-!
# Model.Frag — the line of an interpolation fragment inside a string literal (C18)

`processStringInterpolation` (lexer/preprocessor.go) walks `runes := []rune(content)`; the position
of a `{$…}` / `$name` / `@{…}` fragment is a RUNE index `k` into the content. `fragmentLineCol`
turns it into a line: the line of the string token plus the `'\n'` runes among the first `k`
runes. The tokens re-lexed from the fragment are shifted to that line, and an error raised inside
the fragment reports it.

Runes and bytes are `Nat`s; `encode` is Go's `string(runes)` (UTF-8, surrogates and values above
U+10FFFF become U+FFFD).
-/
namespace Model.Frag

/-- `utf8.AppendRune` -/
def encodeRune (r : Nat) : List Nat :=
  if r < 0x80 then [r]
  else if r < 0x800 then [0xC0 + r / 64, 0x80 + r % 64]
  else if (0xD800 ≤ r ∧ r < 0xE000) ∨ 0x10FFFF < r then [0xEF, 0xBF, 0xBD]
  else if r < 0x10000 then [0xE0 + r / 4096, 0x80 + r / 64 % 64, 0x80 + r % 64]
  else [0xF0 + r / 262144, 0x80 + r / 4096 % 64, 0x80 + r / 64 % 64, 0x80 + r % 64]

/-- `string(runes)` -/
def encode : List Nat → List Nat
  | [] => []
  | r :: rs => encodeRune r ++ encode rs

/-- `fragmentLineCol`, line part — the loop of the code:
`for n := 0; n < k && n < len(runes); n++ { if runes[n] == '\n' { line++ } }` -/
def fragLine : List Nat → Nat → Nat → Nat
  | [], _, line => line
  | _ :: _, 0, line => line
  | r :: rs, k + 1, line => fragLine rs k (if r = 10 then line + 1 else line)

/-- the unit confusion (not the code; for the negation witness): the rune index `k` used as a BYTE
offset into the content string — `line + strings.Count(content[:k], "\n")` -/
def fragLineByteIndexed (content : List Nat) (k : Nat) (line : Nat) : Nat :=
  line + (content.take k).count 10

end Model.Frag
