import Model.Types
/-!
# C07 — named arguments: how the arguments of one call reach the parameters

Mirrors `node/name_argument.go resolveNamedArguments` (added by `fixes/C07-7-named-arguments`), which every
binding loop calls first (`CallExpression.GetValue`, `createInstanceFromClassStmt`, `callMethodParams`,
`handleFuncValue`), and what the loops then do with a parameter that received nothing
(`node/function.go missingArgument`, `Parameter.GetValue`):

```go
out := make([]data.GetValue, 0, len(params))
for _, a := range arguments {
    na, ok := a.(*NamedArgument)
    if !ok { out = append(out, a); continue }             // positional: stays where it is
    idx := <index of the first parameter called na.Name>  // none: error "无法找到变量"
    for len(out) <= idx { out = append(out, omittedArg) } // parameters in between receive nothing
    if !isOmittedArgument(out[idx]) { error "命名实参覆盖了已经传入的实参" }
    out[idx] = na.Value                                   // named: moves to the parameter it names
}
```

(`hasNamedArgument`: a call without a named argument is returned untouched — that is what the loop computes for
it, `resolve_positional`; a call that mixes names with a `...spread` is not modelled.)

The binding loops then run over the parameters by position: parameter `i` receives `out[i]` when there is one and
it is not the placeholder; otherwise its default (taken without a type test, `Parameter.GetValue`), or — no
default — it stays `null` when its declared type accepts `null`, else the call is refused (`missingArgument`).
-/
namespace Model.ArgNames
open Model.Access (Name)
open Model.Types

/-- parameter names -/
abbrev PName := Nat

/-- an argument expression once it is evaluated: a value, or it throws -/
inductive ArgV where
  | val (v : ValKind)
  | throws
deriving DecidableEq, Repr, Inhabited

/-- an argument as written at the call -/
inductive CallArg where
  | pos (a : ArgV)
  | named (n : PName) (a : ArgV)
deriving DecidableEq, Repr, Inhabited

inductive ResErr where
  | unknown (n : PName)    -- no parameter of that name
  | duplicate (n : PName)  -- the parameter already received an argument
  | crash                  -- `out[idx]` out of range (proved impossible: `place_no_crash`)
deriving DecidableEq, Repr, Inhabited

/-- index of the first parameter called `n` -/
def indexOf (n : PName) : List PName → Option Nat
  | [] => none
  | p :: r => if p = n then some 0 else (indexOf n r).map (· + 1)

/-- a named argument whose parameter stands at `idx`: pad with placeholders up to `idx`, then the slot must still
hold the placeholder -/
def placeAt (out : List (Option ArgV)) (n : PName) (a : ArgV) (idx : Nat) : Except ResErr (List (Option ArgV)) :=
  match (out ++ List.replicate (idx + 1 - out.length) none)[idx]? with
  | some none => .ok ((out ++ List.replicate (idx + 1 - out.length) none).set idx (some a))
  | some (some _) => .error (.duplicate n)
  | none => .error .crash

/-- one iteration of the loop; `none` inside the list is the placeholder `omittedArg` -/
def place (names : List PName) (out : List (Option ArgV)) : CallArg → Except ResErr (List (Option ArgV))
  | .pos a => .ok (out ++ [some a])
  | .named n a =>
    match indexOf n names with
    | none => .error (.unknown n)
    | some idx => placeAt out n a idx

def resolveFrom (names : List PName) : List (Option ArgV) → List CallArg → Except ResErr (List (Option ArgV))
  | out, [] => .ok out
  | out, c :: r =>
    match place names out c with
    | .ok o => resolveFrom names o r
    | .error e => .error e

/-- `resolveNamedArguments(params, arguments)` -/
def resolve (names : List PName) (args : List CallArg) : Except ResErr (List (Option ArgV)) :=
  resolveFrom names [] args

/-- what parameter `i` receives: `len(arguments) > index && !isOmittedArgument(arguments[index])` -/
def recv (out : List (Option ArgV)) (i : Nat) : Option ArgV :=
  match out[i]? with
  | some (some a) => some a
  | _ => none

/-- a declared parameter: its name, the boundary it is bound through, its declared type, the kind of its
default value if it has one -/
structure Param where
  name : PName
  k : BKind
  t : Ty
  dflt : Option ValKind
deriving Repr, Inhabited

/-- the slot the loop binds for parameter `p` -/
def slotOf (isA : Name → Name → Bool) (p : Param) : Option ArgV → Slot
  | some (.val v) => ⟨p.k, p.t, .val v⟩
  | some .throws => ⟨p.k, p.t, .throws⟩
  | none =>
    match p.dflt with
    | some d => ⟨.unchecked, p.t, .val d⟩          -- the default is taken as it is
    | none =>
      if admits isA p.k p.t .null then ⟨p.k, p.t, .val .null⟩  -- stays null, which the type accepts
      else ⟨p.k, p.t, .missing⟩                                  -- 缺少参数

/-- `for index, param := range params`: the slots in parameter order -/
def slotsFrom (isA : Name → Name → Bool) (out : List (Option ArgV)) : Nat → List Param → List Slot
  | _, [] => []
  | i, p :: r => slotOf isA p (recv out i) :: slotsFrom isA out (i+1) r

inductive Outcome where
  | unresolved (e : ResErr)  -- the call is refused before anything is evaluated or bound
  | call (o : CallOut)
deriving DecidableEq, Repr, Inhabited

/-- one call: resolve the names, then the binding loop; `evalFirst`: every argument is evaluated before the first
is bound (`callMethodParams`) -/
def callNamed (sh : LoopShape) (evalFirst : Bool) (isA : Name → Name → Bool) (params : List Param)
    (args : List CallArg) : Outcome :=
  match resolve (params.map (·.name)) args with
  | .error e => .unresolved e
  | .ok out =>
    let slots := slotsFrom isA out 0 params
    .call (if evalFirst then bindEvalFirst sh isA slots else bindArgs sh isA slots)

end Model.ArgNames
