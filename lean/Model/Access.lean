/-!
# C07 — executable model of origami's visibility decisions, one per access path as coded

Mirrors (file → definition):

* `node/visibility.go isClassInHierarchy(vm, caller, target)` (before the repair `fixes/C07-1-*`:
  `node/call_object_method.go isCallerInClassHierarchy(ctx, target)`) → `chainHas` (the two
  `for extend != nil { … }` loops) and `inHierarchy`;
* `node/visibility.go canAccessMember(ctx, declClass, modifier)` → `lexRule`: the caller is `scopeClassOf(ctx)`,
  i.e. `ClassMethodContext.SelfClass` — the class in whose method table the executing method was found
  (`lexicalClassOfMethod`, recorded by `ClassMethod.Call` on entry; closures inherit it from the context they
  were created in) → `Site.lex`; the target is the class that declares the member (`canAccessDeclared` walks
  up from the receiver's class to the first class that declares it) → `Site.decl`; `private` ⇒ same class,
  `protected` ⇒ `inHierarchy`. Before the repair the caller was read from the *type of the context*
  (`*data.ClassMethodContext` / `*data.ClassValue`), i.e. it was the **runtime class of `$this`** (or, for a
  static method entered through `A::m()`, the class in which the method was found) → `Site.ctx`, which is
  kept (the `hier` arms, the class-context tests of `self::` / `static::` / `parent::`);
* the type switch of every access node on the receiver (`*data.ThisValue` = the expression is `$this`,
  `*data.ClassValue` = any other object expression) → `Recv`;
* which test an arm performs → `Check`.  The arms are *data in the source*: the translator `extract/c07`
  regenerates the table `Generated.C07Access.table : Path → Recv → Check` from the anchored files on every run,
  and `decide` is generic over such a table (`Table`);
* `node/call_object_property.go SetValue` (type test, then modifier test, then `SetProperty`),
  `node/call_object_method.go GetValue` (modifier test, then the call) → `exec` on a small object store, used
  for "denied ⇒ no effect".

Names are numbers.  Chain walks have no visited set in the Go code, so they are modelled with fuel and
`Out.stuck` is an explicit outcome (the Go loop would not have terminated); that a declared acyclic hierarchy
never gets there is C08's theorem, here it is a hypothesis of the form `decide … ≠ .stuck`.
-/
namespace Model.Access

abbrev Name := Nat

/-- `node.ClassStatement` as far as visibility and `Class.Is` look at it -/
structure Cls where
  name : Name
  ext : Option Name
  impl : List Name
deriving DecidableEq, Repr, Inhabited

/-- the VM's class table -/
abbrev Hier := List Cls

/-- `vm.GetOrLoadClass` (nothing to autoload: a miss is an error) -/
def getClass (H : Hier) (n : Name) : Option Cls := H.find? (fun c => c.name == n)

/-- `GetExtend()` of the class registered under `n` -/
def extOf (H : Hier) (n : Name) : Option Name :=
  match getClass H n with
  | some c => c.ext
  | none => none

/-- an extends chain without a cycle visits each declared class at most once -/
def fuel (H : Hier) : Nat := H.length + 1

/-- outcome of one `for extend != nil` loop -/
inductive Walk where
  | yes      -- `*extend == target`
  | no       -- reached a class without parent
  | missing  -- `GetOrLoadClass` failed: the loop `return false`s
  | fuel
deriving DecidableEq, Repr

/-- `for extend != nil { if *extend == t { return true }; cls, acl := vm.GetOrLoadClass(*extend);
     if acl != nil { return false }; extend = cls.GetExtend() }` -/
def chainHas (H : Hier) (t : Name) : Nat → Option Name → Walk
  | _, none => .no
  | 0, some _ => .fuel
  | f+1, some e =>
    if e = t then .yes
    else
      match getClass H e with
      | none => .missing
      | some c => chainHas H t f c.ext

/-- `isCallerInClassHierarchy(ctx, targetClass)`; `ctx = none`: the context is neither a
`ClassMethodContext` nor a `ClassValue` (top level, plain function, closure created outside a class).
`none` = a walk ran out of fuel. (`Closure::bind` scopes are not modelled.) -/
def inHierarchy (H : Hier) (ctx : Option Name) (target : Name) : Option Bool :=
  match ctx with
  | none => some false
  | some c =>
    if c = target then some true
    else
      match chainHas H target (fuel H) (extOf H c) with
      | .fuel => none
      | .yes => some true
      | .missing => some false
      | .no =>
        match chainHas H c (fuel H) (extOf H target) with
        | .fuel => none
        | .yes => some true
        | .missing => some false
        | .no => some false

/-! ### access paths -/

inductive Mod where
  | pub | prot | priv
deriving DecidableEq, Repr, Inhabited

/-- what the receiver expression evaluated to -/
inductive Recv where
  | this   -- `*data.ThisValue`: the expression is `$this`
  | other  -- `*data.ClassValue`: any other object expression / a class named left of `::`
deriving DecidableEq, Repr, Inhabited

inductive Path where
  | propRead        -- `$o->p`                 CallObjectProperty.GetValue
  | propWrite       -- `$o->p = v`             CallObjectProperty.SetValue
  | methCall        -- `$o->m()`               CallObjectMethod.GetValue
  | dynPropRead     -- `$o->$n`                CallObjectDynamicProperty.GetValue
  | dynPropWrite    -- `$o->$n = v`            CallObjectDynamicProperty.SetValue
  | dynMeth         -- `$o->$n()`              CallObjectDynamicMethod.GetValue
  | idxRead         -- `$o['p']`               IndexExpression.GetValue
  | idxWrite        -- `$o['p'] = v`           IndexExpression.SetValue
  | staticPropRead  -- `A::$p`                 CallStaticProperty.GetValue
  | staticPropWrite -- `A::$p = v`             CallStaticProperty.SetProperty
  | staticMeth      -- `A::m()`                CallStaticMethod.GetValue
  | selfProp        -- `self::$p`              CallSelfProperty.GetValue
  | selfMeth        -- `self::m()`             CallSelfMethod.GetValue
  | staticKwProp    -- `static::$p`            CallStaticKeywordProperty.GetValue
  | staticKwMeth    -- `static::m()`           CallStaticKeywordMethod.GetValue
  | parentMeth      -- `parent::m()`           CallParentMethod.GetValue
  | unsetProp       -- `unset($o->p)`          UnsetStatement.GetValue, CallObjectProperty argument
  | unsetIdx        -- `unset($o['p'])`        UnsetStatement.GetValue, IndexExpression argument
  | iterate         -- `foreach ($o as $k => $v)` reaching the member  ForeachStatement.foreachClassValue
deriving DecidableEq, Repr, Inhabited

def Path.all : List Path :=
  [.propRead, .propWrite, .methCall, .dynPropRead, .dynPropWrite, .dynMeth, .idxRead, .idxWrite,
   .staticPropRead, .staticPropWrite, .staticMeth, .selfProp, .selfMeth, .staticKwProp, .staticKwMeth,
   .parentMeth, .unsetProp, .unsetIdx, .iterate]

/-- the modifier test one arm of one access node performs -/
inductive Check where
  /-- no test at all -/
  | unchecked
  /-- `if m == private { if !isCallerInClassHierarchy(ctx, T) … } else if m == protected { … }`;
  `gPriv`/`gProt`: the branch for that modifier exists; `tDecl`: `T` is the class in which the member was
  found (true) or the runtime class of the receiver (false) -/
  | hier (gPriv gProt tDecl : Bool)
  /-- `if m != public { error }` -/
  | pubOnly
  /-- `$this[...]`: looks only at the properties declared by the object's own class (`v.Class.GetProperty`),
  `pubOnly` on those; an inherited property falls through to the raw object storage: readable when
  `elseAllowed`, otherwise "no such property" -/
  | pubOnlyOwn (elseAllowed : Bool)
  /-- the node needs a class context (`self::`, `static::` "只能在类方法中使用") and tests nothing else -/
  | classCtxOnly
  /-- `parent::m()`: class context needed, `private` ⇒ error, everything else goes through -/
  | privDenied
  /-- `if m == private { if !canAccess…(ctx, …) { error } } else if m == protected { … }` where the callee is
  `canAccessProperty(ctx, recv.Class, property)`, `canAccessMethod(ctx, recv.Class, name, method)` or
  `canAccessMember(ctx, classInWhichTheMemberWasFound, m)` of `node/visibility.go`: PHP's rule applied to the
  class whose source text contains the executing code and to the class that declares the member.
  `gPriv`/`gProt`: the branch for that modifier exists; `needCtx`: the node also needs a class context
  (`self::`, `static::`) -/
  | lexical (gPriv gProt needCtx : Bool)
  /-- the translator did not find the shape it expects -/
  | shapeChanged
deriving DecidableEq, Repr, Inhabited

abbrev Table := Path → Recv → Check

/-- one access: who asks for what -/
structure Site where
  path : Path
  recv : Recv
  m : Mod
  /-- `ClassMethodContext.Class` of the executing context (`none`: not a class context) -/
  ctx : Option Name
  /-- the class whose source text contains the access (`none`: outside every class) -/
  lex : Option Name
  /-- runtime class of the receiver / the class left of `::` / the current class for `self::` -/
  obj : Name
  /-- the class that declares the member -/
  decl : Name
deriving DecidableEq, Repr, Inhabited

inductive Out where
  | allowed | denied | stuck
deriving DecidableEq, Repr, Inhabited

def Out.ofCheck : Option Bool → Out
  | none => .stuck
  | some true => .allowed
  | some false => .denied

/-- is modifier `m` guarded by a `hier gPriv gProt _` test -/
def guarded (gPriv gProt : Bool) : Mod → Bool
  | .pub => false
  | .priv => gPriv
  | .prot => gProt

/-- `canAccessMember(ctx, declClass, modifier)` with `scope = scopeClassOf(ctx)`: public ⇒ true; no scope ⇒
false; private ⇒ `scope.GetName() == declClass.GetName()`; protected ⇒ `isClassInHierarchy(vm, scope, declClass)` -/
def lexRule (H : Hier) (m : Mod) (scope : Option Name) (decl : Name) : Option Bool :=
  match m with
  | .pub => some true
  | .priv => some (scope == some decl)
  | .prot => inHierarchy H scope decl

def decideCheck (H : Hier) (c : Check) (s : Site) : Out :=
  match c with
  | .lexical gp gq nc =>
    if nc && s.ctx.isNone then .denied
    else if guarded gp gq s.m then Out.ofCheck (lexRule H s.m s.lex s.decl) else .allowed
  | .unchecked => .allowed
  | .hier gp gq td =>
    if guarded gp gq s.m then Out.ofCheck (inHierarchy H s.ctx (if td then s.decl else s.obj)) else .allowed
  | .pubOnly => if s.m = .pub then .allowed else .denied
  | .pubOnlyOwn ea =>
    if s.decl = s.obj then (if s.m = .pub then .allowed else .denied)
    else if ea then .allowed else .denied
  | .classCtxOnly => if s.ctx.isSome then .allowed else .denied
  | .privDenied => if s.ctx.isSome then (if s.m = .priv then .denied else .allowed) else .denied
  | .shapeChanged => .denied

/-- the decision of access path `s.path` as coded (table `T` regenerated from the source) -/
def decide (T : Table) (H : Hier) (s : Site) : Out := decideCheck H (T s.path s.recv) s

/-! ### the table of the pinned tree after the C07 fixes (the generated one must equal it or be better) -/

/-- what the source says after `fixes/C07-*` (second round: the `->`, dynamic-name, `A::m()`, `self::m()`,
`static::m()`, `unset($o->p)` and `foreach` paths apply PHP's rule to the lexical class and the declaring class,
on `$this` as on any other object; `$this[...]` looks the property up along the chain) -/
def pinned : Table := fun p r =>
  match p with
  | .propRead | .propWrite | .methCall | .dynPropRead | .dynPropWrite | .dynMeth => .lexical true true false
  | .idxRead | .idxWrite => .pubOnly
  | .staticPropRead | .staticPropWrite => .unchecked
  | .staticMeth => .lexical true true false
  | .selfMeth | .staticKwMeth => .lexical true true true
  | .selfProp | .staticKwProp => .classCtxOnly
  | .parentMeth => .privDenied
  | .unsetProp => .lexical true true false
  | .unsetIdx => (match r with | .this => .unchecked | .other => .pubOnly)
  | .iterate => .lexical true true false

/-! ### the table before the second round of repairs (kept for the negation witnesses of the old behaviour) -/

def arrowCheckBefore : Recv → Check
  | .this => .unchecked
  | .other => .hier true true false

/-- the tree at 9f27b4e / repo b997291: the caller is the runtime class of `$this`, the target the receiver's
class, `private` = `protected`, `$this` arms test nothing -/
def pinnedBefore : Table := fun p r =>
  match p with
  | .propRead | .propWrite | .methCall | .dynPropRead | .dynPropWrite | .dynMeth => arrowCheckBefore r
  | .idxRead => (match r with | .this => .pubOnlyOwn true | .other => .pubOnly)
  | .idxWrite => (match r with | .this => .pubOnlyOwn false | .other => .pubOnly)
  | .staticPropRead | .staticPropWrite => .unchecked
  | .staticMeth => .hier true true true
  | .selfProp | .selfMeth | .staticKwProp | .staticKwMeth => .classCtxOnly
  | .parentMeth => .privDenied
  | .unsetProp => arrowCheckBefore r
  | .unsetIdx => (match r with | .this => .unchecked | .other => .pubOnly)
  | .iterate => .unchecked

/-! ### effects: a denied access changes nothing -/

/-- value kinds a fixture stores (`Model.Types` refines this; here only identity matters) -/
abbrev Val := Nat

/-- the observable state of one fixture: member cells and how often each method body ran -/
structure Store where
  cell : Name → Val
  calls : Name → Nat

inductive Op where
  | read (member : Name)
  | write (member : Name) (v : Val) (typeOk : Bool)   -- `typeOk`: `property.GetType().Is(value)`
  | call (member : Name)
deriving DecidableEq, Repr

inductive Res where
  | ok (v : Option Val)
  | denied
  | stuck
deriving DecidableEq, Repr

def Store.set (σ : Store) (k : Name) (v : Val) : Store := { σ with cell := fun x => if x = k then v else σ.cell x }
def Store.bump (σ : Store) (k : Name) : Store := { σ with calls := fun x => if x = k then σ.calls x + 1 else σ.calls x }

/-- what a successful operation does to the store -/
def Store.after (σ : Store) : Op → Store
  | .read _ => σ
  | .write k v _ => σ.set k v
  | .call k => σ.bump k

/-- `SetValue`: type test first (typed paths only), then the modifier test, then the store;
`GetValue` of a call node: modifier test, then the body runs (once) -/
def exec (T : Table) (H : Hier) (s : Site) (σ : Store) : Op → Res × Store
  | .read k =>
    match decide T H s with
    | .allowed => (.ok (some (σ.cell k)), σ)
    | .denied => (.denied, σ)
    | .stuck => (.stuck, σ)
  | .write k v typeOk =>
    if !typeOk then (.denied, σ)
    else
      match decide T H s with
      | .allowed => (.ok none, σ.set k v)
      | .denied => (.denied, σ)
      | .stuck => (.stuck, σ)
  | .call k =>
    match decide T H s with
    | .allowed => (.ok none, σ.bump k)
    | .denied => (.denied, σ)
    | .stuck => (.stuck, σ)

/-! ### sequences of accesses within one VM

The access nodes keep no memory between two evaluations: no field of a node, of a class statement or of the VM
is written by a modifier test, and a test reads only the context class, the receiver's class and the member's
modifier. So a sequence of accesses is the fold of `exec` over one store. The harness's history stream runs
such sequences on the interpreter (same site twice, another site, after a caught denial, after a legitimate
access, interleaved with other classes) and holds every outcome against `verdict`. -/

structure Step where
  site : Site
  op : Op
deriving Repr

/-- accesses run one after the other on the same store -/
def run (T : Table) (H : Hier) : Store → List Step → List Res × Store
  | σ, [] => ([], σ)
  | σ, st :: rest =>
    let r := exec T H st.site σ st.op
    let rr := run T H r.2 rest
    (r.1 :: rr.1, rr.2)

def Res.out : Res → Out
  | .ok _ => .allowed
  | .denied => .denied
  | .stuck => .stuck

/-- the verdict on one access: a function of the site and of the operation, not of the store or the history -/
def verdict (T : Table) (H : Hier) (st : Step) : Out :=
  match st.op with
  | .write _ _ false => .denied
  | _ => decide T H st.site

/-- the store after a sequence, stated without running it: the effects of the allowed steps, in order -/
def effects (T : Table) (H : Hier) (σ : Store) (steps : List Step) : Store :=
  (steps.filter (fun st => verdict T H st == .allowed)).foldl (fun σ st => σ.after st.op) σ

/-! ### several accesses in ONE expression

The operands of an argument list, an array literal, a chain of `.` / `+`, a statement sequence inside one `try`
are evaluated left to right, each through its own access node; the first one that does not succeed raises and
ends the evaluation: the operands after it are not evaluated, the callee (if any) does not run. -/

/-- index of the first operand that did not succeed (if any), and the store afterwards -/
def evalArgs (T : Table) (H : Hier) : Nat → Store → List Step → Option Nat × Store
  | _, σ, [] => (none, σ)
  | i, σ, st :: rest =>
    match exec T H st.site σ st.op with
    | (.ok _, σ') => evalArgs T H (i+1) σ' rest
    | (_, σ') => (some i, σ')

/-! ### `Class.Is` on an object, restricted to what C07's fixtures use (classes, extends, direct implements;
interface inheritance and the BFS are C08's) -/

/-- `isClassValueInstanceOf(target, class, vm)` then `extendISClass`: own name, own implements, then each
ancestor's name and implements; a missing ancestor ends the loop with `false` -/
def isAChain (H : Hier) (t : Name) : Nat → Option Name → Option Bool
  | _, none => some false
  | 0, some _ => none
  | f+1, some e =>
    match getClass H e with
    | none => some false
    | some c => if t = c.name || c.impl.contains t then some true else isAChain H t f c.ext

def isA (H : Hier) (c : Name) (t : Name) : Option Bool := isAChain H t (fuel H) (some c)

end Model.Access
