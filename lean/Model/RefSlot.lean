/-
C06 — `Model.RefSlot`: the `&`-binding of an array slot (`ZVal.RefSlotCount`).

`Model.Heap` has no references to elements.  This model adds exactly that layer, for flat
arrays of integers: what a copy of an array shares with its source depends on STATE that
earlier statements left on the source — the mark `RefSlotCount` on a slot's cell.

* `heap`: the `*ZVal` cells, identity = index; a cell has a value and its `RefSlotCount`.
* `arrs`: variable `x` ↦ the slot list of the array it holds (`ArrayValue.List`, cell ids).
* `bnd`:  reference variable `r` ↦ the cell it is bound to and who bound it (`Kind.var`:
  `$r = &$x[i]`, `Context.SetVariableValue` on an `ArraySlotRef`; `Kind.param`: `$x[i]` passed
  to a by-reference parameter, `IndexExpression.GetZVal` → `fnCtx.SetIndexZVal`), or nothing.

Statements, each mirroring the named Go function:
* `lit x vs`    `$x = [v…]`: fresh cells, unmarked.
* `copy x y`    `$x = $y` (also by-value parameter, return, property / element store: every
                copy point is `CloneArrayValue`): a new slot list holding THE SAME cells — the cells of
                scalar elements are shared by all copies, marked or not.
* `store x i v` `$x[i] = v` = `ArrayValue.storeSlot`: a marked cell (`RefSlotCount > 0`) is
                written in place — the write is meant to reach the reference —, an unmarked one is
                REPLACED by a fresh cell in this array only.
* `bind k r x i` the reference variable / parameter `r` is bound to `$x[i]`: whatever `r` was bound to
                before is released, then `ArrayValue.OwnSlot(i)` — an unmarked cell is first replaced by
                a cell of this array alone, a marked one is taken as it is — and the binding is counted
                (`AddRefSlot`) if `cfg.incr k`.
* `wr r v`      a write through the reference: the cell's value, in place.
* `release r`   the life of the binder ends (`unset($r)`, `$r = &$other`, the function whose parameter
                or local `r` is returns): the binding is uncounted if `cfg.decr k`.

`Cfg.counted` is the design the property needs: the mark is the NUMBER OF LIVE BINDERS
(`C06_binder_count_exact`), so a slot whose last binder has gone is an ordinary value slot again
(`C06_released_slot_is_value_slot`).  `Cfg.tree` is what this tree does: `$r = &$x[i]` marks,
binding to a by-reference parameter does not, nothing ever unmarks (a known finding for variable
binders that have gone).  `Cfg.sticky`: binding to a by-reference parameter marks as well and
nothing unmarks — after ANY call that got `$x[i]` by reference every later copy of `$x` shares slot `i`.
-/
namespace Model.RefSlot

/-- who binds the slot -/
inductive Kind
  | var    -- a variable: `$r = &$x[i]`
  | param  -- a by-reference parameter, for the duration of the call
deriving DecidableEq, Repr

structure Cell where
  val : Int
  cnt : Nat   -- ZVal.RefSlotCount
deriving DecidableEq, Repr

structure Cfg where
  incr : Kind → Bool   -- binding marks the slot (`AddRefSlot`)
  decr : Kind → Bool   -- the end of the binder's life unmarks it

def Cfg.counted : Cfg := ⟨fun _ => true, fun _ => true⟩
def Cfg.tree : Cfg := ⟨fun k => k == .var, fun _ => false⟩
def Cfg.sticky : Cfg := ⟨fun _ => true, fun _ => false⟩

structure St where
  heap : List Cell
  arrs : List (List Nat)
  bnd : List (Option (Nat × Kind))
deriving Repr

inductive Op
  | lit (x : Nat) (vs : List Int)
  | copy (x y : Nat)
  | store (x i : Nat) (v : Int)
  | bind (k : Kind) (r x i : Nat)
  | wr (r : Nat) (v : Int)
  | release (r : Nat)
deriving Repr

def cellVal (h : List Cell) (c : Nat) : Int :=
  match h[c]? with
  | some cl => cl.val
  | none => 0

def setVal (h : List Cell) (c : Nat) (v : Int) : List Cell :=
  match h[c]? with
  | some cl => h.set c ⟨v, cl.cnt⟩
  | none => h

def incCnt (h : List Cell) (c : Nat) : List Cell :=
  match h[c]? with
  | some cl => h.set c ⟨cl.val, cl.cnt + 1⟩
  | none => h

def decCnt (h : List Cell) (c : Nat) : List Cell :=
  match h[c]? with
  | some cl => h.set c ⟨cl.val, cl.cnt - 1⟩
  | none => h

/-- the end of a binder's life -/
def release (cfg : Cfg) (s : St) (r : Nat) : St :=
  match s.bnd[r]? with
  | some (some (c, k)) =>
    { s with heap := if cfg.decr k then decCnt s.heap c else s.heap, bnd := s.bnd.set r none }
  | _ => s

/-- `ArrayValue.OwnSlot(i)` on `$x`: the cell a reference may be bound to -/
def ownSlot (s : St) (x i : Nat) : Option (St × Nat) :=
  match s.arrs[x]? with
  | none => none
  | some a =>
    match a[i]? with
    | none => none
    | some c =>
      match s.heap[c]? with
      | none => none
      | some cl =>
        if cl.cnt > 0 then some (s, c)
        else some ({ s with heap := s.heap ++ [⟨cl.val, 0⟩], arrs := s.arrs.set x (a.set i s.heap.length) },
                   s.heap.length)

/-- `ArrayValue.storeSlot` -/
def storeSlot (s : St) (x i : Nat) (v : Int) : Option St :=
  match s.arrs[x]? with
  | none => none
  | some a =>
    match a[i]? with
    | none => none
    | some c =>
      match s.heap[c]? with
      | none => none
      | some cl =>
        if cl.cnt > 0 then some { s with heap := s.heap.set c ⟨v, cl.cnt⟩ }
        else some { s with heap := s.heap ++ [⟨v, 0⟩], arrs := s.arrs.set x (a.set i s.heap.length) }

/-- one statement; `none`: outside the fragment (unknown variable, index out of range) -/
def stepOpt (cfg : Cfg) (s : St) : Op → Option St
  | .lit x vs =>
    if x < s.arrs.length then
      some { s with heap := s.heap ++ vs.map (fun v => ⟨v, 0⟩),
                    arrs := s.arrs.set x (List.range' s.heap.length vs.length) }
    else none
  | .copy x y =>
    if x < s.arrs.length then
      match s.arrs[y]? with
      | some a => some { s with arrs := s.arrs.set x a }
      | none => none
    else none
  | .store x i v => storeSlot s x i v
  | .bind k r x i =>
    if r < s.bnd.length then
      match ownSlot (release cfg s r) x i with
      | none => none
      | some (s1, c) =>
        some { s1 with heap := if cfg.incr k then incCnt s1.heap c else s1.heap,
                       bnd := s1.bnd.set r (some (c, k)) }
    else none
  | .wr r v =>
    match s.bnd[r]? with
    | some (some (c, _)) => some { s with heap := setVal s.heap c v }
    | some none => some s       -- a plain variable: no array is concerned
    | none => none
  | .release r => if r < s.bnd.length then some (release cfg s r) else none

def step (cfg : Cfg) (s : St) (op : Op) : St := (stepOpt cfg s op).getD s

def init (nv nr : Nat) : St := ⟨[], List.replicate nv [], List.replicate nr none⟩

def run (cfg : Cfg) (nv nr : Nat) (ops : List Op) : St := ops.foldl (step cfg) (init nv nr)

/-- what the variables hold, as values -/
def vals (s : St) : List (List Int) := s.arrs.map (fun a => a.map (cellVal s.heap))

/-- number of live binders of cell `c` -/
def binders (s : St) (c : Nat) : Nat :=
  s.bnd.countP (fun b => match b with | some (c', _) => c' == c | none => false)

/-- The discipline "references are gone before the array is copied": `lit` / `copy` only
while no binder is live, a reference variable is bound only while it is not live (`L` = the live
binders, read off the program text). -/
def disc : List Nat → List Op → Bool
  | _, [] => true
  | L, .lit _ _ :: r => L.isEmpty && disc L r
  | L, .copy _ _ :: r => L.isEmpty && disc L r
  | L, .bind _ b _ _ :: r => !L.contains b && disc (b :: L) r
  | L, .release b :: r => disc (L.filter (· != b)) r
  | L, .store _ _ _ :: r => disc L r
  | L, .wr _ _ :: r => disc L r

end Model.RefSlot
