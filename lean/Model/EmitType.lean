/-!
# Model.EmitType — a structured type written as its PRINTED form and parsed again at run time

`genTypes` (cmd/compile/gen_data.go) writes a `data.Types` value either arm by arm
(`data.NewNullableType(…)`, `data.NewUnionType([]data.Types{…})`) or, in its default arm, as
`data.NewBaseType(<ty.String()>)`: the generated program PARSES the printed form. `data.NewBaseType`
splits a text into the members of a union only when `len(ty) > 1 && strings.Index(ty, "|") > 1`.
Text is `List Char`; core only.
-/
namespace Model.EmitType

/-- `strings.Index(s, "|")` -/
def indexBar : List Char → Option Nat
  | [] => none
  | c :: cs => if c = '|' then some 0 else (indexBar cs).map (· + 1)

/-- the split test of `data.NewBaseType`: `len(ty) > 1 && strings.Index(ty, "|") > 1` -/
def splits (s : List Char) : Bool :=
  decide (s.length > 1) && (match indexBar s with | some i => decide (i > 1) | none => false)

/-- `UnionType.String()`: the members' printed forms joined with `|` -/
def joinBar : List (List Char) → List Char
  | [] => []
  | [p] => p
  | p :: q :: r => p ++ '|' :: joinBar (q :: r)

/-- a printed member without `|` (every member the parsers build: a keyword, a class name, `?name`) -/
def barFree (p : List Char) : Prop := ∀ c ∈ p, c ≠ '|'

/-- does the generated program hold a UNION for a union with these printed members?
`unionArm = true`: genTypes writes `data.NewUnionType` member by member; `false`: the default arm
prints the union and `data.NewBaseType` decides by its split test. -/
def readsBackAsUnion (unionArm : Bool) (members : List (List Char)) : Bool :=
  unionArm || splits (joinBar members)

/-- arms obligation over the regenerated facts: every implementation of data.Types has its own arm in
genTypes, or its printed form is read back by NewBaseType as the same value (`printSafe`), or it is on
record (`onRecord`) -/
def armsCover (impls arms printSafe onRecord : List String) : Bool :=
  impls.all fun t => arms.contains t || printSafe.contains t || onRecord.contains t

end Model.EmitType
