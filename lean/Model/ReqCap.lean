import Model.ReqFacts
/-!
# Model.ReqCap — values captured BY VALUE by a closure all requests share (round 7)

The route handler is one closure for the whole process; its definition-time environment holds
the values the script made at boot.  A call of the closure binds each by-value `use` variable to a
slot of the call's fresh context (`LambdaExpression.Call`).  Arrays and `{k: v}` objects are value
types and are mutable in place; besides their content they carry HIDDEN state, the foreach cursor
(`ObjectValue.iterator`, `ArrayValue.iterator`).  Whether the binding copies is the parameter.

A value = content + cursor.  Steps of a request (a call of the shared closure):

    set i      write the request's own datum into element i
    push       append the request's own datum
    rewind     start a foreach            (cursor := 0)
    next       one foreach iteration      (observe the element under the cursor, advance it)
    readAll    observe the whole content
    gate | write

`World.kind` is the kind of the captured value, `World.copied` whether the binding hands the call
its own copy.  An immutable value (scalar) is never changed in place: a write replaces the slot's
pointer, so sharing it is unobservable — `bindsPrivate`.  The first turn of a request enters the
closure (the binding); with an aliased binding every later step acts on the ONE value of the
definition-time environment.
-/
namespace Model.ReqCap

abbrev Rid := Nat

inductive Kind | scalar | arr | obj
  deriving DecidableEq, Repr

structure Val where
  items : List Nat
  cur   : Nat
  deriving DecidableEq, Repr

inductive Step | set (i : Nat) | push | rewind | next | readAll | gate | write
  deriving DecidableEq, Repr

/-- where the call's variable lives: not yet bound, its own copy, or the environment's value -/
inductive Loc | unbound | own (v : Val) | alias
  deriving DecidableEq, Repr

structure ReqSt where
  pc   : List Step
  loc  : Loc
  obs  : List Nat          -- everything the request observed, in order
  body : Option (List Nat) -- the response, once written
  deriving DecidableEq, Repr

structure World where
  kind   : Kind
  copied : Bool
  boot   : List Nat            -- the content the script gave the value at boot
  prog   : Rid → List Step
  datum  : Rid → Nat

structure State where
  shared : Val                 -- the value in the closure's definition-time environment
  reqs   : Rid → ReqSt

def bindsPrivate (w : World) : Bool := w.kind == .scalar || w.copied

/-- one operation on a value with the request's datum `d`: new value and what is observed -/
def exec (st : Step) (d : Nat) (v : Val) : Val × List Nat :=
  match st with
  | .set i   => ({ v with items := v.items.set i d }, [])
  | .push    => ({ v with items := v.items ++ [d] }, [])
  | .rewind  => ({ v with cur := 0 }, [])
  | .next    => ({ v with cur := v.cur + 1 }, (v.items[v.cur]?).toList)
  | .readAll => (v, v.items)
  | .gate    => (v, [])
  | .write   => (v, [])

/-- one turn of a request that sees the environment's value `sh` -/
def localStep (w : World) (d : Nat) (rs : ReqSt) (sh : Val) : ReqSt × Val :=
  match rs.body with
  | some _ => (rs, sh)
  | none =>
    match rs.loc with
    | .unbound =>   -- entering the closure: the by-value capture
        if bindsPrivate w then ({ rs with loc := .own { items := sh.items, cur := 0 } }, sh)
        else ({ rs with loc := .alias }, sh)
    | .own v =>
        match rs.pc with
        | [] => ({ rs with body := some rs.obs }, sh)
        | .write :: _ => ({ rs with pc := [], body := some rs.obs }, sh)
        | st :: rest =>
            ({ rs with pc := rest, loc := .own (exec st d v).1, obs := rs.obs ++ (exec st d v).2 }, sh)
    | .alias =>
        match rs.pc with
        | [] => ({ rs with body := some rs.obs }, sh)
        | .write :: _ => ({ rs with pc := [], body := some rs.obs }, sh)
        | st :: rest =>
            ({ rs with pc := rest, obs := rs.obs ++ (exec st d sh).2 }, (exec st d sh).1)

def stepReq (w : World) (s : State) (r : Rid) : State :=
  let p := localStep w (w.datum r) (s.reqs r) s.shared
  { shared := p.2, reqs := fun q => if q = r then p.1 else s.reqs q }

def run (w : World) (s : State) : List Rid → State
  | [] => s
  | r :: rest => run w (stepReq w s r) rest

def init (w : World) : State :=
  { shared := { items := w.boot, cur := 0 },
    reqs := fun r => { pc := w.prog r, loc := .unbound, obs := [], body := none } }

def finished (s : State) (r : Rid) : Bool := (s.reqs r).body.isSome
def response (s : State) (r : Rid) : List Nat := ((s.reqs r).body).getD []

/-- the request served alone: only its own turns, as many as it can use -/
def soloResponse (w : World) (r : Rid) : List Nat :=
  response (run w (init w) (List.replicate ((w.prog r).length + 2) r)) r

/-- kinds of value the analysed tree copies on a by-value capture: every capture goes through the
slot store and the slot store clones the kind -/
def copiedOf (f : Model.Req.Facts) (k : Kind) : Bool :=
  f.captureViolations.isEmpty &&
  (match k with
   | .scalar => true
   | .arr => f.slotClones "ArrayValue"
   | .obj => f.slotClones "ObjectValue")

end Model.ReqCap
