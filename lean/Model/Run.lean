/-
C20 (iii) — one run of the interpreter on one program, seen from the
process-wide state it can touch: package-level Go variables (`data.WriteOutput`,
`data.userOutputEmitted`, the ini store, the include_once cache, …), the *cells*.

A run is an interaction tree over the cells: it reads a cell and continues
depending on the value, writes a cell, or finishes with its observable result
`O` (output bytes, diagnostics, exit status). Everything else a run depends on
(the program text, the fresh VM, its inputs) is inside the tree; the only thing
that survives from earlier runs in the same process is the cell store.

`Disc D W p` is the reset-before-read discipline: on every path of `p`, a cell
that earlier programs may have left dirty (`D c`) is read only after `p` itself
has written it (`c ∈ W`).
-/
namespace Model.Run

inductive Prog (C V O : Type) where
  | done (out : O)
  | read (c : C) (k : V → Prog C V O)
  | write (c : C) (v : V) (k : Prog C V O)

variable {C V O : Type} [DecidableEq C]

abbrev Store (C V : Type) := C → V

def Store.put (s : Store C V) (c : C) (v : V) : Store C V := fun c' => if c' = c then v else s c'

/-- result and final store of a run started on store `s` -/
def run : Prog C V O → Store C V → O × Store C V
  | .done o, s => (o, s)
  | .read c k, s => run (k (s c)) s
  | .write c v k, s => run k (s.put c v)

/-- reset-before-read for the cells in `D` (those an earlier program can have changed);
`W` = cells this run has written so far -/
def Disc (D : C → Prop) : List C → Prog C V O → Prop
  | _, .done _ => True
  | W, .read c k => (D c → c ∈ W) ∧ ∀ v, Disc D W (k v)
  | W, .write c _ k => Disc D (c :: W) k

/-- run `b` in the state `a` left behind (other VM, same process) -/
def after (a b : Prog C V O) (s : Store C V) : O := (run b (run a s).2).1

/-- a run that begins by storing fixed values into some cells — the resets on the entry path of a
run (`LoadAndRun`: `ResetUserOutput()`; VM construction: the hook variables) — and then does `k` -/
def resetThen : List (C × V) → Prog C V O → Prog C V O
  | [], k => k
  | (c, v) :: r, k => .write c v (resetThen r k)

/-- the same reset placed under a test of process or VM state `g`: `if test g { c = v }; k` -/
def guardedReset (g : C) (test : V → Bool) (c : C) (v : V) (k : Prog C V O) : Prog C V O :=
  .read g (fun x => if test x then .write c v k else k)

end Model.Run
