import Model.ReqFacts
/-!
# Model.ReqOut — where script output goes while requests are in flight (C11, round 8)

`echo` (and inline HTML, heredocs, the `ob_*` flush) writes through ONE process-wide hook,
`data.WriteOutput`.  On the pinned tree the request path never touches the hook (`Discipline.direct`):
whatever a handler echoes reaches the process's stdout, tagged here with the request that wrote it; no
response body receives any of it.  A request path that wants "script output is the response" and gets
there by pointing the hook at the request's own body on entry and putting the PREVIOUS value back on exit
(`Discipline.swap`: what `ob_start` … `ob_get_clean` does between two script calls, and what a
`defer routeOutput(rw)()` in `ServeHTTP` would do) has one `cur` for everybody.

An event trace is any list of `start r | echo r v | stop r` — any number of requests, any interleaving.
Which discipline the analysed tree has is decided by the regenerated facts (`disciplineOf`): no store into
another package's package-level variable anywhere in `std/net/http` ⇒ `direct`.
-/
namespace Model.ReqOut
open Model.Req (Rid)
open Model.Req (Facts)

inductive Discipline | direct | swap
  deriving DecidableEq, Repr

inductive Ev
  | start (r : Rid)
  | echo (r : Rid) (v : Nat)
  | stop (r : Rid)
  deriving DecidableEq, Repr

/-- `cur`: where the process-wide hook points (`none` = the process's stdout, `some q` = the body of
request `q`); `saved r`: what request `r` found there when it started -/
structure St where
  cur    : Option Rid := none
  saved  : Rid → Option Rid := fun _ => none
  body   : Rid → List Nat := fun _ => []
  stdout : List (Rid × Nat) := []

def init : St := {}

def step (d : Discipline) (s : St) : Ev → St
  | .start r =>
    match d with
    | .direct => s
    | .swap => { s with saved := fun q => if q = r then s.cur else s.saved q, cur := some r }
  | .echo r v =>
    match s.cur with
    | none => { s with stdout := s.stdout ++ [(r, v)] }
    | some q => { s with body := fun p => if p = q then s.body p ++ [v] else s.body p }
  | .stop r =>
    match d with
    | .direct => s
    | .swap => { s with cur := s.saved r }

def run (d : Discipline) (s : St) (t : List Ev) : St := t.foldl (step d) s

/-- what of a list of tagged writes was written by `r` -/
def proj (r : Rid) (l : List (Rid × Nat)) : List Nat :=
  (l.filter (fun p => p.1 == r)).map (fun p => p.2)

/-- everything observable that the outside attributes to request `r`: its response body, then what the
process's stdout received while `r` was the one running -/
def attributed (s : St) (r : Rid) : List Nat := s.body r ++ proj r s.stdout

/-- well-nested traces: a request runs (echoes, ends) only while it is the innermost one in flight -/
def nested : List Rid → List Ev → Bool
  | _, [] => true
  | stk, .start r :: t => !stk.contains r && nested (r :: stk) t
  | [], .echo _ _ :: _ => false
  | top :: stk, .echo r _ :: t => r == top && nested (top :: stk) t
  | [], .stop _ :: _ => false
  | top :: stk, .stop r :: t => r == top && nested stk t

def disciplineOf (f : Facts) : Discipline :=
  if f.requestHookStores.isEmpty then .direct else .swap

end Model.ReqOut
