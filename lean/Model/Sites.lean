/-
C20 — shapes of the facts the translator `extract/c20` regenerates from the
repository source on every run (data only; the classification of a site into an
order-independence pattern lives in `Proofs/C20Sites.lean`).
-/
namespace Model.Sites

/-- syntactic summary of the body of one `for … range <map>` loop -/
inductive Summary
  | writesMap       -- only `m[k] = v` / `delete(m, k)` into maps
  | appendSorted    -- only appends; every target slice is sorted later in the function
  | appendUnsorted  -- only appends; some target is not sorted afterwards
  | accumulate      -- only `x += e`, `x++`, `x |= e` on non-string operands
  | concat          -- `s += e` on a string
  | exitsEarly      -- contains `return` / `break` out of the loop
  | empty           -- no effect
  | other           -- anything else (calls, mixed effects)
  | sortedKeys      -- ranged expression is `slices.Sorted(maps.Keys(m))`
deriving DecidableEq, Repr

/-- one `for … range X` with `X` of map type: file, enclosing function (with receiver),
text of `X`, ordinal among sites with the same three, summary of the body -/
structure RangeSite where
  file : String
  fn : String
  expr : String
  ord : Nat
  summary : Summary
deriving DecidableEq, Repr

/-- how a package-level variable is written outside `init` -/
inductive WriteKind
  | assign | index | field | incdec | addr | method | deref | oscall
deriving DecidableEq, Repr

/-- one package-level variable written outside `init` (or, with package `process`, one kind of
call that changes process state outside Go variables: `os.Chdir`, `os.Setenv` …) -/
structure StateCell where
  pkg : String
  name : String
  kinds : List WriteKind
deriving DecidableEq, Repr

end Model.Sites
