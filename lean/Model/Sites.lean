/-
C20 — shapes of the facts the translator `extract/c20` regenerates from the
repository source on every run (data only; the classification of a site into an
order-independence pattern lives in `Proofs/C20Sites.lean`).
-/
namespace Model.Sites

/-- syntactic summary of the body of one `for … range <map>` loop -/
inductive Summary
  | writesMap       -- only `m[k] = v` / `delete(m, k)` into maps
  | appendSorted    -- only appends; every target slice is sorted later in the function
  | appendUnsorted  -- only appends; some target is not sorted afterwards
  | accumulate      -- only `x += e`, `x++`, `x |= e` on non-string operands
  | concat          -- `s += e` on a string
  | exitsEarly      -- contains `return` / `break` out of the loop
  | empty           -- no effect
  | other           -- anything else (calls, mixed effects)
  | sortedKeys      -- ranged expression is `slices.Sorted(maps.Keys(m))`
deriving DecidableEq, Repr

/-- one `for … range X` with `X` of map type: file, enclosing function (with receiver),
text of `X`, ordinal among sites with the same three, summary of the body -/
structure RangeSite where
  file : String
  fn : String
  expr : String
  ord : Nat
  summary : Summary
deriving DecidableEq, Repr

/-- what a loop over a Go map appends to the slice that is sorted afterwards -/
inductive SortElem
  | key    -- the range key variable itself
  | value  -- the range value variable itself
  | other  -- anything else (a field, a method result, a composite)
deriving DecidableEq, Repr

/-- what the sort of a slice collected in map order compares -/
inductive CmpShape
  | whole    -- the elements themselves, of string or integer type (`sort.Strings`, `S[i] < S[j]`,
             --   `strings.Compare(a, b)`): two elements that tie are equal
  | derived  -- the elements seen through a function, method, field or conversion, or a comparator the
             --   translator cannot read: different elements may tie
deriving DecidableEq, Repr

/-- one sort of a slice that a `for … range <map>` loop collected: the site (as in `RangeSite`), the
slice, what was appended, the sorting function, whether it is a stable one, the comparator's shape and
the normalised text of its result expressions -/
structure SortFact where
  file : String
  fn : String
  expr : String
  ord : Nat
  target : String
  elem : SortElem
  sorter : String
  stable : Bool
  cmp : CmpShape
  cmpText : String
deriving DecidableEq, Repr

/-- how a package-level variable is written outside `init` -/
inductive WriteKind
  | assign | index | field | incdec | addr | method | deref | oscall
deriving DecidableEq, Repr

/-- one package-level variable written outside `init` (or, with package `process`, one kind of
call that changes process state outside Go variables: `os.Chdir`, `os.Setenv` …) -/
structure StateCell where
  pkg : String
  name : String
  kinds : List WriteKind
deriving DecidableEq, Repr

/-- how one place touches a package-level variable -/
inductive Touch
  | reads        -- the value is used (also: the function stored in the variable is called)
  | writes       -- a value computed at run time is stored
  | resets       -- the variable's initial value is stored (its initialiser, or the zero value)
  | sets         -- some other constant-like value is stored (a literal, a declared function, a closure that captures nothing)
  | readsWrites  -- both (`x++`, `x += e`, `&x`, a pointer-receiver method of unknown effect)
deriving DecidableEq, Repr

/-- one place that touches a package-level variable: the function it is in, whether it touches the
variable itself (`via = ""`) or calls an accessor of the variable's package, whether the function
is itself such an accessor, and under which conditions the place is executed inside its function:
`conds` = the enclosing constructs from the function body down to the place, outermost first;
`guards` = the earlier top-level statements of the function that can leave it -/
structure CellUse where
  pkg : String
  name : String
  file : String
  fn : String
  touch : Touch
  via : String
  accessor : Bool
  conds : List String
  guards : List String
deriving DecidableEq, Repr

/-- one call inside a function on the entry path of a run, in source order -/
structure EntryStep where
  file : String
  fn : String
  callee : String
  conds : List String
  guards : List String
deriving DecidableEq, Repr

end Model.Sites
