import Model.Access
/-!
# C07 — `node/visibility.go canAccessDeclared`: an access is decided on THREE classes

`Model.Access.Site` takes the declaring class as given. The nodes do not: `canAccessProperty(ctx, recv.Class, P)` /
`canAccessMethod(ctx, recv.Class, name, M)` receive the class of the RECEIVER and the member the lookup from that
class found, and `canAccessDeclared`

    decl := class;  for decl != nil && !declares(decl) { decl = parentClassOf(vm, decl) }
    if canAccessMember(ctx, decl, modifier) { return true }
    scope := scopeClassOf(ctx)
    return scope != nil && declares(scope) && classExtends(vm, class, scope.GetName())

walks from the receiver's class up to the first class that itself declares the name (`findDecl`), applies PHP's
rule to (scope class, that class) (`Model.Access.lexRule`), and — when that refuses — grants the access if the
scope class itself declares a member of the name and the receiver's class inherits the scope class (PHP: the scope
class's own private member wins on an instance of the scope class). Which relation the last conjunct tests is a
regenerated fact (`Fallback`, `Generated.C07Access.fallbackRel`).
-/
namespace Model.AccessDecl
open Model.Access

/-- which classes declare a member of the one name looked at, and with which modifier -/
abbrev Decls := Name → Option Mod

/-- the relation between the receiver's class and the scope class the fallback clause asks for -/
inductive Fallback where
  | recvExtendsScope  -- `classExtends(vm, class, scope.GetName())`: the receiver's class inherits the scope class
  | symmetric         -- `isClassInHierarchy(vm, class, scope)`: same class, descendant or ancestor
  | unconditional     -- `declares(scope)` alone
  | absent            -- no fallback clause
  | shapeChanged
deriving DecidableEq, Repr, Inhabited

/-- `parentClassOf(vm, class)`: nil without `extends` or when the parent cannot be loaded -/
def parentOf (H : Hier) (c : Name) : Option Name :=
  match extOf H c with
  | none => none
  | some p => if (getClass H p).isSome then some p else none

/-- `for decl != nil && !declares(decl) { decl = parentClassOf(vm, decl) }`; outer `none`: out of fuel -/
def findDecl (H : Hier) (D : Decls) : Nat → Option Name → Option (Option Name)
  | _, none => some none
  | 0, some _ => none
  | f+1, some c => if (D c).isSome then some (some c) else findDecl H D f (parentOf H c)

/-- `classExtends(vm, class, target)`: one upward loop from the parent of `class` -/
def classExtends (H : Hier) (cls target : Name) : Option Bool :=
  match chainHas H target (fuel H) (extOf H cls) with
  | .yes => some true
  | .fuel => none
  | .no => some false
  | .missing => some false

def fallbackTest (H : Hier) (fb : Fallback) (recv scope : Name) : Option Bool :=
  match fb with
  | .recvExtendsScope => classExtends H recv scope
  | .symmetric => inHierarchy H (some recv) scope
  | .unconditional => some true
  | .absent => some false
  | .shapeChanged => some false

/-- `canAccessMember(ctx, decl, modifier)` where `decl` may be nil -/
def memberRule (H : Hier) (m : Mod) (scope : Option Name) (decl : Option Name) : Option Bool :=
  match decl with
  | none => some (m == .pub)
  | some d => lexRule H m scope d

/-- `canAccessDeclared(ctx, class, modifier, declares)`; `none`: a walk did not terminate -/
def canAccessDeclared (H : Hier) (fb : Fallback) (D : Decls) (scope : Option Name) (recv : Name) (m : Mod) :
    Option Bool :=
  match findDecl H D (fuel H) (some recv) with
  | none => none
  | some decl =>
    match memberRule H m scope decl with
    | none => none
    | some true => some true
    | some false =>
      match scope with
      | none => some false
      | some s => if (D s).isSome then fallbackTest H fb recv s else some false

inductive Ans where
  | allowed | denied | stuck | nomember
deriving DecidableEq, Repr, Inhabited

/-- an access through `->` as the nodes perform it: the member is looked up from the receiver's class
(`GetPropertyStmt` / `GetMethod` along the chain: the nearest declaration), a public one goes through, anything
else is handed to `canAccessDeclared` with the modifier of what was found -/
def access (H : Hier) (fb : Fallback) (D : Decls) (scope : Option Name) (recv : Name) : Ans :=
  match findDecl H D (fuel H) (some recv) with
  | none => .stuck
  | some none => .nomember
  | some (some d) =>
    match D d with
    | none => .nomember
    | some .pub => .allowed
    | some m =>
      match canAccessDeclared H fb D scope recv m with
      | none => .stuck
      | some true => .allowed
      | some false => .denied

/-! ## Round 7: WHICH class a protected member is judged by

`canAccessDeclared` hands the class the walk stopped at — the NEAREST declaration — to `canAccessMember`. A change
that walks on first (`rootDeclaringClass`: "judge protected members by the class that first declared them") hands
over another class; which one is the regenerated fact `Generated.C07Access.judgeRel`. -/

inductive Judge where
  | nearest       -- the class the walk stopped at
  | topmost       -- the top-most ancestor that declares the name, whatever its modifier there
  | prototype     -- upwards through declaring ancestors as long as their declaration is not private (PHP's method prototype)
  | shapeChanged
deriving DecidableEq, Repr, Inhabited

/-- `for c := decl; c != nil; c = parentClassOf(vm, c) { if declares(c) { decl = c } }`; `none`: out of fuel -/
def topmost (H : Hier) (D : Decls) : Nat → Option Name → Name → Option Name
  | _, none, best => some best
  | 0, some _, _ => none
  | f+1, some c, best => topmost H D f (parentOf H c) (if (D c).isSome then c else best)

/-- the same walk that stops in front of a private declaration -/
def protoRoot (H : Hier) (D : Decls) : Nat → Option Name → Name → Option Name
  | _, none, best => some best
  | 0, some _, _ => none
  | f+1, some c, best =>
    match D c with
    | none => protoRoot H D f (parentOf H c) best
    | some .priv => some best
    | some _ => protoRoot H D f (parentOf H c) c

/-- the class handed to `canAccessMember`; outer `none`: a walk did not terminate -/
def judgedClass (H : Hier) (j : Judge) (D : Decls) (m : Mod) : Option Name → Option (Option Name)
  | none => some none
  | some d =>
    if m = .prot then
      match j with
      | .nearest => some (some d)
      | .topmost => (topmost H D (fuel H) (some d) d).map some
      | .prototype => (protoRoot H D (fuel H) (parentOf H d) d).map some
      | .shapeChanged => some (some d)
    else some (some d)

/-- `canAccessDeclared` with the judged class made explicit -/
def canAccessDeclaredJ (H : Hier) (fb : Fallback) (j : Judge) (D : Decls) (scope : Option Name) (recv : Name)
    (m : Mod) : Option Bool :=
  match findDecl H D (fuel H) (some recv) with
  | none => none
  | some decl =>
    match judgedClass H j D m decl with
    | none => none
    | some jd =>
      match memberRule H m scope jd with
      | none => none
      | some true => some true
      | some false =>
        match scope with
        | none => some false
        | some s => if (D s).isSome then fallbackTest H fb recv s else some false

def accessJ (H : Hier) (fb : Fallback) (j : Judge) (D : Decls) (scope : Option Name) (recv : Name) : Ans :=
  match findDecl H D (fuel H) (some recv) with
  | none => .stuck
  | some none => .nomember
  | some (some d) =>
    match D d with
    | none => .nomember
    | some .pub => .allowed
    | some m =>
      match canAccessDeclaredJ H fb j D scope recv m with
      | none => .stuck
      | some true => .allowed
      | some false => .denied

end Model.AccessDecl
