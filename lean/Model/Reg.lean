import Model.RW
/-
C10 — the sequential registry of `runtime/vm.go` (`*VM`): classMap, interfaceMap,
funcMap, constantMap, globalVars, phpFileCache, with the results of
AddClass / AddInterface / AddFunc / GetClass / GetOrLoadClass / GetInterface /
GetOrLoadInterface / LoadPkg / GetFunc / SetConstant / GetConstant /
EnsureGlobalZVal / SetPhpFileCache / GetPhpFileCache exactly as coded
(order of the checks, which error, what is (not) stored).

Abstractions (stated in notes/C10.md):
* a declaration is `(name, id, src)`; `id` identifies the Go object that was
  registered (the harness numbers its stubs), `src = none` ⇔ `GetFrom() == nil`,
  `src = some 0` ⇔ source `""`, `src = some n` ⇔ the n-th file;
  `utils.SamePhpFile(a,b)` = both non-empty and the same file after path
  normalisation (normalisation itself is trusted);
* names are ASCII; `strings.EqualFold` = equality after ASCII lower-casing;
* the class loader finds nothing (no namespace path, no autoload callback), so
  the `…OrLoad…`/`LoadPkg` miss path ends in the loader's error;
* Go map iteration order: when `findClassCaseInsensitive` falls back to the
  `EqualFold` scan and several keys match, the model returns *all* candidates
  (`hitAny`), the implementation may return any one of them.
-/
namespace Model.Reg

abbrev Name := List Char

structure Decl where
  name : Name
  id : Nat
  src : Option Nat
deriving DecidableEq, Repr

inductive Res
  | ok | nil | miss
  | hit (id : Nat)            -- found (class / func / const value / zval identity / file cached)
  | hitI (id : Nat)           -- LoadPkg found an interface
  | hitAny (ids : List Nat)   -- case-insensitive fallback: one of these
  | errClass                  -- "已存在同名的 class"
  | errIface                  -- "已存在同名的 interface"
  | errBoth                   -- "已存在同名的类或接口"
  | errFunc                   -- "已存在同名的 function"
  | errConst                  -- "常量 … 已经定义"
  | errLoad                   -- loader found nothing
deriving DecidableEq, Repr

inductive Op
  | addClass (d : Decl)
  | addIface (d : Decl)
  | addFunc (n : Name) (id : Nat)
  | getClass (n : Name)
  | getOrLoadClass (n : Name)
  | getIface (n : Name)
  | getOrLoadIface (n : Name)
  | loadPkg (n : Name)
  | lookPkg (n : Name)          -- the unexported helper `lookupPkg`: one locked lookup of LoadPkg
  | getFunc (n : Name)
  | setConst (n : Name) (v : Nat)
  | getConst (n : Name)
  | ensureGlobal (n : Name)
  | setFile (f : Nat)
  | getFile (f : Nat)
deriving DecidableEq, Repr

structure State where
  classes : List (Name × Decl) := []
  ifaces : List (Name × Decl) := []
  funcs : List (Name × Nat) := []
  consts : List (Name × Nat) := []
  globals : List (Name × Nat) := []
  files : List Nat := []
deriving DecidableEq, Repr

def init : State := {}

/-- map lookup (the maps are insert-only; the first binding is the only one) -/
def look {α : Type} (m : List (Name × α)) (n : Name) : Option α :=
  match m with
  | [] => none
  | (k, v) :: rest => if k = n then some v else look rest n

def samePhp (a b : Option Nat) : Bool :=
  match a, b with
  | some x, some y => x != 0 && x == y
  | _, _ => false

def lowerC (c : Char) : Char := if 'A' ≤ c ∧ c ≤ 'Z' then Char.ofNat (c.toNat + 32) else c
def foldEq (a b : Name) : Bool := a.map lowerC == b.map lowerC

/-- `pkg[0:1] == "\\"` → `pkg[1:]` -/
def strip : Name → Name
  | '\\' :: r => r
  | n => n

def hasSlash : Name → Bool
  | '\\' :: _ => true
  | _ => false

def addClass (s : State) (d : Decl) : State × Res :=
  match look s.classes d.name with
  | some has => if samePhp d.src has.src then (s, .ok) else (s, .errClass)
  | none =>
    match look s.ifaces d.name with
    | some has => if samePhp d.src has.src then (s, .ok) else (s, .errBoth)
    | none => ({ s with classes := s.classes ++ [(d.name, d)] }, .ok)

def addIface (s : State) (d : Decl) : State × Res :=
  match look s.classes d.name with
  | some has => if samePhp d.src has.src then (s, .ok) else (s, .errIface)
  | none =>
    match look s.ifaces d.name with
    | some has => if samePhp d.src has.src then (s, .ok) else (s, .errBoth)
    | none => ({ s with ifaces := s.ifaces ++ [(d.name, d)] }, .ok)

def addFunc (s : State) (n : Name) (id : Nat) : State × Res :=
  match look s.funcs n with
  | some _ => (s, .errFunc)
  | none => ({ s with funcs := s.funcs ++ [(n, id)] }, .ok)

/-- `findClassCaseInsensitive` -/
def findClass (s : State) (n : Name) : Res :=
  match look s.classes n with
  | some d => .hit d.id
  | none =>
    match (s.classes.filter (fun p => foldEq p.1 n)).map (fun p => p.2.id) with
    | [] => .miss
    | ids => .hitAny ids

def isFound : Res → Bool
  | .hit _ => true
  | .hitI _ => true
  | .hitAny _ => true
  | _ => false

def getOrLoadClass (s : State) (n : Name) : Res :=
  match n with
  | [] => .nil
  | _ =>
    let r := findClass s (strip n)
    if isFound r then r else .errLoad

def getIface (s : State) (n : Name) : Res :=
  match look s.ifaces n with
  | some d => .hit d.id
  | none => .miss

def getOrLoadIface (s : State) (n : Name) : Res :=
  match n with
  | [] => .nil
  | _ =>
    let r := getIface s (strip n)
    if isFound r then r else .errLoad

/-- `lookupPkg` (class first, then interface) -/
def lookPkg (s : State) (n : Name) : Res :=
  match look s.classes n with
  | some d => .hit d.id
  | none =>
    match look s.ifaces n with
    | some d => .hitI d.id
    | none => .miss

def loadPkg (s : State) (n : Name) : Res :=
  match n with
  | [] => .nil
  | _ =>
    let r1 := if hasSlash n then lookPkg s (strip n) else .miss
    if isFound r1 then r1 else
    let r2 := lookPkg s n
    if isFound r2 then r2 else .errLoad

def getFunc (s : State) (n : Name) : Res :=
  match look s.funcs n with
  | some id => .hit id
  | none =>
    if hasSlash n then
      match look s.funcs (strip n) with
      | some id => .hit id
      | none => .miss
    else .miss

def setConst (s : State) (n : Name) (v : Nat) : State × Res :=
  match look s.consts n with
  | some _ => (s, .errConst)
  | none => ({ s with consts := s.consts ++ [(n, v)] }, .ok)

def getConst (s : State) (n : Name) : Res :=
  match look s.consts (strip n) with
  | some v => .hit v
  | none => .miss

/-- the ZVal is identified by its creation index -/
def ensureGlobal (s : State) (n : Name) : State × Res :=
  match look s.globals n with
  | some z => (s, .hit z)
  | none => ({ s with globals := s.globals ++ [(n, s.globals.length)] }, .hit s.globals.length)

def setFile (s : State) (f : Nat) : State × Res :=
  if f = 0 then (s, .ok) else
  if f ∈ s.files then (s, .ok) else ({ s with files := s.files ++ [f] }, .ok)

def getFile (s : State) (f : Nat) : Res :=
  if f = 0 then .miss else if f ∈ s.files then .hit 1 else .miss

def step (s : State) : Op → State × Res
  | .addClass d => addClass s d
  | .addIface d => addIface s d
  | .addFunc n id => addFunc s n id
  | .getClass n => (s, findClass s n)
  | .getOrLoadClass n => (s, getOrLoadClass s n)
  | .getIface n => (s, getIface s n)
  | .getOrLoadIface n => (s, getOrLoadIface s n)
  | .loadPkg n => (s, loadPkg s n)
  | .lookPkg n => (s, lookPkg s n)
  | .getFunc n => (s, getFunc s n)
  | .setConst n v => setConst s n v
  | .getConst n => (s, getConst s n)
  | .ensureGlobal n => ensureGlobal s n
  | .setFile f => setFile s f
  | .getFile f => (s, getFile s f)

def runOps (s : State) (ops : List Op) : State := ops.foldl (fun s op => (step s op).1) s

/-- results of a sequential history, in order -/
def trace : State → List Op → List Res
  | _, [] => []
  | s, op :: rest => (step s op).2 :: trace (step s op).1 rest

/-! ## The registry behind the lock: every call is one section of `Model.RW` -/

/-- does the Go method write a map? (AddClass … also read it; `setFile`, `ensureGlobal` write) -/
def Op.writes : Op → Bool
  | .addClass _ | .addIface _ | .addFunc _ _ | .setConst _ _ | .ensureGlobal _ | .setFile _ => true
  | _ => false

/-- the exported Go method that implements the call: key into the regenerated lock
facts `apiFacts` (accesses attributed to the entry point through which they are
reached, e.g. `GetClass` → `findClassCaseInsensitive`, `LoadPkg` → `lookupPkg`). -/
def Op.method : Op → String
  | .addClass _ => "AddClass"
  | .addIface _ => "AddInterface"
  | .addFunc _ _ => "AddFunc"
  | .getClass _ => "GetClass"
  | .getOrLoadClass _ => "GetOrLoadClass"
  | .getIface _ => "GetInterface"
  | .getOrLoadIface _ => "GetOrLoadInterface"
  | .loadPkg _ => "LoadPkg"
  | .lookPkg _ => "LoadPkg"
  | .getFunc _ => "GetFunc"
  | .setConst _ _ => "SetConstant"
  | .getConst _ => "GetConstant"
  | .ensureGlobal _ => "EnsureGlobalZVal"
  | .setFile _ => "SetPhpFileCache"
  | .getFile _ => "GetPhpFileCache"

def Op.map : Op → Model.RW.MapId
  | .addClass _ | .getClass _ | .getOrLoadClass _ | .loadPkg _ | .lookPkg _ => "classMap"
  | .addIface _ | .getIface _ | .getOrLoadIface _ => "interfaceMap"
  | .addFunc _ _ | .getFunc _ => "funcMap"
  | .setConst _ _ | .getConst _ => "constantMap"
  | .ensureGlobal _ => "globalVars"
  | .setFile _ | .getFile _ => "phpFileCache"

/-- Calls that are ONE locked section in the Go code.  `GetOrLoadClass`,
`GetOrLoadInterface` and `LoadPkg` are not: they look up (one section), call the
loader with no lock held, and look up again (another section); their result is
a function of the results of those lookups (`getOrLoadClass_eq` … below), each
of which is a single-section call (`getClass`, `getIface`, `lookPkg`). -/
def Op.single : Op → Bool
  | .getOrLoadClass _ | .getOrLoadIface _ | .loadPkg _ => false
  | _ => true

theorem getOrLoadClass_eq (s : State) (n : Name) :
    (step s (.getOrLoadClass n)).2 =
      match n with
      | [] => .nil
      | _ => let r := (step s (.getClass (strip n))).2; if isFound r then r else .errLoad := by
  cases n <;> rfl

theorem getOrLoadIface_eq (s : State) (n : Name) :
    (step s (.getOrLoadIface n)).2 =
      match n with
      | [] => .nil
      | _ => let r := (step s (.getIface (strip n))).2; if isFound r then r else .errLoad := by
  cases n <;> rfl

theorem loadPkg_eq (s : State) (n : Name) :
    (step s (.loadPkg n)).2 =
      match n with
      | [] => .nil
      | _ =>
        let r1 := if hasSlash n then (step s (.lookPkg (strip n))).2 else .miss
        if isFound r1 then r1 else
        let r2 := (step s (.lookPkg n)).2
        if isFound r2 then r2 else .errLoad := by
  cases n <;> rfl

/-- the section a goroutine executes for one call, given the lock each method
takes (`lockOf`): private state = the list of results it has received so far. -/
def secOf (lockOf : String → Model.RW.Mode) (op : Op) : Model.RW.Sec Op (List Res) State :=
  { lbl := op, mode := lockOf op.method,
    accs := if op.writes
      then [Model.RW.Acc.wr op.map (fun l s => (l ++ [(step s op).2], (step s op).1))]
      else [Model.RW.Acc.rd op.map (fun l s => l ++ [(step s op).2])] }

/-! ## A multi-section call: `GetOrLoadClass` with a class file (autoload)

`GetOrLoadClass(n)` → `findClassCaseInsensitive` (miss) → `LoadClass`: the file is
found; `GetPhpFileCache(f)`? then "is the class there" → `LoadAndRun(f)`:
`GetPhpFileCache(f)`? return : `SetPhpFileCache(f)`; parse and run the file
(`AddClass d`) → final lookup.  Every step is its own locked section; which
steps run depends on the results so far (private state = list of results,
a skipped step records `nil`). -/

def rdSec (op : Op) (cond : List Res → Bool) : Model.RW.Sec Op (List Res) State :=
  ⟨op, .R, [.rd op.map (fun l s => if cond l then l ++ [(step s op).2] else l ++ [.nil])]⟩

def wrSec (op : Op) (cond : List Res → Bool) : Model.RW.Sec Op (List Res) State :=
  ⟨op, .W, [.wr op.map (fun l s => if cond l then (l ++ [(step s op).2], (step s op).1) else (l ++ [.nil], s))]⟩

def loadCall (d : Decl) (f : Nat) : List (Model.RW.Sec Op (List Res) State) :=
  [ rdSec (.getClass d.name) (fun _ => true),                    -- 0 GetOrLoadClass: first lookup
    rdSec (.getFile f) (fun l => l[0]? == some .miss),            -- 1 LoadClass: GetPhpFileCache(f)
    rdSec (.getClass d.name) (fun l => l[1]? == some (.hit 1)),   -- 2   … already loaded: is the class registered?
    rdSec (.getFile f) (fun l => l[0]? == some .miss && !(l[2]?.map isFound == some true)),
                                                                  -- 3 LoadAndRun: GetPhpFileCache(f)
    wrSec (.setFile f) (fun l => l[3]? == some .miss),            -- 4 SetPhpFileCache(f)
    wrSec (.addClass d) (fun l => l[3]? == some .miss),           -- 5 parse + run the file: AddClass
    rdSec (.getClass d.name) (fun l => l[0]? == some .miss) ]     -- 6 final lookup

/-- what the caller of `GetOrLoadClass` receives -/
def loadOutcome (l : List Res) : Res :=
  match l[0]? with
  | some r => if isFound r then r else
    match l[2]?, l[6]? with
    | some r2, some r6 => if isFound r2 then r2 else if isFound r6 then r6 else .errLoad
    | _, _ => .nil
  | none => .nil

end Model.Reg
