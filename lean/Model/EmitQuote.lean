/-!
# Model.EmitQuote — how `cmd/compile` writes a scalar into Go source text, and how Go reads it back

`Model.Emit` treats a scalar as an opaque `scalar s` that `rebuild` returns unchanged: it says which
*fields* reach the generated program, not what happens to the *value* a scalar field carries on
its way through Go source text. This module models that way:

* `quote pr s` — the text `%q` / `strconv.Quote` prints for the byte string `s` (the loop of
  `appendQuotedWith`: decode one rune; an invalid byte is `\xNN`; `"` and `\` are backslashed; a
  printable rune is written as itself; `\a \b \f \n \r \t \v`; other bytes below 0x20 and 0x7f are
  `\xNN`; other runes `\uNNNN` / `\UNNNNNNNN`). The table of printable runes (`strconv.IsPrint`) is the
  parameter `pr` for runes ≥ 0x80; for ASCII it is 0x20..0x7e.
* `unquote t` — the value Go gives the string literal `t`: an interpreted literal `"…"` (escapes
  `\a \b \f \n \r \t \v \\ \"`, `\xNN`, `\NNN`, `\uNNNN`, `\UNNNNNNNN`; a newline or invalid UTF-8 in
  the source is an error) or a raw literal `` `…` `` (everything up to the closing back quote,
  carriage returns removed).
* `printfOut k msg` — what `Generator.printf` appends to the buffer for the message `msg` at
  indentation `k` (gen.go: split at newlines, every non-empty line is prefixed with `k` tabs), and
  `dropTabs`, Go's scanner skipping the blanks before the token.
* `showInt` / `readInt` — `%d` and Go's reading of a decimal integer constant with an optional
  unary minus (constants are exact: no range).
* `showFloat` / `evalFloat` — floats as far as the model carries them: the sign, zero, the
  non-finite values; the digits `%g` prints for a non-zero finite magnitude are opaque (that
  `strconv` prints the shortest digits that read back as the same float64 is trusted).

Byte strings and texts are `List Nat` (byte values).
-/
namespace Model.EmitQuote

abbrev Bytes := List Nat

/-- `lowerhex[n]` -/
def hexDigit (n : Nat) : Nat := if n < 10 then 48 + n else 87 + n

def hexVal (c : Nat) : Option Nat :=
  if 48 ≤ c ∧ c ≤ 57 then some (c - 48)
  else if 97 ≤ c ∧ c ≤ 102 then some (c - 87)
  else if 65 ≤ c ∧ c ≤ 70 then some (c - 55)
  else none

def hex2 (b : Nat) : Bytes := [hexDigit (b / 16), hexDigit (b % 16)]

def hex4 (c : Nat) : Bytes :=
  [hexDigit (c / 4096 % 16), hexDigit (c / 256 % 16), hexDigit (c / 16 % 16), hexDigit (c % 16)]

def hex8 (c : Nat) : Bytes :=
  [hexDigit (c / 268435456 % 16), hexDigit (c / 16777216 % 16), hexDigit (c / 1048576 % 16), hexDigit (c / 65536 % 16)] ++ hex4 c

/-- value of a run of hex digits, most significant first -/
def hexN (acc : Nat) : Bytes → Option Nat
  | [] => some acc
  | c :: r => match hexVal c with
    | some v => hexN (acc * 16 + v) r
    | none => none

/-! ## UTF-8 (`utf8.DecodeRuneInString`, `utf8.AppendRune`) -/

inductive Dec where
  | ascii
  | bad                        -- (RuneError, 1)
  | rune (cp : Nat) (w : Nat)  -- a valid multi-byte sequence of width w
  deriving DecidableEq, Repr

def isCont (b : Nat) : Prop := 0x80 ≤ b ∧ b ≤ 0xBF
instance (b : Nat) : Decidable (isCont b) := by unfold isCont; infer_instance

/-- the accept range of the second byte (utf8.acceptRanges) -/
def second3 (b0 b1 : Nat) : Prop :=
  (if b0 = 0xE0 then 0xA0 else 0x80) ≤ b1 ∧ b1 ≤ (if b0 = 0xED then 0x9F else 0xBF)
instance (b0 b1 : Nat) : Decidable (second3 b0 b1) := by unfold second3; infer_instance

def second4 (b0 b1 : Nat) : Prop :=
  (if b0 = 0xF0 then 0x90 else 0x80) ≤ b1 ∧ b1 ≤ (if b0 = 0xF4 then 0x8F else 0xBF)
instance (b0 b1 : Nat) : Decidable (second4 b0 b1) := by unfold second4; infer_instance

def decodeCons (b0 : Nat) (rest : Bytes) : Dec :=
    if b0 < 0x80 then .ascii
    else if 0xC2 ≤ b0 ∧ b0 ≤ 0xDF then
      match rest with
      | b1 :: _ => if isCont b1 then .rune ((b0 - 0xC0) * 64 + (b1 - 0x80)) 2 else .bad
      | _ => .bad
    else if 0xE0 ≤ b0 ∧ b0 ≤ 0xEF then
      match rest with
      | b1 :: b2 :: _ =>
        if second3 b0 b1 ∧ isCont b2 then .rune ((b0 - 0xE0) * 4096 + (b1 - 0x80) * 64 + (b2 - 0x80)) 3 else .bad
      | _ => .bad
    else if 0xF0 ≤ b0 ∧ b0 ≤ 0xF4 then
      match rest with
      | b1 :: b2 :: b3 :: _ =>
        if second4 b0 b1 ∧ isCont b2 ∧ isCont b3 then
          .rune ((b0 - 0xF0) * 262144 + (b1 - 0x80) * 4096 + (b2 - 0x80) * 64 + (b3 - 0x80)) 4
        else .bad
      | _ => .bad
    else .bad

def decodeRune : Bytes → Dec
  | [] => .bad
  | b0 :: rest => decodeCons b0 rest

def encodeRune (c : Nat) : Bytes :=
  if c < 0x80 then [c]
  else if c < 0x800 then [0xC0 + c / 64, 0x80 + c % 64]
  else if c < 0x10000 then [0xE0 + c / 4096, 0x80 + c / 64 % 64, 0x80 + c % 64]
  else [0xF0 + c / 262144, 0x80 + c / 4096 % 64, 0x80 + c / 64 % 64, 0x80 + c % 64]

/-- `utf8.ValidRune` -/
def validCp (c : Nat) : Prop := c < 0xD800 ∨ (0xE000 ≤ c ∧ c ≤ 0x10FFFF)
instance (c : Nat) : Decidable (validCp c) := by unfold validCp; infer_instance

/-! ## `strconv.Quote` -/

/-- `appendEscapedRune` for a rune below 0x80 -/
def escByte (b : Nat) : Bytes :=
  if b = 34 ∨ b = 92 then [92, b]
  else if 32 ≤ b ∧ b < 127 then [b]
  else if b = 7 then [92, 97]
  else if b = 8 then [92, 98]
  else if b = 12 then [92, 102]
  else if b = 10 then [92, 110]
  else if b = 13 then [92, 114]
  else if b = 9 then [92, 116]
  else if b = 11 then [92, 118]
  else 92 :: 120 :: hex2 b

def uEsc (c : Nat) : Bytes :=
  if c < 0x10000 then 92 :: 117 :: hex4 c else 92 :: 85 :: hex8 c

/-- the text for the first rune of `s` and the number of bytes it consumes -/
def quoteTok (pr : Nat → Bool) (s : Bytes) : Bytes × Nat :=
  match s with
  | [] => ([], 0)
  | b0 :: _ =>
    match decodeRune s with
    | .ascii => (escByte b0, 1)
    | .bad => (92 :: 120 :: hex2 b0, 1)
    | .rune cp w => (if pr cp then s.take w else uEsc cp, w)

def quoteGo (pr : Nat → Bool) : Nat → Bytes → Bytes
  | 0, _ => []
  | fuel + 1, s =>
    match s with
    | [] => []
    | _ :: _ => (quoteTok pr s).1 ++ quoteGo pr fuel (s.drop (quoteTok pr s).2)

/-- **the text `%q` prints for `s`** -/
def quote (pr : Nat → Bool) (s : Bytes) : Bytes := 34 :: (quoteGo pr s.length s ++ [34])

/-! ## Go's reading of a string literal -/

def octVal (c : Nat) : Option Nat := if 48 ≤ c ∧ c ≤ 55 then some (c - 48) else none

/-- what follows a backslash: the bytes it denotes and the rest of the text -/
def unescape : Bytes → Option (Bytes × Bytes)
  | [] => none
  | c :: r =>
    if c = 97 then some ([7], r)
    else if c = 98 then some ([8], r)
    else if c = 102 then some ([12], r)
    else if c = 110 then some ([10], r)
    else if c = 114 then some ([13], r)
    else if c = 116 then some ([9], r)
    else if c = 118 then some ([11], r)
    else if c = 92 then some ([92], r)
    else if c = 34 then some ([34], r)
    else if c = 120 then
      match r with
      | h1 :: h2 :: r' => (hexN 0 [h1, h2]).map fun v => ([v], r')
      | _ => none
    else if c = 117 then
      match r with
      | h1 :: h2 :: h3 :: h4 :: r' =>
        (hexN 0 [h1, h2, h3, h4]).bind fun cp => if validCp cp then some (encodeRune cp, r') else none
      | _ => none
    else if c = 85 then
      match r with
      | h1 :: h2 :: h3 :: h4 :: h5 :: h6 :: h7 :: h8 :: r' =>
        (hexN 0 [h1, h2, h3, h4, h5, h6, h7, h8]).bind fun cp => if validCp cp then some (encodeRune cp, r') else none
      | _ => none
    else
      match octVal c, r with
      | some a, o2 :: o3 :: r' =>
        match octVal o2, octVal o3 with
        | some b, some d => if a * 64 + b * 8 + d ≤ 255 then some ([a * 64 + b * 8 + d], r') else none
        | _, _ => none
      | _, _ => none

/-- one element of the body of an interpreted literal (not the closing quote) -/
def unqTok (s : Bytes) : Option (Bytes × Bytes) :=
  match s with
  | [] => none
  | b :: r =>
    if b = 92 then unescape r
    else if b = 10 then none                      -- newline in an interpreted string literal
    else match decodeRune s with
      | .ascii => some ([b], r)
      | .bad => none                              -- illegal UTF-8 encoding in the source
      | .rune _ w => some (s.take w, s.drop w)

def unqGo : Nat → Bytes → Option Bytes
  | 0, _ => none
  | fuel + 1, s =>
    match s with
    | [] => none                                  -- string literal not terminated
    | b :: r =>
      if b = 34 then (if r = [] then some [] else none)
      else match unqTok s with
        | some (out, rest) => (unqGo fuel rest).map (out ++ ·)
        | none => none

/-- a raw literal: up to the closing back quote, carriage returns removed -/
def unqRaw : Bytes → Option Bytes
  | [] => none
  | b :: r =>
    if b = 96 then (if r = [] then some [] else none)
    else (unqRaw r).map fun v => if b = 13 then v else b :: v

/-- **the value of the Go string literal `t`** -/
def unquote (t : Bytes) : Option Bytes :=
  match t with
  | [] => none
  | q :: body =>
    if q = 34 then unqGo body.length body
    else if q = 96 then unqRaw body
    else none

/-- the raw form of a text (what a "readable" generator would write) -/
def rawLit (s : Bytes) : Bytes := 96 :: (s ++ [96])

/-! ## `Generator.printf` (cmd/compile/gen.go) -/

/-- `strings.Split(msg, "\n")` -/
def splitNL : Bytes → List Bytes
  | [] => [[]]
  | b :: r =>
    if b = 10 then [] :: splitNL r
    else match splitNL r with
      | l :: ls => (b :: l) :: ls
      | [] => [[b]]

def tabs (k : Nat) : Bytes := List.replicate k 9

def padLine (k : Nat) (l : Bytes) : Bytes := if l = [] then l else tabs k ++ l

def joinNL : List Bytes → Bytes
  | [] => []
  | [l] => l
  | l :: ls => l ++ 10 :: joinNL ls

/-- what `g.printf("%s", msg)` appends at indentation `k` -/
def printfOut (k : Nat) (msg : Bytes) : Bytes :=
  if k = 0 then msg else joinNL ((splitNL msg).map (padLine k))

/-- the scanner skips the tabs before a token -/
def dropTabs : Bytes → Bytes
  | [] => []
  | b :: r => if b = 9 then dropTabs r else b :: r

/-- the value the generated program holds for a string the generator printed as `lit` at indentation `k` -/
def printedValue (k : Nat) (lit : Bytes) : Option Bytes := unquote (dropTabs (printfOut k lit))

/-! ## integers: `%d` and a decimal constant with optional unary minus -/

def digitsAux : Nat → Nat → Bytes → Bytes
  | 0, _, acc => acc
  | fuel + 1, n, acc => if n < 10 then (48 + n) :: acc else digitsAux fuel (n / 10) ((48 + n % 10) :: acc)

def showNat (n : Nat) : Bytes := digitsAux (n + 1) n []

def readAux (acc : Nat) : Bytes → Option Nat
  | [] => some acc
  | c :: r => if 48 ≤ c ∧ c ≤ 57 then readAux (acc * 10 + (c - 48)) r else none

def readNat (s : Bytes) : Option Nat := if s = [] then none else readAux 0 s

def showInt (i : Int) : Bytes := if i < 0 then 45 :: showNat i.natAbs else showNat i.natAbs

def readInt (s : Bytes) : Option Int :=
  match s with
  | [] => none
  | c :: r => if c = 45 then (readNat r).map (fun n => -(Int.ofNat n)) else (readNat s).map Int.ofNat

def showBool (b : Bool) : Bytes := if b then [116, 114, 117, 101] else [102, 97, 108, 115, 101]

def readBool (s : Bytes) : Option Bool :=
  if s = [116, 114, 117, 101] then some true else if s = [102, 97, 108, 115, 101] then some false else none

/-! ## floats, as far as the model carries them -/

inductive FloatV where
  | fin (neg : Bool) (mag : Bytes)  -- non-zero finite; `mag` = the digits `%g` prints for |v| (trusted to read back exactly)
  | zero (neg : Bool)
  | inf (neg : Bool)
  | nan
  deriving DecidableEq, Repr

def ascii (s : String) : Bytes := s.toList.map Char.toNat

/-- `math.Copysign(0, -1)` -/
def txtCopysign : Bytes := [109, 97, 116, 104, 46, 67, 111, 112, 121, 115, 105, 103, 110, 40, 48, 44, 32, 45, 49, 41]
/-- `math.Inf(1)` -/
def txtInfPos : Bytes := [109, 97, 116, 104, 46, 73, 110, 102, 40, 49, 41]
/-- `math.Inf(-1)` -/
def txtInfNeg : Bytes := [109, 97, 116, 104, 46, 73, 110, 102, 40, 45, 49, 41]
/-- `math.NaN()` -/
def txtNaN : Bytes := [109, 97, 116, 104, 46, 78, 97, 78, 40, 41]

/-- `signAware = false`: plain `%g` (the pinned tree before fix C16-float-negative-zero);
`true`: `Generator.goFloatLiteral` -/
def showFloat (signAware : Bool) : FloatV → Bytes
  | .fin neg mag => if neg then 45 :: mag else mag
  | .zero false => [48]
  | .zero true => if signAware then txtCopysign else [45, 48]
  | .inf neg => if signAware then (if neg then txtInfNeg else txtInfPos) else (if neg then [45, 73, 110, 102] else [43, 73, 110, 102])  -- `-Inf` / `+Inf`
  | .nan => if signAware then txtNaN else [78, 97, 78]                                                                         -- `NaN`

def isDigit (c : Nat) : Prop := 48 ≤ c ∧ c ≤ 57
instance (c : Nat) : Decidable (isDigit c) := by unfold isDigit; infer_instance

/-- a magnitude text: starts with a digit and is not the text of zero -/
def magOk (m : Bytes) : Prop :=
  match m with
  | [] => False
  | c :: _ => isDigit c ∧ m ≠ [48]
instance (m : Bytes) : Decidable (magOk m) := by unfold magOk; split <;> infer_instance

/-- Go's reading of the expression: `-0` is the integer constant 0 negated, i.e. +0; `+Inf`, `-Inf`,
`NaN` are not constants (undefined identifiers: the package does not build) -/
def evalFloat (t : Bytes) : Option FloatV :=
  if t = txtCopysign then some (.zero true)
  else if t = txtInfPos then some (.inf false)
  else if t = txtInfNeg then some (.inf true)
  else if t = txtNaN then some .nan
  else match t with
    | [] => none
    | c :: r =>
      if c = 45 then
        (if r = [48] then some (.zero false) else if magOk r then some (.fin true r) else none)
      else if t = [48] then some (.zero false)
      else if magOk t then some (.fin false t) else none

def FloatV.wf : FloatV → Prop
  | .fin _ mag => magOk mag
  | _ => True

end Model.EmitQuote
