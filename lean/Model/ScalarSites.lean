/-
C06 — record types of the regenerated facts `Generated.C06ScalarWrites` (written by
`extract/c06`): Go sites that change a scalar value object after construction, and Go sites
that write a field of a `*data.ZVal` cell in place.
-/
namespace Model.ScalarSites

/-- one site that changes a `*data.StringValue` / `IntValue` / `FloatValue` / `BoolValue`
after it was constructed.  `kind`: `assign` (`x.Value = …`), `opassign` (`x.Value += …`),
`incdec`, `overwrite` (`*x = …`), `addr` (`&x.Value` handed to someone). `ord` numbers the
sites of one (function, type, kind). -/
structure ScalarWrite where
  file : String
  fn : String
  typ : String
  kind : String
  ord : Nat
deriving DecidableEq, Repr

/-- one write to the `Value` or `Name` field of a `*data.ZVal`. `origin`: `slot` (the cell is
an element of an array's slot list — shared with every copy of the array), `owned` (result of
`ArrayValue.OwnSlot`: a cell of this array only), `other`. `guarded`: the write sits in the
then-branch of a `RefSlotCount > 0` test on that cell (the slot is bound by an explicit `&`,
write-through is intended). -/
structure CellWrite where
  file : String
  fn : String
  field : String
  origin : String
  guarded : Bool
  ord : Nat
deriving DecidableEq, Repr

end Model.ScalarSites
