import Model.ReqFacts
/-!
# Model.ReqReg — per-request state kept in a process-wide registry (C11)

`std/net/http/request_attrs.go` keeps two package-level `sync.Map`s for the whole process:
`requestFormatterSlots` (the server's `onFormat` closure for the request, stored by
`withResponseFormatter`, read by every `beginResponse`) and `requestAttrBags` (the
`$r->attribute(k, v)` bag, created by `beginRequest`).  Every layer of the request path
(closure / class middleware, `Handler.ServeHTTP`, `HotHandler.ServeHTTP`) ends with
`defer detachRequestAttrs(r)`, which deletes both entries.  What keeps requests apart is the
**key** under which a request stores, loads and deletes: the pinned tree uses the
`*http.Request` pointer — an identity, unique among the requests alive.

The model: a request is a list of `Step`s — `attach g v` (`registry g`.Store(key r, v)),
`attachNew g v` (LoadOrStore), `lookup g` (Load(key r), observed), `detach g` (Delete(key r)),
gate, write — over registries `g : Reg` (the formatter registry, one registry per attribute name
of the bag).  The key function `World.key : Rid → Key` is the parameter: injective (pointer
identity), or not (`r.Context()`, the URL path, the client address, a recycled id).  Any number of
requests, any interleaving (`run` over any `List Rid`).  Which key function the analysed tree has
is decided by the regenerated facts (`Facts.registryViolations`).
-/
namespace Model.ReqReg
open Model.Req (Rid Facts)

abbrev Key := Nat
abbrev Reg := Nat
abbrev Val := Nat
abbrev Obs := Option Val

inductive Step
  | attach (g : Reg) (v : Val)      -- `registry.Store(key(r), v)`
  | attachNew (g : Reg) (v : Val)   -- `registry.LoadOrStore(key(r), v)`
  | lookup (g : Reg)                -- `registry.Load(key(r))`, observed by the request
  | detach (g : Reg)                -- `registry.Delete(key(r))`
  | gate
  | write
  deriving DecidableEq, Repr

structure ReqSt where
  pc      : List Step := []
  pending : List Obs := []
  body    : List Obs := []
  deriving DecidableEq, Repr

/-- what a request can see of the registries: the entries under its own key -/
abbrev View := Reg → Option Val

/-- the effect of one step (already taken off the program counter) on the request's own state
and on the entries under its key -/
def exec (q : ReqSt) (v : View) : Step → ReqSt × View
  | .attach g x => (q, fun g' => if g' = g then some x else v g')
  | .attachNew g x => (q, fun g' => if g' = g then (match v g with | some y => some y | none => some x) else v g')
  | .lookup g => ({ q with pending := q.pending ++ [v g] }, v)
  | .detach g => (q, fun g' => if g' = g then none else v g')
  | .gate => (q, v)
  | .write => ({ q with body := q.body ++ q.pending, pending := [] }, v)

def localStep (q : ReqSt) (v : View) : ReqSt × View :=
  match q.pc with
  | [] => (q, v)
  | st :: rest => exec { q with pc := rest } v st

structure State where
  req  : Rid → ReqSt
  regs : Reg → Key → Option Val     -- the process-wide registries

structure World where
  key  : Rid → Key                  -- the key under which request `r` stores, loads and deletes
  prog : Rid → List Step

def view (w : World) (s : State) (r : Rid) : View := fun g => s.regs g (w.key r)

/-- read the entries under the request's key → pure local step → write them back -/
def stepReq (w : World) (s : State) (r : Rid) : State :=
  let res := localStep (s.req r) (view w s r)
  { req := fun r' => if r' = r then res.1 else s.req r',
    regs := fun g k => if k = w.key r then res.2 g else s.regs g k }

def init (w : World) : State := { req := fun r => { pc := w.prog r }, regs := fun _ _ => none }

def run (w : World) (s : State) (sched : List Rid) : State := sched.foldl (stepReq w) s

def response (s : State) (r : Rid) : List Obs := (s.req r).body

def solo (w : World) (r : Rid) : State := run w (init w) (List.replicate (w.prog r).length r)

def soloResponse (w : World) (r : Rid) : List Obs := response (solo w r) r

/-- the key function the regenerated facts give the analysed tree: the request's identity iff every
site of every process-wide registry of the request path uses the `*http.Request` itself as the
key (anything else: assume the worst — one key for everybody) -/
def keyOf (f : Facts) : Rid → Key :=
  fun r => if f.registryViolations.isEmpty then r else 0

end Model.ReqReg
