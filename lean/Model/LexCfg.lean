import Model.Lex
import Generated.C01Lexer
/-! The lexer configuration instantiated from the regenerated tables. -/
namespace Model.Lex
open Generated.C01

/-- membership in a sorted array of inclusive ranges (binary search) -/
def inRanges (rs : Array (Nat × Nat)) (r : Nat) : Bool :=
  let rec go (fuel lo hi : Nat) : Bool :=
    match fuel with
    | 0 => false
    | f+1 =>
      if lo < hi then
        let mid := (lo + hi) / 2
        let (a, b) := rs[mid]!
        if r < a then go f lo mid
        else if r > b then go f (mid+1) hi
        else true
      else false
  go (rs.size + 1) 0 rs.size

def bytesOf (s : String) : List Nat := s.toUTF8.toList.map (·.toNat)

def isKwClass (ty : Nat) : Bool :=
  (T_KEYWORD_START ≤ ty && ty ≤ T_KEYWORD_END) || (T_VALUE_START ≤ ty && ty ≤ T_VALUE_END)

/-- the `$`+next merge condition of `Process` -/
def dollarMergesGen (ty : Nat) : Bool :=
  ty == T_IDENTIFIER || (T_KEYWORD_START ≤ ty && ty ≤ T_KEYWORD_END) || ty == T_NULL || ty == T_TRUE ||
  ty == T_FALSE || ty == T_BOOL || ty == T_INT || ty == T_FLOAT || ty == T_STRING || ty == T_ARRAY

def genCfg : Cfg where
  isLetter := inRanges letterRanges
  isDigit := inRanges digitRanges
  isSpace := inRanges spaceRanges
  defs := tokenDefBytes.map (fun (l, ty) => (l, ty, isKwClass ty))
  delims := (tokenDefBytes.filter (fun (l, ty) => delimiterTypes.contains ty && l.length > 0)).map
              (fun (l, _) => l.headD 0)
  tNEWLINE := T_NEWLINE
  tSTRING := T_STRING
  tHEREDOC := T_HEREDOC
  tNOWDOC := T_NOWDOC
  tBYTE := T_BYTE
  tCOMMENT := T_COMMENT
  tMCOMMENT := T_MULTILINE_COMMENT
  tNUMBER := T_NUMBER
  tFLOAT := T_FLOAT
  tINT := T_INT
  tIDENT := T_IDENTIFIER
  tUNKNOWN := T_UNKNOWN
  tHTML := T_HTML_TAG
  tVARIABLE := T_VARIABLE
  tDOLLAR := T_DOLLAR
  tNSSEP := T_NAMESPACE_SEPARATOR
  tSEMI := T_SEMICOLON
  tASSIGN := T_ASSIGN
  tWHITESPACE := T_WHITESPACE
  dollarMerges := dollarMergesGen
  noSemiAfterPrev := cannotAddSemicolon
  noSemiBeforeNext := cannotAddSemicolonAfter
  identToVarPrev := identToVarPrev

end Model.Lex
