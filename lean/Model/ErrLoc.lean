/-!
# Model.ErrLoc — the location of an error while it propagates outward (C18, error-location clause)

An error is raised with a location (`Error.From`: file, line, column) or without one (a few
runtime paths build the error where no source position is at hand). While the throw control
unwinds through the constructs that enclose the faulty expression, some of them *stamp* it:
`checkThrowControlFrom(statement, c)` in the bodies of `for` / `foreach`, `fillThrowFrom(from, c)`
in `new` / static calls (node/err.go). Each stamp is one write `e.Error.From = <its own position>`.

`Writer` is what the translator regenerates from the source for every such write (extract/c01,
`Generated.C18.fromWrites`): where it is and whether it is made only when the location is missing.
`Stamp` is one step of the unwinding path: the guard flag of the writer used by the construct and
the position that construct would write (`none`: it has no position / is not a `GetFrom`).
-/
namespace Model.ErrLoc

structure Loc where
  file : Nat
  line : Nat
  col : Nat
  deriving DecidableEq, Repr

/-- one write to the location of an existing error, as found in the source -/
structure Writer where
  file : String
  fn : String
  lhs : String
  /-- the write sits under `if <lhs> == nil` -/
  guarded : Bool
  deriving DecidableEq, Repr

/-- one construct on the unwinding path -/
structure Stamp where
  guarded : Bool
  own : Option Loc
  deriving DecidableEq, Repr

/-- `checkThrowControlFrom` / `fillThrowFrom`: the order of the tests is that of the code —
the construct's own position must exist; a guarded writer writes only into an empty location -/
def stamp (s : Stamp) (cur : Option Loc) : Option Loc :=
  match s.own with
  | none => cur
  | some f =>
    if s.guarded then
      match cur with
      | none => some f
      | some c => some c
    else some f

/-- the location after the error has passed the constructs of `path` (innermost first) -/
def unwind : List Stamp → Option Loc → Option Loc
  | [], cur => cur
  | s :: rest, cur => unwind rest (stamp s cur)

end Model.ErrLoc
