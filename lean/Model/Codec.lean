/-!
# Model.Codec — byte-level text codecs as coded (C14, part 1)

origami's `bin2hex`, `base64_encode/decode`, `urlencode/urldecode`,
`rawurlencode/rawurldecode`, `md5`, `hash` are thin wrappers around Go's
`encoding/hex`, `encoding/base64` (StdEncoding, padded, non-strict),
`net/url` (`QueryEscape`, `QueryUnescape`, `PathUnescape`) and `crypto/*`.
The model mirrors what those calls do on byte strings, including the wrapper's
own decisions (decode error → `false` for base64, → *the input unchanged* for
the two URL decoders; `rawurlencode` = `QueryEscape` with `+` rewritten to
`%20`, the form after fix C14-rawurlencode).

Bytes are natural numbers `< 256` (`IsBytes`); text is a list of byte values.
All functions are total and structurally recursive.
-/
namespace Model.Codec

abbrev Bytes := List Nat

/-- every element is a byte -/
def IsBytes (l : Bytes) : Prop := ∀ b ∈ l, b < 256

/-! ## hex (`encoding/hex.EncodeToString`, `fmt.Sprintf("%x")`) -/

/-- `"0123456789abcdef"[d]` -/
def hexDigit (d : Nat) : Nat := if d < 10 then 48 + d else 87 + d

def hexEncode : Bytes → Bytes
  | [] => []
  | b :: rest => hexDigit (b / 16) :: hexDigit (b % 16) :: hexEncode rest

/-- `bin2hex` -/
def bin2hex (s : Bytes) : Bytes := hexEncode s

/-- digests: `md5(s)`, `hash(algo, s)` are `hex ∘ H` for a digest function `H`
that the model does not look into. -/
def digestHex (H : Bytes → Bytes) (s : Bytes) : Bytes := hexEncode (H s)

/-! ## base64, standard alphabet, `=` padding (`base64.StdEncoding`) -/

/-- `encodeStd[v]` for `v < 64` -/
def b64Char (v : Nat) : Nat :=
  if v < 26 then 65 + v
  else if v < 52 then 71 + v        -- 'a' = 97 = 71 + 26
  else if v < 62 then v - 4         -- '0' = 48 = 52 - 4
  else if v = 62 then 43 else 47    -- '+' '/'

/-- `Encoding.Encode`: 24-bit groups `val = a<<16 | b<<8 | c`, four sextets;
the remainder of 1 or 2 bytes is padded with `=`. -/
def b64Encode : Bytes → Bytes
  | a :: b :: c :: rest =>
      let val := a * 65536 + b * 256 + c
      b64Char (val / 262144 % 64) :: b64Char (val / 4096 % 64) :: b64Char (val / 64 % 64) ::
        b64Char (val % 64) :: b64Encode rest
  | [a, b] =>
      let val := a * 65536 + b * 256
      [b64Char (val / 262144 % 64), b64Char (val / 4096 % 64), b64Char (val / 64 % 64), 61]
  | [a] =>
      let val := a * 65536
      [b64Char (val / 262144 % 64), b64Char (val / 4096 % 64), 61, 61]
  | [] => []

/-- `decodeMap[c]`: the sextet of an alphabet character, `none` = 0xFF -/
def b64Sextet (c : Nat) : Option Nat :=
  if 65 ≤ c ∧ c ≤ 90 then some (c - 65)
  else if 97 ≤ c ∧ c ≤ 122 then some (c - 71)
  else if 48 ≤ c ∧ c ≤ 57 then some (c + 4)
  else if c = 43 then some 62
  else if c = 47 then some 63
  else none

/-- skip `\r` and `\n` (what `decodeQuantum` does around padding) -/
def dropNL : Bytes → Bytes
  | [] => []
  | c :: rest => if c = 10 ∨ c = 13 then dropNL rest else c :: rest

/-- bytes of a (possibly short) quantum: `dlen` sextets give `dlen-1` bytes -/
def b64Emit : List Nat → Bytes
  | [v0, v1, v2, v3] =>
      let val := v0 * 262144 + v1 * 4096 + v2 * 64 + v3
      [val / 65536 % 256, val / 256 % 256, val % 256]
  | [v0, v1, v2] =>
      let val := v0 * 262144 + v1 * 4096 + v2 * 64
      [val / 65536 % 256, val / 256 % 256]
  | [v0, v1] =>
      let val := v0 * 262144 + v1 * 4096
      [val / 65536 % 256]
  | _ => []

/-- a `=` was met with `acc` sextets collected in the current quantum -/
def b64Padding (acc : List Nat) (rest : Bytes) : Option Bytes :=
  match acc with
  | [_, _] =>
      match dropNL rest with
      | 61 :: r2 => if dropNL r2 = [] then some (b64Emit acc) else none   -- trailing garbage
      | _ => none                                                          -- not enough / wrong padding
  | [_, _, _] => if dropNL rest = [] then some (b64Emit acc) else none
  | _ => none                                                              -- padding at j = 0, 1

/-- `Encoding.DecodeString` (non-strict: trailing bits are not checked; `\r`, `\n`
are ignored anywhere). `acc` = sextets of the current quantum (fewer than 4). -/
def b64DecodeAux : Bytes → List Nat → Option Bytes
  | [], acc => if acc = [] then some [] else none      -- input ends inside a quantum
  | c :: rest, acc =>
      match b64Sextet c with
      | some v =>
          if acc.length = 3 then
            match b64DecodeAux rest [] with
            | some out => some (b64Emit (acc ++ [v]) ++ out)
            | none => none
          else b64DecodeAux rest (acc ++ [v])
      | none =>
          if c = 10 ∨ c = 13 then b64DecodeAux rest acc
          else if c = 61 then b64Padding acc rest
          else none

/-- `base64_decode($s)`: `none` is the script-level `false` -/
def base64Decode (s : Bytes) : Option Bytes := b64DecodeAux s []

def base64Encode (s : Bytes) : Bytes := b64Encode s

/-! ## URL escaping (`net/url`) -/

def isAlnum (c : Nat) : Bool :=
  (48 ≤ c && c ≤ 57) || (65 ≤ c && c ≤ 90) || (97 ≤ c && c ≤ 122)

/-- RFC 3986 §2.3 unreserved: ALPHA DIGIT `-` `.` `_` `~` -/
def isUnreserved (c : Nat) : Bool :=
  isAlnum c || c = 45 || c = 46 || c = 95 || c = 126

/-- `"0123456789ABCDEF"[d]` -/
def upperHexDigit (d : Nat) : Nat := if d < 10 then 48 + d else 55 + d

/-- `url.QueryEscape` -/
def queryEscape : Bytes → Bytes
  | [] => []
  | c :: rest =>
      if isUnreserved c then c :: queryEscape rest
      else if c = 32 then 43 :: queryEscape rest
      else 37 :: upperHexDigit (c / 16) :: upperHexDigit (c % 16) :: queryEscape rest

/-- `strings.ReplaceAll(s, "+", "%20")` -/
def replacePlus : Bytes → Bytes
  | [] => []
  | c :: rest => if c = 43 then 37 :: 50 :: 48 :: replacePlus rest else c :: replacePlus rest

/-- `urlencode` -/
def urlencode (s : Bytes) : Bytes := queryEscape s

/-- `rawurlencode` (after fix C14-rawurlencode) -/
def rawurlencode (s : Bytes) : Bytes := replacePlus (queryEscape s)

/-- `url.unhex` / `ishex` -/
def unhex (c : Nat) : Option Nat :=
  if 48 ≤ c ∧ c ≤ 57 then some (c - 48)
  else if 97 ≤ c ∧ c ≤ 102 then some (c - 87)
  else if 65 ≤ c ∧ c ≤ 70 then some (c - 55)
  else none

/-- scanner state of `unescape`: plain text, just after `%`, after `%` and one hex digit -/
inductive Esc where
  | plain
  | pct
  | pctH (hi : Nat)

def consOpt (c : Nat) : Option Bytes → Option Bytes
  | some out => some (c :: out)
  | none => none

/-- `url.unescape(s, mode)`: `plus = true` is `encodeQueryComponent`
(`QueryUnescape`), `false` is `encodePathSegment` (`PathUnescape`).
`none` = `EscapeError`: a `%` that is not followed by two hex digits
(Go tests `i+2 >= len(s) || !ishex(s[i+1]) || !ishex(s[i+2])` in a first pass and
rewrites in a second one; the single pass below fails and succeeds on the same
inputs and yields the same bytes). -/
def unescapeFrom (plus : Bool) : Esc → Bytes → Option Bytes
  | .plain, [] => some []
  | _, [] => none
  | .plain, c :: rest =>
      if c = 37 then unescapeFrom plus .pct rest
      else consOpt (if plus && c = 43 then 32 else c) (unescapeFrom plus .plain rest)
  | .pct, c :: rest =>
      match unhex c with
      | some a => unescapeFrom plus (.pctH a) rest
      | none => none
  | .pctH a, c :: rest =>
      match unhex c with
      | some b => consOpt (a * 16 + b) (unescapeFrom plus .plain rest)
      | none => none

def unescape (plus : Bool) (s : Bytes) : Option Bytes := unescapeFrom plus .plain s

/-- `urldecode`: on an escape error the wrapper returns its input -/
def urldecode (s : Bytes) : Bytes := (unescape true s).getD s

/-- `rawurldecode` -/
def rawurldecode (s : Bytes) : Bytes := (unescape false s).getD s

end Model.Codec
