/-
C01 / C18 — executable model of origami's lexer:
`lexer/lexer.go` (`Tokenize`, `matchLongestToken`, `matchTokenWithDAG`, `matchKeywordWithDAG`),
`lexer/php_lexer.go` (`TokenizeTemplate`), `lexer/special.go`, `lexer/string*.go`,
`lexer/delimiter.go`, and the three passes of `lexer/preprocessor.go` (`Process`).

What is mirrored: every loop, guard and index expression that decides a token's
type, span (`start`,`end`), `line` and literal of the TOP-LEVEL tokens.
Not mirrored (stated in DESIGN §5 C01/C18): the children of interpolation tokens
(the recursive re-tokenisation of string fragments), the `pos` column, `HtmlLexer`
(sources starting with `<!DOCTYPE`). String-like tokens (STRING / HEREDOC /
INTERPOLATION_TOKEN) are one class after `Process`: the model keeps the raw type.

All loops are structurally recursive on a fuel argument (`size`-bounded).
Reads that the Go code performs without a guard of their own go through `rd`,
whose out-of-range case is the explicit outcome `Res.crash`, so that
"never indexes out of range" is a theorem and not an artefact of a default value.
-/
namespace Model.Lex

abbrev Input := Array UInt8

inductive Res (α : Type) where
  | ok (a : α)
  | crash (why : String)
deriving Repr, DecidableEq

@[inline] def Res.bind {α β} (r : Res α) (f : α → Res β) : Res β :=
  match r with
  | .ok a => f a
  | .crash w => .crash w

instance : Monad Res where
  pure := Res.ok
  bind := Res.bind

/-- unguarded Go index expression `input[i]` -/
@[inline] def rd (inp : Input) (i : Nat) : Res Nat :=
  if h : i < inp.size then .ok inp[i].toNat else .crash "index out of range"

/-- guarded read: the Go code tests `i < len(input)` in the same condition; 256 = absent -/
@[inline] def bAt (inp : Input) (i : Nat) : Nat :=
  if h : i < inp.size then inp[i].toNat else 256

/-- configuration regenerated from the source (token tables) and the toolchain (unicode tables) -/
structure Cfg where
  isLetter : Nat → Bool
  isDigit : Nat → Bool
  isSpace : Nat → Bool
  /-- (literal bytes, type, isKeywordOrValueClass) in `TokenDefinitions` order -/
  defs : List (List Nat × Nat × Bool)
  /-- first bytes of the definitions of the delimiter token types -/
  delims : List Nat
  tNEWLINE : Nat
  tSTRING : Nat
  tHEREDOC : Nat
  tNOWDOC : Nat
  tBYTE : Nat
  tCOMMENT : Nat
  tMCOMMENT : Nat
  tNUMBER : Nat
  tFLOAT : Nat
  tINT : Nat
  tIDENT : Nat
  tUNKNOWN : Nat
  tHTML : Nat
  tVARIABLE : Nat
  tDOLLAR : Nat
  tNSSEP : Nat
  tSEMI : Nat
  tASSIGN : Nat
  tWHITESPACE : Nat
  /-- does `$` merge with a following token of this type -/
  dollarMerges : Nat → Bool
  noSemiAfterPrev : List Nat      -- cannotAddSemicolon
  noSemiBeforeNext : List Nat     -- cannotAddSemicolonAfter
  identToVarPrev : List Nat

structure Tok where
  ty : Nat
  start : Nat
  stop : Nat
  line : Nat
  lit : List Nat
deriving Repr, DecidableEq

def slice (inp : Input) (a b : Nat) : List Nat :=
  ((inp.toList.drop a).take (b - a)).map (·.toNat)

/-! ### utf8.DecodeRuneInString -/

def runeError : Nat := 0xFFFD

/-- continuation byte 0x80..0xBF -/
def cont (b : Nat) : Bool := 0x80 ≤ b && b ≤ 0xBF

/-- accept range of the second byte of a 3-byte sequence (`acceptRanges` of unicode/utf8) -/
def second3 (b0 b1 : Nat) : Bool :=
  (if b0 = 0xE0 then 0xA0 else 0x80) ≤ b1 && b1 ≤ (if b0 = 0xED then 0x9F else 0xBF)

/-- accept range of the second byte of a 4-byte sequence -/
def second4 (b0 b1 : Nat) : Bool :=
  (if b0 = 0xF0 then 0x90 else 0x80) ≤ b1 && b1 ≤ (if b0 = 0xF4 then 0x8F else 0xBF)

/-- `utf8.DecodeRuneInString(input[pos:])`: (rune, size); size 0 only at end of input -/
def decodeRune (inp : Input) (pos : Nat) : Nat × Nat :=
  if pos < inp.size then
    let b0 := bAt inp pos
    let b1 := bAt inp (pos+1)
    let b2 := bAt inp (pos+2)
    let b3 := bAt inp (pos+3)
    if b0 < 0x80 then (b0, 1)
    else if b0 < 0xC2 then (runeError, 1)
    else if b0 < 0xE0 then
      if cont b1 then ((b0 % 32) * 64 + (b1 % 64), 2) else (runeError, 1)
    else if b0 < 0xF0 then
      if second3 b0 b1 && cont b2 then ((b0 % 16) * 4096 + (b1 % 64) * 64 + (b2 % 64), 3)
      else (runeError, 1)
    else if b0 < 0xF5 then
      if second4 b0 b1 && cont b2 && cont b3 then
        ((b0 % 8) * 262144 + (b1 % 64) * 4096 + (b2 % 64) * 64 + (b3 % 64), 4)
      else (runeError, 1)
    else (runeError, 1)
  else (runeError, 0)

/-- `IsDelimiter` -/
def isDelim (cfg : Cfg) (r : Nat) : Bool := cfg.isSpace r || cfg.delims.contains r

/-- identifier-continue test of the lexer loops:
    `!IsLetter(r) && !IsDigit(r) && r != '_' && r != '\\' && r < 0x4e00` negated -/
def identCont (cfg : Cfg) (r : Nat) : Bool :=
  cfg.isLetter r || cfg.isDigit r || r == 95 || r == 92 || r ≥ 0x4e00

def identStart (cfg : Cfg) (r : Nat) : Bool := cfg.isLetter r || r == 95 || r ≥ 0x4e00

/-! ### strings -/

/-- does `lit` occur in `inp` at `pos` -/
def matchesAt (inp : Input) (pos : Nat) : List Nat → Bool
  | [] => true
  | b :: bs => bAt inp pos == b && matchesAt inp (pos+1) bs

/-- `handleSingleQuotedString` loop; returns the position after the closing quote -/
def sqLoop (inp : Input) : Nat → Nat → Option Nat
  | 0, _ => none
  | f+1, pos =>
    if pos < inp.size then
      let ch := bAt inp pos
      if ch == 92 && (bAt inp (pos+1) == 92 || bAt inp (pos+1) == 39) then sqLoop inp f (pos+2)
      else if ch == 39 then some (pos+1)
      else sqLoop inp f (pos+1)
    else none

/-- `handleDoubleQuotedString` loop -/
def dqLoop (inp : Input) : Nat → Nat → Bool → Option Nat
  | 0, _, _ => none
  | f+1, pos, escaped =>
    if pos < inp.size then
      let ch := bAt inp pos
      if !escaped && ch == 34 then some (pos+1)
      else dqLoop inp f (pos+1) (if ch == 92 then !escaped else false)
    else none

/-- `handleBacktickString` loop -/
def btLoop (inp : Input) : Nat → Nat → Option Nat
  | 0, _ => none
  | f+1, pos =>
    if pos < inp.size then
      if bAt inp pos == 96 then some (pos+1) else btLoop inp f (pos+1)
    else none

/-- skip while the byte satisfies `p` (bounded by the input) -/
def skipWhile (inp : Input) (p : Nat → Bool) : Nat → Nat → Nat
  | 0, pos => pos
  | f+1, pos => if pos < inp.size && p (bAt inp pos) then skipWhile inp p f (pos+1) else pos

def isBlank (b : Nat) : Bool := b == 32 || b == 9
def isEol (b : Nat) : Bool := b == 10 || b == 13

/-- `isStringStart` for `<<<`: (idStart, idEnd) of the heredoc identifier -/
def heredocId (inp : Input) (start : Nat) : Option (Nat × Nat) :=
  if start + 2 < inp.size && bAt inp start == 60 && bAt inp (start+1) == 60 && bAt inp (start+2) == 60 then
    let pos := skipWhile inp isBlank inp.size (start+3)
    let (idStart, idEnd) :=
      if bAt inp pos == 39 then
        (pos+1, skipWhile inp (fun b => b != 39 && b != 10 && b != 13) inp.size (pos+1))
      else
        (pos, skipWhile inp (fun b => !isEol b) inp.size pos)
    if idEnd > idStart then some (idStart, idEnd) else none
  else none

/-- `tryCloseMarker` -/
def tryCloseMarker (inp : Input) (ident : List Nat) (at_ : Nat) : Option Nat :=
  let markerStart := skipWhile inp isBlank inp.size at_
  if markerStart + ident.length > inp.size then none
  else if !matchesAt inp markerStart ident then none
  else
    let after := skipWhile inp isBlank inp.size (markerStart + ident.length)
    if after ≥ inp.size || bAt inp after == 10 || bAt inp after == 13 || bAt inp after == 59 then
      some (markerStart + ident.length)
    else none

/-- index of the next `\n` at or after `pos` -/
def findNL (inp : Input) : Nat → Nat → Option Nat
  | 0, _ => none
  | f+1, pos => if pos < inp.size then (if bAt inp pos == 10 then some pos else findNL inp f (pos+1)) else none

/-- the line-by-line search of `handleHeredocString` -/
def heredocSearch (inp : Input) (ident : List Nat) : Nat → Nat → Option Nat
  | 0, _ => none
  | f+1, searchStart =>
    if searchStart < inp.size then
      match findNL inp inp.size searchStart with
      | none => none
      | some nl =>
        match tryCloseMarker inp ident (nl+1) with
        | some e => some e
        | none => heredocSearch inp ident f (nl+1)
    else none

/-- `handleHeredocString`: end position -/
def heredocEnd (inp : Input) (start idStart idEnd : Nat) : Option Nat :=
  let ident := slice inp idStart idEnd
  let idLen := idEnd - idStart
  let pos := skipWhile inp isBlank inp.size (start+3)
  let pos :=
    if bAt inp pos == 39 then
      let p := pos + 1 + idLen
      if bAt inp p == 39 then p + 1 else p
    else pos + idLen
  let pos := skipWhile inp isEol inp.size pos
  match tryCloseMarker inp ident pos with
  | some e => some e
  | none => heredocSearch inp ident (inp.size + 1) pos

/-- `HandleString`: (type, newPos) -/
def handleString (cfg : Cfg) (inp : Input) (start : Nat) : Option (Nat × Nat) :=
  let b := bAt inp start
  if b == 39 then (sqLoop inp inp.size (start+1)).map (fun p => (cfg.tSTRING, p))
  else if b == 96 then (btLoop inp inp.size (start+1)).map (fun p => (cfg.tSTRING, p))
  else if b == 34 then (dqLoop inp inp.size (start+1) false).map (fun p => (cfg.tSTRING, p))
  else
    match heredocId inp start with
    | none => none
    | some (idStart, idEnd) =>
      -- `HandleString`: `if len(quote) == 1` also catches a one-byte heredoc identifier,
      -- which is then (mis)treated as a quote character
      if idEnd - idStart == 1 then
        let q := bAt inp idStart
        if q == 39 then (sqLoop inp inp.size (start+1)).map (fun p => (cfg.tSTRING, p))
        else if q == 96 then (btLoop inp inp.size (start+1)).map (fun p => (cfg.tSTRING, p))
        else (dqLoop inp inp.size (start+1) false).map (fun p => (cfg.tSTRING, p))
      else
      match heredocEnd inp start idStart idEnd with
      | none => none
      | some e =>
        -- HeredocTokenType(literal): len ≥ 4 && literal[3] == '\''
        let nowdoc := e - start ≥ 4 && bAt inp (start+3) == 39
        some (if nowdoc then cfg.tNOWDOC else cfg.tHEREDOC, e)

/-! ### byte literal, comments, numbers -/

/-- `handleByte` loop -/
def byteLoop (inp : Input) : Nat → Nat → Option Nat
  | 0, _ => none
  | f+1, pos =>
    if pos < inp.size then
      let ch := bAt inp pos
      if ch == 39 then some (pos+1)
      else if ch == 92 then byteLoop inp f (if pos+1 < inp.size then pos+2 else pos+1)
      else byteLoop inp f (pos+1)
    else none

def handleByte (inp : Input) (start : Nat) : Option Nat :=
  if start + 2 ≥ inp.size || bAt inp start != 98 || bAt inp (start+1) != 39 then none
  else byteLoop inp inp.size (start+2)

/-- single-line comment loop of `handleCommentWithLineInfo`:
    stops after consuming the first `\n` or `\r`; returns (newPos, newlineCount).
    (After the `fix:` for the CRLF double count only `\n` is counted.) -/
def lineCommentLoop (inp : Input) : Nat → Nat → Nat × Nat
  | 0, pos => (pos, 0)
  | f+1, pos =>
    if pos < inp.size then
      let (r, size) := decodeRune inp pos
      if r == 10 then (pos + size, 1)
      else if r == 13 then (pos + size, 0)
      else lineCommentLoop inp f (pos + size)
    else (pos, 0)

/-- multi-line comment loop: `for pos < len(input)-1` -/
def blockCommentLoop (inp : Input) : Nat → Nat → Nat → Nat × Nat
  | 0, pos, n => (pos, n)
  | f+1, pos, n =>
    if pos + 1 < inp.size then
      if bAt inp pos == 42 && bAt inp (pos+1) == 47 then (pos+2, n)
      else blockCommentLoop inp f (pos+1) (if bAt inp pos == 10 then n+1 else n)
    else (pos, n)

/-- the `+`/`-` test of `handleNumber`: `prev := input[pos-1]` is read without a guard of its own -/
def signBreaks (inp : Input) (start pos r : Nat) : Res Bool :=
  if (r == 43 || r == 45) && pos > start then
    match rd inp (pos-1) with
    | .ok prev => .ok (prev != 101 && prev != 69)
    | .crash w => .crash w
  else .ok false

/-- the scanning loop of `handleNumber`; `none` = `return false` (RuneError inside) -/
def numLoop (cfg : Cfg) (inp : Input) (start : Nat) : Nat → Nat → Res (Option Nat)
  | 0, pos => .ok (some pos)
  | f+1, pos =>
    if pos < inp.size then
      let (r, size) := decodeRune inp pos
      if r == runeError then .ok none
      else if isDelim cfg r && r != 46 && !(r == 43 || r == 45) then .ok (some pos)
      else
        match signBreaks inp start pos r with
        | .crash w => .crash w
        | .ok true => .ok (some pos)
        | .ok false =>
          if pos + 2 < inp.size && bAt inp (pos+1) == 46 && bAt inp (pos+2) == 46 then .ok (some (pos + size))
          else if r == 101 || r == 69 then
            let p := pos + size
            let p := if p < inp.size && (bAt inp p == 43 || bAt inp p == 45) then p + 1 else p
            numLoop cfg inp start f p
          else numLoop cfg inp start f (pos + size)
    else .ok (some pos)

def isAsciiDigitByte (cfg : Cfg) (b : Nat) : Bool := cfg.isDigit b

/-- the dot/exponent scan (step 3 of the classification): `.inl` = early NUMBER return.
    `skip` = the previous byte was `e`/`E`, so a sign here is consumed (`i++`). -/
def dotExpScan (cfg : Cfg) : List Nat → Bool → Bool → Bool → Unit ⊕ (Bool × Bool)
  | [], hasDot, hasExp, _ => .inr (hasDot, hasExp)
  | r :: rest, hasDot, hasExp, skip =>
    if skip && (r == 43 || r == 45) then dotExpScan cfg rest hasDot hasExp false
    else if r == 46 then
      if hasDot || hasExp then .inl () else dotExpScan cfg rest true hasExp false
    else if r == 101 || r == 69 then
      if hasExp then .inl () else dotExpScan cfg rest hasDot true true
    else if !cfg.isDigit r && r != 45 && r != 43 then .inl ()
    else dotExpScan cfg rest hasDot hasExp false

/-- token type of a number literal as `handleNumber` classifies it -/
def classifyNumber (cfg : Cfg) (lit : List Nat) : Nat :=
  let plain (r : Nat) : Bool :=
    cfg.isDigit r || r == 46 || r == 101 || r == 69 || r == 43 || r == 45 || r == 120 || r == 88 || r == 98 || r == 66
  if lit.any (fun r => !plain r) then cfg.tNUMBER
  else if lit.length > 2 && lit[0]! == 48 && (lit[1]! == 120 || lit[1]! == 88) then cfg.tNUMBER
  else if lit.length > 2 && lit[0]! == 48 && (lit[1]! == 98 || lit[1]! == 66) then cfg.tNUMBER
  else
    match dotExpScan cfg lit false false false with
    | .inl _ => cfg.tNUMBER
    | .inr (hasDot, hasExp) =>
      if hasExp then cfg.tNUMBER
      else if hasDot then cfg.tFLOAT
      else if lit.length > 1 && lit[0]! == 48 then cfg.tNUMBER
      else cfg.tINT

/-- first loop position of `handleNumber` (after an optional `-`); `none` = not a number start -/
def numBegin (cfg : Cfg) (inp : Input) (start : Nat) : Option Nat :=
  let first := bAt inp start
  if first == 45 then
    if start + 1 ≥ inp.size || !cfg.isDigit (bAt inp (start+1)) then none else some (start+1)
  else if !cfg.isDigit first then none
  else some start

/-- `handleNumber`: (type, newPos) -/
def handleNumber (cfg : Cfg) (inp : Input) (start : Nat) : Res (Option (Nat × Nat)) :=
  if start ≥ inp.size then .ok none
  else
    match numBegin cfg inp start with
    | none => .ok none
    | some p0 =>
      match numLoop cfg inp start (inp.size + 1) p0 with
      | .crash w => .crash w
      | .ok none => .ok none
      | .ok (some pos) =>
        if pos ≤ start then .ok none
        else .ok (some (classifyNumber cfg (slice inp start pos), pos))

structure Scan where
  ty : Nat
  newPos : Nat
  newLine : Nat
  lit : List Nat
deriving Repr

/-- number of `\n` bytes in `[a, b)` -/
def nlCount (inp : Input) (a b : Nat) : Nat := ((inp.toList.drop a).take (b - a)).count 10

/-- `HandleSpecialToken` -/
def handleSpecial (cfg : Cfg) (inp : Input) (start line : Nat) : Res (Option Scan) :=
  if start ≥ inp.size then .ok none
  else
    match handleString cfg inp start with
    | some (ty, newPos) =>
      .ok (some ⟨ty, newPos, line + nlCount inp start newPos, slice inp start newPos⟩)
    | none =>
      match handleByte inp start with
      | some newPos => .ok (some ⟨cfg.tBYTE, newPos, line + nlCount inp start newPos, slice inp start newPos⟩)
      | none =>
        let r := (decodeRune inp start).1
        -- isCommentStart
        if start + 1 < inp.size && bAt inp start == 47 && (bAt inp (start+1) == 47 || bAt inp (start+1) == 42) then
          -- handleCommentWithLineInfo: `next := rune(input[start+1])`
          match rd inp (start+1) with
          | .crash w => .crash w
          | .ok next =>
            if next == 47 then
              let pn := lineCommentLoop inp inp.size (start+2)
              .ok (some ⟨cfg.tCOMMENT, pn.1, line + pn.2, slice inp start pn.1⟩)
            else
              let pn := blockCommentLoop inp inp.size (start+2) 0
              .ok (some ⟨cfg.tMCOMMENT, pn.1, line + pn.2, slice inp start pn.1⟩)
        else if cfg.isDigit r || (r == 45 && start + 1 < inp.size && cfg.isDigit (bAt inp (start+1))) then
          match handleNumber cfg inp start with
          | .crash w => .crash w
          | .ok (some (ty, newPos)) => .ok (some ⟨ty, newPos, line, slice inp start newPos⟩)
          | .ok none => .ok none
        else .ok none

/-! ### longest match in the token table (the DAG of lexer.go) -/

/-- longest definition (later definitions win ties, as the DAG overwrites) that
    is a prefix of the input at `pos`; `kwOnly` restricts to keyword/value types -/
def longestDef (inp : Input) (pos : Nat) (kwOnly : Bool) :
    List (List Nat × Nat × Bool) → Option (Nat × Nat) → Option (Nat × Nat)
  | [], best => best
  | (lit, ty, kw) :: rest, best =>
    let ok := (!kwOnly || kw) && matchesAt inp pos lit
    let best' :=
      if ok then
        match best with
        | some (_, len) => if lit.length ≥ len then some (ty, lit.length) else best
        | none => some (ty, lit.length)
      else best
    longestDef inp pos kwOnly rest best'

/-- `matchLongestToken`: (type, length) -/
def matchLongest (cfg : Cfg) (inp : Input) (pos : Nat) : Option (Nat × Nat) :=
  let (r, _) := decodeRune inp pos
  if r == runeError then none
  else if (!cfg.isLetter r && r != 95 && r < 0x4e00) || isDelim cfg r then
    longestDef inp pos false cfg.defs none
  else
    match longestDef inp pos true cfg.defs none with
    | none => none
    | some (ty, len) =>
      if pos + len < inp.size then
        let (nr, _) := decodeRune inp (pos + len)
        if cfg.isLetter nr || cfg.isDigit nr || nr == 95 || nr ≥ 0x4e00 then none else some (ty, len)
      else some (ty, len)

/-- the identifier loop of both tokenizers (`tmpl`: also stop at `?>`) -/
def identLoop (cfg : Cfg) (inp : Input) (tmpl : Bool) : Nat → Nat → Nat
  | 0, pos => pos
  | f+1, pos =>
    if pos < inp.size then
      let (r, size) := decodeRune inp pos
      if r == runeError then pos
      else if isDelim cfg r then pos
      else if tmpl && r == 63 && pos + 1 < inp.size && bAt inp (pos+1) == 62 then pos
      else if !identCont cfg r then pos
      else identLoop cfg inp tmpl f (pos + size)
    else pos

/-- UTF-8 encoding of a code point < 0x100 (`string(input[pos])` of a byte) -/
def encodeLatin1 (b : Nat) : List Nat := if b < 0x80 then [b] else [0xC0 + b / 64, 0x80 + b % 64]

/-- the non-special alternatives of the loop body: longest table match, invalid byte, identifier, unknown rune -/
def scanPlain (cfg : Cfg) (inp : Input) (tmpl : Bool) (pos line : Nat) : Scan :=
  match matchLongest cfg inp pos with
  | some (ty, len) => ⟨ty, pos + len, line, slice inp pos (pos + len)⟩
  | none =>
    let r := (decodeRune inp pos).1
    let size := (decodeRune inp pos).2
    if r == runeError then ⟨cfg.tUNKNOWN, pos + 1, line, encodeLatin1 (bAt inp pos)⟩
    else if identStart cfg r then
      let e := identLoop cfg inp tmpl inp.size (pos + size)
      ⟨cfg.tIDENT, e, line, slice inp pos e⟩
    else ⟨cfg.tUNKNOWN, pos + size, line, slice inp pos (pos + size)⟩

/-- one token at `pos` (the part of the loop body after whitespace/newline handling) -/
def scanTok (cfg : Cfg) (inp : Input) (tmpl : Bool) (pos line : Nat) : Res Scan :=
  match handleSpecial cfg inp pos line with
  | .crash w => .crash w
  | .ok (some s) => .ok s
  | .ok none => .ok (scanPlain cfg inp tmpl pos line)

/-- the full-width-space test (U+3000 = E3 80 80): `guard` is the bounds test the Go code
    performs before reading `input[pos]`, `input[pos+1]`, `input[pos+2]` -/
def fwAt (inp : Input) (pos : Nat) (guard : Bool) : Res Bool :=
  if guard then
    match rd inp pos, rd inp (pos+1), rd inp (pos+2) with
    | .ok b0, .ok b1, .ok b2 => .ok (b0 == 0xe3 && b1 == 0x80 && b2 == 0x80)
    | .crash w, _, _ => .crash w
    | _, .crash w, _ => .crash w
    | _, _, .crash w => .crash w
  else .ok false

/-- `Tokenize` main loop (script mode). `fw` is the full-width-space guard:
    the Go code tests `pos+2 < len(input)` and then reads three bytes. -/
def scriptLoop (cfg : Cfg) (inp : Input) : Nat → Nat → Nat → Bool → List Tok → Res (List Tok)
  | 0, _, _, _, acc => .ok acc.reverse
  | f+1, pos, line, lastNL, acc =>
    if pos < inp.size then
      let c := bAt inp pos
      if c == 32 || c == 9 || c == 13 then scriptLoop cfg inp f (pos+1) line lastNL acc
      else
        match fwAt inp pos (pos + 2 < inp.size) with
        | .crash w => .crash w
        | .ok true => scriptLoop cfg inp f (pos+3) line lastNL acc
        | .ok false =>
          if c == 10 then
            let acc := if lastNL then acc else ⟨cfg.tNEWLINE, pos, pos+1, line, [10]⟩ :: acc
            scriptLoop cfg inp f (pos+1) (line+1) true acc
          else
            match scanTok cfg inp false pos line with
            | .crash w => .crash w
            | .ok s => scriptLoop cfg inp f s.newPos s.newLine false (⟨s.ty, pos, s.newPos, line, s.lit⟩ :: acc)
    else .ok acc.reverse

/-- first index ≥ pos where `<?php` starts -/
def findOpenTag (inp : Input) : Nat → Nat → Option Nat
  | 0, _ => none
  | f+1, pos =>
    if pos + 5 ≤ inp.size then
      if matchesAt inp pos [60, 63, 112, 104, 112] then some pos else findOpenTag inp f (pos+1)
    else none

/-- script part of `TokenizeTemplate`: runs until `?>` or end; returns (pos, line, lastNL, acc) -/
def tmplScript (cfg : Cfg) (inp : Input) : Nat → Nat → Nat → Bool → List Tok → Res (Nat × Nat × Bool × List Tok)
  | 0, pos, line, lastNL, acc => .ok (pos, line, lastNL, acc)
  | f+1, pos, line, lastNL, acc =>
    if pos < inp.size then
      if pos + 2 ≤ inp.size && bAt inp pos == 63 && bAt inp (pos+1) == 62 then .ok (pos+2, line, lastNL, acc)
      else
        let c := bAt inp pos
        if c == 32 || c == 9 || c == 13 then tmplScript cfg inp f (pos+1) line lastNL acc
        else
          match fwAt inp pos (pos + 3 ≤ inp.size) with
          | .crash w => .crash w
          | .ok true => tmplScript cfg inp f (pos+3) line lastNL acc
          | .ok false =>
            if c == 10 then
              let acc := if lastNL then acc else ⟨cfg.tNEWLINE, pos, pos+1, line, [10]⟩ :: acc
              tmplScript cfg inp f (pos+1) (line+1) true acc
            else
              match scanTok cfg inp true pos line with
              | .crash w => .crash w
              | .ok s => tmplScript cfg inp f s.newPos s.newLine false (⟨s.ty, pos, s.newPos, line, s.lit⟩ :: acc)
    else .ok (pos, line, lastNL, acc)

/-- `TokenizeTemplate` outer loop -/
def tmplLoop (cfg : Cfg) (inp : Input) : Nat → Nat → Nat → Bool → List Tok → Res (List Tok)
  | 0, _, _, _, acc => .ok acc.reverse
  | f+1, pos, line, lastNL, acc =>
    if pos < inp.size then
      match findOpenTag inp (inp.size + 1) pos with
      | none => .ok ((⟨cfg.tHTML, pos, inp.size, line, slice inp pos inp.size⟩ :: acc).reverse)
      | some at_ =>
        let acc1 := if at_ > pos then ⟨cfg.tHTML, pos, at_, line, slice inp pos at_⟩ :: acc else acc
        let line1 := if at_ > pos then line + nlCount inp pos at_ else line
        match tmplScript cfg inp (inp.size + 1) (at_ + 5) line1 lastNL acc1 with
        | .crash w => .crash w
        | .ok (pos', line', lastNL', acc') => tmplLoop cfg inp f pos' line' lastNL' acc'
    else .ok acc.reverse

/-! ### `Preprocessor.Process` -/

/-- iterate `decodeRune` over a literal: all runes satisfy `p` -/
def allRunes (p : Nat → Bool) (lit : Input) : Nat → Nat → Bool
  | 0, _ => true
  | f+1, pos =>
    if pos < lit.size then
      let (r, size) := decodeRune lit pos
      p r && allRunes p lit f (pos + size)
    else true

/-- `isValidIdentifierToken` -/
def validIdentTok (cfg : Cfg) (t : Tok) : Bool :=
  let lit : Input := (t.lit.map (·.toUInt8)).toArray
  if t.ty == cfg.tHTML then false          -- an HTML part of a template is never an identifier
  else if lit.size == 0 then false
  else
    let (r0, _) := decodeRune lit 0
    if !cfg.isLetter r0 && r0 != 95 && r0 < 0x4e00 then false
    else allRunes (fun r => !(!cfg.isLetter r && !cfg.isDigit r && r != 95 && r < 0x4e00)) lit (lit.size + 1) 0

/-- the `\ident(\ident)*` chain after a leading separator: returns (remaining tokens, last token, literal) -/
def nsChain (cfg : Cfg) : Nat → List Tok → Tok → List Nat → List Tok × Tok × List Nat
  | 0, toks, last, lit => (toks, last, lit)
  | f+1, toks, last, lit =>
    match toks with
    | sep :: id :: rest =>
      if sep.ty == cfg.tNSSEP && validIdentTok cfg id then
        nsChain cfg f rest id (lit ++ sep.lit ++ id.lit)
      else (toks, last, lit)
    | _ => (toks, last, lit)

/-- pass 1: drop whitespace/comments, merge `$`+name and `\`+identifier.
    (`p.tokens[i+1]` is read inside the `i+1 < len` test after the `fix:`, so no
    unguarded read remains in `Process`.) -/
def pass1 (cfg : Cfg) : Nat → List Tok → List Tok → List Tok
  | 0, _, acc => acc.reverse
  | f+1, toks, acc =>
    match toks with
    | [] => acc.reverse
    | t :: rest =>
      if t.ty == cfg.tWHITESPACE || t.ty == cfg.tCOMMENT || t.ty == cfg.tMCOMMENT then pass1 cfg f rest acc
      else if t.ty == cfg.tDOLLAR then
        match rest with
        | next :: rest' =>
          if cfg.dollarMerges next.ty then
            pass1 cfg f rest' (⟨cfg.tVARIABLE, t.start, next.stop, next.line, 36 :: next.lit⟩ :: acc)
          else pass1 cfg f rest (t :: acc)
        | [] => pass1 cfg f rest (t :: acc)
      else if t.ty == cfg.tNSSEP then
        match rest with
        | next :: rest' =>
          if next.ty == cfg.tIDENT then
            pass1 cfg f rest' (⟨cfg.tIDENT, t.start, next.stop, next.line, t.lit ++ next.lit⟩ :: acc)
          else if validIdentTok cfg next then
            let r := nsChain cfg (rest'.length + 1) rest' next (t.lit ++ next.lit)
            pass1 cfg f r.1 (⟨cfg.tIDENT, t.start, r.2.1.stop, r.2.1.line, r.2.2⟩ :: acc)
          else pass1 cfg f rest (t :: acc)
        | [] => pass1 cfg f rest (t :: acc)
      else pass1 cfg f rest (t :: acc)

/-- does the NEWLINE between `prev` and the head of `rest` become a `;` -/
def semiHere (cfg : Cfg) (prev : Option Tok) (rest : List Tok) : Bool :=
  match prev, rest with
  | some p, n :: _ => !cfg.noSemiAfterPrev.contains p.ty && !cfg.noSemiBeforeNext.contains n.ty
  | _, _ => false

/-- pass 2: a NEWLINE becomes `;` unless the previous / next token forbids it; NEWLINEs are dropped -/
def pass2 (cfg : Cfg) : Option Tok → List Tok → List Tok
  | _, [] => []
  | prev, t :: rest =>
    if t.ty == cfg.tNEWLINE then
      if semiHere cfg prev rest then { t with ty := cfg.tSEMI } :: pass2 cfg (some t) rest
      else pass2 cfg (some t) rest
    else t :: pass2 cfg (some t) rest

/-- pass 3 decision: `ident =` after `[ { ( ; ,` (and at index > 2) becomes a VARIABLE -/
def toVar (cfg : Cfg) (idx : Nat) (prev : Option Tok) (t : Tok) (rest : List Tok) : Bool :=
  match prev, rest with
  | some p, n :: _ => t.ty == cfg.tIDENT && n.ty == cfg.tASSIGN && idx > 2 && cfg.identToVarPrev.contains p.ty
  | _, _ => false

/-- pass 3 -/
def pass3 (cfg : Cfg) (idx : Nat) : Option Tok → List Tok → List Tok
  | _, [] => []
  | prev, t :: rest =>
    (if toVar cfg idx prev t rest then { t with ty := cfg.tVARIABLE } else t) :: pass3 cfg (idx + 1) (some t) rest

def process (cfg : Cfg) (raw : List Tok) : List Tok :=
  pass3 cfg 0 none (pass2 cfg none (pass1 cfg (raw.length + 1) raw []))

/-! ### entry points -/

inductive Mode | script | template
deriving Repr, DecidableEq

inductive Out where
  | tokens (ts : List Tok)
  | html            -- `<!DOCTYPE` source: handed to HtmlLexer (not modelled)
  | crash (why : String)
deriving Repr, DecidableEq

/-- tokens of an outcome (empty for the other outcomes) -/
def Out.toks : Out → List Tok
  | .tokens ts => ts
  | _ => []

/-- raw tokens (before `Process`) -/
def tokenizeRaw (cfg : Cfg) (inp : Input) : Mode → Res (List Tok)
  | .script => scriptLoop cfg inp (inp.size + 1) 0 0 false []
  | .template => tmplLoop cfg inp (inp.size + 1) 0 0 false []

def startsWith (inp : Input) (lit : List Nat) : Bool := lit.length ≤ inp.size && matchesAt inp 0 lit

/-- `lexer.ShiftTokens` for one token: back to its place in the whole file -/
def shiftTok (off lines : Nat) (t : Tok) : Tok :=
  { t with start := t.start + off, stop := t.stop + off, line := t.line + lines }

/-- `Lexer.Tokenize` / `Lexer.TokenizeTemplate` including the shebang and DOCTYPE dispatch.
    For a shebang source the rest of the file is tokenized in template mode and the tokens are
    shifted back by the bytes and the one line that were skipped (`ShiftTokens`), so positions
    are relative to the whole file. The second component (a shift the harness would have to
    apply) is always 0 since that repair; it is kept for the driver protocol. -/
def tokenize (cfg : Cfg) (inp : Input) (mode : Mode) : Out × Nat :=
  match mode with
  | .template =>
    match tokenizeRaw cfg inp .template with
    | .ok raw => (.tokens (process cfg raw), 0)
    | .crash w => (.crash w, 0)
  | .script =>
    if inp.size ≥ 2 && bAt inp 0 == 35 && bAt inp 1 == 33 then
      match findNL inp inp.size 0 with
      | none => (.tokens [], 0)
      | some nl =>
        let rest : Input := inp.extract (nl+1) inp.size
        match tokenizeRaw cfg rest .template with
        | .ok raw => (.tokens ((process cfg raw).map (shiftTok (nl+1) 1)), 0)
        | .crash w => (.crash w, 0)
    else if startsWith inp [60, 33, 68, 79, 67, 84, 89, 80, 69] then (.html, 0)
    else
      match tokenizeRaw cfg inp .script with
      | .ok raw => (.tokens (process cfg raw), 0)
      | .crash w => (.crash w, 0)

end Model.Lex
