/-!
# Model.Ser — PHP `serialize` / `unserialize` as coded (C14, part 3)

Mirrors `std/php/serialize.go` (`phpSerializeValue`) and `std/php/unserialize.go`
(`Call`, `parsePhpValue`, `parsePhpFloat`, `parsePhpArray`) after the fixes
C14-unserialize (strings by declared length, signed integer parsed with its
sign, bounded pre-allocation), C14-1-serialize-float (`d:`), C14-3-serialize-
keyed-array (slot names are written as keys), C14-6-unserialize-scalar-keys
(a key is an int or a string) and C14-7-unserialize-lax-string (a mis-sized
top-level string is `false`).

Values: `null`, booleans, 64-bit integers, byte strings, `float r` — a float
carried as its *text* `r` (the lexeme between `d:` and `;`; which float64 a
lexeme denotes, and which lexeme the writer picks for a float64, is
`strconv.ParseFloat` / `strconv.FormatFloat`, trusted and tied by the harness),
`arr` = `data.ArrayValue` (slots; a slot's `key` is its `ZVal.Name`: `[]` for a
positional slot, whose key is its position, otherwise a string key or a sparse
integer key such as `"6"`) and `obj` = `data.ObjectValue` (origami's keyed
array: ordered string keys; `serialize` writes every key as a string).
Class instances (`O:`) are outside the model.

`unserialize` trims its input with `strings.TrimSpace` first; the model starts
from the trimmed string (`unserializeT`). The guards `n > len(s)` of the fix
only bound an allocation: without overflow the following bounds test / the
entry loop reject the same inputs, so they do not appear here.
-/
namespace Model.Ser

abbrev Bytes := List Nat

mutual
inductive PV where
  | null
  | bool (b : Bool)
  | int (i : Int)
  | str (s : Bytes)
  | float (r : Bytes)
  | arr (items : PL)
  | obj (props : PL)
/-- entries; in an `arr` the `key` is the slot's name (`[]` = positional slot) -/
inductive PL where
  | nil
  | cons (key : Bytes) (v : PV) (rest : PL)
end

def PL.len : PL → Nat
  | .nil => 0
  | .cons _ _ rest => rest.len + 1

/-! ## decimal numbers -/

def decAux : Nat → Nat → Bytes → Bytes
  | 0, _, acc => acc
  | f + 1, n, acc => if n < 10 then (48 + n) :: acc else decAux f (n / 10) ((48 + n % 10) :: acc)

/-- `strconv.Itoa` of a non-negative number below 10^20 -/
def dec (n : Nat) : Bytes := decAux 20 n []

/-- `fmt.Sprintf("%d", i)` -/
def itoa (i : Int) : Bytes := if i < 0 then 45 :: dec i.natAbs else dec i.toNat

def isDigit (c : Nat) : Bool := 48 ≤ c && c ≤ 57

/-- `for j < len(s) && s[j] >= '0' && s[j] <= '9' { j++ }` -/
def spanDigits : Bytes → Bytes × Bytes
  | [] => ([], [])
  | c :: rest => if isDigit c then ((spanDigits rest).1.cons c, (spanDigits rest).2) else ([], c :: rest)

def digitsVal (ds : Bytes) : Nat := ds.foldl (fun a c => 10 * a + (c - 48)) 0

def maxInt : Nat := 9223372036854775807

/-- `strconv.ParseInt(sign ++ digits, 10, 64)` on a non-empty digit string -/
def intVal (neg : Bool) (ds : Bytes) : Option Int :=
  if ds = [] then none
  else if neg then
    (if digitsVal ds ≤ maxInt + 1 then some (- (digitsVal ds : Int)) else none)
  else
    (if digitsVal ds ≤ maxInt then some (digitsVal ds : Int) else none)

/-- `data.ParseIntArrayKeyName`: `strconv.Atoi(name)` succeeds and `strconv.Itoa(n) == name`
(so `"6"`, `"-3"` are integer keys; `""`, `"06"`, `"+6"`, `"-0"`, `"9223372036854775808"` are not) -/
def keyNeg (k : Bytes) : Bool := k.head? == some 45

def keyDigits (k : Bytes) : Bytes := if keyNeg k then k.tail else k

def intKeyOf (k : Bytes) : Option Int :=
  match intVal (keyNeg k) (keyDigits k) with
  | some n => if (keyDigits k).all isDigit = true ∧ itoa n = k then some n else none
  | none => none

/-! ## serialize -/

/-- `makeSerializedString` -/
def serStr (s : Bytes) : Bytes := [115, 58] ++ dec s.length ++ [58, 34] ++ s ++ [34, 59]

def cat3 (a b c : Option Bytes) : Option Bytes :=
  match a, b, c with
  | some x, some y, some z => some (x ++ y ++ z)
  | _, _, _ => none

/-- `a:<n>:{<body>}` -/
def wrapArr (n : Nat) : Option Bytes → Option Bytes
  | some body => some ([97, 58] ++ dec n ++ [58, 123] ++ body ++ [125])
  | none => none

/-- the key `phpSerializeValue` writes for slot `idx` of an `ArrayValue` (`SlotKey`, then
`ParseIntArrayKeyName`): the position for a positional slot, `i:n;` for an integer-like name,
`s:len:"name";` otherwise -/
def slotKey (idx : Nat) (k : Bytes) : Bytes :=
  if k = [] then [105, 58] ++ dec idx ++ [59]
  else
    match intKeyOf k with
    | some n => [105, 58] ++ itoa n ++ [59]
    | none => serStr k

mutual
/-- `phpSerializeValue`; `none` is the script-level `false` (value kinds outside the model) -/
def ser : PV → Option Bytes
  | .null => some [78, 59]
  | .bool b => some [98, 58, if b then 49 else 48, 59]
  | .int i => some ([105, 58] ++ itoa i ++ [59])
  | .str s => some (serStr s)
  | .float r => some ([100, 58] ++ r ++ [59])
  | .arr items => wrapArr items.len (serItems 0 items)
  | .obj props => wrapArr props.len (serProps props)
def serItems : Nat → PL → Option Bytes
  | _, .nil => some []
  | idx, .cons k v rest => cat3 (some (slotKey idx k)) (ser v) (serItems (idx + 1) rest)
def serProps : PL → Option Bytes
  | .nil => some []
  | .cons k v rest => cat3 (some (serStr k)) (ser v) (serProps rest)
end

/-! ## unserialize -/

def pNull : Bytes → Option (PV × Bytes)
  | 59 :: rest => some (.null, rest)
  | _ => none

def pBool : Bytes → Option (PV × Bytes)
  | 58 :: c :: 59 :: rest =>
      if c = 48 then some (.bool false, rest) else if c = 49 then some (.bool true, rest) else none
  | _ => none

/-- `strconv.ParseInt(sign ++ digits, 10, 64)` -/
def intOf (neg : Bool) (ds : Bytes) : Option PV :=
  if ds = [] then none
  else if neg then
    (if digitsVal ds ≤ maxInt + 1 then some (.int (- (digitsVal ds : Int))) else none)
  else
    (if digitsVal ds ≤ maxInt then some (.int (digitsVal ds : Int)) else none)

def withRest (o : Option PV) (rest : Bytes) : Option (PV × Bytes) :=
  match o with
  | some v => some (v, rest)
  | none => none

/-- after `i`: `:` sign? digits+ `;`, `strconv.ParseInt(…, 10, 64)` on sign and digits -/
def pInt : Bytes → Option (PV × Bytes)
  | 58 :: rest =>
      let body := if rest.head? = some 45 ∨ rest.head? = some 43 then rest.tail else rest
      match (spanDigits body).2 with
      | 59 :: rest' => withRest (intOf (rest.head? == some 45) (spanDigits body).1) rest'
      | _ => none
  | _ => none

/-- after `s`: `:` digits+ `:"` <n bytes> `";`, `strconv.Atoi` on the digits -/
def pStr : Bytes → Option (PV × Bytes)
  | 58 :: rest =>
      let ds := (spanDigits rest).1
      match (spanDigits rest).2 with
      | 58 :: 34 :: body =>
          if ds = [] then none
          else if digitsVal ds > maxInt then none
          else
            match body.drop (digitsVal ds) with
            | 34 :: 59 :: rest' => some (.str (body.take (digitsVal ds)), rest')
            | _ => none
      | _ => none
  | _ => none

/-! ### floats: `d:<text>;` -/

def dropSign : Bytes → Bytes
  | 43 :: r => r
  | 45 :: r => r
  | t => t

/-- the exponent part after `e` / `E`: sign? digits+ and nothing else -/
def expOk (r : Bytes) : Bool :=
  (spanDigits (dropSign r)).1 ≠ [] && (spanDigits (dropSign r)).2 = []

/-- fraction digits and what follows them (`.` digits*), or no fraction -/
def fracPart : Bytes → Bytes × Bytes
  | 46 :: r => spanDigits r
  | r => ([], r)

/-- `[+-]? (digits | digits . digits* | . digits+) ([eE] [+-]? digits+)?` — the syntax check of
`parsePhpFloat` before it hands the text to `strconv.ParseFloat` -/
def floatNum (t : Bytes) : Bool :=
  let a := spanDigits (dropSign t)
  let b := fracPart a.2
  if a.1.length + b.1.length = 0 then false
  else
    match b.2 with
    | [] => true
    | c :: r => if c = 101 ∨ c = 69 then expOk r else false

/-- `parsePhpFloat` accepts: `NAN`, `INF`, `-INF` or a decimal number -/
def floatLex (t : Bytes) : Bool :=
  t = [78, 65, 78] || t = [73, 78, 70] || t = [45, 73, 78, 70] || floatNum t

/-- `strings.IndexByte(s, ';')`: the text before the first `;` and the rest after it -/
def splitSemi : Bytes → Option (Bytes × Bytes)
  | [] => none
  | c :: rest =>
      if c = 59 then some ([], rest)
      else
        match splitSemi rest with
        | some (a, b) => some (c :: a, b)
        | none => none

/-- after `d`: `:` <text> `;` with `text` a float lexeme -/
def pFloat : Bytes → Option (PV × Bytes)
  | 58 :: rest =>
      match splitSemi rest with
      | some (t, rest') => if floatLex t then some (.float t, rest') else none
      | none => none
  | _ => none

/-- after `a`: `:` digits+ `:{` → entry count and the rest -/
def pArrHead : Bytes → Option (Nat × Bytes)
  | 58 :: rest =>
      let ds := (spanDigits rest).1
      match (spanDigits rest).2 with
      | 58 :: 123 :: body =>
          if ds = [] then none else if digitsVal ds > maxInt then none else some (digitsVal ds, body)
      | _ => none
  | _ => none

/-- the key string `parsePhpArray` uses for a non-sequential array -/
def keyString : PV → Bytes
  | .str s => s
  | .int i => itoa i
  | _ => []

/-- `parsePhpArray` accepts an int or a string as a key, nothing else -/
def keyOk : PV → Bool
  | .int _ => true
  | .str _ => true
  | _ => false

def keyFilter : Option (PV × Bytes) → Option (PV × Bytes)
  | some (k, s) => if keyOk k then some (k, s) else none
  | none => none

/-- `OrderedMap.Set`: replace in place or append -/
def setProp (k : Bytes) (v : PV) : PL → PL
  | .nil => .cons k v .nil
  | .cons k' v' rest => if k' = k then .cons k' v rest else .cons k' v' (setProp k v rest)

def isSequential : Nat → List (PV × PV) → Bool
  | _, [] => true
  | i, (.int k, _) :: rest => k = (i : Int) && isSequential (i + 1) rest
  | _, _ :: _ => false

def valuesPL : List (PV × PV) → PL
  | [] => .nil
  | (_, v) :: rest => .cons [] v (valuesPL rest)

/-- keys `0..n-1` in order → `ArrayValue`, otherwise an `ObjectValue` filled in order -/
def mkArray (es : List (PV × PV)) : PV :=
  if isSequential 0 es then .arr (valuesPL es)
  else .obj (es.foldl (fun acc e => setProp (keyString e.1) e.2 acc) .nil)

def closeArr (es : List (PV × PV)) : Bytes → Option (PV × Bytes)
  | 125 :: rest => some (mkArray es, rest)
  | _ => none

mutual
/-- `parsePhpValue(s, &idx)`: value and remaining input -/
def pValue : Nat → Bytes → Option (PV × Bytes)
  | 0, _ => none
  | _ + 1, [] => none
  | fuel + 1, c :: rest =>
      if c = 78 then pNull rest
      else if c = 98 then pBool rest
      else if c = 105 then pInt rest
      else if c = 115 then pStr rest
      else if c = 100 then pFloat rest
      else if c = 97 then
        match pArrHead rest with
        | none => none
        | some (n, body) =>
            match pEntries fuel n body with
            | none => none
            | some (es, rest') => closeArr es rest'
      else none
/-- the `for i := 0; i < n; i++` loop of `parsePhpArray` -/
def pEntries : Nat → Nat → Bytes → Option (List (PV × PV) × Bytes)
  | _, 0, s => some ([], s)
  | 0, _ + 1, _ => none
  | fuel + 1, n + 1, s =>
      match keyFilter (pValue fuel s) with
      | none => none
      | some (k, s1) =>
          match pValue fuel s1 with
          | none => none
          | some (v, s2) =>
              match pEntries fuel n s2 with
              | none => none
              | some (es, s3) => some ((k, v) :: es, s3)
end

inductive Out where
  | value (v : PV)
  | false
  /-- the `__origami_a:` / `__origami_o:` JSON wrappers of an older format (not modelled) -/
  | legacy

def startsWith (p : Bytes) (s : Bytes) : Bool := p.isPrefixOf s

/-- `parsePhpSerializedValue`: the whole input must be consumed -/
def parseAll (s : Bytes) : Option PV :=
  match pValue (2 * s.length + 1) s with
  | some (v, []) => some v
  | _ => none

def knownPrefix (s : Bytes) : Bool :=
  startsWith [78, 59] s || startsWith [98, 58] s || startsWith [105, 58] s ||
  startsWith [100, 58] s || startsWith [115, 58] s || startsWith [97, 58] s

/-- index of the last `"` -/
def lastQuote (s : Bytes) : Option Nat :=
  match s.reverse.idxOf? 34 with
  | some i => some (s.length - 1 - i)
  | none => none

/-- the legacy branch of `Call` for input starting with `s:` that the reader rejected: the text
between the first and the last double quote of the *whole* input is looked at for the wrappers
of an older format; anything else is `false` (after fix C14-7; it used to be returned as a
string) -/
def legacyStr (s : Bytes) : Out :=
  match s.idxOf? 34, lastQuote s with
  | some f, some l =>
      if l ≤ f then .false
      else
        let content := (s.take l).drop (f + 1)
        if startsWith [95, 95, 111, 114, 105, 103, 97, 109, 105, 95, 97, 58] content
          || startsWith [95, 95, 111, 114, 105, 103, 97, 109, 105, 95, 111, 58] content then .legacy
        else .false
  | _, _ => .false

/-- `unserialize` on the `TrimSpace`d input -/
def unserializeT (raw : Bytes) : Out :=
  if raw = [] then .false
  else
    match (if knownPrefix raw then parseAll raw else none) with
    | some v => .value v
    | none => if startsWith [115, 58] raw then legacyStr raw else .false

end Model.Ser
