/-!
# Model.Backtrack — the work of a recursive-descent parser that may rewind (C01, parse-work clause)

The parser of php-any/origami is a hand-written recursive descent over a token slice with one
cursor (`Parser.position`). Almost everywhere the cursor only moves forward (`next`,
`nextAndCheck`): every token is consumed once and the parse is linear. The exceptions are the places
that *write the cursor backwards*: a speculative reading of a construct is tried, and when it does
not fit the cursor is put back and the same tokens are parsed under another reading.

What such a place costs depends on what lies between the saved position and the restore:

* nothing but token tests (`scan`: a look-ahead to the matching closer) — the tokens of the group
  are looked at once more;
* the group's own tokens, no nested group entered (`retryFlat`) — they are consumed once more;
* a recursive parse (`retryFirst`: of the first element, `retryAll`: of every element) — the
  elements are parsed twice *at this level*, and when an element contains the construct again, twice
  at the next level too: the work doubles per nesting level.

This file is the cost model: the bracket structure of a source (`Tree`), the reading policy of each
bracket kind (`Policy`), and `work`, the number of cursor advances the parser makes. The theorems
(`Proofs/Lemmas/Backtrack.lean`, `Proofs/Properties/C01.lean`) say: without a recursive retry the
work is at most `2·size` (no scans) resp. `2·size·(depth+1)` (with scans), for every source; with
one, `2^d` on the source that nests the construct `d` deep in `2d+1` tokens.

`PosWrite` is what the translator regenerates from parser/*.go for every write of a cursor
(extract/c01/rewinds.go, `Generated.C01.positionWrites`), and `policyOf` reads a policy off it.
-/
namespace Model.Backtrack

/-! ### regenerated facts -/

inductive WriteKind where
  | advance   -- x.position++ / += e
  | toEnd     -- x.position = len(x.tokens)
  | fresh     -- x.position = 0 together with a new token list
  | restore   -- x.position = v, v saved from a position earlier in the function
  | back      -- x.position-- / -= e / = 0 on the same token list
  | fork      -- a second parser on the same tokens (position / tokens / whole struct copied)
  deriving DecidableEq, Repr

/-- one write of a parser cursor, as found in the source -/
structure PosWrite where
  file : String
  fn : String
  kind : WriteKind
  /-- the function installs another token list between save and restore (nested parse of another text) -/
  swap : Bool
  /-- between the save and the write the function calls something that reaches `parseStatement` -/
  nested : Bool
  /-- calls in the condition of the innermost `if` around the save -/
  guard : String
  deriving DecidableEq, Repr

/-- the write can move a cursor backwards over tokens of the same list -/
def PosWrite.backwards (w : PosWrite) : Bool :=
  (w.kind == .restore || w.kind == .back || w.kind == .fork) && !w.swap

/-- … and the tokens it moves back over may have been parsed by a nested parse -/
def PosWrite.reparsesNested (w : PosWrite) : Bool := w.backwards && w.nested

/-! ### the cost model -/

mutual
  /-- bracket structure of a token sequence: a token, or a group `open … close` of kind `k` -/
  inductive Tree where
    | tok : Tree
    | grp : Nat → Forest → Tree
  inductive Forest where
    | nil : Forest
    | cons : Tree → Forest → Forest
end

/-- how the parse function of a bracket kind reads its group -/
inductive Policy where
  /-- the elements are parsed once -/
  | direct
  /-- token look-ahead to the matching closer, then the elements are parsed once -/
  | scan
  /-- a speculative reading consumes the group's own tokens (no nested group), rewinds, then parses once -/
  | retryFlat
  /-- a speculative reading parses the first element, rewinds to the opener, then parses all elements -/
  | retryFirst
  /-- a speculative reading parses all the elements, rewinds, then parses them again -/
  | retryAll
  deriving DecidableEq, Repr

/-- the policy re-parses nested groups -/
def Policy.nestedRetry : Policy → Bool
  | .retryFirst | .retryAll => true
  | _ => false

mutual
  /-- number of tokens -/
  def Tree.size : Tree → Nat
    | .tok => 1
    | .grp _ es => 2 + es.size
  def Forest.size : Forest → Nat
    | .nil => 0
    | .cons t f => t.size + f.size
end

mutual
  /-- nesting depth -/
  def Tree.depth : Tree → Nat
    | .tok => 0
    | .grp _ es => 1 + es.depth
  def Forest.depth : Forest → Nat
    | .nil => 0
    | .cons t f => max t.depth f.depth
end

/-- the group's own tokens among its elements (not inside a nested group) -/
def Forest.flat : Forest → Nat
  | .nil => 0
  | .cons .tok f => 1 + f.flat
  | .cons (.grp _ _) f => f.flat

/-- what a group pays beyond parsing its elements once: `size`, `flat` of its elements, the work of
its first element and of all its elements -/
def Policy.extra (p : Policy) (size flat wHead wAll : Nat) : Nat :=
  match p with
  | .direct => 0
  | .scan => 2 + size
  | .retryFlat => 2 + flat
  | .retryFirst => 1 + wHead
  | .retryAll => 1 + wAll

mutual
  /-- cursor advances made while parsing `t` under the policy table `pol` -/
  def work (pol : Nat → Policy) : Tree → Nat
    | .tok => 1
    | .grp k es => 2 + workF pol es + (pol k).extra es.size es.flat (workHead pol es) (workF pol es)
  def workF (pol : Nat → Policy) : Forest → Nat
    | .nil => 0
    | .cons t f => work pol t + workF pol f
  /-- work of the first element -/
  def workHead (pol : Nat → Policy) : Forest → Nat
    | .nil => 0
    | .cons t _ => work pol t
end

/-- the construct of kind `k` nested `d` deep around one token: `2d+1` tokens -/
def nest (k : Nat) : Nat → Tree
  | 0 => .tok
  | d + 1 => .grp k (.cons (nest k d) .nil)

/-! ### from the facts to a policy table -/

/-- the policy a cursor write stands for; `guarded` lists the writes whose save is dominated by a
token look-ahead that decides the reading before anything is parsed (they cost a scan) -/
def policyOf (guarded : List (String × String × String)) (w : PosWrite) : Policy :=
  if !w.backwards then .direct
  else if !w.nested then .retryFlat
  else if guarded.contains (w.file, w.fn, w.guard) then .scan
  else .retryAll

/-- bracket kind `k` is read by the function that holds the `k`-th write (kinds beyond the list: direct) -/
def tableOf (guarded : List (String × String × String)) (ws : List PosWrite) (k : Nat) : Policy :=
  match ws[k]? with
  | some w => policyOf guarded w
  | none => .direct

/-- the decidable obligation on the regenerated list: every backwards write over a nested parse is a
known guarded one -/
def sitesBounded (guarded : List (String × String × String)) (ws : List PosWrite) : Bool :=
  ws.all fun w => !w.reparsesNested || guarded.contains (w.file, w.fn, w.guard)

end Model.Backtrack
