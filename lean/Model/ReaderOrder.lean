import Model.Ser
/-!
# Model.ReaderOrder (C14, round 7): several readers of one input, tried in order

A decoder that keeps a compatibility branch (a prefix sniff, a magic marker, a "looks like JSON" test) next to
its exact reader is a *list of readers tried in order*: each either answers (`some r`, final) or declines (`none`,
the next one is asked). When the grammar of a later reader is embedded in the VALUE space of the exact one — the
legacy wrapper `s:<len>:"__origami_a:<json>";` is at the same time the exact serialization of the string
`__origami_a:<json>` — the order decides whether `decode ∘ encode` is the identity.

* `decode rs dflt t`: the first answer in `rs`, `dflt` when every reader declines.
* `emptyR`, `exactR`, `legacyR`: the three steps of `UnserializeFunction.Call` (std/php/unserialize.go) in the
  vocabulary of `Model.Ser`; `Model.Ser.unserializeT` is `decode [emptyR, exactR, legacyR] .false`
  (`Proofs.ReaderOrder.unserializeT_is_decode`).
* `sniffFirstR`: the compatibility branch written so that it can stand BEFORE the exact reader (answers only when it
  recognises a wrapper, declines otherwise) — the order of the seeded change.
* `ReaderStep`: one row of the regenerated fact `Generated.C14Readers.readers` (extract/c14/order.go): the top-level
  `if strings.HasPrefix(raw, …) { … }` statements of `Call` in source order, each classified by what its body does.
* `orderOK`: the decidable obligation on that list.
-/
namespace Model.ReaderOrder
open Model.Ser

/-- readers tried in order; `none` = "not mine" -/
def decode {T R : Type} : List (T → Option R) → R → T → R
  | [], dflt, _ => dflt
  | r :: rest, dflt, t =>
      match r t with
      | some x => x
      | none => decode rest dflt t

/-- `if raw == "" { return false }` -/
def emptyR (raw : Bytes) : Option Out := if raw = [] then some .false else none

/-- the gated exact reader: `if HasPrefix(raw, "N;") || … { if v, ok := parsePhpSerializedValue(raw); ok { return v } }` -/
def exactR (raw : Bytes) : Option Out :=
  match (if knownPrefix raw then parseAll raw else none) with
  | some v => some (.value v)
  | none => none

/-- the compatibility branch as it stands in the pinned code: final for every input that starts with `s:` -/
def legacyR (raw : Bytes) : Option Out :=
  if startsWith [115, 58] raw then some (legacyStr raw) else none

/-- the compatibility branch in a form that can be placed first: answers on a wrapper, declines otherwise -/
def sniffFirstR (raw : Bytes) : Option Out :=
  if startsWith [115, 58] raw then
    match legacyStr raw with
    | .legacy => some .legacy
    | _ => none
  else none

/-- one top-level reader attempt of `Call`, as the translator reports it -/
structure ReaderStep where
  /-- `exact`: the body hands the text to the package's own recursive-descent reader and compares it with no literal;
  `sniff`: the body compares (a part of) the text with string literals; `mixed`: both; `other`: neither -/
  kind : String
  /-- the prefixes of the `if` -/
  gate : List String
  /-- the literals the body compares with -/
  markers : List String
  /-- `final`: every path through the body returns; `falls`: the next statement can be reached -/
  tail : String
deriving DecidableEq, Repr

/-- the pinned code -/
def pinned : List ReaderStep := [
  { kind := "exact", gate := ["N;", "b:", "i:", "d:", "s:", "a:"], markers := [], tail := "falls" },
  { kind := "sniff", gate := ["s:"], markers := ["__origami_a:", "__origami_o:"], tail := "final" }]

/-- **the order obligation**: the first reader is the exact one behind the model's gate, and nothing but sniffing
readers follow it (no second exact reader, no step the translator could not classify) -/
def orderOK : List ReaderStep → Bool
  | [] => false
  | r :: rest => r.kind == "exact" && r.gate == ["N;", "b:", "i:", "d:", "s:", "a:"] && r.markers.isEmpty &&
      rest.all (fun s => s.kind == "sniff")

/-- what a row denotes: the exact reader for `exact`, whatever the caller supplies for the others -/
def denote (sn : ReaderStep → Bytes → Option Out) (s : ReaderStep) : Bytes → Option Out :=
  if s.kind = "exact" then exactR else sn s

end Model.ReaderOrder
