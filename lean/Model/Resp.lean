/-
C13 — implementation-shaped model of `std/net/http/response.go` (`bufferedWriter`)
on top of a modelled `net/http.ResponseWriter` (`Wire`).

Modelled-not-verified (trusted contract of net/http, as httptest.ResponseRecorder
and the real server implement it): the header map handed to the client is the
snapshot taken at the first `WriteHeader`/`Write`; `Write` before `WriteHeader`
implies `WriteHeader(200)`; the body is the concatenation of all `Write`s.
-/
namespace Model.Resp

/-- header map: canonical key ↦ list of values (Set replaces, Add appends). -/
abbrev Hdr := List (String × List String)

def Hdr.set (h : Hdr) (k v : String) : Hdr :=
  (h.filter (fun p => p.1 != k)) ++ [(k, [v])]

def Hdr.add (h : Hdr) (k v : String) : Hdr :=
  match h.find? (fun p => p.1 == k) with
  | some (_, vs) => (h.filter (fun p => p.1 != k)) ++ [(k, vs ++ [v])]
  | none => h ++ [(k, [v])]

/-- net/http `bodyAllowedForStatus` (same switch): 1xx, 204 and 304 carry no body. -/
def bodyAllowed (c : Nat) : Bool :=
  if 100 ≤ c ∧ c ≤ 199 then false
  else if c = 204 then false
  else if c = 304 then false
  else true

/-- the underlying `net/http.ResponseWriter` as the client/connection sees it. -/
structure Wire where
  enforce : Bool := false       -- a real connection (rejects body bytes the committed status forbids); false = recorder
  commits : Nat := 0            -- calls of the underlying WriteHeader
  committed : Bool := false     -- has the header block gone out
  status : Nat := 200           -- status the client receives
  hdrAtCommit : Hdr := []       -- header snapshot that went out
  body : List String := []      -- body chunks in order
deriving Repr, DecidableEq

/-- the `bufferedWriter` struct plus the live header map and the wire. -/
structure St where
  status : Nat := 200
  statusSet : Bool := false
  headerSent : Bool := false
  hdr : Hdr := []
  wire : Wire := {}
deriving Repr, DecidableEq

/-- script-level operations on `$res`. -/
inductive Op
  | status (c : Nat)
  | header (k v : String)
  | cookie (v : String)                 -- http.SetCookie: Header().Add("Set-Cookie", v)
  | write (b : String)
  | json (b : String)
  | html (b : String) (c : Option Nat)
  | redirect (u : String) (c : Nat)
  | noContent (c : Nat)
  | writeHeader (c : Nat)
deriving Repr, DecidableEq

/-- underlying `ResponseWriter.WriteHeader`: only the first call commits
    (net/http logs "superfluous WriteHeader" and ignores later ones), but every
    call is counted so that `commits ≤ 1` is a real claim about the wrapper. -/
def Wire.writeHeader (w : Wire) (c : Nat) (h : Hdr) : Wire :=
  if w.committed then { w with commits := w.commits + 1 }
  else { w with commits := w.commits + 1, committed := true, status := c, hdrAtCommit := h }

/-- underlying `ResponseWriter.Write`: implicit 200 commit if nothing was committed; a
    connection then answers `ErrBodyNotAllowed` (nothing is written) when the committed status
    forbids a body. The error is swallowed by `bufferedWriter.Write` and ignored by `Redirect`,
    so it leaves no trace in the state. -/
def Wire.write (w : Wire) (b : String) (h : Hdr) : Wire :=
  let w := if w.committed then w else { w with committed := true, status := 200, hdrAtCommit := h }
  if w.enforce && !bodyAllowed w.status then w else { w with body := w.body ++ [b] }

/-- `bufferedWriter.WriteHeader` -/
def St.writeHeader (s : St) (c : Nat) : St :=
  if s.headerSent then s else
  { s with status := c, headerSent := true, wire := s.wire.writeHeader c s.hdr }

/-- `bufferedWriter.sendHeader` -/
def St.sendHeader (s : St) : St := if s.headerSent then s else s.writeHeader s.status

/-- `b.ResponseWriter.Write(p)` -/
def St.rawWrite (s : St) (b : String) : St := { s with wire := s.wire.write b s.hdr }

/-- `bufferedWriter.Write` -/
def St.write (s : St) (b : String) : St := (s.sendHeader).rawWrite b

/-- `bufferedWriter.SetHeader` -/
def St.setHeader (s : St) (k v : String) : St := { s with hdr := s.hdr.set k v }

/-- `bufferedWriter.SetStatus` -/
def St.setStatus (s : St) (c : Nat) : St :=
  if s.headerSent then s else { s with status := c, statusSet := true }

def step (s : St) : Op → St
  | .status c => s.setStatus c
  | .header k v => s.setHeader k v
  | .cookie v => { s with hdr := s.hdr.add "Set-Cookie" v }
  | .write b => s.write b
  | .json b => (s.setHeader "Content-Type" "application/json; charset=utf-8").write b
  | .html b c =>
      let s := match c with | some c => s.setStatus c | none => s
      (s.setHeader "Content-Type" "text/html; charset=utf-8").write b
  | .redirect u c =>
      -- Redirect: SetHeader; if !headerSent {status=code; statusSet=true}; sendHeader; Write(nil)
      (((s.setHeader "Location" u).setStatus c).sendHeader).rawWrite ""
  | .noContent c => (s.setStatus c).sendHeader
  | .writeHeader c => s.writeHeader c

/-- `commitPending`, deferred by the handler wrapper. -/
def St.finish (s : St) : St := if !s.headerSent && s.statusSet then s.writeHeader s.status else s

/-- a handler run on a recorder (`e = false`) or on a real connection (`e = true`). -/
def runOn (e : Bool) (ops : List Op) : St := (ops.foldl step { wire := { enforce := e } }).finish

/-- on a recorder (`httptest.ResponseRecorder`): every write is kept. -/
def run (ops : List Op) : St := runOn false ops

/-- over a real connection: what an HTTP client receives. -/
def runConn (ops : List Op) : St := runOn true ops

/-- What the client observes. If nothing committed, net/http commits 200 with
    the final header map when the handler returns. -/
structure Client where
  status : Nat
  hdr : Hdr
  body : String
  commits : Nat
deriving Repr, DecidableEq

/-- concatenation of body chunks -/
def concat (l : List String) : String := l.foldl (· ++ ·) ""

def St.client (s : St) : Client :=
  if s.wire.committed then
    { status := s.wire.status, hdr := s.wire.hdrAtCommit, body := concat s.wire.body, commits := s.wire.commits }
  else
    { status := 200, hdr := s.hdr, body := concat s.wire.body, commits := s.wire.commits }

end Model.Resp
