import Model.ReqFacts
/-!
# Model.ReqIC — what a call-site node remembers about the receiver it saw last (C11, round 6)

`$req` / `$res` are proxy objects: `Handler.ServeHTTP` builds, PER REQUEST, a class object
(`NewRequestClassFrom(r)`, `NewResponseWriterClassFrom(w)`) whose method objects are bound to that
request's `*http.Request` / `ResponseWriter`.  The syntax node of `$obj->m(…)` (`node.CallObjectMethod`)
is one object for the whole process.  What the pinned code does: `class.GetMethod(pe.Method)` on every
evaluation — nothing is kept in the node (`Publish.none`).

The model has the node's memory as a parameter.  A request is a list of `Step`s (`call site`: evaluate
the call-site node `site` on the request's own receiver and observe whose datum the invoked method
answers with | `gate` | `write`).  The receiver of request `r` has the class identity `World.cls r`
(per request for the proxies: injective; ONE class for all requests for script classes and for bound
callables made from a shared definition) and its method object is `⟨r⟩` — bound to `r`: invoking it
answers `env r`, whoever invokes it.  A node cache is the pair of words `(icClass, icMethod)` per site:

* `Publish.atomic` — probe and fill are one indivisible step each (a mutex, or one pointer to an
  immutable pair);
* `Publish.torn` — what two plain Go fields give: the probe is `load icClass` then `load icMethod`, the
  fill `store icClass` then `store icMethod`, and the scheduler may run other requests in between
  (`Phase` records where inside a `call` the request stands).

Which one the analysed tree has is decided by the regenerated facts (`publishOf`): no unlisted store of
an evaluation-time method into its node ⇒ `none`.
-/
namespace Model.ReqIC
open Model.Req (Rid Facts)

abbrev Site := Nat
abbrev Cls := Nat
abbrev Val := Nat

/-- a method object resolved on the receiver of request `owner`: bound to that request -/
structure Meth where
  owner : Rid
  deriving DecidableEq, Repr

inductive Publish | none | atomic | torn
  deriving DecidableEq, Repr

inductive Step
  | call (site : Site)
  | gate
  | write
  deriving DecidableEq, Repr

/-- where inside a `call` a request stands under the two-word protocol:
`hit` — loaded `icClass`, it was the receiver's class, `icMethod` not loaded yet;
`miss` — loaded `icClass`, it was another class, method resolved on the receiver, nothing stored yet;
`half` — stored `icClass`, `icMethod` not stored yet -/
inductive Phase | idle | hit | miss | half
  deriving DecidableEq, Repr

/-- `none`: the invoked method was a nil interface (the Go process panics) -/
abbrev Obs := Option Val

structure ReqSt where
  pc      : List Step := []
  phase   : Phase := .idle
  pending : List Obs := []
  body    : List Obs := []
  deriving DecidableEq, Repr

/-- the two words of every call-site node -/
structure Cache where
  cls  : Site → Option Cls
  meth : Site → Option Meth

def Cache.setCls (c : Cache) (s : Site) (k : Cls) : Cache :=
  { c with cls := fun s' => if s' = s then some k else c.cls s' }

def Cache.setMeth (c : Cache) (s : Site) (m : Meth) : Cache :=
  { c with meth := fun s' => if s' = s then some m else c.meth s' }

structure World where
  publish : Publish
  cls     : Rid → Cls            -- identity of the class object of the request's receiver
  prog    : Rid → List Step
  env     : Rid → Val            -- the request's own datum (what a method bound to it answers with)

/-- invoke a method object: it answers with the datum of the request it is bound to -/
def invoke (env : Rid → Val) (q : ReqSt) (m : Option Meth) : ReqSt :=
  { q with phase := .idle, pending := q.pending ++ [m.map (fun m => env m.owner)] }

/-- one turn of request `self` (class of its receiver: `k`) standing in front of step `st`;
`q` has the step still on its program counter, `rest` is the program counter once the step is done -/
def exec (pub : Publish) (k : Cls) (self : Rid) (env : Rid → Val) (q : ReqSt) (rest : List Step) (c : Cache) :
    Step → ReqSt × Cache
  | .gate => ({ q with pc := rest }, c)
  | .write => ({ q with pc := rest, body := q.body ++ q.pending, pending := [] }, c)
  | .call s =>
    match pub with
    | .none => (invoke env { q with pc := rest } (some ⟨self⟩), c)
    | .atomic =>
      if c.cls s = some k then (invoke env { q with pc := rest } (c.meth s), c)
      else (invoke env { q with pc := rest } (some ⟨self⟩), (c.setCls s k).setMeth s ⟨self⟩)
    | .torn =>
      match q.phase with
      | .idle => if c.cls s = some k then ({ q with phase := .hit }, c) else ({ q with phase := .miss }, c)
      | .hit => (invoke env { q with pc := rest } (c.meth s), c)
      | .miss => ({ q with phase := .half }, c.setCls s k)
      | .half => (invoke env { q with pc := rest } (some ⟨self⟩), c.setMeth s ⟨self⟩)

def localStep (pub : Publish) (k : Cls) (self : Rid) (env : Rid → Val) (q : ReqSt) (c : Cache) : ReqSt × Cache :=
  match q.pc with
  | [] => (q, c)
  | st :: rest => exec pub k self env q rest c st

structure State where
  req   : Rid → ReqSt
  cache : Cache

def stepReq (w : World) (s : State) (r : Rid) : State :=
  let res := localStep w.publish (w.cls r) r w.env (s.req r) s.cache
  { req := fun r' => if r' = r then res.1 else s.req r', cache := res.2 }

def init (w : World) : State :=
  { req := fun r => { pc := w.prog r }, cache := { cls := fun _ => none, meth := fun _ => none } }

def run (w : World) (s : State) (sched : List Rid) : State := sched.foldl (stepReq w) s

def response (s : State) (r : Rid) : List Obs := (s.req r).body

def finished (s : State) (r : Rid) : Bool := (s.req r).pc.isEmpty

/-- turns a request needs when it runs alone: at most four per step -/
def solo (w : World) (r : Rid) : State := run w (init w) (List.replicate (4 * (w.prog r).length) r)

def soloResponse (w : World) (r : Rid) : List Obs := response (solo w r) r

/-- the node memory the regenerated facts give the analysed tree: none iff no evaluation-time method
of a syntax node stores into its receiver outside the listed memos of process-wide definitions
(an unlisted store: assume two plain fields) -/
def publishOf (f : Facts) : Publish :=
  if f.nodeWriteViolations.isEmpty then .none else .torn

end Model.ReqIC
