import Model.Conv
/-!
# Model.ConvReg — many registrations, one process (C17)

`Model.Conv.callVia` describes ONE call of ONE registered Go function or struct method. An embedder
registers many: several struct types (`RegisterReflectClass`) whose methods may share names, several
functions, in several VMs of one process, and scripts call them in any order. This file models that
level:

* the Go side is a `Universe`: a callee — the pair (registration = Go type or function, method name) —
  determines its signature and its code (Go's type system: the method set of a type is fixed);
* a history is a list of `Op`s: registrations and calls, interleaved;
* `runPlain` is what the registered wrappers of `runtime/reflect_register.go` /
  `runtime/reflect_class.go` do: every call walks the callee's OWN parameter list
  (`rf.params`, `rm.GetParams()` rebuilt from `rm.method.Type`);
* `runMemo` is the same code with a memo table in front of the parameter list
  (`GetParams` / `GetVariables` answered from a table that survives the call): the call walks the
  *plan* found under `keyOf callee`, or its own list when there is none, which it then stores.
  `callWith` is `call` walking an arbitrary plan: `reflect.Value.Call` rejects (panics) unless the
  converted values have exactly the callee's own parameter types — too few, too many, or other types.

What a memo in the source is keyed by is a regenerated fact (`MemoFact`, translator `extract/c17`):
the property file proves that a memo whose key determines the memoised datum is invisible
(`runMemo = runPlain`, for every history) and that a memo keyed by the bare method name is not.
-/
namespace Model.Conv

/-- identity of a registered callee: `owner` is the registration's Go type (`reflect.Type` of the
struct, or the function value itself for `RegisterFunction`), `meth` the method name (0 for a function) -/
structure Callee where
  owner : Nat
  meth : Nat
  deriving DecidableEq, Repr, Inhabited

/-- what Go fixes for a callee: how it is reached, its signature, its code. The code may depend on
anything of its own (`env`: receiver fields, package state of the embedder …) — no assumption. -/
structure Entry where
  path : Path
  sig : Sig
  body : Nat → List GoVal → List GoVal

abbrev Universe := Callee → Entry

inductive Op
  | register (owner : Nat)
  | call (c : Callee) (env : Nat) (args : List SVal)

/-- the tables of the two wrapper families and the float primitives -/
structure Cfg where
  pr : Prim
  tin : List InArm
  tout : List OutArm
  tinM : List InArm
  toutM : List OutArm

/-- `call`, walking parameter list `plan` instead of the signature's own -/
def callWith (pr : Prim) (tin : List InArm) (tout : List OutArm) (sig : Sig) (plan : List GoType)
    (body : List GoVal → List GoVal) (args : List SVal) : Trace :=
  match convArgs pr tin plan args with
  | .throw e => ⟨none, .throw e⟩
  | .panic p => ⟨none, .panic p⟩
  | .ok gs =>
    if assignableAll sig.params gs then
      match body gs with
      | [] => ⟨some gs, .ok none⟩
      | r :: _ => ⟨some gs, (toScript pr tout r).map some⟩
    else ⟨none, .panic .callArgType⟩      -- too few / too many input arguments, or `using X as type Y`

/-- `callVia`, walking `plan` (the method call site compares the argument count with the same list) -/
def callViaWith (path : Path) (pr : Prim) (tin : List InArm) (tout : List OutArm) (sig : Sig)
    (plan : List GoType) (body : List GoVal → List GoVal) (args : List SVal) : Trace :=
  if path == .method && args.length < plan.length then ⟨none, .throw .missingArgument⟩
  else callWith pr tin tout sig plan body args

/-- one call of entry `e` walking `plan` -/
def Cfg.planned (cfg : Cfg) (e : Entry) (plan : List GoType) (env : Nat) (args : List SVal) : Trace :=
  match e.path with
  | .fn => callViaWith .fn cfg.pr cfg.tin cfg.tout e.sig plan (e.body env) args
  | .method => callViaWith .method cfg.pr cfg.tinM cfg.toutM e.sig plan (e.body env) args

/-- one call of entry `e` on its own: a function of the callee's signature, its code and the
arguments — nothing else -/
def Cfg.own (cfg : Cfg) (e : Entry) (env : Nat) (args : List SVal) : Trace :=
  match e.path with
  | .fn => callVia .fn cfg.pr cfg.tin cfg.tout e.sig (e.body env) args
  | .method => callVia .method cfg.pr cfg.tinM cfg.toutM e.sig (e.body env) args

/-! ### the code as it is: no state survives a call -/

def regAfter : List Nat → List Op → List Nat
  | reg, [] => reg
  | reg, .register o :: ops => regAfter (o :: reg) ops
  | reg, .call _ _ _ :: ops => regAfter reg ops

/-- one answer per operation (`none` for a registration and for a call of something not registered,
which the interpreter refuses before any conversion) -/
def runPlain (cfg : Cfg) (U : Universe) : List Nat → List Op → List (Option Trace)
  | _, [] => []
  | reg, .register o :: ops => none :: runPlain cfg U (o :: reg) ops
  | reg, .call c env args :: ops =>
    (if reg.contains c.owner then some (cfg.own (U c) env args) else none) :: runPlain cfg U reg ops

/-! ### the same with a memo table in front of the parameter list -/

def assoc {κ α : Type} [DecidableEq κ] (k : κ) : List (κ × α) → Option α
  | [] => none
  | (k', v) :: r => if k' = k then some v else assoc k r

def runMemo {κ : Type} [DecidableEq κ] (cfg : Cfg) (U : Universe) (keyOf : Callee → κ) :
    List Nat → List (κ × List GoType) → List Op → List (Option Trace)
  | _, _, [] => []
  | reg, st, .register o :: ops => none :: runMemo cfg U keyOf (o :: reg) st ops
  | reg, st, .call c env args :: ops =>
    if reg.contains c.owner then
      match assoc (keyOf c) st with
      | some plan => some (cfg.planned (U c) plan env args) :: runMemo cfg U keyOf reg st ops
      | none =>
        some (cfg.planned (U c) (U c).sig.params env args)
          :: runMemo cfg U keyOf reg ((keyOf c, (U c).sig.params) :: st) ops
    else none :: runMemo cfg U keyOf reg st ops

/-! ### regenerated facts: what the memo tables of the source are keyed by -/

/-- what identifies an entry of a table that is written while calls are served -/
inductive KeyBy
  | callee      -- (Go type, method) / the method's own `reflect.Type` / a table owned by one registration, keyed by method
  | owner       -- the Go type (or the registration) only
  | meth        -- the bare method / function / class name
  | slot        -- nothing: one slot, an append-only list, a pool
  | unknown     -- the translator cannot tell
  deriving DecidableEq, Repr, Inhabited

def KeyBy.key : KeyBy → Callee → Nat × Nat
  | .callee, c => (c.owner, c.meth)
  | .owner, c => (c.owner, 0)
  | .meth, c => (0, c.meth)
  | .slot, _ => (0, 0)
  | .unknown, _ => (0, 0)

/-- what the stored datum can depend on: the code that writes it belongs to one method / function
(`ReflectMethod`, `ReflectFunction`) or to one registered type (`ReflectClass`, `ReflectConstructor`) -/
inductive Gran
  | perCallee | perOwner
  deriving DecidableEq, Repr, Inhabited

structure MemoFact where
  site : String
  keyBy : KeyBy
  datum : Gran
  deriving Repr

/-- the key determines the datum -/
def MemoFact.sound (m : MemoFact) : Bool :=
  match m.keyBy, m.datum with
  | .callee, _ => true
  | .owner, .perOwner => true
  | _, _ => false

def memosSound (ms : List MemoFact) : Bool := ms.all MemoFact.sound

end Model.Conv
