/-!
# Model.TypedNil — the missing-operand guard of the parser and Go's typed nil

`Parser.required(v data.GetValue, acl data.Control)` (parser/parser.go) turns "the sub-parser found no
expression" (`v == nil`, no error) into the diagnostic "expression missing here"; every node
constructor downstream relies on it. `v` is an INTERFACE value: a pair (dynamic type, pointer).
`v == nil` holds only for the pair without a dynamic type. A sub-parser whose DECLARED result type is
a concrete pointer `*T` and that returns `nil` hands back a nil POINTER; the conversion at the call
site (`required(f())`, `return f()`, `x = v`) gives it the dynamic type `*T`: the interface value is
not nil, the guard lets it through, and the first method call on it dereferences nil — at run time,
when the accepted program is executed.
-/
namespace Model.TypedNil

/-- a value of a concrete pointer type `*T` -/
inductive Ptr where
  | nil
  | node (id : Nat)
  deriving DecidableEq, Repr

/-- a Go interface value: no dynamic type at all, or a dynamic type together with its pointer -/
inductive Iface where
  | untyped
  | typed (p : Ptr)
  deriving DecidableEq, Repr

/-- Go's `v == nil` on an interface value -/
def Iface.isNil : Iface → Bool
  | .untyped => true
  | .typed _ => false

/-- what evaluating the node does: a method of `*T` that reads a field of the receiver -/
inductive Use where
  | ok (id : Nat)
  | nilDeref
  deriving DecidableEq, Repr

def Iface.use : Iface → Use
  | .typed (.node n) => .ok n
  | _ => .nilDeref

inductive Verdict where
  | error            -- the sub-parser's own diagnostic is passed on
  | missing          -- "此处缺少表达式": positioned diagnostic, the source is rejected
  | accept (v : Iface)
  deriving DecidableEq, Repr

/-- `Parser.required`, line by line -/
def required (v : Iface) (err : Bool) : Verdict :=
  if err then .error
  else if v.isNil then .missing
  else .accept v

/-- what a sub-parser found: an operand (node `n`) or nothing; no error in either case -/
abbrev Found := Option Nat

/-- a sub-parser declared `(data.GetValue, data.Control)`: `return nil, nil` is the untyped nil -/
def viaIface : Found → Iface
  | none => .untyped
  | some n => .typed (.node n)

/-- a sub-parser declared `(*T, data.Control)` whose result is converted at the call site:
`return nil, nil` arrives as (`*T`, nil) -/
def viaPtr : Found → Iface
  | none => .typed .nil
  | some n => .typed (.node n)

/-- the same producer with the pointer tested before the conversion (`if p == nil { return nil, … }`) -/
def viaPtrChecked : Found → Iface
  | none => .untyped
  | some n => .typed (.node n)

/-! ## the regenerated facts: every pointer-to-interface conversion of package parser -/

inductive Form where
  | forward | ret | retVar | argVar | assign
  deriving DecidableEq, Repr

structure Conv where
  file : String
  fn : String
  producer : String
  form : Form
  consumer : String
  /-- the producer has a `return nil, e` with `e` possibly nil -/
  nilOk : Bool
  /-- the pointer is compared with nil before it is converted -/
  checked : Bool
  deriving DecidableEq, Repr

/-- a conversion through which a typed nil can reach an interface guard -/
def Conv.typedNil (c : Conv) : Bool := c.nilOk && !c.checked

/-- the conversion function a site realises -/
def Conv.conv (c : Conv) : Found → Iface :=
  if c.nilOk then (if c.checked then viaPtrChecked else viaPtr)
  else fun
    | none => .untyped      -- the producer never returns (nil, no error): unreachable, any value will do
    | some n => .typed (.node n)

def noTypedNil (tbl : List Conv) : Bool := tbl.all (fun c => !c.typedNil)

end Model.TypedNil
