/-!
# Model.Req — in-flight HTTP requests over origami's superglobal caches (C11)

What the Go code does (std/net/http/handler.go, node/globals_*.go):

* `Handler.ServeHTTP` runs `node.ResetSuperglobals()` (every cache variable := nil),
  builds a request object around the `*http.Request`, creates a **fresh** variable
  context for the handler closure and calls it.  Middlewares run *before* that.
* `$_GET`, `$_POST`, `$_COOKIE`, `$_SERVER`, `$_FILES`, `$_SESSION`, `$_ENV`, `$GLOBALS`
  each evaluate to the object held in one cache variable; when the variable is nil
  it is first filled from the request of the *reading* context (lazy fill).
  `$_REQUEST` is filled by evaluating `$_GET`, `$_POST`, `$_COOKIE` (which fills those
  caches too) and merging them in that order.
* `$_X[k] = v` mutates the cached object in place.
* `$req->input()/query()/header()/method()/path()` read the `*http.Request` the
  request object was built around.

The model: every request is a list of script-level `Step`s; a schedule (list of
request ids, any number of requests) picks whose next step runs.  A step acts on the
request's own state and on the cache cells *it can see*.  Where a cache cell of a
superglobal kind lives is the parameter `World.scope`: `packageLevel` = one cell for
the process (what the pinned tree does: `var getValue *data.ObjectValue`),
`perRequest` = one cell per request.  The scope table of the real tree is
regenerated from the source (`Generated.C11Superglobals`).
-/
namespace Model.Req

abbrev Rid := Nat
abbrev Key := Nat
abbrev Val := Nat

inductive Scope | packageLevel | perRequest
  deriving DecidableEq, Repr

/-- the superglobal kinds of `node/globals_*_variable.go` that `ResetSuperglobals` clears -/
inductive Kind | get | post | cookie | server | request | files | session | env | globals
  deriving DecidableEq, Repr

def Kind.all : List Kind := [.get, .post, .cookie, .server, .request, .files, .session, .env, .globals]

/-- an ordered property store (`data.ObjectValue`): first occurrence of a key is its value -/
abbrev Content := List (Key × Val)

def Content.get (c : Content) (k : Key) : Option Val := c.lookup k

/-- `SetProperty`: replace the value of an existing key in place, append a new key -/
def Content.set : Content → Key → Val → Content
  | [], k, v => [(k, v)]
  | (k', v') :: rest, k, v => if k' = k then (k', v) :: rest else (k', v') :: Content.set rest k v

/-- `RangeProperties(src) { dst.SetProperty }` -/
def Content.merge (dst src : Content) : Content := src.foldl (fun d kv => d.set kv.1 kv.2) dst

/-- accessors of the request object (each reads only the wrapped `*http.Request`) -/
inductive Accessor | input | query | header | info
  deriving DecidableEq, Repr

/-- what one `*http.Request` carries (as far as handlers can observe it) -/
structure ReqData where
  query   : Content := []   -- URL query, first value per key
  form    : Content := []   -- r.Form after ParseForm
  cookies : Content := []
  server  : Content := []   -- what the `$_SERVER` fill derives: method, URI, query string, HTTP_* headers
  headers : Content := []
  files   : Content := []
  info    : Content := []   -- method, path
  deriving Repr, DecidableEq

inductive Src | const (v : Val) | last
  deriving DecidableEq, Repr

inductive Step
  | reset                                   -- node.ResetSuperglobals()
  | parseForm                               -- $req->parseForm()
  | readSG (k : Kind) (key : Key)           -- $t[] = $_K[key]
  | writeSG (k : Kind) (key : Key) (v : Val) -- $_K[key] = v
  | readReq (a : Accessor) (key : Key)           -- $t[] = $req->a(key)
  | writeLocal (slot : Nat) (s : Src)       -- $l_slot = const | value of the last read
  | readLocal (slot : Nat)                  -- $t[] = $l_slot
  | gate                                    -- verif_gate(): scheduling point, no effect
  | write                                   -- $res->write(everything read since the last write)
  deriving DecidableEq, Repr

/-- kinds whose cache cell a step reads or writes (`reset` only clears, it reads none) -/
def Step.kinds : Step → List Kind
  | .readSG .request _ => [.request, .get, .post, .cookie]
  | .writeSG .request _ _ => [.request, .get, .post, .cookie]
  | .readSG k _ => [k]
  | .writeSG k _ _ => [k]
  | _ => []

abbrev Obs := Option Val   -- `none` = null

/-- per-request interpreter state: everything that lives in the fresh context of one ServeHTTP -/
structure ReqSt where
  pc      : List Step := []
  parsed  : Bool := false
  locals  : List (Nat × Obs) := []
  last    : Obs := none
  pending : List Obs := []      -- read since the last `write`
  trace   : List Obs := []      -- every value read, in order
  body    : List Obs := []      -- what reached the response
  deriving Repr, DecidableEq

abbrev Cells := Kind → Option Content

structure World where
  scope : Kind → Scope
  prog  : Rid → List Step
  data  : Rid → ReqData
  env   : Content := []        -- process environment (same for every request)

structure State where
  req    : Rid → ReqSt
  shared : Cells                 -- the package-level variables
  priv   : Rid → Cells           -- per-request storage (used for kinds whose scope is perRequest)

def Cells.empty : Cells := fun _ => none
def Cells.set (c : Cells) (k : Kind) (v : Content) : Cells := fun k' => if k' = k then some v else c k'

/-- lazy fill of a basic kind from the *reading* request -/
def fillBasic (env : Content) (d : ReqData) (parsed : Bool) : Kind → Content
  | .get => d.query
  | .post => if parsed then d.form else []
  | .cookie => d.cookies
  | .server => d.server
  | .files => d.files
  | .session => []
  | .env => env
  | .globals => []
  | .request => []   -- not basic; see `ensure`

/-- `XVariable.GetValue`: `if xValue == nil { xValue = fill }; return xValue` -/
def ensureBasic (env : Content) (d : ReqData) (parsed : Bool) (c : Cells) (k : Kind) : Cells × Content :=
  match c k with
  | some v => (c, v)
  | none => let v := fillBasic env d parsed k; (c.set k v, v)

/-- `$_REQUEST` evaluates `$_GET`, `$_POST`, `$_COOKIE` (filling their caches) and merges them -/
def ensure (env : Content) (d : ReqData) (parsed : Bool) (c : Cells) (k : Kind) : Cells × Content :=
  match k with
  | .request =>
    match c .request with
    | some v => (c, v)
    | none =>
      let (c1, g) := ensureBasic env d parsed c .get
      let (c2, p) := ensureBasic env d parsed c1 .post
      let (c3, ck) := ensureBasic env d parsed c2 .cookie
      let v := (Content.merge (Content.merge (Content.merge [] g) p) ck)
      (c3.set .request v, v)
  | k => ensureBasic env d parsed c k

def readAcc (d : ReqData) (parsed : Bool) : Accessor → Key → Obs
  | .input, k => if parsed then (match d.form.get k with | some v => some v | none => d.query.get k) else d.query.get k
  | .query, k => d.query.get k
  | .header, k => d.headers.get k
  | .info, k => d.info.get k

def observe (q : ReqSt) (o : Obs) : ReqSt :=
  { q with last := o, pending := q.pending ++ [o], trace := q.trace ++ [o] }

/-- one step of a request on its own state and the cells it can see -/
def localStep (env : Content) (d : ReqData) (q : ReqSt) (c : Cells) : ReqSt × Cells :=
  match q.pc with
  | [] => (q, c)
  | st :: rest =>
    let q := { q with pc := rest }
    match st with
    | .reset => (q, Cells.empty)
    | .parseForm => ({ q with parsed := true }, c)
    | .readSG k key =>
      let (c', v) := ensure env d q.parsed c k
      (observe q (v.get key), c')
    | .writeSG k key val =>
      let (c', v) := ensure env d q.parsed c k
      (q, c'.set k (v.set key val))
    | .readReq a key => (observe q (readAcc d q.parsed a key), c)
    | .writeLocal slot (.const v) => ({ q with locals := (slot, some v) :: q.locals }, c)
    | .writeLocal slot .last => ({ q with locals := (slot, q.last) :: q.locals }, c)
    | .readLocal slot => (observe q ((q.locals.lookup slot).getD none), c)
    | .gate => (q, c)
    | .write => ({ q with body := q.body ++ q.pending, pending := [] }, c)

/-- the cells request `r` sees: package-level variable or its own storage, per kind -/
def cellView (w : World) (s : State) (r : Rid) : Cells :=
  fun k => match w.scope k with
    | .packageLevel => s.shared k
    | .perRequest => s.priv r k

/-- run the next step of request `r` -/
def stepReq (w : World) (s : State) (r : Rid) : State :=
  let res := localStep w.env (w.data r) (s.req r) (cellView w s r)
  { req := fun r' => if r' = r then res.1 else s.req r'
    shared := fun k => match w.scope k with
      | .packageLevel => res.2 k
      | .perRequest => s.shared k
    priv := fun r' k => if r' = r then
        (match w.scope k with
         | .packageLevel => s.priv r' k
         | .perRequest => res.2 k)
      else s.priv r' k }

def init (w : World) : State :=
  { req := fun r => { pc := w.prog r }, shared := Cells.empty, priv := fun _ => Cells.empty }

def run (w : World) (s : State) (sched : List Rid) : State := sched.foldl (stepReq w) s

/-- the response of request `r` -/
def response (s : State) (r : Rid) : List Obs := (s.req r).body

/-- request `r` served alone, to completion -/
def solo (w : World) (r : Rid) : State := run w (init w) (List.replicate (w.prog r).length r)

def soloResponse (w : World) (r : Rid) : List Obs := response (solo w r) r

end Model.Req
