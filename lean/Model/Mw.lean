/-
C13 — middleware composition as `applyMiddlewares` does it
(std/net/http/middleware_stack.go): copy, `sort.SliceStable` by priority,
then wrap from the last sorted entry inwards.

Modelled-not-verified: `sort.SliceStable` is modelled as stable insertion sort.
A middleware is `pre; next(); post` or, when `calls = false`, `pre; post`
(short-circuit).
-/
namespace Model.Mw

structure Entry where
  prio : Int
  id : Nat
  calls : Bool := true
deriving Repr, DecidableEq

inductive Ev
  | pre (id : Nat) | post (id : Nat) | final
deriving Repr, DecidableEq

/-- insert before the first entry of strictly greater-or-equal priority … no:
    before the first entry whose priority is ≥, so that an entry registered
    earlier stays before later ones of the same priority (we insert from the right). -/
def ins (e : Entry) : List Entry → List Entry
  | [] => [e]
  | x :: xs => if e.prio ≤ x.prio then e :: x :: xs else x :: ins e xs

def sortStable : List Entry → List Entry
  | [] => []
  | e :: es => ins e (sortStable es)

/-- a handler is the event trace it produces when served -/
abbrev Handler := List Ev

def wrap (e : Entry) (next : Handler) : Handler :=
  if e.calls then [Ev.pre e.id] ++ next ++ [Ev.post e.id] else [Ev.pre e.id, Ev.post e.id]

/-- `h := final; for i := len(sorted)-1; i >= 0; i-- { h = sorted[i].fn(h) }` -/
def chain (final : Handler) (sorted : List Entry) : Handler := sorted.foldr wrap final

def apply (final : Handler) (entries : List Entry) : Handler :=
  if entries.isEmpty then final else chain final (sortStable entries)

end Model.Mw
