/-!
# C05 — the exit-status decision of `zy <script>`

Mirrors `zy.go main` → `cmd/root.go RunScriptFile` → `runtime/vm.go LoadAndRun` / the VM's default handler
(`NewVM`: `acl = func(c) { parser.ShowControl(c); os.Exit(1) }`) / `std/php/core/exit.go` (`os.Exit(code)`) /
`data/output.go DefaultOutputWriter` (`fmt.Print`: an unbuffered write to file descriptor 1) /
`std/php/core/ob_start.go` (`ob_start` swaps `data.WriteOutput` for an append to an in-memory buffer;
`data.FlushAllBuffersFn`, which `LoadAndRun` would call at the end, is never assigned anywhere in the tree, and the
`os.Exit` paths do not go through it anyway).

What the script does is abstracted to the sequence of output-relevant steps it performs and the way it ends.
-/
namespace Model.Cli

/-- `returnsErr` = fix `C05-cli-exit-status` (RunScriptFile returns an error instead of nil) -/
structure Cfg where
  returnsErr : Bool
deriving DecidableEq, Repr

def Cfg.fixed : Cfg := ⟨true⟩
def Cfg.pinned : Cfg := ⟨false⟩

inductive Step where
  | echo (m : Nat)      -- data.WriteOutput(s)
  | obStart             -- ob_start(): push a buffer, WriteOutput := append to it
  | obGetClean          -- ob_get_clean() / ob_end_clean(): pop the top buffer (its text goes back to the script)
deriving DecidableEq, Repr

/-- how the interpretation of a parsed script ends -/
inductive End where
  | normal                 -- Program.GetValue returned (value, nil)
  | uncaught               -- a throw reached Program.GetValue → vm.ThrowControl → acl
  | exit (n : Nat)         -- exit(n)
  | lateControl            -- LoadAndRun returned a control after running (e.g. top-level goto to an undefined label)
  | goPanic                -- a Go panic left the interpreter: the Go runtime prints the trace and exits 2
deriving DecidableEq, Repr

inductive Input where
  | missing                                  -- os.Stat fails
  | parseError                               -- ParseFile returns a control; nothing has run
  | script (steps : List Step) (e : End)
deriving DecidableEq, Repr

/-- the user-visible part of the process -/
structure Proc where
  fd1 : List Nat      -- what reached file descriptor 1, in order
  diag : Bool         -- a diagnostic was written to stderr
  code : Nat          -- exit status
deriving DecidableEq, Repr

/-- output state while the script runs: bytes on fd 1, and the stack of `ob_start` buffers (innermost first) -/
structure OutSt where
  fd1 : List Nat
  bufs : List (List Nat)
deriving DecidableEq, Repr

def step (s : OutSt) : Step → OutSt
  | .echo m =>
    match s.bufs with
    | [] => { s with fd1 := s.fd1 ++ [m] }
    | b :: rest => { s with bufs := (b ++ [m]) :: rest }
  | .obStart => { s with bufs := [] :: s.bufs }
  | .obGetClean => { s with bufs := s.bufs.drop 1 }

def runSteps (steps : List Step) : OutSt := steps.foldl step ⟨[], []⟩

/-- `zy.go`: `if err := cmd.RunScriptFile(path); err != nil { os.Exit(1) }; return` -/
def mainExit (err : Bool) : Nat := if err then 1 else 0

/-- `RunScriptFile` + the ways the process can end underneath it. Nothing flushes the `ob_start` buffers. -/
def exitOf (cfg : Cfg) : Input → Proc
  | .missing => ⟨[], true, mainExit cfg.returnsErr⟩          -- message on stderr (help text on stdout not modelled)
  | .parseError => ⟨[], true, mainExit cfg.returnsErr⟩       -- ShowControl(err); RunShutdownCallbacks; return
  | .script steps e =>
    let o := runSteps steps
    match e with
    | .normal => ⟨o.fd1, false, mainExit false⟩
    | .uncaught => ⟨o.fd1, true, 1⟩                          -- acl: ShowControl; os.Exit(1)
    | .exit n => ⟨o.fd1, false, n⟩                           -- os.Exit(n)
    | .lateControl => ⟨o.fd1, true, mainExit cfg.returnsErr⟩
    | .goPanic => ⟨o.fd1, true, 2⟩

end Model.Cli
