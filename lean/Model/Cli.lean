/-!
# C05 — the exit-status decision of `zy <script>`

Mirrors `zy.go main` → `cmd/root.go RunScriptFile` → `runtime/vm.go LoadAndRun` / the VM's default handler
(`NewVM`: `acl = func(c) { parser.ShowControl(c); os.Exit(1) }`) / `std/php/core/exit.go` (`os.Exit(code)`) /
`data/output.go DefaultOutputWriter` (`fmt.Print`: an unbuffered write to file descriptor 1) /
`std/php/core/ob_start.go` (`ob_start` swaps `data.WriteOutput` for an append to an in-memory buffer;
`core.FlushAllBuffers` = `data.FlushAllBuffersFn` writes what is still buffered, outermost buffer first; `LoadAndRun`
calls it after `program.GetValue` returns, and — fix `C05-flush-buffers-before-exit` — so do the VM's default
handler before `ShowControl; os.Exit(1)` and `exit()` before `os.Exit(code)`).

What the script does is abstracted to the sequence of output-relevant steps it performs and the way it ends.
-/
namespace Model.Cli

/-- `returnsErr` = fix `C05-cli-exit-status` (RunScriptFile returns an error instead of nil);
`flushOnExit` = fix `C05-flush-buffers-before-exit` (the `os.Exit` paths flush the open output buffers first) -/
structure Cfg where
  returnsErr : Bool
  flushOnExit : Bool
deriving DecidableEq, Repr

def Cfg.fixed : Cfg := ⟨true, true⟩
def Cfg.pinned : Cfg := ⟨false, false⟩

inductive Step where
  | echo (m : Nat)      -- data.WriteOutput(s)
  | obStart             -- ob_start(): push a buffer, WriteOutput := append to it
  | obGetClean          -- ob_get_clean() / ob_end_clean(): pop the top buffer (its text goes back to the script)
deriving DecidableEq, Repr

/-- how the interpretation of a parsed script ends -/
inductive End where
  | normal                 -- Program.GetValue returned (value, nil)
  | uncaught               -- a throw reached Program.GetValue → vm.ThrowControl → acl
  | exit (n : Nat)         -- exit(n)
  | lateControl            -- LoadAndRun returned a control after running (e.g. top-level goto to an undefined label)
  | goPanic                -- a Go panic left the interpreter: the Go runtime prints the trace and exits 2
deriving DecidableEq, Repr

inductive Input where
  | missing                                  -- os.Stat fails
  | parseError                               -- ParseFile returns a control; nothing has run
  | script (steps : List Step) (e : End)
deriving DecidableEq, Repr

/-- the user-visible part of the process -/
structure Proc where
  fd1 : List Nat      -- what reached file descriptor 1, in order
  diag : Bool         -- a diagnostic was written to stderr
  code : Nat          -- exit status
deriving DecidableEq, Repr

/-- output state while the script runs: bytes on fd 1, and the stack of `ob_start` buffers (innermost first) -/
structure OutSt where
  fd1 : List Nat
  bufs : List (List Nat)
deriving DecidableEq, Repr

def step (s : OutSt) : Step → OutSt
  | .echo m =>
    match s.bufs with
    | [] => { s with fd1 := s.fd1 ++ [m] }
    | b :: rest => { s with bufs := (b ++ [m]) :: rest }
  | .obStart => { s with bufs := [] :: s.bufs }
  | .obGetClean => { s with bufs := s.bufs.drop 1 }

def runSteps (steps : List Step) : OutSt := steps.foldl step ⟨[], []⟩

/-- `zy.go`: `if err := cmd.RunScriptFile(path); err != nil { os.Exit(1) }; return` -/
def mainExit (err : Bool) : Nat := if err then 1 else 0

/-- `core.FlushAllBuffers`: the pending buffers reach fd 1, outermost first -/
def flushed (o : OutSt) : List Nat := o.fd1 ++ o.bufs.reverse.flatten

/-- what is on fd 1 when the process ends through `os.Exit` from inside the interpreter -/
def atExit (cfg : Cfg) (o : OutSt) : List Nat := if cfg.flushOnExit then flushed o else o.fd1

/-- `RunScriptFile` + the ways the process can end underneath it -/
def exitOf (cfg : Cfg) : Input → Proc
  | .missing => ⟨[], true, mainExit cfg.returnsErr⟩          -- message on stderr (help text on stdout not modelled)
  | .parseError => ⟨[], true, mainExit cfg.returnsErr⟩       -- ShowControl(err); RunShutdownCallbacks; return
  | .script steps e =>
    let o := runSteps steps
    match e with
    | .normal => ⟨flushed o, false, mainExit false⟩          -- LoadAndRun: FlushAllBuffersFn()
    | .uncaught => ⟨atExit cfg o, true, 1⟩                   -- acl: (flush;) ShowControl; os.Exit(1)
    | .exit n => ⟨atExit cfg o, false, n⟩                    -- exit(): (flush;) os.Exit(n)
    | .lateControl => ⟨flushed o, true, mainExit cfg.returnsErr⟩
    | .goPanic => ⟨o.fd1, true, 2⟩                           -- the Go runtime aborts: nothing is flushed

end Model.Cli
