/-!
# Model.Ops — scalar operators and truthiness (C03)

Mirrors the *type dispatch* of

* `node/binary_add.go … binary_dot.go` (one function per operator: which operand
  kinds take which branch, which conversions are applied, which branch raises a
  catchable error, which would hit an unchecked Go type assertion → `crash`),
* `data/value_compare.go` `LooseCompare` — the one comparison behind `== != < <= > >= <=>`
  (`looseCompare`; the seven nodes only test its result: `viaCompare`, `cmp`, and the
  regenerated `CmpSite` table says which test each node applies),
* `node/expression.go` (`-`, `!`, `~`), `std/convert_{bool,int,float}.go` (`(bool)`, `(int)`, `(float)`),
* every place that decides whether a value is "true": `AsBool` of each value type
  (`data/value_*.go`), the inline switch of `node/ternary.go`, the `*BoolValue` shortcut of
  `node/for.go`, and the plain `AsBool` callers (`if`, `elseif`, `while`, `do-while`, `!`,
  `&&`, `||`, `(bool)`).

Values: 64-bit integers are `BitVec 64` (Go `int` arithmetic wraps), floats are an abstract
carrier `F` whose operations are the fields of `Prim` (Go float64 arithmetic, conversions,
`math.Pow`, `strconv`), strings are byte lists. Arrays, `ObjectValue`s and class instances are
opaque tags (`arr n` = the list `[1..n]`, `obj k` / `cls k` = k properties) — enough for the
dispatch and the no-crash clause.

How each truthiness site tests a value is *data* (`TruthTable`): the translator `extract/c03`
regenerates it from the source on every run (`Generated.C03Truthiness`).
-/
namespace Model.Ops

abbrev Str := List UInt8

/-- script values -/
inductive Val (F : Type) where
  | int (i : BitVec 64)
  | float (f : F)
  | bool (b : Bool)
  | str (s : Str)
  | null
  | arr (n : Nat)
  | obj (k : Nat)
  | cls (k : Nat)

inductive Kind | int | float | bool | str | null | arr | obj | cls
  deriving DecidableEq, Repr

def Val.kind {F} : Val F → Kind
  | .int _ => .int | .float _ => .float | .bool _ => .bool | .str _ => .str
  | .null => .null | .arr _ => .arr | .obj _ => .obj | .cls _ => .cls

def Kind.all : List Kind := [.int, .float, .bool, .str, .null, .arr, .obj, .cls]

/-- the accessor interfaces of package `data` the operators assert on -/
inductive Iface | asInt | asFloat | asBool | asString | value
  deriving DecidableEq, Repr

/-- which value type implements which interface (method sets of `data/value_*.go`;
`StringValue.AsInt` returns `int64`, so a string is *not* a `data.AsInt`). Regenerated and
compared by `decide` in `Proofs.Properties.C03`. -/
def implements : Kind → Iface → Bool
  | _, .asString => true
  | _, .value => true
  | _, .asBool => true
  | .int, .asInt => true
  | .float, .asInt => true
  | .null, .asInt => true
  | _, .asInt => false
  | .int, .asFloat => true
  | .float, .asFloat => true
  | .null, .asFloat => true
  | .str, .asFloat => true
  | _, .asFloat => false

inductive ErrKind | divZero | parse | unsupported | negShift
  deriving DecidableEq, Repr

/-- result of evaluating one operator application -/
inductive Outcome (α : Type) where
  | val (v : α)
  | err (e : ErrKind)   -- catchable script error
  | crash               -- Go panic (failed type assertion, integer division by zero, negative shift count)

/-- Go primitives the operators apply to floats and strings. Parameters of the model:
the driver instantiates them with IEEE doubles / Go's own `strconv` results; a theorem that
needs a law about them states it as a hypothesis. -/
structure Prim (F : Type) where
  add : F → F → F
  sub : F → F → F
  mul : F → F → F
  div : F → F → F
  pow : F → F → F            -- math.Pow
  neg : F → F
  trunc : F → F              -- math.Trunc
  ofInt : BitVec 64 → F      -- float64(i)
  toInt : F → BitVec 64      -- int(f) / int64(f)
  lt : F → F → Bool
  le : F → F → Bool
  eq : F → F → Bool          -- ==   (`!=` is its negation)
  zero : F                   -- the constant 0
  one : F
  maxIntF : F                -- float64(math.MaxInt)
  minIntF : F                -- float64(math.MinInt)
  parse : Str → Option F     -- strconv.ParseFloat(s, 64), `none` when err != nil
  atoi : Str → Option (BitVec 64)  -- strconv.Atoi
  fmtG : F → Str             -- strconv.FormatFloat(f, 'g', 14, 64)   (FloatValue.AsString)
  display : Kind → Nat → Str -- AsString of an array / object / class instance

/-! ## decimal rendering of integers (`fmt.Sprintf("%d")`) -/

def digitsOf (n : Nat) : Str := (Nat.toDigits 10 n).map (fun c => c.toNat.toUInt8)

def decimal (i : BitVec 64) : Str :=
  let z := i.toInt
  if z < 0 then 45 :: digitsOf z.natAbs else digitsOf z.natAbs

def sTrue : Str := [116, 114, 117, 101]
def sFalse : Str := [102, 97, 108, 115, 101]

/-- Go's `<` on strings: bytewise lexicographic -/
def strLt : Str → Str → Bool
  | [], [] => false
  | [], _ :: _ => true
  | _ :: _, [] => false
  | a :: as, b :: bs => if a < b then true else if b < a then false else strLt as bs

/-! ## truthiness as the code has it -/

/-- the shapes of boolean tests found in the source -/
inductive Cmp
  | ne0        -- `v.Value != 0`
  | gt0        -- `v.Value > 0`
  | nonEmpty   -- `v.Value != ""`
  | lenGt0     -- `len(v.Value) > 0`, `len(v.List) > 0`
  | field      -- `v.Value` of a BoolValue
  | constTrue
  | constFalse
  deriving DecidableEq, Repr

/-- one place that decides truthiness: the concrete-type arms tried first (in source order)
and whether everything else goes through `AsBool` -/
structure Site where
  name : String
  arms : List (Kind × Cmp)
  asBool : Bool
  deriving DecidableEq, Repr

structure TruthTable where
  /-- body of `AsBool` per value type -/
  asBoolImpl : List (Kind × Cmp)
  sites : List Site
  /-- anything the translator could not recognise -/
  shapeChanged : List String
  deriving DecidableEq, Repr

/-- an *unchecked* Go type assertion `x.(I)` on an operand (no comma-ok): it panics when the
dynamic type does not implement `I`. `guard` = the assertion sits in a `case *data.KValue:` arm
of a type switch on the same operand. Regenerated by the translator. -/
structure Assertion where
  file : String
  expr : String
  iface : Iface
  guard : Option Kind
  deriving DecidableEq, Repr

/-- an unchecked assertion cannot fail on the value kinds of the model -/
def Assertion.safe (a : Assertion) : Bool :=
  match a.guard with
  | some k => implements k a.iface
  | none => Kind.all.all (fun k => implements k a.iface)

section
variable {F : Type} (P : Prim F)

/-- evaluate one test shape on a value; `none` when the shape does not apply to the kind -/
def Cmp.eval : Cmp → Val F → Option Bool
  | .ne0, .int i => some (i != 0#64)
  | .ne0, .float f => some (!P.eq f P.zero)
  | .gt0, .int i => some (BitVec.slt 0#64 i)
  | .gt0, .float f => some (P.lt P.zero f)
  | .nonEmpty, .str s => some (!s.isEmpty)
  | .lenGt0, .str s => some (!s.isEmpty)
  | .lenGt0, .arr n => some (decide (0 < n))
  | .field, .bool b => some b
  | .constTrue, _ => some true
  | .constFalse, _ => some false
  | _, _ => none

def lookupCmp (l : List (Kind × Cmp)) (k : Kind) : Option Cmp :=
  match l.find? (fun p => p.1 == k) with
  | some p => some p.2
  | none => none

/-- `v.AsBool()` for the value types of the model (every one of them implements it) -/
def valAsBool (T : TruthTable) (v : Val F) : Option Bool :=
  match lookupCmp T.asBoolImpl v.kind with
  | some c => c.eval P v
  | none => none

/-- what a site computes for a value: the first matching concrete-type arm, else `AsBool` -/
def Site.truthy (T : TruthTable) (s : Site) (v : Val F) : Option Bool :=
  match lookupCmp s.arms v.kind with
  | some c => c.eval P v
  | none => if s.asBool then valAsBool P T v else none

def findSite (T : TruthTable) (name : String) : Option Site :=
  T.sites.find? (fun s => s.name == name)

/-- truthiness of `v` in the named context; `none` = the table has no usable entry
(translator found an unexpected shape) -/
def truthyAt (T : TruthTable) (ctx : String) (v : Val F) : Option Bool :=
  match findSite T ctx with
  | some s => s.truthy P T v
  | none => none

/-- the contexts of the property statement, by site name -/
def contexts : List String :=
  ["if", "elseif", "while", "dowhile", "for", "ternary", "not", "landL", "landR", "lorL", "lorR", "castb"]

/-! ## conversions (`AsInt`, `AsFloat`, `AsString` of each value type) -/

/-- `v.(data.AsInt)` + `.AsInt()`: `none` when the type does not implement the interface -/
def asIntI : Val F → Option (BitVec 64)
  | .int i => some i
  | .float f => some (P.toInt f)
  | .null => some 0#64
  | _ => none

/-- `v.(data.AsFloat)` + `.AsFloat()`: outer `none` = not implemented, inner `none` = err != nil -/
def asFloatI : Val F → Option (Option F)
  | .int i => some (some (P.ofInt i))
  | .float f => some (some f)
  | .null => some (some P.zero)
  | .str s => some (P.parse s)
  | _ => none

/-- `v.AsString()` (every value has it) -/
def asString : Val F → Str
  | .int i => decimal i
  | .float f => P.fmtG f
  | .bool b => if b then sTrue else sFalse
  | .str s => s
  | .null => []
  | .arr n => P.display .arr n
  | .obj k => P.display .obj k
  | .cls k => P.display .cls k

/-- checked operand access of the fixed operators (`operandAsInt`): unsupported type or
conversion error is a catchable error -/
def operandAsInt (v : Val F) : Except ErrKind (BitVec 64) :=
  match asIntI P v with
  | some i => .ok i
  | none => .error .unsupported

def operandAsFloat (v : Val F) : Except ErrKind F :=
  match asFloatI P v with
  | some (some f) => .ok f
  | some none => .error .parse
  | none => .error .unsupported

abbrev Res (F : Type) := Outcome (Val F)

def ofExcept (e : Except ErrKind (Val F)) : Res F :=
  match e with
  | .ok v => .val v
  | .error k => .err k

/-! ## `+`  (node/binary_add.go) -/

/-- `addOperandAsFloat64` -/
def addAsFloat (v : Val F) : Option F :=
  match asFloatI P v with
  | some (some f) => some f
  | _ => none

def isFloat : Val F → Bool
  | .float _ => true
  | _ => false

def boolInt (b : Bool) : BitVec 64 := if b then 1#64 else 0#64

/-- the `switch l := lv.(type)` of `BinaryAdd.GetValue` -/
def addSwitch (a b : Val F) : Res F :=
  match a with
  | .str l => .val (.str (l ++ asString P b))          -- ValueToDisplayString (no __toString in the model)
  | .int l =>
      match b with
      | .int r => .val (.int (l + r))
      | .float r => .val (.int (l + P.toInt r))          -- case data.AsInt (unreachable: float pre-check)
      | .null => .val (.int (l + 0#64))
      | .str s =>                                         -- case data.AsFloat
          match P.parse s with
          | some rf => .val (.float (P.add (P.ofInt l) rf))
          | none => .err .parse
      | _ => .val (.str (decimal l ++ asString P b))     -- case data.AsString
  | .float l =>
      match b with
      | .int r => .val (.float (P.add l (P.ofInt r)))
      | .float r => .val (.float (P.add l (P.ofInt (P.toInt r))))   -- case data.AsInt comes first (unreachable)
      | .null => .val (.float (P.add l (P.ofInt 0#64)))
      | .str s => .val (.str (P.fmtG l ++ s))
      | _ => .err .unsupported
  | .bool l =>
      match b with
      | .int r => .val (.int (boolInt l + r))
      | .float r => .val (.int (boolInt l + P.toInt r))
      | .null => .val (.int (boolInt l + 0#64))
      | .str s =>
          match P.parse s with
          | some rf => .val (.float (P.add (P.ofInt (boolInt l)) rf))
          | none => .val (.str (decimal (boolInt l) ++ s))
      | _ => .val (.str (decimal (boolInt l) ++ asString P b))
  | .null =>
      match asIntI P b with
      | some r => .val (.int (0#64 + r))
      | none => .val (.str ([] ++ asString P b))
  | .arr n =>
      match b with
      | .arr m => .val (.arr (n + m))
      | .obj k => .val (.arr (n + k))
      | .cls k => .val (.arr (n + k))
      | _ => .val (.arr (n + 1))
  | .obj k =>
      match b with
      | .obj _ => .val (.obj k)        -- merged object (size not tracked)
      | .cls _ => .val (.obj k)
      | .arr m => .val (.arr (k + m))
      | _ => .err .unsupported
  | .cls k =>
      match b with
      | .obj _ => .val (.obj k)
      | .cls _ => .val (.obj k)
      | .arr m => .val (.arr (k + m))
      | _ => .val (.str (asString P a ++ asString P b))

def add (a b : Val F) : Res F :=
  if isFloat a || isFloat b then
    match addAsFloat P a, addAsFloat P b with
    | some lf, some rf => .val (.float (P.add lf rf))
    | _, _ => addSwitch P a b
  else addSwitch P a b

/-! ## `-` `*` `/` `%` `**` -/

def sub (a b : Val F) : Res F :=
  match a with
  | .str s =>
      match P.parse s with
      | none => .err .parse
      | some li => ofExcept (do let ri ← operandAsFloat P b; pure (.float (P.sub li ri)))
  | .int l =>
      match b with
      | .float rf => .val (.float (P.sub (P.ofInt l) rf))
      | _ => ofExcept (do let ri ← operandAsInt P b; pure (.int (l - ri)))
  | .float l => ofExcept (do let ri ← operandAsFloat P b; pure (.float (P.sub l ri)))
  | .null => ofExcept (do let ri ← operandAsFloat P b; pure (.float (P.sub P.zero ri)))
  | _ => .err .unsupported

def mul (a b : Val F) : Res F :=
  match a with
  | .int l =>
      match b with
      | .float rf => .val (.float (P.mul (P.ofInt l) rf))
      | _ => ofExcept (do let ri ← operandAsInt P b; pure (.int (l * ri)))
  | .float l => ofExcept (do let rf ← operandAsFloat P b; pure (.float (P.mul l rf)))
  | _ => .err .unsupported

def quo (a b : Val F) : Res F :=
  match a with
  | .int l =>
      match asFloatI P b with
      | some (some ri) => if P.eq ri P.zero then .err .divZero else .val (.float (P.div (P.ofInt l) ri))
      | some none => .err .parse
      | none => .err .unsupported      -- every AsInt is an AsFloat: the second `if` never fires
  | .float l =>
      match operandAsFloat P b with
      | .ok rf => if P.eq rf P.zero then .err .divZero else .val (.float (P.div l rf))
      | .error e => .err e
  | _ => .err .unsupported

/-- Go `%` on `int`: truncated remainder; the divisor is known to be non-zero -/
def goRem (l r : BitVec 64) : BitVec 64 := BitVec.srem l r

def rem (a b : Val F) : Res F :=
  match a with
  | .int l =>
      match operandAsInt P b with
      | .ok ri => if ri == 0#64 then .err .divZero else .val (.int (goRem l ri))
      | .error e => .err e
  | .float l =>
      match operandAsFloat P b with
      | .ok rf =>
          if P.eq rf P.zero || P.toInt rf == 0#64 then .err .divZero
          else .val (.float (P.ofInt (goRem (P.toInt l) (P.toInt rf))))
      | .error e => .err e
  | _ => .err .unsupported

def isInt : Val F → Bool
  | .int _ => true
  | _ => false

def pow (a b : Val F) : Res F :=
  match operandAsFloat P a with
  | .error e => .err e
  | .ok lf =>
    match operandAsFloat P b with
    | .error e => .err e
    | .ok rf =>
      let r := P.pow lf rf
      if isInt a && isInt b && P.eq r (P.trunc r) && P.lt r P.maxIntF && P.le P.minIntF r
      then .val (.int (P.toInt r)) else .val (.float r)

/-! ## `&` `|` `^` `<<` `>>` -/

/-- `toIntOrZero` -/
def toIntOrZero : Val F → BitVec 64
  | .null => 0#64
  | .str _ => 0#64
  | .int i => i
  | .float f => P.toInt f
  | _ => 0#64

def band (a b : Val F) : Res F := .val (.int (toIntOrZero P a &&& toIntOrZero P b))
def bor (a b : Val F) : Res F := .val (.int (toIntOrZero P a ||| toIntOrZero P b))
def bxor (a b : Val F) : Res F := .val (.int (toIntOrZero P a ^^^ toIntOrZero P b))

def shiftWith (f : BitVec 64 → Nat → BitVec 64) (a b : Val F) : Res F :=
  match operandAsInt P a with
  | .error e => .err e
  | .ok li =>
    match operandAsInt P b with
    | .error e => .err e
    | .ok ri => if BitVec.slt ri 0#64 then .err .negShift else .val (.int (f li ri.toNat))

/-- Go: a shift count ≥ the width gives 0 for `<<` and the sign fill for `>>`, exactly what
shifting by 64 gives; the count is capped so the model stays computable for huge counts -/
def shl (a b : Val F) : Res F := shiftWith P (fun x n => x <<< (min n 64)) a b
def shr (a b : Val F) : Res F := shiftWith P (fun x n => x.sshiftRight (min n 64)) a b

/-! ## comparisons

After `fix: … one loose comparison` every comparison operator consults the one helper
`data.LooseCompare` (data/value_compare.go); the nodes only test its result. -/

/-- result of `data.LooseCompare`: −1, 0, 1 or `Unordered` -/
inductive Ord4 | lt | eq | gt | un
  deriving DecidableEq, Repr

/-- `reverseOrder` -/
def Ord4.rev : Ord4 → Ord4
  | .lt => .gt | .gt => .lt | .eq => .eq | .un => .un

/-- the tests the nodes apply to the helper's result: `c == -1`, `c == -1 || c == 0`, `c == 1`,
`c == 1 || c == 0`, `c == 0` -/
def Ord4.isLt (o : Ord4) : Bool := o == .lt
def Ord4.isLe (o : Ord4) : Bool := o == .lt || o == .eq
def Ord4.isGt (o : Ord4) : Bool := o == .gt
def Ord4.isGe (o : Ord4) : Bool := o == .gt || o == .eq
def Ord4.isEq (o : Ord4) : Bool := o == .eq

/-- `cmp.Compare` on Go `int` -/
def ordInt (x y : BitVec 64) : Ord4 :=
  if BitVec.slt x y then .lt else if BitVec.slt y x then .gt else .eq

/-- `cmp.Compare` on Go strings (bytewise) -/
def ordStr (x y : Str) : Ord4 :=
  if strLt x y then .lt else if strLt y x then .gt else .eq

/-- `compareFloat`: `<`, `>`, `==`, else unordered (NaN) -/
def ordFloat (x y : F) : Ord4 :=
  if P.lt x y then .lt else if P.lt y x then .gt else if P.eq x y then .eq else .un

/-- booleans: false < true -/
def ordBool (x y : Bool) : Ord4 :=
  if !x && y then .lt else if x && !y then .gt else .eq

/-- `compareIntString`: a numeric string is compared as a number (`ParseInt`, then `ParseFloat`),
any other string bytewise with the decimal rendering of the integer -/
def ordIntStr (i : BitVec 64) (s : Str) : Ord4 :=
  match P.atoi s with
  | some si => ordInt i si
  | none =>
    match P.parse s with
    | some sf => ordFloat P (P.ofInt i) sf
    | none => ordStr (decimal i) s

/-- `compareFloatString` -/
def ordFloatStr (f : F) (s : Str) : Ord4 :=
  match P.parse s with
  | some sf => ordFloat P f sf
  | none => ordStr (P.fmtG f) s

def isNullOrBool : Val F → Bool
  | .null => true | .bool _ => true | _ => false

/-- `data.LooseCompare`. `none` = the truthiness table has no `AsBool` entry for an operand
(cannot happen for a well-formed table). -/
def looseCompare (T : TruthTable) (a b : Val F) : Option Ord4 :=
  match a, b with
  | .int x, .int y => some (ordInt x y)
  | .int x, .float y => some (ordFloat P (P.ofInt x) y)
  | .int x, .str s => some (ordIntStr P x s)
  | .float x, .int y => some (ordFloat P x (P.ofInt y))
  | .float x, .float y => some (ordFloat P x y)
  | .float x, .str s => some (ordFloatStr P x s)
  | .str x, .str y => some (ordStr x y)
  | .str s, .int y => some (ordIntStr P y s).rev
  | .str s, .float y => some (ordFloatStr P y s).rev
  | .str s, .null => some (ordStr s [])
  | .null, .null => some .eq
  | .null, .str s => some (ordStr [] s)
  | _, _ =>
    if isNullOrBool a || isNullOrBool b then
      match valAsBool P T a, valAsBool P T b with
      | some x, some y => some (ordBool x y)
      | _, _ => none
    else some .un

/-- a node that tests the result of the helper -/
def viaCompare (T : TruthTable) (test : Ord4 → Bool) (a b : Val F) : Res F :=
  match looseCompare P T a b with
  | some o => .val (.bool (test o))
  | none => .crash

def lt (T : TruthTable) := viaCompare P T Ord4.isLt
def le (T : TruthTable) := viaCompare P T Ord4.isLe
def gt (T : TruthTable) := viaCompare P T Ord4.isGt
def ge (T : TruthTable) := viaCompare P T Ord4.isGe

/-- `==`; `same` = both operands are one and the same Go object (`lv == rv`) -/
def eqv (T : TruthTable) (same : Bool) (a b : Val F) : Res F :=
  if same then .val (.bool true) else viaCompare P T Ord4.isEq a b

/-- `!=` -/
def nev (T : TruthTable) (same : Bool) (a b : Val F) : Res F :=
  if same then .val (.bool false) else viaCompare P T (fun o => !o.isEq) a b

/-- `isStrictEqual` (arrays `[1..n]`: equal iff same length; objects of the model are built alike;
class instances are compared by identity) -/
def strictEq (same : Bool) (a b : Val F) : Bool :=
  match a, b with
  | .int x, .int y => x == y
  | .float x, .float y => P.eq x y
  | .bool x, .bool y => x == y
  | .str x, .str y => x == y
  | .null, .null => true
  | .arr n, .arr m => n == m
  | .obj k, .obj j => k == j
  | .cls _, .cls _ => same
  | _, _ => false

def seq (same : Bool) (a b : Val F) : Res F := .val (.bool (strictEq P same a b))
def sne (same : Bool) (a b : Val F) : Res F := .val (.bool (!strictEq P same a b))

/-- the integer `<=>` yields: unordered operands give 0 -/
def Ord4.toInt : Ord4 → BitVec 64
  | .lt => BitVec.ofInt 64 (-1) | .gt => 1#64 | .eq => 0#64 | .un => 0#64

/-- `<=>` (`BinarySpaceship`; `data.Compare` maps the helper's result the same way) -/
def cmp (T : TruthTable) (a b : Val F) : Res F :=
  match looseCompare P T a b with
  | some o => .val (.int o.toInt)
  | none => .crash

/-! ## `&&` `||` `.` -/

def land (T : TruthTable) (a b : Val F) : Res F :=
  match truthyAt P T "landL" a with
  | none => .crash
  | some false => .val (.bool false)
  | some true =>
    match truthyAt P T "landR" b with
    | none => .crash
    | some rb => .val (.bool rb)

def lor (T : TruthTable) (a b : Val F) : Res F :=
  match truthyAt P T "lorL" a with
  | none => .crash
  | some true => .val (.bool true)
  | some false =>
    match truthyAt P T "lorR" b with
    | none => .crash
    | some rb => .val (.bool rb)

/-- operand rendering of `BinaryDot` -/
def dotStr : Val F → Str
  | .str s => s
  | .int i => decimal i
  | .float f => P.fmtG f
  | .bool b => if b then [49] else []
  | .null => []
  | .arr n => P.display .arr n
  | .obj k => P.display .obj k
  | .cls k => P.display .cls k

def dot (a b : Val F) : Res F := .val (.str (dotStr P a ++ dotStr P b))

/-! ## unary operators and casts -/

def neg (a : Val F) : Res F :=
  match a with
  | .int i => .val (.int (-i))
  | _ =>
    match asFloatI P a with
    | some (some f) => .val (.float (P.neg f))
    | some none => .err .parse
    | none => .err .unsupported

def bnot (a : Val F) : Res F :=
  match asIntI P a with
  | some i => .val (.int (~~~i))
  | none => .err .unsupported

def lnot (T : TruthTable) (a : Val F) : Res F :=
  match truthyAt P T "not" a with
  | some b => .val (.bool (!b))
  | none => .crash

def castB (T : TruthTable) (a : Val F) : Res F :=
  match truthyAt P T "castb" a with
  | some b => .val (.bool b)
  | none => .crash

/-- `IntFunction.Call` -/
def castI (T : TruthTable) (a : Val F) : Res F :=
  match asIntI P a with
  | some i => .val (.int i)
  | none =>
    match a with
    | .str s =>
        match P.parse s with
        | some f => .val (.int (P.toInt f))
        | none =>
          match P.atoi s with
          | some i => .val (.int i)
          | none => .val (.int 0#64)
    | _ =>
      match valAsBool P T a with
      | some b => .val (.int (boolInt b))
      | none => .crash

/-- `FloatFunction.Call` -/
def castF (T : TruthTable) (a : Val F) : Res F :=
  match asFloatI P a with
  | some (some f) => .val (.float f)
  | some none => .val (.float P.zero)     -- second ParseFloat fails the same way
  | none =>
    match valAsBool P T a with
    | some b => .val (.float (if b then P.one else P.zero))
    | none => .crash

/-! ## dispatcher -/

inductive BinOp
  | add | sub | mul | quo | rem | pow | band | bor | bxor | shl | shr
  | eq | ne | seq | sne | lt | le | gt | ge | cmp | land | lor | dot
  deriving DecidableEq, Repr

inductive UnOp | neg | bnot | not | castb | casti | castf
  deriving DecidableEq, Repr

def BinOp.all : List BinOp :=
  [.add, .sub, .mul, .quo, .rem, .pow, .band, .bor, .bxor, .shl, .shr,
   .eq, .ne, .seq, .sne, .lt, .le, .gt, .ge, .cmp, .land, .lor, .dot]

/-- `NewBinaryExpression` + the node's `GetValue` on already evaluated operands.
`same`: the two operands are the same Go object (only `==`, `!=`, `===`, `!==` look at identity). -/
def eval (T : TruthTable) (op : BinOp) (same : Bool) (a b : Val F) : Res F :=
  match op with
  | .add => add P a b | .sub => sub P a b | .mul => mul P a b | .quo => quo P a b
  | .rem => rem P a b | .pow => pow P a b
  | .band => band P a b | .bor => bor P a b | .bxor => bxor P a b
  | .shl => shl P a b | .shr => shr P a b
  | .eq => eqv P T same a b | .ne => nev P T same a b
  | .seq => seq P same a b | .sne => sne P same a b
  | .lt => lt P T a b | .le => le P T a b | .gt => gt P T a b | .ge => ge P T a b
  | .cmp => cmp P T a b
  | .land => land P T a b | .lor => lor P T a b
  | .dot => dot P a b

def evalUn (T : TruthTable) (op : UnOp) (a : Val F) : Res F :=
  match op with
  | .neg => neg P a | .bnot => bnot P a | .not => lnot P T a
  | .castb => castB P T a | .casti => castI P T a | .castf => castF P T a

end

/-! ## how the comparison nodes read the helper — regenerated by the translator -/

/-- the test a comparison node applies to `data.LooseCompare(left, right)`; `other` = the node does
something else (own type dispatch, another helper, operands swapped …) -/
inductive CmpTest | isEq | isNe | isLt | isLe | isGt | isGe | toInt | other
  deriving DecidableEq, Repr

/-- one comparison node: its operator, the test, and the constant it returns for identical operand
objects (`if lv == rv { return … }`, `==` and `!=` only) -/
structure CmpSite where
  op : BinOp
  test : CmpTest
  identity : Option Bool
  deriving DecidableEq, Repr

/-- the seven comparison nodes as `eqv nev lt le gt ge cmp` model them -/
def cmpSites : List CmpSite := [
  { op := .eq, test := .isEq, identity := some true },
  { op := .ne, test := .isNe, identity := some false },
  { op := .lt, test := .isLt, identity := none },
  { op := .le, test := .isLe, identity := none },
  { op := .gt, test := .isGt, identity := none },
  { op := .ge, test := .isGe, identity := none },
  { op := .cmp, test := .toInt, identity := none }]

def CmpTest.apply {F : Type} : CmpTest → Ord4 → Option (Val F)
  | .isEq, o => some (.bool o.isEq)
  | .isNe, o => some (.bool (!o.isEq))
  | .isLt, o => some (.bool o.isLt)
  | .isLe, o => some (.bool o.isLe)
  | .isGt, o => some (.bool o.isGt)
  | .isGe, o => some (.bool o.isGe)
  | .toInt, o => some (.int o.toInt)
  | .other, _ => none

/-- what a node described by a `CmpSite` computes -/
def CmpSite.eval {F : Type} (P : Prim F) (T : TruthTable) (s : CmpSite) (same : Bool) (a b : Val F) : Res F :=
  match s.identity, same with
  | some v, true => .val (.bool v)
  | _, _ =>
    match looseCompare P T a b with
    | some o =>
      match s.test.apply o with
      | some v => .val v
      | none => .crash
    | none => .crash

end Model.Ops
