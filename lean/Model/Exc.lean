import Model.Hier
/-!
# C05 — executable model of origami's `try / catch / finally / throw`

Mirrors (file → definition):

* `node/try.go`   `TryStatement.GetValue` → `tryStmt` (the three guarded phases, after fix
  `C05-try-finally-on-panic`) and `tryPinned` (the pinned code: one deferred `recover` around the whole statement,
  whose branch runs `tryValue` on the converted panic and returns **without** the finally loop);
  `tryValue` → `tryValue` + `execC` (the `for _, catchBlock := range t.CatchBlocks` loop, first clause whose
  `catchTypeMatches`, bind, run the body, `return` its control or `nil, nil`); `catchTypeMatches` → `clauseMatches`
  (single type: `Class.Is(*ThrowValue)` + the `Throwable` fallback = `Model.Hier.isThrown`; `A | B`:
  `UnionType.Is` = any member's `Class.Is`, no fallback; a throwable without object — a converted Go panic, a
  runtime error of the interpreter, `throw` of a non-object — matches by base name `Throwable/Exception/Error`);
* `node/throw.go` `ThrowStatement.GetValue` → `.throw` (`new K(...)`, `NewErrorThrowFromClassValue`), `.rethrow`
  (`throw $e`: after fix `C05-rethrow-keeps-class` the caught `*ThrowValue` itself; pinned: `NewErrorThrow` of
  its text, i.e. a class-less throwable; an unbound variable is `null` → class-less throwable, both before and after);
* `node/for.go` → `loopN` (Break ends the loop with no control, Continue goes to the increment, anything else is
  returned), `node/function.go FunctionStatement.Call` → `callResult` (Return → value; any other control,
  *including Break/Continue*, is handed to the caller), statement lists (`for … { v, c = st.GetValue(ctx); if c != nil … }`)
  → `execB`, `node/node.go Program.GetValue` → `run`/`final`.

The language is kept small: markers, `throw new K("s<site>")`, `throw $e`, a host function that panics, `return n`,
`break`, `continue`, `for` with a constant trip count, a call of a function whose body is given at the call site
(`call`), and a call `g<k>($n - 1)` of one of the program's **named functions** (`callf k`), guarded by `if ($n > 0)`.

**Re-entrancy.** Named functions may call themselves and each other (from a try block, a catch body, a finally block,
a loop body): every function has one parameter `$n`, a call passes `$n - 1`, and an activation with `$n = 0` makes no
call. An activation is `Act`: its level `$n` and what a call made *from* it does (`env`, the callee's body run in a
fresh activation one level down). The statement evaluator `exec / execB / execC` takes the activation as a parameter
and is structurally recursive on the syntax; `envAt` ties the knot by recursion on the level. So there is still **no
fuel**: every theorem is about every program, every depth of recursion, outright, and the theorems that quantify over
`Act` hold whatever the callees do. Every number a statement prints or hands on (marker, try id, return value, site
of a `new`) carries the level of the activation that executed it, so the trace says *which* activation of a function
entered a block, returned or threw.

Every run returns the outcome and the event trace; events are what the generated scripts print.
-/
namespace Model.Exc
open Model.Hier (Name Cls Graph getClass isThrown isClassValue R throwableName exceptionName errorName)

/-- what travels in a `*data.ThrowValue`: an object (`Object != nil`; the name of its class — the VM's class table is
keyed by name — and the `new` site that made it), or no object at all -/
inductive Thrown where
  | obj (cls : Name) (site : Nat)
  | internal
deriving DecidableEq, Repr

/-- `data.Control` as the statements of the language can produce it (`normal` = `nil`); `panic` = a Go panic in flight -/
inductive Out where
  | normal | brk | cont
  | ret (v : Nat)
  | thr (t : Thrown)
  | panic
deriving DecidableEq, Repr

/-- `a` = the level `$n` of the activation that executed the statement -/
inductive Ev where
  | enterTry (a i : Nat)
  | enterFinally (a i : Nat)
  | caught (a i k : Nat) (t : Thrown)   -- clause `k` (0-based, source order) of try `i` starts with `$e` bound to `t`
  | echo (a m : Nat)
  | result (v : Option Nat)             -- the caller prints what a call returned
deriving DecidableEq, Repr

abbrev Res := Out × List Ev

/-- one activation of a function (or of the script's top level): the value of its parameter `$n`, and what the call
`g<k>($n - 1)` made from it does to the trace (the body of `g<k>` run in a fresh activation one level down, up to the
point where control comes back to the call) -/
structure Act where
  lvl : Nat
  env : Nat → List Ev → Res

/-- `$n * 1000 + v`: the values an activation returns, and the messages of the objects it throws, identify it -/
def tag (lvl v : Nat) : Nat := lvl * 1000 + v

mutual
inductive Stmt where
  | echo (m : Nat)
  | throw (cls : Name) (site : Nat)
  | rethrow
  | gopanic
  | ret (v : Nat)
  | brk
  | cont
  | loop (k : Nat) (body : Block)
  | call (body : Block)
  | callf (k : Nat)
  | try_ (i : Nat) (body : Block) (catches : Catches) (hasFin : Bool) (fin : Block)
inductive Block where
  | nil
  | cons (s : Stmt) (rest : Block)
inductive Catches where
  | nil
  | cons (types : List Name) (body : Block) (rest : Catches)
end

/-- which of the two repaired behaviours are in force (`fixed` = the tree with the C05 patches, `pinned` = before) -/
structure Cfg where
  guarded : Bool        -- fix C05-try-finally-on-panic
  rethrowKeeps : Bool   -- fix C05-rethrow-keeps-class
deriving DecidableEq, Repr

def Cfg.fixed : Cfg := ⟨true, true⟩
def Cfg.pinned : Cfg := ⟨false, false⟩

/-! ### `catchTypeMatches` -/

/-- `Class{ty}.Is(cv)` -/
def classIs (G : Graph) (ty : Name) : Thrown → Bool
  | .obj n _ =>
    match getClass G n with
    | some c => isClassValue G ty c == .yes
    | none => false
  | .internal => ty == throwableName || ty == exceptionName || ty == errorName

/-- `catchTypeMatches(Class{ty}, cv)`: `Is`, then the `Throwable` fallback -/
def singleMatches (G : Graph) (ty : Name) : Thrown → Bool
  | .obj n _ =>
    match getClass G n with
    | some c => isThrown G ty c == .yes
    | none => false
  | .internal => ty == throwableName || ty == exceptionName || ty == errorName

/-- `catchTypeMatches(exceptionType, cv)`; the parser builds a `Class` for one name, a `UnionType` for several -/
def clauseMatches (G : Graph) (tys : List Name) (t : Thrown) : Bool :=
  match tys with
  | [ty] => singleMatches G ty t
  | _ => tys.any (fun ty => classIs G ty t)

/-! ### non-recursive phases (each takes the recursive calls as parameters) -/

/-- `TryStatement.guard` of the repaired code: a Go panic becomes a class-less script exception -/
def protect : Res → Res
  | (.panic, tr) => (.thr .internal, tr)
  | r => r

/-- `tryValue(ctx, c)`: only a `*ThrowValue` is offered to the catch clauses -/
def tryValue (catchLoop : Thrown → List Ev → Res) : Res → Res
  | (.thr t, tr) => catchLoop t tr
  | r => r

/-- `if len(t.FinallyBlock) > 0 { … if nAcl != nil { return nil, nAcl } }; return v, c` -/
def finallyPhase (a i : Nat) (hasFin : Bool) (runFin : List Ev → Res) (r2 : Res) : Res :=
  if hasFin then
    match runFin (r2.2 ++ [.enterFinally a i]) with
    | (.normal, tr3) => (r2.1, tr3)
    | r3 => r3
  else r2

/-- `if c != nil { v, c = tryValue(ctx, c) }` -/
def catchPhase (handle : Res → Res) : Res → Res
  | (.normal, tr) => (.normal, tr)
  | r => handle r

/-- repaired `TryStatement.GetValue` -/
def tryStmt (a i : Nat) (hasFin : Bool) (runBody : List Ev → Res) (catchLoop : Thrown → List Ev → Res)
    (runFin : List Ev → Res) (tr : List Ev) : Res :=
  let r1 := protect (runBody (tr ++ [.enterTry a i]))
  let r2 := catchPhase (fun r => protect (tryValue catchLoop r)) r1
  finallyPhase a i hasFin (fun t => protect (runFin t)) r2

/-- the deferred branch of the pinned code: `v, c = t.tryValue(ctx, NewErrorThrow(panic))`, and return -/
def recovered (catchLoop : Thrown → List Ev → Res) (tr : List Ev) : Res := catchLoop .internal tr

/-- pinned `TryStatement.GetValue`: wherever the Go panic comes from (body, a catch body, the finally block) the
deferred function offers it to this statement's catch clauses and returns; the finally loop is not run (again) -/
def tryPinned (a i : Nat) (hasFin : Bool) (runBody : List Ev → Res) (catchLoop : Thrown → List Ev → Res)
    (runFin : List Ev → Res) (tr : List Ev) : Res :=
  let fin := fun (r2 : Res) =>
    if hasFin then
      match runFin (r2.2 ++ [.enterFinally a i]) with
      | (.normal, tr3) => (r2.1, tr3)
      | (.panic, tr3) => recovered catchLoop tr3
      | r3 => r3
    else r2
  match runBody (tr ++ [.enterTry a i]) with
  | (.panic, tr1) => recovered catchLoop tr1
  | (.normal, tr1) => fin (.normal, tr1)
  | r1 =>
    match tryValue catchLoop r1 with
    | (.panic, tr2) => recovered catchLoop tr2
    | r2 => fin r2

/-- `ForStatement.GetValue` with a constant trip count -/
def loopN (step : List Ev → Res) : Nat → List Ev → Res
  | 0, tr => (.normal, tr)
  | k+1, tr =>
    match step tr with
    | (.normal, tr') => loopN step k tr'
    | (.cont, tr') => loopN step k tr'
    | (.brk, tr') => (.normal, tr')
    | r => r

/-- `FunctionStatement.Call` + the caller's `$r = f(); echo "R…"` -/
def callResult : Res → Res
  | (.ret v, tr) => (.normal, tr ++ [.result (some v)])
  | (.normal, tr) => (.normal, tr ++ [.result none])
  | r => r

/-- `throw $e` where `$e` is what the innermost enclosing catch clause of the same function bound -/
def rethrown (cfg : Cfg) : Option Thrown → Thrown
  | some t => if cfg.rethrowKeeps then t else .internal
  | none => .internal

/-- `throw new K("s<site>")`; an undeclared class never gets this far (origami refuses the program when loading it) -/
def thrownNew (G : Graph) (cls : Name) (site : Nat) : Thrown :=
  match getClass G cls with
  | some _ => .obj cls site
  | none => .internal

/-! ### the evaluator -/

/-- the call `if ($n > 0) { $r = g<k>($n - 1); echo "R…"; }` made from activation `A` -/
def callNamed (A : Act) (k : Nat) (tr : List Ev) : Res :=
  if A.lvl = 0 then (.normal, tr) else callResult (A.env k tr)

mutual
def exec (G : Graph) (cfg : Cfg) (cur : Option Thrown) (A : Act) : Stmt → List Ev → Res
  | .echo m, tr => (.normal, tr ++ [.echo A.lvl m])
  | .throw cls site, tr => (.thr (thrownNew G cls (tag A.lvl site)), tr)
  | .rethrow, tr => (.thr (rethrown cfg cur), tr)
  | .gopanic, tr => (.panic, tr)
  | .ret v, tr => (.ret (tag A.lvl v), tr)
  | .brk, tr => (.brk, tr)
  | .cont, tr => (.cont, tr)
  | .loop k body, tr => loopN (fun t => execB G cfg cur A body t) k tr
  | .call body, tr => callResult (execB G cfg none A body tr)
  | .callf k, tr => callNamed A k tr
  | .try_ i body cs hasFin fin, tr =>
    if cfg.guarded then
      tryStmt A.lvl i hasFin (fun t => execB G cfg cur A body t) (fun x t => execC G cfg A i 0 x cs t)
        (fun t => execB G cfg cur A fin t) tr
    else
      tryPinned A.lvl i hasFin (fun t => execB G cfg cur A body t) (fun x t => execC G cfg A i 0 x cs t)
        (fun t => execB G cfg cur A fin t) tr
def execB (G : Graph) (cfg : Cfg) (cur : Option Thrown) (A : Act) : Block → List Ev → Res
  | .nil, tr => (.normal, tr)
  | .cons s rest, tr =>
    match exec G cfg cur A s tr with
    | (.normal, tr') => execB G cfg cur A rest tr'
    | r => r
/-- the loop of `tryValue` over the catch clauses, `k` = index of the clause at the head -/
def execC (G : Graph) (cfg : Cfg) (A : Act) (i k : Nat) (x : Thrown) : Catches → List Ev → Res
  | .nil, tr => (.thr x, tr)
  | .cons tys body rest, tr =>
    if clauseMatches G tys x then execB G cfg (some x) A body (tr ++ [.caught A.lvl i k x])
    else execC G cfg A i (k+1) x rest tr
end

/-! ### named functions: the activation one level down

`envAt fns n` is the `env` of an activation whose `$n` is `n`: the call `g<k>($n - 1)` runs the body of function `k`
with `$n = n - 1`, no catch variable bound, and in turn `envAt fns (n - 1)` for its own calls. An activation with
`$n = 0` never calls (`callNamed`). A name that is not declared is a runtime error of the interpreter
(`CallExpression`: a class-less throwable). -/

def envAt (G : Graph) (cfg : Cfg) (fns : List Block) : Nat → Nat → List Ev → Res
  | 0, _, tr => (.normal, tr)
  | n+1, k, tr =>
    match fns[k]? with
    | some b => execB G cfg none ⟨n, envAt G cfg fns n⟩ b tr
    | none => (.thr .internal, tr)

/-- a program: the named functions `g0, g1, …`, the top-level statements, and the value `$n` has at top level (the
top level is itself an activation: its calls pass `$n - 1`) -/
structure Prog where
  fns : List Block
  main : Block
  depth : Nat

/-- a program without named functions -/
def Prog.ofBlock (b : Block) : Prog := ⟨[], b, 0⟩

/-- the activation of function bodies / of the top level of `fns` at level `n` -/
def actAt (G : Graph) (cfg : Cfg) (fns : List Block) (n : Nat) : Act := ⟨n, envAt G cfg fns n⟩

/-! ### top level: `Program.GetValue` -/

/-- how a run ends, as `Program.GetValue` and the VM's handler distinguish it -/
inductive Final where
  | ok                       -- fell off the end
  | returned (v : Nat)       -- top-level `return`
  | uncaught (t : Thrown)    -- handed to `vm.ThrowControl`
  | stray                    -- a Break/Continue control reached the program node (handed to `vm.ThrowControl` too)
  | goPanic                  -- a Go panic left the interpreter
deriving DecidableEq, Repr

def final : Out → Final
  | .normal => .ok
  | .ret v => .returned v
  | .thr t => .uncaught t
  | .brk => .stray
  | .cont => .stray
  | .panic => .goPanic

def run (G : Graph) (cfg : Cfg) (p : Prog) : Final × List Ev :=
  let r := execB G cfg none (actAt G cfg p.fns p.depth) p.main []
  (final r.1, r.2)

/-! ### long-running loops: one iteration, repeated

The evaluator threads nothing but the trace through a loop: no counter, stack or cache of the interpreter is part of
the state. `repeatIter o ext k` is what `k` iterations do when *each* of them ends with outcome `o` after appending
`ext` — `ForStatement.GetValue` read with "every iteration is the first one". `Proofs.Properties.C05` proves that
`loopN` over any body *is* this (`C05_iteration_independence`), which is what the long-running correspondence runs
lean on: a real run whose n-th iteration departs from its first has state that survives an iteration. -/

def repeatIter (o : Out) (ext : List Ev) : Nat → List Ev → Res
  | 0, tr => (.normal, tr)
  | k+1, tr =>
    match o with
    | .normal => repeatIter o ext k (tr ++ ext)
    | .cont => repeatIter o ext k (tr ++ ext)
    | .brk => (.normal, tr ++ ext)
    | o => (o, tr ++ ext)

/-- how many iterations run when each ends with `o`, and how the loop ends then (closed form of `repeatIter`,
`Proofs.Exc.repeatIter_closed`) -/
def iterCount (o : Out) (k : Nat) : Nat :=
  match o with
  | .normal => k
  | .cont => k
  | _ => min k 1

def loopOutcome (o : Out) (k : Nat) : Out :=
  if k = 0 then .normal else
    match o with
    | .normal => .normal
    | .cont => .normal
    | .brk => .normal
    | o => o

/-- a program whose top level is one loop `for (…k times…) { body }`, evaluated by running the body once from the
empty trace and repeating what it did (linear in `k`; `run` threads the growing trace through every statement) -/
def runLoop (G : Graph) (cfg : Cfg) (fns : List Block) (body : Block) (k depth : Nat) : Final × List Ev :=
  let r := execB G cfg none (actAt G cfg fns depth) body []
  (final (loopOutcome r.1 k), (List.replicate (iterCount r.1 k) r.2).flatten)

/-! ### the value bound to the catch variable

`ctx.SetVariableValue(catchBlock.Variable, c)` stores the `*ThrowValue` control, not `c.Object`: the script sees a
wrapper that answers `get_class`, `getMessage`, `getLine`… for the object but is not the object (`$e === $o` is
false, `$e instanceof K` is false, user properties and methods are unreachable). -/
inductive Bound where
  | object (t : Thrown)
  | wrapper (t : Thrown)
deriving DecidableEq, Repr

def Bound.underlying : Bound → Thrown
  | .object t => t
  | .wrapper t => t

def boundValue (t : Thrown) : Bound := .wrapper t

end Model.Exc
