/-
C12 — implementation-shaped model of `runtime/vm.go` (`VM`, the shared base) and
`runtime/vm_temp.go` (`TempVM`, one per request) as far as class / interface /
function definitions and their lookup are concerned.

What is mirrored, method by method (Go name in backticks):
* base `AddClass/AddInterface/AddFunc` (duplicate test, same-file skip, cross test
  class-vs-interface), `GetClass` (exact, then case-insensitive scan), `GetInterface`,
  `GetFunc`, `LoadAndRun`, `ParseFile`, `GetOrLoadClass`, `GetOrLoadInterface`, `LoadPkg`;
* temp `AddX` (unconditional write of the local map), `GetClass`/`GetInterface`
  (base first, then local), `GetFunc` (local first, then base), `LoadAndRun`
  (shared file cache, `PrepareParse` binds a parser clone to the TempVM, parse and run
  on the TempVM), `ParseFile` (own parser, after fixes/C12-parsefile-tempvm.patch),
  `GetOrLoadClass` (uses `vm.parser`: nil until `PrepareParse` ran → crash),
  `GetOrLoadInterface` (local, then *the base's* `GetOrLoadInterface`), `LoadPkg`
  (local, then *the base's* `LoadPkg`, then own parser);
* `parser.DefaultClassPathManager.LoadClass` (file lookup, cache short-cut, load on
  the parser's VM, re-check), with the file lookup itself (`FindClassFile`) an
  environment function `Disk.find`;
* a file = list of declarations; classes/interfaces register while parsing (parser
  bound to a VM), functions register while the program runs (context bound to a VM);
  a registration error while parsing aborts the load, one while running is handed to
  `ThrowControl` and stops the program.

* the routes by which *script code* running on a VM defines things (every one executes
  through `LoadAndRun` of a script file, i.e. binds the TempVM's parser first): `eval()`
  (`std/php/eval.go` → `VM.EvalCode`: parser clone of the base, run in the caller's context;
  refused on a TempVM), `include` / `require` (`node.IncludeCore`: cache test, existence
  test, `LoadAndRun` on the context's VM), a function statement executed at run time
  (nested / conditional declaration: `ctx.GetVM().AddFunc`), `spl_autoload_register`
  (process-wide callback list, consulted by `LoadClass` when the class path has no file;
  the callback runs on the *loading* VM), a class needed by a script (`new`, `extends`,
  `use` of a trait, static call: `GetOrLoadClass` of the VM the code is parsed / run on),
  `define()` (constants are shared by design), `class_alias` (declares nothing on the pinned
  tree), and the routes that define nothing at all (anonymous classes, closures).

Environment / not modelled: file contents and class-path lookup (`Disk`), Unicode
case folding (`Disk.fold`), the bodies of the autoload callbacks (`Disk.cbs`: which file a
callback includes for which name; every callback ends in `return false`), `extends` /
`implements` of the loaded classes (files declare plain classes), names are non-empty
and do not start with a backslash, `data.CompileMode = false`.
-/
namespace Model.Temp

abbrev Name := Nat
abbrev File := Nat

/-- identity of a definition: a statement object handed to `AddX` by the host, or the
declaration found in a file. -/
inductive Src where
  | stub (k : Nat)
  | file (f : File)
deriving DecidableEq, Repr

inductive Kind where
  | cls | ifc | fn
deriving DecidableEq, Repr

structure Decl where
  kind : Kind
  name : Name
deriving DecidableEq, Repr

/-- the environment: file system and class path. -/
structure Disk where
  /-- declarations of a file in source order; `none` = unreadable -/
  content : File → Option (List Decl)
  /-- `ClassPathManager.FindClassFile` -/
  find : Name → Option File
  /-- canonical representative under `strings.EqualFold` -/
  fold : Name → Name
  /-- the autoload callbacks a script can hand to `spl_autoload_register`: callback `cb`
  is `function($c) { if ($c === n) include <(cbs[cb]) n>; …; return false; }` -/
  cbs : List (Name → Option File) := []

/-- a Go `map[string]Stmt`: newest binding first, lookup returns the newest. -/
abbrev Tbl := List (Name × Src)

/-- `for k, v := range m { if strings.EqualFold(k, name) { return v } }` -/
def Tbl.foldFind (fold : Name → Name) (t : Tbl) (n : Name) : Option Src :=
  (t.find? (fun e => fold e.1 == fold n)).map (·.2)

structure Base where
  classes : Tbl := []
  ifaces : Tbl := []
  funcs : Tbl := []
  /-- `phpFileCache` -/
  cache : List File := []
  /-- number of controls handed to `ThrowControl` (shared by design) -/
  thrown : Nat := 0
  /-- `parser.autoload`: the registered autoload callbacks, in registration order
  (a package-level list: shared by the base, every TempVM and every later request) -/
  autoload : List Nat := []
  /-- constants (`define`): shared by design -/
  consts : List Name := []
deriving Repr

structure Temp where
  classes : Tbl := []
  ifaces : Tbl := []
  funcs : Tbl := []
  /-- `vm.parser != nil` -/
  parser : Bool := false
deriving Repr, DecidableEq

structure World where
  base : Base := {}
  temps : Nat → Temp := fun _ => {}

inductive VMId where
  | base
  | temp (i : Nat)
deriving DecidableEq, Repr

inductive Res where
  | ok (s : Option Src)
  | err
  | crash
deriving DecidableEq, Repr

def World.setTemp (w : World) (i : Nat) (t : Temp) : World :=
  { w with temps := fun j => if j = i then t else w.temps j }

def World.setBase (w : World) (b : Base) : World := { w with base := b }

/-! ### base VM (`runtime/vm.go`) -/

/-- `utils.SamePhpFile(cFrom.GetSource(), hasFrom.GetSource())` with both `From` non-nil -/
def sameFile : Src → Src → Bool
  | .file a, .file b => a == b
  | _, _ => false

/-- `findClassCaseInsensitive` -/
def Base.getClass (fold : Name → Name) (b : Base) (n : Name) : Option Src :=
  match b.classes.lookup n with
  | some s => some s
  | none => b.classes.foldFind fold n

def Base.getInterface (b : Base) (n : Name) : Option Src := b.ifaces.lookup n

def Base.getFunc (b : Base) (n : Name) : Option Src := b.funcs.lookup n

/-- `VM.AddClass`: `true` = no error -/
def Base.addClass (b : Base) (n : Name) (s : Src) : Base × Bool :=
  match b.classes.lookup n with
  | some h => (b, sameFile s h)
  | none =>
    match b.ifaces.lookup n with
    | some h => (b, sameFile s h)
    | none => ({ b with classes := (n, s) :: b.classes }, true)

/-- `VM.AddInterface` -/
def Base.addInterface (b : Base) (n : Name) (s : Src) : Base × Bool :=
  match b.classes.lookup n with
  | some h => (b, sameFile s h)
  | none =>
    match b.ifaces.lookup n with
    | some h => (b, sameFile s h)
    | none => ({ b with ifaces := (n, s) :: b.ifaces }, true)

/-- `VM.AddFunc` -/
def Base.addFunc (b : Base) (n : Name) (s : Src) : Base × Bool :=
  match b.funcs.lookup n with
  | some _ => (b, false)
  | none => ({ b with funcs := (n, s) :: b.funcs }, true)

def Base.add (b : Base) : Kind → Name → Src → Base × Bool
  | .cls => b.addClass
  | .ifc => b.addInterface
  | .fn => b.addFunc

/-! ### temp VM (`runtime/vm_temp.go`) -/

/-- `TempVM.AddClass/AddInterface/AddFunc`: `vm.addedX[name] = x` -/
def Temp.add (t : Temp) : Kind → Name → Src → Temp
  | .cls, n, s => { t with classes := (n, s) :: t.classes }
  | .ifc, n, s => { t with ifaces := (n, s) :: t.ifaces }
  | .fn, n, s => { t with funcs := (n, s) :: t.funcs }

/-! ### lookups through either VM -/

def getClass (d : Disk) (w : World) : VMId → Name → Option Src
  | .base, n => w.base.getClass d.fold n
  | .temp i, n =>
    match w.base.getClass d.fold n with
    | some s => some s
    | none => (w.temps i).classes.lookup n

def getInterface (w : World) : VMId → Name → Option Src
  | .base, n => w.base.getInterface n
  | .temp i, n =>
    match w.base.getInterface n with
    | some s => some s
    | none => (w.temps i).ifaces.lookup n

def getFunc (w : World) : VMId → Name → Option Src
  | .base, n => w.base.getFunc n
  | .temp i, n =>
    match (w.temps i).funcs.lookup n with
    | some s => some s
    | none => w.base.getFunc n

/-- the resolve table of one VM: what `GetClass/GetInterface/GetFunc` answer. -/
def resolve (d : Disk) (w : World) (v : VMId) : Kind → Name → Option Src
  | .cls, n => getClass d w v n
  | .ifc, n => getInterface w v n
  | .fn, n => getFunc w v n

/-! ### registering through a VM (what `p.vm.AddX` / `ctx.GetVM().AddFunc` do) -/

def addDef (w : World) (v : VMId) (k : Kind) (n : Name) (s : Src) : World × Bool :=
  match v with
  | .base => let r := w.base.add k n s; (w.setBase r.1, r.2)
  | .temp i => (w.setTemp i ((w.temps i).add k n s), true)

/-- parsing a file with the parser bound to `v`: classes and interfaces register in
source order; the first error aborts (earlier registrations stay). -/
def parsePhase (v : VMId) (s : Src) : World → List Decl → World × Bool
  | w, [] => (w, true)
  | w, dc :: ds =>
    if dc.kind = .fn then parsePhase v s w ds
    else
      let r := addDef w v dc.kind dc.name s
      if r.2 then parsePhase v s r.1 ds else (r.1, false)

def throwControl (w : World) : World := w.setBase { w.base with thrown := w.base.thrown + 1 }

/-- running the program on a context bound to `v`: function statements register in
order; the first error goes to `ThrowControl` and stops the program. -/
def runPhase (v : VMId) (s : Src) : World → List Decl → World
  | w, [] => w
  | w, dc :: ds =>
    if dc.kind = .fn then
      let r := addDef w v .fn dc.name s
      if r.2 then runPhase v s r.1 ds else throwControl r.1
    else runPhase v s w ds

/-- parse + run of one file on VM `v`; `false` = the call returns an error -/
def parseAndRun (d : Disk) (w : World) (v : VMId) (f : File) : World × Bool :=
  match d.content f with
  | none => (w, false)
  | some decls =>
    let r := parsePhase v (.file f) w decls
    if r.2 then (runPhase v (.file f) r.1 decls, true) else (r.1, false)

def cacheAdd (w : World) (f : File) : World := w.setBase { w.base with cache := f :: w.base.cache }

/-- `PrepareParse`: `vm.parser = clone bound to vm` -/
def bindParser (w : World) : VMId → World
  | .base => w
  | .temp i => w.setTemp i { w.temps i with parser := true }

/-- `VM.LoadAndRun` / `TempVM.LoadAndRun` -/
def loadAndRun (d : Disk) (w : World) (v : VMId) (f : File) : World × Bool :=
  if w.base.cache.contains f then (w, true)
  else parseAndRun d (bindParser (cacheAdd w f) v) v f

/-- `VM.ParseFile`; `TempVM.ParseFile` with its own parser (fix C12-parsefile-tempvm) -/
def parseFile (d : Disk) (w : World) (v : VMId) (f : File) : World × Bool :=
  parseAndRun d (bindParser w v) v f

/-- `node.IncludeCore` reached from code running on `v`: `some true` = nothing more to do /
loaded, `some false` = the load raised, `none` = no such file (nothing happens, not even
the cache entry). -/
def includeFile (d : Disk) (w : World) (v : VMId) (f : File) : World × Option Bool :=
  if w.base.cache.contains f then (w, some true)
  else
    match d.content f with
    | none => (w, none)
    | some _ => let r := loadAndRun d w v f; (r.1, some r.2)

/-- the file callback `cb` includes when asked for `n` -/
def cbFile (d : Disk) (cb : Nat) (n : Name) : Option File :=
  match d.cbs[cb]? with
  | some a => a n
  | none => none

/-- one callback, called on VM `v` for `n` -/
def runCallback (d : Disk) (w : World) (v : VMId) (cb : Nat) (n : Name) : World × Option Bool :=
  match cbFile d cb n with
  | some f => includeFile d w v f
  | none => (w, some true)

/-- `parser.CallAutoLoad(name, parser.vm.CreateContext(nil))`: the callbacks run, in
registration order, on the VM that is loading; after each one the VM is asked for the class /
interface. `some true` = defined now, `some false` = nobody defined it, `none` = a callback
raised (the error of an included file that failed to load). -/
def callAutoLoad (d : Disk) (v : VMId) (n : Name) : World → List Nat → World × Option Bool
  | w, [] => (w, some false)
  | w, cb :: cbs =>
    let r := runCallback d w v cb n
    if r.2 = some false then (r.1, none)
    else if (getClass d r.1 v n).isSome || (getInterface r.1 v n).isSome then (r.1, some true)
    else callAutoLoad d v n r.1 cbs

/-- `DefaultClassPathManager.LoadClass(name, parser)` with `parser.vm = v` -/
def loadClass (d : Disk) (w : World) (v : VMId) (n : Name) : World × Bool :=
  match d.find n with
  | none =>
    let r := callAutoLoad d v n w w.base.autoload
    (r.1, r.2 == some true)
  | some f =>
    if w.base.cache.contains f && ((getClass d w v n).isSome || (getInterface w v n).isSome) then (w, true)
    else
      let r := loadAndRun d w v f
      if r.2 then (r.1, (getClass d r.1 v n).isSome || (getInterface r.1 v n).isSome) else (r.1, false)

def resOf : Option Src → Res
  | some s => .ok (some s)
  | none => .err

/-- `VM.GetOrLoadClass` -/
def baseGetOrLoadClass (d : Disk) (w : World) (n : Name) : World × Res :=
  match w.base.getClass d.fold n with
  | some s => (w, .ok (some s))
  | none =>
    let r := loadClass d w .base n
    if r.2 then (r.1, resOf (r.1.base.getClass d.fold n)) else (r.1, .err)

/-- `VM.GetOrLoadInterface` -/
def baseGetOrLoadInterface (d : Disk) (w : World) (n : Name) : World × Res :=
  match w.base.getInterface n with
  | some s => (w, .ok (some s))
  | none =>
    let r := loadClass d w .base n
    if r.2 then (r.1, resOf (r.1.base.getInterface n)) else (r.1, .err)

/-- exact lookup in both maps of the base (`LoadPkg` does not fold) -/
def Base.pkg (b : Base) (n : Name) : Option Src :=
  match b.classes.lookup n with
  | some s => some s
  | none => b.ifaces.lookup n

/-- `VM.LoadPkg` (`ok none` = `nil, nil`) -/
def baseLoadPkg (d : Disk) (w : World) (n : Name) : World × Res :=
  match w.base.pkg n with
  | some s => (w, .ok (some s))
  | none =>
    let r := loadClass d w .base n
    if r.2 then (r.1, .ok (r.1.base.pkg n)) else (r.1, .err)

def Temp.pkg (t : Temp) (n : Name) : Option Src :=
  match t.classes.lookup n with
  | some s => some s
  | none => t.ifaces.lookup n

/-- `TempVM.GetOrLoadClass` -/
def tempGetOrLoadClass (d : Disk) (w : World) (i : Nat) (n : Name) : World × Res :=
  match w.base.getClass d.fold n with
  | some s => (w, .ok (some s))
  | none =>
    match (w.temps i).classes.lookup n with
    | some s => (w, .ok (some s))
    | none =>
      if !(w.temps i).parser then (w, .crash)
      else
        let r := loadClass d w (.temp i) n
        if r.2 then (r.1, resOf ((r.1.temps i).classes.lookup n)) else (r.1, .err)

/-- `TempVM.GetOrLoadInterface`: local map, then the **base's** `GetOrLoadInterface`
(which autoloads with the base's parser). -/
def tempGetOrLoadInterface (d : Disk) (w : World) (i : Nat) (n : Name) : World × Res :=
  match (w.temps i).ifaces.lookup n with
  | some s => (w, .ok (some s))
  | none => baseGetOrLoadInterface d w n

/-- `TempVM.LoadPkg`: local maps, then the **base's** `LoadPkg`, then own parser. -/
def tempLoadPkg (d : Disk) (w : World) (i : Nat) (n : Name) : World × Res :=
  match (w.temps i).pkg n with
  | some s => (w, .ok (some s))
  | none =>
    let r := baseLoadPkg d w n
    match r.2 with
    | .ok none =>
      if !(r.1.temps i).parser then (r.1, .crash)
      else
        match d.find n with
        | none => (r.1, .ok none)
        | some _ =>
          let r2 := loadClass d r.1 (.temp i) n
          if r2.2 then (r2.1, .ok ((r2.1.temps i).pkg n)) else (r2.1, .err)
    | _ => r

/-! ### definition routes of script code running on a VM

Every one of these is a script file run through `LoadAndRun` of the VM (`PrepareParse` binds
the TempVM's parser first); an uncaught error ends the script through `ThrowControl`. -/

/-- `eval('<the declarations of unit u>')`. `EvalFunction.Call` asks for a `*runtime.VM`:
on a TempVM it raises and nothing is parsed. On the base: `VM.EvalCode` parses with a clone
of the base's parser (classes / interfaces register; the first error is raised to the
caller) and runs the program in the caller's context. -/
def scriptEval (d : Disk) (w : World) (v : VMId) (u : File) (id : Nat) : World :=
  let w := bindParser w v
  match v with
  | .temp _ => throwControl w
  | .base =>
    match d.content u with
    | none => w
    | some decls =>
      let r := parsePhase .base (.stub id) w decls
      if r.2 then runPhase .base (.stub id) r.1 decls else throwControl r.1

/-- `include f` / `require f` (also `_once`, relative or absolute path) -/
def scriptInclude (d : Disk) (w : World) (v : VMId) (f : File) (req : Bool) : World :=
  let r := includeFile d (bindParser w v) v f
  match r.2 with
  | some true => r.1
  | some false => throwControl r.1
  | none => if req then throwControl r.1 else r.1

/-- a function statement executed at run time (`function o() { function n() {} } o();`,
`if (…) { function n() {} }`): `ctx.GetVM().AddFunc` -/
def scriptRunFn (w : World) (v : VMId) (n : Name) (id : Nat) : World :=
  let r := addDef (bindParser w v) v .fn n (.stub id)
  if r.2 then r.1 else throwControl r.1

/-- `spl_autoload_register(callback cb)` -/
def scriptAutoReg (w : World) (v : VMId) (cb : Nat) : World :=
  let w := bindParser w v
  w.setBase { w.base with autoload := w.base.autoload ++ [cb] }

/-- `VM.GetOrLoadClass` / `TempVM.GetOrLoadClass` -/
def getOrLoadClassOn (d : Disk) (w : World) : VMId → Name → World × Res
  | .base, n => baseGetOrLoadClass d w n
  | .temp i, n => tempGetOrLoadClass d w i n

/-- the script needs class `n`: at parse time (`class Z extends n {}`, `class Z { use n; }`:
an error makes `LoadAndRun` fail) or at run time (`new n`, `n::f()`: an error ends the script
through `ThrowControl`). -/
def scriptUse (d : Disk) (w : World) (v : VMId) (n : Name) (parseTime : Bool) : World × Res :=
  let r := getOrLoadClassOn d (bindParser w v) v n
  match r.2 with
  | .ok _ => (r.1, .ok none)
  | _ => if parseTime then (r.1, .err) else (throwControl r.1, .ok none)

/-- `define('c', …)`: `SetConstant` of the base (constants are shared by design) -/
def scriptDefine (w : World) (v : VMId) (c : Name) : World :=
  let w := bindParser w v
  if w.base.consts.contains c then throwControl w
  else w.setBase { w.base with consts := c :: w.base.consts }

/-- `class_alias(a, b)`: on the pinned tree it only answers whether the alias would be
acceptable (`a` is a class, `b` is free); it declares nothing. -/
def scriptAlias (d : Disk) (w : World) (v : VMId) (a b : Name) : World × Res :=
  let w := bindParser w v
  (w, if (getClass d w v a).isSome && (getClass d w v b).isNone && (getInterface w v b).isNone
      then .ok none else .err)

/-! ### operations of the exploration alphabet -/

inductive Op where
  | add (v : VMId) (k : Kind) (n : Name) (id : Nat)   -- AddClass/AddInterface/AddFunc of a host stub
  | loadAndRun (v : VMId) (f : File)
  | parseFile (v : VMId) (f : File)
  | getOrLoadClass (v : VMId) (n : Name)              -- `new X` / instantiate
  | getOrLoadInterface (v : VMId) (n : Name)
  | loadPkg (v : VMId) (n : Name)
  | discard (i : Nat)                                 -- the request ends: a fresh TempVM takes the slot
  -- definition routes of script code running on `v`
  | evalCode (v : VMId) (u : File) (id : Nat)         -- `eval()` of the declarations of unit `u`
  | incl (v : VMId) (f : File) (req : Bool)           -- `include` / `require`
  | runFn (v : VMId) (n : Name) (id : Nat)            -- function statement executed at run time
  | autoReg (v : VMId) (cb : Nat)                     -- `spl_autoload_register`
  | useClass (v : VMId) (n : Name) (parseTime : Bool) -- `new` / `extends` / trait `use` / static call
  | define (v : VMId) (c : Name)                      -- `define()`
  | alias (v : VMId) (a b : Name)                     -- `class_alias`
  | inert (v : VMId)                                  -- anonymous class, closure, `run_php_file` without compile mode
deriving DecidableEq, Repr

/-- the VM an operation is invoked on -/
def Op.via : Op → VMId
  | .add v _ _ _ | .loadAndRun v _ | .parseFile v _ | .getOrLoadClass v _
  | .getOrLoadInterface v _ | .loadPkg v _ => v
  | .discard i => .temp i
  | .evalCode v _ _ | .incl v _ _ | .runFn v _ _ | .autoReg v _ | .useClass v _ _
  | .define v _ | .alias v _ _ | .inert v => v

def okIf (r : World × Bool) : World × Res := (r.1, if r.2 then .ok none else .err)

def step (d : Disk) (w : World) : Op → World × Res
  | .add v k n id => okIf (addDef w v k n (.stub id))
  | .loadAndRun v f => okIf (loadAndRun d w v f)
  | .parseFile v f => okIf (parseFile d w v f)
  | .getOrLoadClass .base n => baseGetOrLoadClass d w n
  | .getOrLoadClass (.temp i) n => tempGetOrLoadClass d w i n
  | .getOrLoadInterface .base n => baseGetOrLoadInterface d w n
  | .getOrLoadInterface (.temp i) n => tempGetOrLoadInterface d w i n
  | .loadPkg .base n => baseLoadPkg d w n
  | .loadPkg (.temp i) n => tempLoadPkg d w i n
  | .discard i => (w.setTemp i {}, .ok none)
  | .evalCode v u id => (scriptEval d w v u id, .ok none)
  | .incl v f req => (scriptInclude d w v f req, .ok none)
  | .runFn v n id => (scriptRunFn w v n id, .ok none)
  | .autoReg v cb => (scriptAutoReg w v cb, .ok none)
  | .useClass v n pt => scriptUse d w v n pt
  | .define v c => (scriptDefine w v c, .ok none)
  | .alias v a b => scriptAlias d w v a b
  | .inert v => (bindParser w v, .ok none)

def run (d : Disk) (ops : List Op) : World := ops.foldl (fun w op => (step d w op).1) {}

/-- the base's autoloader has something to try for `n`: a class-path file or a registered callback -/
def canAutoload (d : Disk) (w : World) (n : Name) : Bool :=
  (d.find n).isSome || !w.base.autoload.isEmpty

/-- The two routes of the pinned tree on which a TempVM reaches the base's autoloader
(known finding C12-temp-autoload-through-base): the operation is invoked on a TempVM,
neither the TempVM nor the base has the name, and the base's autoloader has something to
try (a class-path file, or any registered autoload callback). -/
def leaky (d : Disk) (w : World) : Op → Bool
  | .getOrLoadInterface (.temp i) n =>
    ((w.temps i).ifaces.lookup n).isNone && (w.base.getInterface n).isNone && canAutoload d w n
  | .loadPkg (.temp i) n =>
    ((w.temps i).pkg n).isNone && (w.base.pkg n).isNone && canAutoload d w n
  | _ => false

end Model.Temp
