/-
C12 — implementation-shaped model of `runtime/vm.go` (`VM`, the shared base) and
`runtime/vm_temp.go` (`TempVM`, one per request) as far as class / interface /
function definitions and their lookup are concerned.

What is mirrored, method by method (Go name in backticks):
* base `AddClass/AddInterface/AddFunc` (duplicate test, same-file skip, cross test
  class-vs-interface), `GetClass` (exact, then case-insensitive scan), `GetInterface`,
  `GetFunc`, `LoadAndRun`, `ParseFile`, `GetOrLoadClass`, `GetOrLoadInterface`, `LoadPkg`;
* temp `AddX` (unconditional write of the local map), `GetClass`/`GetInterface`
  (base first, then local), `GetFunc` (local first, then base), `LoadAndRun`
  (shared file cache, `PrepareParse` binds a parser clone to the TempVM, parse and run
  on the TempVM), `ParseFile` (own parser, after fixes/C12-parsefile-tempvm.patch),
  `GetOrLoadClass` (uses `vm.parser`: nil until `PrepareParse` ran → crash),
  `GetOrLoadInterface` (local, then *the base's* `GetOrLoadInterface`), `LoadPkg`
  (local, then *the base's* `LoadPkg`, then own parser);
* `parser.DefaultClassPathManager.LoadClass` (file lookup, cache short-cut, load on
  the parser's VM, re-check), with the file lookup itself (`FindClassFile`) an
  environment function `Disk.find`;
* a file = list of declarations; classes/interfaces register while parsing (parser
  bound to a VM), functions register while the program runs (context bound to a VM);
  a registration error while parsing aborts the load, one while running is handed to
  `ThrowControl` and stops the program.

Environment / not modelled: file contents and class-path lookup (`Disk`), Unicode
case folding (`Disk.fold`), `spl_autoload` callbacks (assumed none), `extends` /
`implements` of the loaded classes (files declare plain classes), names are non-empty
and do not start with a backslash, `data.CompileMode = false`.
-/
namespace Model.Temp

abbrev Name := Nat
abbrev File := Nat

/-- identity of a definition: a statement object handed to `AddX` by the host, or the
declaration found in a file. -/
inductive Src where
  | stub (k : Nat)
  | file (f : File)
deriving DecidableEq, Repr

inductive Kind where
  | cls | ifc | fn
deriving DecidableEq, Repr

structure Decl where
  kind : Kind
  name : Name
deriving DecidableEq, Repr

/-- the environment: file system and class path. -/
structure Disk where
  /-- declarations of a file in source order; `none` = unreadable -/
  content : File → Option (List Decl)
  /-- `ClassPathManager.FindClassFile` -/
  find : Name → Option File
  /-- canonical representative under `strings.EqualFold` -/
  fold : Name → Name

/-- a Go `map[string]Stmt`: newest binding first, lookup returns the newest. -/
abbrev Tbl := List (Name × Src)

/-- `for k, v := range m { if strings.EqualFold(k, name) { return v } }` -/
def Tbl.foldFind (fold : Name → Name) (t : Tbl) (n : Name) : Option Src :=
  (t.find? (fun e => fold e.1 == fold n)).map (·.2)

structure Base where
  classes : Tbl := []
  ifaces : Tbl := []
  funcs : Tbl := []
  /-- `phpFileCache` -/
  cache : List File := []
  /-- number of controls handed to `ThrowControl` (shared by design) -/
  thrown : Nat := 0
deriving Repr

structure Temp where
  classes : Tbl := []
  ifaces : Tbl := []
  funcs : Tbl := []
  /-- `vm.parser != nil` -/
  parser : Bool := false
deriving Repr, DecidableEq

structure World where
  base : Base := {}
  temps : Nat → Temp := fun _ => {}

inductive VMId where
  | base
  | temp (i : Nat)
deriving DecidableEq, Repr

inductive Res where
  | ok (s : Option Src)
  | err
  | crash
deriving DecidableEq, Repr

def World.setTemp (w : World) (i : Nat) (t : Temp) : World :=
  { w with temps := fun j => if j = i then t else w.temps j }

def World.setBase (w : World) (b : Base) : World := { w with base := b }

/-! ### base VM (`runtime/vm.go`) -/

/-- `utils.SamePhpFile(cFrom.GetSource(), hasFrom.GetSource())` with both `From` non-nil -/
def sameFile : Src → Src → Bool
  | .file a, .file b => a == b
  | _, _ => false

/-- `findClassCaseInsensitive` -/
def Base.getClass (fold : Name → Name) (b : Base) (n : Name) : Option Src :=
  match b.classes.lookup n with
  | some s => some s
  | none => b.classes.foldFind fold n

def Base.getInterface (b : Base) (n : Name) : Option Src := b.ifaces.lookup n

def Base.getFunc (b : Base) (n : Name) : Option Src := b.funcs.lookup n

/-- `VM.AddClass`: `true` = no error -/
def Base.addClass (b : Base) (n : Name) (s : Src) : Base × Bool :=
  match b.classes.lookup n with
  | some h => (b, sameFile s h)
  | none =>
    match b.ifaces.lookup n with
    | some h => (b, sameFile s h)
    | none => ({ b with classes := (n, s) :: b.classes }, true)

/-- `VM.AddInterface` -/
def Base.addInterface (b : Base) (n : Name) (s : Src) : Base × Bool :=
  match b.classes.lookup n with
  | some h => (b, sameFile s h)
  | none =>
    match b.ifaces.lookup n with
    | some h => (b, sameFile s h)
    | none => ({ b with ifaces := (n, s) :: b.ifaces }, true)

/-- `VM.AddFunc` -/
def Base.addFunc (b : Base) (n : Name) (s : Src) : Base × Bool :=
  match b.funcs.lookup n with
  | some _ => (b, false)
  | none => ({ b with funcs := (n, s) :: b.funcs }, true)

def Base.add (b : Base) : Kind → Name → Src → Base × Bool
  | .cls => b.addClass
  | .ifc => b.addInterface
  | .fn => b.addFunc

/-! ### temp VM (`runtime/vm_temp.go`) -/

/-- `TempVM.AddClass/AddInterface/AddFunc`: `vm.addedX[name] = x` -/
def Temp.add (t : Temp) : Kind → Name → Src → Temp
  | .cls, n, s => { t with classes := (n, s) :: t.classes }
  | .ifc, n, s => { t with ifaces := (n, s) :: t.ifaces }
  | .fn, n, s => { t with funcs := (n, s) :: t.funcs }

/-! ### lookups through either VM -/

def getClass (d : Disk) (w : World) : VMId → Name → Option Src
  | .base, n => w.base.getClass d.fold n
  | .temp i, n =>
    match w.base.getClass d.fold n with
    | some s => some s
    | none => (w.temps i).classes.lookup n

def getInterface (w : World) : VMId → Name → Option Src
  | .base, n => w.base.getInterface n
  | .temp i, n =>
    match w.base.getInterface n with
    | some s => some s
    | none => (w.temps i).ifaces.lookup n

def getFunc (w : World) : VMId → Name → Option Src
  | .base, n => w.base.getFunc n
  | .temp i, n =>
    match (w.temps i).funcs.lookup n with
    | some s => some s
    | none => w.base.getFunc n

/-- the resolve table of one VM: what `GetClass/GetInterface/GetFunc` answer. -/
def resolve (d : Disk) (w : World) (v : VMId) : Kind → Name → Option Src
  | .cls, n => getClass d w v n
  | .ifc, n => getInterface w v n
  | .fn, n => getFunc w v n

/-! ### registering through a VM (what `p.vm.AddX` / `ctx.GetVM().AddFunc` do) -/

def addDef (w : World) (v : VMId) (k : Kind) (n : Name) (s : Src) : World × Bool :=
  match v with
  | .base => let r := w.base.add k n s; (w.setBase r.1, r.2)
  | .temp i => (w.setTemp i ((w.temps i).add k n s), true)

/-- parsing a file with the parser bound to `v`: classes and interfaces register in
source order; the first error aborts (earlier registrations stay). -/
def parsePhase (v : VMId) (s : Src) : World → List Decl → World × Bool
  | w, [] => (w, true)
  | w, dc :: ds =>
    if dc.kind = .fn then parsePhase v s w ds
    else
      let r := addDef w v dc.kind dc.name s
      if r.2 then parsePhase v s r.1 ds else (r.1, false)

def throwControl (w : World) : World := w.setBase { w.base with thrown := w.base.thrown + 1 }

/-- running the program on a context bound to `v`: function statements register in
order; the first error goes to `ThrowControl` and stops the program. -/
def runPhase (v : VMId) (s : Src) : World → List Decl → World
  | w, [] => w
  | w, dc :: ds =>
    if dc.kind = .fn then
      let r := addDef w v .fn dc.name s
      if r.2 then runPhase v s r.1 ds else throwControl r.1
    else runPhase v s w ds

/-- parse + run of one file on VM `v`; `false` = the call returns an error -/
def parseAndRun (d : Disk) (w : World) (v : VMId) (f : File) : World × Bool :=
  match d.content f with
  | none => (w, false)
  | some decls =>
    let r := parsePhase v (.file f) w decls
    if r.2 then (runPhase v (.file f) r.1 decls, true) else (r.1, false)

def cacheAdd (w : World) (f : File) : World := w.setBase { w.base with cache := f :: w.base.cache }

/-- `PrepareParse`: `vm.parser = clone bound to vm` -/
def bindParser (w : World) : VMId → World
  | .base => w
  | .temp i => w.setTemp i { w.temps i with parser := true }

/-- `VM.LoadAndRun` / `TempVM.LoadAndRun` -/
def loadAndRun (d : Disk) (w : World) (v : VMId) (f : File) : World × Bool :=
  if w.base.cache.contains f then (w, true)
  else parseAndRun d (bindParser (cacheAdd w f) v) v f

/-- `VM.ParseFile`; `TempVM.ParseFile` with its own parser (fix C12-parsefile-tempvm) -/
def parseFile (d : Disk) (w : World) (v : VMId) (f : File) : World × Bool :=
  parseAndRun d (bindParser w v) v f

/-- `DefaultClassPathManager.LoadClass(name, parser)` with `parser.vm = v` -/
def loadClass (d : Disk) (w : World) (v : VMId) (n : Name) : World × Bool :=
  match d.find n with
  | none => (w, false)
  | some f =>
    if w.base.cache.contains f && ((getClass d w v n).isSome || (getInterface w v n).isSome) then (w, true)
    else
      let r := loadAndRun d w v f
      if r.2 then (r.1, (getClass d r.1 v n).isSome || (getInterface r.1 v n).isSome) else (r.1, false)

def resOf : Option Src → Res
  | some s => .ok (some s)
  | none => .err

/-- `VM.GetOrLoadClass` -/
def baseGetOrLoadClass (d : Disk) (w : World) (n : Name) : World × Res :=
  match w.base.getClass d.fold n with
  | some s => (w, .ok (some s))
  | none =>
    let r := loadClass d w .base n
    if r.2 then (r.1, resOf (r.1.base.getClass d.fold n)) else (r.1, .err)

/-- `VM.GetOrLoadInterface` -/
def baseGetOrLoadInterface (d : Disk) (w : World) (n : Name) : World × Res :=
  match w.base.getInterface n with
  | some s => (w, .ok (some s))
  | none =>
    let r := loadClass d w .base n
    if r.2 then (r.1, resOf (r.1.base.getInterface n)) else (r.1, .err)

/-- exact lookup in both maps of the base (`LoadPkg` does not fold) -/
def Base.pkg (b : Base) (n : Name) : Option Src :=
  match b.classes.lookup n with
  | some s => some s
  | none => b.ifaces.lookup n

/-- `VM.LoadPkg` (`ok none` = `nil, nil`) -/
def baseLoadPkg (d : Disk) (w : World) (n : Name) : World × Res :=
  match w.base.pkg n with
  | some s => (w, .ok (some s))
  | none =>
    let r := loadClass d w .base n
    if r.2 then (r.1, .ok (r.1.base.pkg n)) else (r.1, .err)

def Temp.pkg (t : Temp) (n : Name) : Option Src :=
  match t.classes.lookup n with
  | some s => some s
  | none => t.ifaces.lookup n

/-- `TempVM.GetOrLoadClass` -/
def tempGetOrLoadClass (d : Disk) (w : World) (i : Nat) (n : Name) : World × Res :=
  match w.base.getClass d.fold n with
  | some s => (w, .ok (some s))
  | none =>
    match (w.temps i).classes.lookup n with
    | some s => (w, .ok (some s))
    | none =>
      if !(w.temps i).parser then (w, .crash)
      else
        let r := loadClass d w (.temp i) n
        if r.2 then (r.1, resOf ((r.1.temps i).classes.lookup n)) else (r.1, .err)

/-- `TempVM.GetOrLoadInterface`: local map, then the **base's** `GetOrLoadInterface`
(which autoloads with the base's parser). -/
def tempGetOrLoadInterface (d : Disk) (w : World) (i : Nat) (n : Name) : World × Res :=
  match (w.temps i).ifaces.lookup n with
  | some s => (w, .ok (some s))
  | none => baseGetOrLoadInterface d w n

/-- `TempVM.LoadPkg`: local maps, then the **base's** `LoadPkg`, then own parser. -/
def tempLoadPkg (d : Disk) (w : World) (i : Nat) (n : Name) : World × Res :=
  match (w.temps i).pkg n with
  | some s => (w, .ok (some s))
  | none =>
    let r := baseLoadPkg d w n
    match r.2 with
    | .ok none =>
      if !(r.1.temps i).parser then (r.1, .crash)
      else
        match d.find n with
        | none => (r.1, .ok none)
        | some _ =>
          let r2 := loadClass d r.1 (.temp i) n
          if r2.2 then (r2.1, .ok ((r2.1.temps i).pkg n)) else (r2.1, .err)
    | _ => r

/-! ### operations of the exploration alphabet -/

inductive Op where
  | add (v : VMId) (k : Kind) (n : Name) (id : Nat)   -- AddClass/AddInterface/AddFunc of a host stub
  | loadAndRun (v : VMId) (f : File)
  | parseFile (v : VMId) (f : File)
  | getOrLoadClass (v : VMId) (n : Name)              -- `new X` / instantiate
  | getOrLoadInterface (v : VMId) (n : Name)
  | loadPkg (v : VMId) (n : Name)
  | discard (i : Nat)                                 -- the request ends: a fresh TempVM takes the slot
deriving DecidableEq, Repr

/-- the VM an operation is invoked on -/
def Op.via : Op → VMId
  | .add v _ _ _ | .loadAndRun v _ | .parseFile v _ | .getOrLoadClass v _
  | .getOrLoadInterface v _ | .loadPkg v _ => v
  | .discard i => .temp i

def okIf (r : World × Bool) : World × Res := (r.1, if r.2 then .ok none else .err)

def step (d : Disk) (w : World) : Op → World × Res
  | .add v k n id => okIf (addDef w v k n (.stub id))
  | .loadAndRun v f => okIf (loadAndRun d w v f)
  | .parseFile v f => okIf (parseFile d w v f)
  | .getOrLoadClass .base n => baseGetOrLoadClass d w n
  | .getOrLoadClass (.temp i) n => tempGetOrLoadClass d w i n
  | .getOrLoadInterface .base n => baseGetOrLoadInterface d w n
  | .getOrLoadInterface (.temp i) n => tempGetOrLoadInterface d w i n
  | .loadPkg .base n => baseLoadPkg d w n
  | .loadPkg (.temp i) n => tempLoadPkg d w i n
  | .discard i => (w.setTemp i {}, .ok none)

def run (d : Disk) (ops : List Op) : World := ops.foldl (fun w op => (step d w op).1) {}

/-- The two routes of the pinned tree on which a TempVM reaches the base's autoloader
(known finding C12-temp-autoload-through-base): the operation is invoked on a TempVM,
neither the TempVM nor the base has the name, and the class path knows a file for it. -/
def leaky (d : Disk) (w : World) : Op → Bool
  | .getOrLoadInterface (.temp i) n =>
    ((w.temps i).ifaces.lookup n).isNone && (w.base.getInterface n).isNone && (d.find n).isSome
  | .loadPkg (.temp i) n =>
    ((w.temps i).pkg n).isNone && (w.base.pkg n).isNone && (d.find n).isSome
  | _ => false

end Model.Temp
