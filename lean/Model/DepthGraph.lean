import Model.Wire
/-!
# Model.DepthGraph — the call graph of a recursive decoder with its depth counter (C14, regenerated facts)

What `extract/c14` reads off a group of mutually recursive functions that carry a depth counter
(`std/protowire/parser.go`: `parseFields`, `consumeFieldValue`, `consumeGroup`):

* per function, the test it makes of its depth at its entry (`if depth >= opts.MaxDepth { return …, ErrMaxDepth }` → `ge`)
  and the expression it compares with;
* per recursive call site, the value handed to the callee's depth parameter (`depth` → `plus 0`,
  `depth+1` → `plus 1`, a literal → `const`, anything else → `unknown`) and a test of that value in the
  caller just before the call, if there is one;
* the calls that enter the group from outside with their literal start depth, and the default the
  entering function gives the limit (`if opts.MaxDepth <= 0 { opts.MaxDepth = 64 }`).

Functions are numbers (the order in which they are reached from the entry); names are for the reader.

Meaning: a *stack* of frames `(function, depth)`, innermost first, built by entering the group and then
following call sites; a frame may be entered only if the site test and the callee's entry test let its
depth through (`Stack`). `WF` is the decidable discipline under which the length of every stack is bounded by
a function of the limit alone (`Proofs.DepthGraph.stack_bounded`): every call hands on `depth + literal`, no
cycle of calls keeps the depth unchanged, every cycle passes a limit test.

`FitsVia` reads a three-function graph (0 = field list of a message, 1 = one field value, 2 = field list of a
group) as a depth budget on field trees; for the graph the hand-written model embodies (`wireGraph`) it is
`Spec.Wire.Fits` (`Proofs.DepthGraph.fitsVia_wire`).
-/
namespace Model.DepthGraph

/-- the comparison of an entry test, depth on the left, refusing when it holds -/
inductive Cmp where
  | ge      -- `depth >= limit`
  | gt      -- `depth > limit`
  | other   -- any other comparison (`==`, `<`, …): refuses nothing one can rely on
  deriving DecidableEq, Repr

/-- the depth argument of a call site, relative to the caller's own depth -/
inductive Arg where
  | plus (k : Nat)
  | const (k : Nat)
  | unknown
  deriving DecidableEq, Repr

structure Fn where
  name : String
  guard : Option Cmp
  limit : String
  deriving DecidableEq, Repr

structure Edge where
  src : Nat
  dst : Nat
  arg : Arg
  site : Option Cmp
  deriving DecidableEq, Repr

structure Entry where
  caller : String
  dst : Nat
  arg : Arg
  deriving DecidableEq, Repr

/-- `if L cmp bound { L = value }` in an entering function -/
structure Default where
  fn : String
  cmp : String
  bound : Int
  value : Nat
  deriving DecidableEq, Repr

structure Graph where
  file : String
  fns : List Fn
  edges : List Edge
  entries : List Entry
  defaults : List Default
  deriving DecidableEq, Repr

/-! ## meaning -/

/-- does the test let depth `d` through under limit `lim` -/
def Cmp.admits : Cmp → Nat → Nat → Bool
  | .ge, lim, d => decide (d < lim)
  | .gt, lim, d => decide (d ≤ lim)
  | .other, _, _ => true

def admitsOpt : Option Cmp → Nat → Nat → Bool
  | none, _, _ => true
  | some c, lim, d => c.admits lim d

/-- a test that really bounds the depth by the limit -/
def strict : Option Cmp → Bool
  | some .ge => true
  | some .gt => true
  | _ => false

def Graph.guardOf (g : Graph) (f : Nat) : Option Cmp :=
  match g.fns[f]? with
  | some fn => fn.guard
  | none => none

/-- the callee's depth, given the caller's -/
def Arg.reaches : Arg → Nat → Nat → Prop
  | .plus k, d, d' => d' = d + k
  | .const k, _, d' => d' = k
  | .unknown, _, _ => True

/-- a frame of function `f` at depth `d` may be entered through a site with test `site` -/
def Graph.enter (g : Graph) (lim : Nat) (site : Option Cmp) (f d : Nat) : Bool :=
  admitsOpt site lim d && admitsOpt (g.guardOf f) lim d

structure Frame where
  fn : Nat
  depth : Nat
  deriving DecidableEq, Repr

/-- the call stacks the group can build under limit `lim`, innermost frame first -/
inductive Stack (g : Graph) (lim : Nat) : List Frame → Prop
  | entry (en : Entry) (d : Nat) : en ∈ g.entries → en.arg.reaches 0 d → g.enter lim none en.dst d = true →
      Stack g lim [⟨en.dst, d⟩]
  | call (e : Edge) (f d d' : Nat) (rest : List Frame) : Stack g lim (⟨f, d⟩ :: rest) → e ∈ g.edges → e.src = f →
      e.arg.reaches d d' → g.enter lim e.site e.dst d' = true → Stack g lim (⟨e.dst, d'⟩ :: ⟨f, d⟩ :: rest)

/-! ## the discipline -/

/-- a call is tested: in the caller just before it, or by the callee at its entry -/
def Graph.tested (g : Graph) (e : Edge) : Bool := strict e.site || strict (g.guardOf e.dst)

def maxOf : List Nat → Nat
  | [] => 0
  | x :: xs => max x (maxOf xs)

/-- longest chain of calls that keep the depth unchanged, starting in `f` (cut off at `fuel` calls) -/
def Graph.rank (g : Graph) : Nat → Nat → Nat
  | 0, _ => 0
  | fuel + 1, f =>
      maxOf ((g.edges.filter (fun e => e.src == f && e.arg == .plus 0)).map (fun e => 1 + g.rank fuel e.dst))

def Graph.rankOf (g : Graph) (f : Nat) : Nat := g.rank g.fns.length f

def Arg.inc : Arg → Nat
  | .plus k => k
  | _ => 0

def Arg.start : Arg → Nat
  | .const k => k
  | _ => 0

/-- largest increment of a call site -/
def Graph.maxInc (g : Graph) : Nat := maxOf (g.edges.map (·.arg.inc))

/-- largest literal start depth -/
def Graph.maxStart (g : Graph) : Nat := maxOf (g.entries.map (·.arg.start))

def Arg.isPlus : Arg → Bool
  | .plus _ => true
  | _ => false

def Arg.isConst : Arg → Bool
  | .const _ => true
  | _ => false

/-- every recursive call hands on the caller's depth plus a literal -/
def Graph.argsRead (g : Graph) : Bool := g.edges.all (·.arg.isPlus)

/-- no cycle of calls keeps the depth unchanged: a call that hands it on unchanged goes down in rank -/
def Graph.noFlatCycle (g : Graph) : Bool :=
  g.edges.all (fun e => e.arg != .plus 0 || decide (g.rankOf e.dst < g.rankOf e.src))

/-- every cycle passes a limit test: an untested call starts in a function that is entered through tested calls only -/
def Graph.cyclesTested (g : Graph) : Bool :=
  g.edges.all (fun e => g.tested e || g.edges.all (fun e' => e'.dst != e.src || g.tested e'))

/-- the group is entered at a literal depth -/
def Graph.entriesRead (g : Graph) : Bool := !g.entries.isEmpty && g.entries.all (·.arg.isConst)

/-- no comparison the translator could not classify, one limit expression for all tests -/
def Graph.testsRead (g : Graph) : Bool :=
  g.fns.all (fun f => f.guard != some .other) && g.edges.all (fun e => e.site != some .other) &&
  (match (g.fns.filter (fun f => f.guard.isSome)).map (·.limit) with
   | [] => true
   | l :: ls => ls.all (· == l))

def Graph.WF (g : Graph) : Bool :=
  g.argsRead && g.noFlatCycle && g.cyclesTested && g.entriesRead && g.testsRead

/-- the bound `WF` buys: frames of one stack, for any input -/
def Graph.bound (g : Graph) (lim : Nat) : Nat :=
  (max lim g.maxStart + g.maxInc + 1) * (g.fns.length + 1)

/-! ## the graph of the hand-written wire model -/

/-- `Model.Wire.valueWith` / `loopF` / `loopG`: a message met at depth `d` is parsed at `d+1` after
`d+1 < max`; a group met at `d` needs `d < max`, its members are consumed at `d+1`; the top level starts
at 0 under the same test (`parse`). -/
def wireGraph : Graph where
  file := "std/protowire/parser.go"
  fns := [⟨"parseFields", some .ge, "opts.MaxDepth"⟩, ⟨"consumeFieldValue", none, ""⟩,
          ⟨"consumeGroup", some .ge, "opts.MaxDepth"⟩]
  edges := [⟨0, 1, .plus 0, none⟩, ⟨1, 0, .plus 1, none⟩, ⟨1, 2, .plus 0, none⟩, ⟨2, 1, .plus 1, none⟩]
  entries := [⟨"ParseRawFields", 0, .const 0⟩]
  defaults := [⟨"ParseRawFields", "le", 0, 64⟩]

/-- the test a frame passes when it is entered through a site: the stronger of the site's test and the callee's entry test -/
def eff (a b : Option Cmp) : Option Cmp :=
  if a = some .ge ∨ b = some .ge then some .ge
  else if a = some .gt ∨ b = some .gt then some .gt
  else if a = some .other ∨ b = some .other then some .other
  else none

/-- what is compared when a regenerated graph is held against the model's: per call site and per entry the depth handed
on and the test the callee's frame passes (wherever it is written: in the caller before the call, at the callee's entry,
or both), and the default of the limit. Names are not compared. -/
structure Shape where
  edges : List (Nat × Nat × Arg × Option Cmp)
  entries : List (Nat × Arg × Option Cmp)
  defaults : List (String × Int × Nat)
  deriving DecidableEq, Repr

def Graph.shape (g : Graph) : Shape :=
  ⟨g.edges.map (fun e => (e.src, e.dst, e.arg, eff e.site (g.guardOf e.dst))),
   g.entries.map (fun e => (e.dst, e.arg, eff none (g.guardOf e.dst))),
   g.defaults.map (fun d => (d.cmp, d.bound, d.value))⟩

/-- the limit after the entering function applied its default -/
def Default.apply (d : Default) (given : Int) : Nat :=
  if (d.cmp = "le" ∧ given ≤ d.bound) ∨ (d.cmp = "lt" ∧ given < d.bound) ∨ (d.cmp = "eq" ∧ given = d.bound) then d.value
  else given.toNat

/-! ## a three-function graph as a depth budget on field trees -/

/-- the increment and the site test of the first call site from `s` to `t` -/
def Graph.hop (g : Graph) (s t : Nat) : Option (Nat × Option Cmp) :=
  match g.edges.find? (fun e => e.src == s && e.dst == t) with
  | some e => (match e.arg with
      | .plus k => some (k, e.site)
      | _ => none)
  | none => none

/-- from a field value at depth `d` down into a sub-list handled by function `via` (0 message, 2 group) and on to
its field values: the depth those are consumed at, if both entries are let through -/
def Graph.descend (g : Graph) (lim via d : Nat) : Option Nat :=
  match g.hop 1 via, g.hop via 1 with
  | some (a, s), some (b, s') =>
      if g.enter lim s via (d + a) && g.enter lim s' 1 (d + a + b) then some (d + a + b) else none
  | _, _ => none

def viaOf (grp : Bool) : Nat := if grp then 2 else 0

open Model.Wire in
/-- the trees the graph lets through, `d` = depth at which the values of this list are consumed -/
def FitsVia (g : Graph) (lim : Nat) : FT → Nat → Prop
  | .nil, _ => True
  | .leaf _ _ rest, d => FitsVia g lim rest d
  | .sub _ grp kids rest, d =>
      (match g.descend lim (viaOf grp) d with
       | some d' => FitsVia g lim kids d'
       | none => False) ∧ FitsVia g lim rest d

end Model.DepthGraph
