/-!
# C08 — executable model of the class-hierarchy walks of origami

Mirrors (file → definition):

* `data/type_class.go`  `interfaceExtends` → `bfs`, `interfaceExtends` (queue loop with visited set),
  `extendISClass` → `extendISClass`, `isClassValueInstanceOf` → `isClassValue`,
  `Class.Is` arm `*ThisValue` → `isThisValue`, arm `*ThrowValue` + `node/try.go catchTypeMatches` → `isThrown`;
* `node/class.go` `checkInterfaceIs` (recursive, **no** visited set) → `dfs`, `checkClassIs` → `checkClassIs`,
  `node/instanceof.go instanceof` → `instanceofOp`;
* `data/value_class.go ClassValue.GetMethod` → `getMethod`;
* `node/call_parent_method.go` → `parentCall`, `node/call_static_method.go` (what `self::m()` is parsed into,
  `parser/self_parser.go`) → `selfCall`, `node/call_static_keyword_method.go` → `staticKwCall`,
  `Class::m()` → `namedStaticCall`; the `ClassMethodContext` fields that decide the binding → `Ctx`;
* `node/like.go` (after fix 2467b2d: lookup walks the extends chain) → `like`.

Every Go loop of the shape `for extend != nil { c := lookup(*extend); …visit c…; extend = c.GetExtend() }`
is the one combinator `walkUp`; it has no visited set, so it is modelled with fuel, `Walk.fuel` is an explicit
outcome and fuel sufficiency under acyclicity is a theorem (`Proofs/Lemmas/HierWalk.lean`), not an assumption.
Names are numbers; the three names `catchTypeMatches` treats specially are fixed constants.
-/
namespace Model.Hier

abbrev Name := Nat

/-- `Throwable`, `Exception`, `Error` (only `catchTypeMatches` looks at them) -/
def throwableName : Name := 0
def exceptionName : Name := 1
def errorName : Name := 2

structure Meth where
  name : Name
  arity : Nat
deriving DecidableEq, Repr, Inhabited

/-- `node.ClassStatement`: `Extends *string`, `Implements []string`, `Methods`, `StaticMethods` -/
structure Cls where
  name : Name
  ext : Option Name
  impl : List Name
  meths : List Meth
  smeths : List Meth
deriving DecidableEq, Repr, Inhabited

/-- `node.InterfaceStatement` -/
structure Ifc where
  name : Name
  ext : List Name
  meths : List Meth
deriving DecidableEq, Repr, Inhabited

/-- the VM's class and interface tables -/
structure Graph where
  classes : List Cls
  ifaces : List Ifc
deriving Repr, Inhabited

/-- `vm.GetClass` / `vm.GetOrLoadClass` (nothing to autoload: a miss is a miss) -/
def getClass (G : Graph) (n : Name) : Option Cls := G.classes.find? (fun c => c.name == n)
/-- `vm.GetInterface` -/
def getIface (G : Graph) (n : Name) : Option Ifc := G.ifaces.find? (fun c => c.name == n)

def findM (l : List Meth) (m : Name) : Option Meth := l.find? (fun x => x.name == m)

/-! ### fuel budgets (sufficiency is proved, see `Proofs/Lemmas/Hier*.lean`) -/

def extTotal : List Ifc → Nat
  | [] => 0
  | i :: r => i.ext.length + extTotal r

/-- every queue entry is popped once and every interface is expanded at most once -/
def bfsFuel (G : Graph) : Nat := 2 * extTotal G.ifaces + 1
/-- an extends chain without a cycle visits each declared class at most once -/
def classFuel (G : Graph) : Nat := G.classes.length + 1
/-- recursion depth of `checkInterfaceIs` on an acyclic interface graph -/
def depthFuel (G : Graph) : Nat := G.ifaces.length + 1

/-! ### sequential "any" that propagates running out of fuel -/

def anyM {α : Type} (f : α → Option Bool) : List α → Option Bool
  | [] => some false
  | x :: r =>
    match f x with
    | none => none
    | some true => some true
    | some false => anyM f r

/-! ### `interfaceExtends`: BFS with visited set -/

/-- the `for len(queue) > 0` loop; `none` = out of fuel -/
def bfs (G : Graph) (target : Name) : Nat → List Name → List Name → Option Bool
  | _, [], _ => some false
  | 0, _ :: _, _ => none
  | f+1, n :: q, vis =>
    if n = target then some true
    else if n ∈ vis then bfs G target f q vis
    else
      match getIface G n with
      | none => bfs G target f q (n :: vis)
      | some p => if p.name = target then some true else bfs G target f (q ++ p.ext) (n :: vis)

def interfaceExtends (G : Graph) (ifaceName target : Name) : Option Bool :=
  if ifaceName = target then some true
  else
    match getIface G ifaceName with
    | none => some false
    | some i => if i.name = target then some true else bfs G target (bfsFuel G) i.ext []

/-- `for _, s := range GetImplements() { if target == s || interfaceExtends(vm, s, target) … }` -/
def implHit (G : Graph) (t : Name) (impl : List Name) : Option Bool :=
  anyM (fun s => if t = s then some true else interfaceExtends G s t) impl

/-! ### walking up the extends chain -/

inductive Walk (α : Type) where
  | fuel                -- ran out of fuel (the Go loop would not have terminated yet)
  | missing (n : Name)  -- a parent name is not in the class table
  | absent              -- reached a class without parent, nothing found
  | found (a : α)
deriving DecidableEq, Repr

/-- `visit c = none`: the visit itself ran out of fuel; `some none`: go on; `some (some r)`: stop with `r` -/
def walkUp {α : Type} (G : Graph) (visit : Cls → Option (Option α)) : Nat → Option Name → Walk α
  | _, none => .absent
  | 0, some _ => .fuel
  | f+1, some e =>
    match getClass G e with
    | none => .missing e
    | some c =>
      match visit c with
      | none => .fuel
      | some (some r) => .found r
      | some none => walkUp G visit f c.ext

/-- outcome of a subtype test -/
inductive R where
  | yes | no | fuel | err
deriving DecidableEq, Repr

def R.ofOpt : Option Bool → R
  | none => .fuel
  | some true => .yes
  | some false => .no

/-- what one class contributes: its own name, then its implements list -/
def visitIs (hit : List Name → Option Bool) (t : Name) (c : Cls) : Option (Option Unit) :=
  if t = c.name then some (some ())
  else
    match hit c.impl with
    | none => none
    | some true => some (some ())
    | some false => some none

/-- `extendISClass(check, extend, vm)`: a missing class ends the loop with `false` -/
def extendISClass (G : Graph) (t : Name) (ext : Option Name) : R :=
  match walkUp G (visitIs (implHit G t) t) (classFuel G) ext with
  | .fuel => .fuel
  | .found _ => .yes
  | .missing _ => .no
  | .absent => .no

/-- `isClassValueInstanceOf(target, class, vm)` — typed parameter / property / return type holding an object -/
def isClassValue (G : Graph) (t : Name) (c : Cls) : R :=
  match visitIs (implHit G t) t c with
  | none => .fuel
  | some (some _) => .yes
  | some none => extendISClass G t c.ext

/-- `Class.Is` arm `*ThisValue`: name, direct implements, implements through `interfaceExtends`, extends chain -/
def isThisValue (G : Graph) (t : Name) (c : Cls) : R :=
  if t = c.name then .yes
  else if c.impl.contains t then .yes
  else
    match anyM (fun s => interfaceExtends G s t) c.impl with
    | none => .fuel
    | some true => .yes
    | some false => extendISClass G t c.ext

/-- `catchTypeMatches`: `Class.Is(*ThrowValue)` on the thrown object's class, then the `Throwable` fallback -/
def isThrown (G : Graph) (t : Name) (c : Cls) : R :=
  match isClassValue G t c with
  | .no =>
    if t = throwableName then
      match isClassValue G exceptionName c with
      | .no => isClassValue G errorName c
      | r => r
    else .no
  | r => r

/-! ### the `instanceof` operator: `checkClassIs` / `checkInterfaceIs` -/

/-- `checkInterfaceIs`: depth-first, no visited set; an unregistered parent name is skipped without comparing it -/
def dfs (G : Graph) (t : Name) : Nat → Ifc → Option Bool
  | 0, _ => none
  | f+1, i =>
    if i.name = t then some true
    else anyM (fun p => match getIface G p with
                        | none => some false
                        | some j => dfs G t f j) i.ext

def implHitOp (G : Graph) (t : Name) (impl : List Name) : Option Bool :=
  anyM (fun s => if s = t then some true
                 else match getIface G s with
                      | none => some false
                      | some i => dfs G t (depthFuel G) i) impl

/-- `checkClassIs(ctx, source, target)`: the source class, then (recursively) each parent; the second pass over
the implements list inside `if source.GetExtend() != nil` repeats the first and is not modelled twice; the test
`*last.GetExtend() == target` before loading the parent is the parent's own name test. A parent that cannot be
loaded is an error (`GetOrLoadClass` fails). -/
def checkClassIs (G : Graph) (t : Name) (c : Cls) : R :=
  match visitIs (implHitOp G t) t c with
  | none => .fuel
  | some (some _) => .yes
  | some none =>
    match walkUp G (visitIs (implHitOp G t) t) (classFuel G) c.ext with
    | .fuel => .fuel
    | .found _ => .yes
    | .missing _ => .err
    | .absent => .no

/-- `instanceof(ctx, class, objectValue)` for a `*ClassValue` / `*ThisValue` operand: the right-hand name must
resolve to a class or an interface, otherwise `false` -/
def instanceofOp (G : Graph) (t : Name) (c : Cls) : R :=
  if (getClass G t).isNone && (getIface G t).isNone then .no else checkClassIs G t c

/-- the four places that decide "is an object of class `c` a `t`" -/
inductive Kind where
  | op      -- `$o instanceof T`, `$this instanceof T`
  | param   -- T-typed parameter receiving an object
  | this    -- T-typed parameter receiving `$this`
  | thrown  -- `catch (T $e)`
deriving DecidableEq, Repr

def isInstanceOf (G : Graph) : Kind → Cls → Name → R
  | .op, c, t => instanceofOp G t c
  | .param, c, t => isClassValue G t c
  | .this, c, t => isThisValue G t c
  | .thrown, c, t => isThrown G t c

/-! ### method lookup -/

/-- instance first, then static, per class (`CallParentMethod`'s loop body) -/
def visitBoth (m : Name) (c : Cls) : Option (Option (Cls × Bool × Meth)) :=
  some (match findM c.meths m with
        | some x => some (c, false, x)
        | none => (findM c.smeths m).map (fun x => (c, true, x)))

/-- own class, then the extends chain, looking at `pick` of each class -/
def lookupFrom (G : Graph) (pick : Cls → List Meth) (c : Cls) (m : Name) : Walk (Cls × Meth) :=
  match findM (pick c) m with
  | some x => .found (c, x)
  | none => walkUp G (fun d => some ((findM (pick d) m).map (fun x => (d, x)))) (classFuel G) c.ext

/-- `ClassValue.GetMethod`: instance methods up the chain; if none, static methods up the chain.
A parent that cannot be loaded ends the search with "not found" at once. Result: (is static, class, method). -/
def getMethod (G : Graph) (c : Cls) (m : Name) : Walk (Bool × Cls × Meth) :=
  match lookupFrom G (·.meths) c m with
  | .found (d, x) => .found (false, d, x)
  | .fuel => .fuel
  | .missing _ => .absent
  | .absent =>
    match lookupFrom G (·.smeths) c m with
    | .found (d, x) => .found (true, d, x)
    | .fuel => .fuel
    | _ => .absent

/-- the fields of `data.ClassMethodContext` that decide `parent::` / `static::` -/
structure Ctx where
  cls : Cls                 -- `ClassValue.Class`
  staticC : Option Cls      -- `StaticClass`
  selfC : Option Cls        -- `SelfClass`
deriving Repr

/-- context on an object of class `d` before any method body is entered (`ClassValue.CreateContext`) -/
def Ctx.ofObject (d : Cls) : Ctx := { cls := d, staticC := none, selfC := none }

/-- context of a method body entered by `$o->m()` on an object of class `d`, the method being found in
class `k`: since the repair of the visibility checks (`ClassMethod.Call` records the class whose method
table holds the executing method in `SelfClass`) the body knows its defining class -/
def Ctx.ofMethod (d k : Cls) : Ctx := { cls := d, staticC := none, selfC := some k }

/-- the class whose parent `parent::` refers to: `SelfClass`, else the class the parser recorded
(`CurrentClass`, used only if registered and it has a parent), else the context's class -/
def parentBase (G : Graph) (ctx : Ctx) (cur : Name) : Cls :=
  match ctx.selfC with
  | some s => s
  | none =>
    match getClass G cur with
    | some c => if c.ext.isSome then c else ctx.cls
    | none => ctx.cls

/-- `CallParentMethod.GetValue`: nearest class at or above the parent that has the method (instance or static) -/
def parentCall (G : Graph) (ctx : Ctx) (cur : Name) (m : Name) : Walk (Cls × Bool × Meth) :=
  match (parentBase G ctx cur).ext with
  | none => .absent
  | some p => walkUp G (visitBoth m) (classFuel G) (some p)

/-- context of the body reached through `parent::m()`: a fresh context of the same object
(`object.CreateContext`, whose `StaticClass` is nil), `SelfClass` = the class the method was found in,
`StaticClass` = the object's class — the caller's `StaticClass` is **not** carried over -/
def Ctx.afterParent (ctx : Ctx) (found : Cls) : Ctx :=
  { cls := ctx.cls, selfC := some found, staticC := some ctx.cls }

/-- `CallStaticMethod.GetValue` on a class statement: own static methods, then the chain -/
def namedStaticCall (G : Graph) (c : Cls) (s : Name) : Walk (Cls × Meth) := lookupFrom G (·.smeths) c s

/-- context of a static method body reached by `D::s()` (`staticMethodFunc.Call`): a pseudo object of the class
that defines the method, `StaticClass` = the class named in the call -/
def Ctx.afterNamed (callClass found : Cls) : Ctx := { cls := found, staticC := some callClass, selfC := none }

/-- `self::s()` inside class `cur` is parsed into `CallStaticMethodLater(cur, s)`: a named call on `cur` -/
def selfCall (G : Graph) (cur : Name) (s : Name) : Walk (Cls × Meth) :=
  match getClass G cur with
  | none => .missing cur
  | some c => namedStaticCall G c s

/-- the class `static::` starts from: `StaticClass` if set, else the context's class -/
def staticBase (ctx : Ctx) : Cls := ctx.staticC.getD ctx.cls

/-- `CallStaticKeywordMethod.GetValue` -/
def staticKwCall (G : Graph) (ctx : Ctx) (s : Name) : Walk (Cls × Meth) := lookupFrom G (·.smeths) (staticBase ctx) s

/-- context of the body reached through `static::s()` (`staticMethodFuncWithLateBinding.Call`) -/
def Ctx.afterStaticKw (ctx : Ctx) : Ctx := { cls := staticBase ctx, staticC := some (staticBase ctx), selfC := none }

/-- one keyword call inside a method body -/
inductive Hop where
  | parent (found : Cls)        -- `parent::m()`, method found in `found`
  | staticKw                    -- `static::s()`
  | self (cur found : Cls)      -- `self::s()` written in class `cur`, method found in `found`
deriving Repr

def Hop.isSelf : Hop → Bool
  | .self _ _ => true
  | _ => false

def Hop.isStaticKw : Hop → Bool
  | .staticKw => true
  | _ => false

def Ctx.hop (ctx : Ctx) : Hop → Ctx
  | .parent f => ctx.afterParent f
  | .staticKw => ctx.afterStaticKw
  | .self cur f => Ctx.afterNamed cur f

/-! ### `like` -/

/-- every target method is found on the source's chain with the same parameter count -/
def likeMeths (G : Graph) (c : Cls) : List Meth → Option Bool
  | [] => some true
  | tm :: r =>
    match lookupFrom G (·.meths) c tm.name with
    | .found (_, x) => if x.arity = tm.arity then likeMeths G c r else some false
    | .fuel => none
    | _ => some false

/-- `LikeExpression.GetValue` for a `*ClassValue` operand: the target is a class or an interface -/
def like (G : Graph) (c : Cls) (t : Name) : Option Bool :=
  match getClass G t with
  | some T => likeMeths G c T.meths
  | none =>
    match getIface G t with
    | some I => likeMeths G c I.meths
    | none => some false

end Model.Hier
