/-!
# Model.Conv — values crossing the Go boundary (C17)

Mirrors

* `runtime/reflect_register.go` `ReflectFunction.Call / convertToGoValue / convertToScriptValue`
  and the identical `ReflectMethod.*` of `runtime/reflect_class.go`
  (script value → `reflect.Value` of the parameter type → `reflect.Value.Call` → script value);
* `utils/utils.go` `Convert[S] / ConvertFromIndex[S]` (`convertValue`, `convertFrom{Int,String,Float,Bool}Value`,
  `convertTypeAlias`), the generic converter used by the std wrappers.

The kind switches of the Go code are *data* here (`InArm`, `OutArm`, `GenArm`): the translator
`extract/c17` regenerates them from the source on every run (`Generated.C17GoKinds`) and the
property theorems are stated over any tables satisfying a decidable well-formedness predicate.

Floats are an opaque carrier (`F` = the 64 IEEE bits, never inspected by the model); every Go
float primitive the code applies is a field of `Prim`. Strings produced by Go formatting verbs
whose output the model does not compute are symbolic constructors of `Str`.
A Go panic (`reflect.Value.Call` with a non-assignable argument, a failed `.(S)` assertion,
`reflect.Value.Int` on a non-integer, …) is an explicit `Outcome.panic`.
-/
namespace Model.Conv

abbrev Bytes := List UInt8
/-- float64 carrier: the IEEE bit pattern; opaque to the model. A float32 is carried as the
float64 it widens to. -/
abbrev F := UInt64

/-- the `reflect.Kind`s that matter; everything else (slice, struct, ptr, interface, func, …) is `other`. -/
inductive Kind
  | bool | int | int8 | int16 | int32 | int64
  | uint | uint8 | uint16 | uint32 | uint64
  | float32 | float64 | string | other
  deriving DecidableEq, Repr, Inhabited

/-- A Go type: its kind and which type of that kind. `name = 0` is the predeclared type
(`int`, `string`, …), `name = 1` with kind `int64` is `time.Duration`, other names are
defined types (`type ID int64`, `type Name string`, distinct `other` types …). -/
structure GoType where
  kind : Kind
  name : Nat := 0
  deriving DecidableEq, Repr, Inhabited

def GoType.duration : GoType := ⟨.int64, 1⟩

/-- inclusive value range of the integer kinds (Go `int`/`uint` are 64 bit on the supported platforms) -/
def Kind.intRange : Kind → Option (Int × Int)
  | .int8 => some (-128, 127)
  | .int16 => some (-32768, 32767)
  | .int32 => some (-2147483648, 2147483647)
  | .int64 => some (-9223372036854775808, 9223372036854775807)
  | .int => some (-9223372036854775808, 9223372036854775807)
  | .uint8 => some (0, 255)
  | .uint16 => some (0, 65535)
  | .uint32 => some (0, 4294967295)
  | .uint64 => some (0, 18446744073709551615)
  | .uint => some (0, 18446744073709551615)
  | _ => none

def Kind.isInt (k : Kind) : Bool := k.intRange.isSome
def Kind.isSigned : Kind → Bool
  | .int | .int8 | .int16 | .int32 | .int64 => true
  | _ => false
def Kind.isUnsigned : Kind → Bool
  | .uint | .uint8 | .uint16 | .uint32 | .uint64 => true
  | _ => false
def Kind.isFloat : Kind → Bool
  | .float32 | .float64 => true
  | _ => false

/-- `n` is representable in integer kind `k` -/
def Kind.fits (k : Kind) (n : Int) : Bool :=
  match k.intRange with
  | some (lo, hi) => decide (lo ≤ n) && decide (n ≤ hi)
  | none => false

/-- Go integer conversion `K(n)`: two's-complement wrap into the range of `k` -/
def Kind.wrap (k : Kind) (n : Int) : Int :=
  match k.intRange with
  | some (lo, hi) => (n - lo) % (hi - lo + 1) + lo
  | none => n

/-- the script integer range (a script int is a Go `int`) -/
def scriptInt (n : Int) : Bool := Kind.int.fits n

/-! ### strings -/

inductive Str
  | lit (b : Bytes)
  | g14 (f : F)                 -- strconv.FormatFloat(f, 'g', 14, 64)   (data.FloatValue.AsString)
  | fmtG (f : F)                -- fmt.Sprintf("%g", f)                  (utils.convertFromFloatValue)
  | fmtV (f : F) (is32 : Bool)  -- fmt.Sprintf("%v", f) of a float64 / float32
  | opaque                      -- a Go string the model does not describe ("%v" of a slice, "<int Value>", string(rune) …)
  deriving DecidableEq, Repr, Inhabited

def Str.isEmpty : Str → Bool
  | .lit [] => true
  | _ => false

def strBytes (s : String) : Bytes := s.toUTF8.data.toList
/-- `fmt.Sprintf("%d", n)` -/
def decBytes (n : Int) : Bytes := strBytes (toString n)
def boolBytes (b : Bool) : Bytes := strBytes (if b then "true" else "false")

/-! ### values -/

/-- a script value (`*data.NullValue`, `BoolValue`, `IntValue`, `FloatValue`, `StringValue`) -/
inductive SVal
  | null
  | bool (b : Bool)
  | int (n : Int)
  | float (f : F)
  | str (s : Str)
  deriving DecidableEq, Repr, Inhabited

inductive Payload
  | bool (b : Bool)
  | int (n : Int)
  | flt (f : F)
  | str (s : Str)
  | opaque
  deriving DecidableEq, Repr, Inhabited

/-- a Go value as `reflect` sees it: dynamic type and payload -/
structure GoVal where
  ty : GoType
  val : Payload
  deriving DecidableEq, Repr, Inhabited

/-- payload class matches the kind, integer payloads are in range -/
def GoVal.wt (g : GoVal) : Bool :=
  match g.ty.kind, g.val with
  | .bool, .bool _ => true
  | .string, .str _ => true
  | .float32, .flt _ => true
  | .float64, .flt _ => true
  | .other, .opaque => true
  | k, .int n => k.fits n
  | _, _ => false

inductive Err
  | unsupportedType     -- "不支持的Go类型" / "不支持的值类型" / "无法转换类型"
  | cannotConvert       -- the script value does not offer the accessor, or the accessor failed
  | outOfRange          -- integer not representable in the requested type (narrowInt)
  | missingArgument     -- a method call with fewer arguments than parameters is refused by the call site
  deriving DecidableEq, Repr, Inhabited

inductive Panic
  | callArgType         -- reflect: Call using X as type Y
  | convert             -- reflect.Value.Convert: value of type X cannot be converted to type Y
  | accessor            -- reflect: call of reflect.Value.Int on float64 Value
  | assertion           -- interface conversion: interface {} is X, not Y   (any(x).(S))
  | illTyped            -- a table describing code that the Go compiler would have rejected
  deriving DecidableEq, Repr, Inhabited

inductive Outcome (α : Type)
  | ok (a : α)
  | throw (e : Err)         -- catchable script error (data.Control from utils.NewThrowf)
  | panic (p : Panic)       -- Go panic escaping the wrapper
  deriving DecidableEq, Repr

def Outcome.map {α β : Type} (f : α → β) : Outcome α → Outcome β
  | .ok a => .ok (f a)
  | .throw e => .throw e
  | .panic p => .panic p

def Outcome.bind {α β : Type} (o : Outcome α) (f : α → Outcome β) : Outcome β :=
  match o with
  | .ok a => f a
  | .throw e => .throw e
  | .panic p => .panic p

def Outcome.isPanic {α : Type} : Outcome α → Bool
  | .panic _ => true
  | _ => false

/-- Go primitives the model does not look into -/
structure Prim where
  ofInt : Int → F               -- float64(n)
  trunc : F → Int               -- int(f)      (implementation-defined outside the int64 range)
  gt0 : F → Bool                -- f > 0
  ne0 : F → Bool                -- f != 0
  to32 : F → F                  -- float64(float32(f))
  parse : Bytes → Option F      -- strconv.ParseFloat(s, 64)

/-! ### accessors of script values (`data/value_*.go`) -/

inductive Acc
  | asString | asInt | asFloat | asBool
  deriving DecidableEq, Repr, Inhabited

/-- static Go type of the accessor's result -/
def Acc.kind : Acc → Kind
  | .asString => .string
  | .asInt => .int
  | .asFloat => .float64
  | .asBool => .bool

inductive AccRes
  | notImpl               -- the value does not implement the interface (`value.(data.AsInt)` fails)
  | err                   -- the accessor returned an error
  | ok (p : Payload)
  deriving DecidableEq, Repr

def SVal.asString : SVal → Str
  | .null => .lit []
  | .bool b => .lit (boolBytes b)
  | .int n => .lit (decBytes n)
  | .float f => .g14 f
  | .str s => s

def access (pr : Prim) : Acc → SVal → AccRes
  | .asString, v => .ok (.str v.asString)
  | .asInt, .int n => .ok (.int n)
  | .asInt, .float f => .ok (.int (pr.trunc f))
  | .asInt, .null => .ok (.int 0)
  | .asInt, .bool _ => .notImpl            -- BoolValue has no AsInt
  | .asInt, .str _ => .notImpl             -- StringValue.AsInt returns int64: not data.AsInt
  | .asFloat, .int n => .ok (.flt (pr.ofInt n))
  | .asFloat, .float f => .ok (.flt f)
  | .asFloat, .null => .ok (.flt (pr.ofInt 0))
  | .asFloat, .bool _ => .notImpl
  | .asFloat, .str (.lit b) => match pr.parse b with
      | some f => .ok (.flt f)
      | none => .err
  | .asFloat, .str _ => .err               -- symbolic strings are never parsed (inputs are literals)
  | .asBool, .bool b => .ok (.bool b)
  | .asBool, .int n => .ok (.bool (decide (n ≠ 0)))
  | .asBool, .float f => .ok (.bool (pr.ne0 f))
  | .asBool, .str s => .ok (.bool (!s.isEmpty))
  | .asBool, .null => .ok (.bool false)

/-! ### Go conversions between basic types -/

/-- Go conversion `K(x)` of a payload whose static kind is `from` (both basic kinds).
`none`: the conversion does not exist. -/
def castP (pr : Prim) (src dst : Kind) (p : Payload) : Option Payload :=
  match p with
  | .int n =>
    if src.isInt then
      if dst.isInt then some (.int (dst.wrap n))
      else if dst == .float64 then some (.flt (pr.ofInt n))
      else if dst == .float32 then some (.flt (pr.to32 (pr.ofInt n)))
      else if dst == .string then some (.str .opaque)      -- string(rune)
      else none
    else none
  | .flt f =>
    if src.isFloat then
      if dst == .float64 then some (.flt f)
      else if dst == .float32 then some (.flt (pr.to32 f))
      else if dst.isInt then some (.int (dst.wrap (pr.trunc f)))
      else none
    else none
  | .str s => if src == .string && dst == .string then some (.str s) else none
  | .bool b => if src == .bool && dst == .bool then some (.bool b) else none
  | .opaque => none

/-- `reflect.Value.Convert(t)` -/
def convertTo (pr : Prim) (g : GoVal) (t : GoType) : Outcome GoVal :=
  match castP pr g.ty.kind t.kind g.val with
  | some p => .ok ⟨t, p⟩
  | none => .panic .convert

/-! ### script → Go: `convertToGoValue` -/

/-- one `case reflect.K₁, reflect.K₂:` arm -/
structure InArm where
  kinds : List Kind
  acc : Acc            -- accessor interface asserted on the script value
  produced : Kind      -- static (predeclared) type of the expression handed to reflect.ValueOf
  convert : Bool       -- followed by `.Convert(goType)`
  deriving DecidableEq, Repr, Inhabited

def findIn (tbl : List InArm) (k : Kind) : Option InArm := tbl.find? (fun a => a.kinds.contains k)

def toGo (pr : Prim) (tbl : List InArm) (t : GoType) (v : SVal) : Outcome GoVal :=
  match findIn tbl t.kind with
  | none => .throw .unsupportedType                       -- default: 不支持的Go类型
  | some a =>
    match access pr a.acc v with
    | .notImpl => .throw .cannotConvert
    | .err => .throw .cannotConvert
    | .ok p =>
      -- optional typed conversion `K(x)` (absent when the accessor's result is handed over as is)
      match (if a.produced == a.acc.kind then some p else castP pr a.acc.kind a.produced p) with
      | none => .panic .illTyped
      | some p' =>
        let g : GoVal := ⟨⟨a.produced, 0⟩, p'⟩             -- reflect.ValueOf(x): dynamic type = static type
        if a.convert then convertTo pr g t else .ok g

/-! ### Go → script: `convertToScriptValue` -/

inductive GAcc
  | string | int | uint | float | bool
  deriving DecidableEq, Repr, Inhabited

/-- static type of `goValue.X()` -/
def GAcc.kind : GAcc → Kind
  | .string => .string
  | .int => .int64
  | .uint => .uint64
  | .float => .float64
  | .bool => .bool

inductive SCtor
  | str | int | float | bool
  deriving DecidableEq, Repr, Inhabited

/-- parameter type of `data.NewXValue` -/
def SCtor.kind : SCtor → Kind
  | .str => .string
  | .int => .int
  | .float => .float64
  | .bool => .bool

structure OutArm where
  kinds : List Kind
  acc : GAcc
  cast : Option Kind       -- `int(goValue.Int())`
  ctor : SCtor
  deriving DecidableEq, Repr, Inhabited

def findOut (tbl : List OutArm) (k : Kind) : Option OutArm := tbl.find? (fun a => a.kinds.contains k)

/-- `goValue.X()`; `none` = reflect panics because the kind does not allow the accessor -/
def gaccess (a : GAcc) (g : GoVal) : Option Payload :=
  match a, g.val with
  | .string, .str s => if g.ty.kind == .string then some (.str s) else some (.str .opaque)
  | .string, _ => some (.str .opaque)                   -- Value.String() of a non-string: "<T Value>"
  | .int, .int n => if g.ty.kind.isSigned then some (.int n) else none
  | .uint, .int n => if g.ty.kind.isUnsigned then some (.int n) else none
  | .float, .flt f => if g.ty.kind.isFloat then some (.flt f) else none
  | .bool, .bool b => if g.ty.kind == .bool then some (.bool b) else none
  | _, _ => none

/-- `fmt.Sprintf("%v", goValue.Interface())` -/
def fmtV (g : GoVal) : Str :=
  match g.val with
  | .int n => .lit (decBytes n)
  | .bool b => .lit (boolBytes b)
  | .str s => s
  | .flt f => .fmtV f (g.ty.kind == .float32)
  | .opaque => .opaque

def construct (c : SCtor) (p : Payload) : Option SVal :=
  match c, p with
  | .str, .str s => some (.str s)
  | .int, .int n => some (.int n)
  | .float, .flt f => some (.float f)
  | .bool, .bool b => some (.bool b)
  | _, _ => none

def toScript (pr : Prim) (tbl : List OutArm) (g : GoVal) : Outcome SVal :=
  match findOut tbl g.ty.kind with
  | none => .ok (.str (fmtV g))                          -- default arm
  | some a =>
    match gaccess a.acc g with
    | none => .panic .accessor
    | some p =>
      let k := a.cast.getD a.acc.kind
      match (match a.cast with | none => some p | some c => castP pr a.acc.kind c p) with
      | none => .panic .illTyped
      | some p' =>
        if k == a.ctor.kind then
          match construct a.ctor p' with
          | some v => .ok v
          | none => .panic .illTyped
        else .panic .illTyped

/-! ### the call: `ReflectFunction.Call` / `ReflectMethod.Call` -/

structure Sig where
  params : List GoType
  results : List GoType
  deriving DecidableEq, Repr

/-- arguments are converted left to right; a missing argument arrives as null; surplus ones are ignored -/
def convArgs (pr : Prim) (tin : List InArm) : List GoType → List SVal → Outcome (List GoVal)
  | [], _ => .ok []
  | t :: ts, [] => (toGo pr tin t .null).bind fun g => (convArgs pr tin ts []).map (g :: ·)
  | t :: ts, a :: as => (toGo pr tin t a).bind fun g => (convArgs pr tin ts as).map (g :: ·)

/-- `reflect.Value.Call` accepts an argument iff its type is assignable to the parameter type;
for the non-interface types considered here that is type identity -/
def assignableAll : List GoType → List GoVal → Bool
  | [], [] => true
  | t :: ts, g :: gs => g.ty == t && assignableAll ts gs
  | _, _ => false

structure Trace where
  received : Option (List GoVal)     -- what the Go function was called with (`none`: not called)
  result : Outcome (Option SVal)     -- what the script gets (`ok none`: no return value)
  deriving Repr

def call (pr : Prim) (tin : List InArm) (tout : List OutArm) (sig : Sig)
    (body : List GoVal → List GoVal) (args : List SVal) : Trace :=
  match convArgs pr tin sig.params args with
  | .throw e => ⟨none, .throw e⟩
  | .panic p => ⟨none, .panic p⟩
  | .ok gs =>
    if assignableAll sig.params gs then
      match body gs with
      | [] => ⟨some gs, .ok none⟩
      | r :: _ => ⟨some gs, (toScript pr tout r).map some⟩      -- only the first result is converted
    else ⟨none, .panic .callArgType⟩

/-- how the registered code is reached: a function registered with `RegisterFunction`, or a
method of a struct registered with `RegisterReflectClass` -/
inductive Path
  | fn | method
  deriving DecidableEq, Repr, Inhabited

/-- The call as a script makes it. A function call with too few arguments binds the missing
parameters to null (`convArgs`); the object-method call site refuses it before `ReflectMethod.Call`
runs ("缺少值和默认值", a catchable throw). -/
def callVia (path : Path) (pr : Prim) (tin : List InArm) (tout : List OutArm) (sig : Sig)
    (body : List GoVal → List GoVal) (args : List SVal) : Trace :=
  if path == .method && args.length < sig.params.length then ⟨none, .throw .missingArgument⟩
  else call pr tin tout sig body args

/-! ### the generic converter `utils.Convert[S]` / `utils.ConvertFromIndex[S]` -/

/-- shape of the expression returned by one `case T:` clause of `switch any(result).(type)` -/
inductive GenForm
  | cast          -- any(U(x)).(S)
  | narrow        -- narrowInt[S, U](x): range-checked conversion
  | sprintf       -- any(fmt.Sprintf(verb, x)).(S)
  | ne0           -- any(x != 0).(S)
  | boolConst     -- if b { return any(U(1)).(S) }; return any(U(0)).(S)   ("true"/"false" for strings)
  | ident         -- any(x).(S) of the already converted local
  | parseBool     -- parseBool(s) then any(b).(S)
  | err           -- the clause only returns an error
  deriving DecidableEq, Repr, Inhabited

structure GenArm where
  caseTy : Kind      -- `case T:` of the type switch over the requested type S (predeclared types only)
  exprTy : Kind      -- static type of the value that is asserted back to S
  form : GenForm
  deriving DecidableEq, Repr, Inhabited

structure GenTables where
  fromInt : List GenArm
  fromStr : List GenArm
  fromFloat : List GenArm
  fromBool : List GenArm
  deriving Repr

def parseBool (b : Bytes) : Option Bool :=
  if b == strBytes "true" || b == strBytes "1" || b == strBytes "yes" || b == strBytes "on" then some true
  else if b == strBytes "false" || b == strBytes "0" || b == strBytes "no" || b == strBytes "off" then some false
  else none

/-- the value computed by a clause, with its static kind `a.exprTy`; `throw`: the clause returns an error -/
def genValue (pr : Prim) (a : GenArm) (v : SVal) : Outcome Payload :=
  match a.form, v with
  | .err, _ => .throw .cannotConvert
  | .cast, .int n => match castP pr .int a.exprTy (.int n) with
      | some p => .ok p
      | none => .panic .illTyped
  | .cast, .float f => match castP pr .float64 a.exprTy (.flt f) with
      | some p => .ok p
      | none => .panic .illTyped
  | .narrow, .int n => if a.exprTy.fits n then .ok (.int n) else .throw .outOfRange
  | .sprintf, .int n => .ok (.str (.lit (decBytes n)))
  | .sprintf, .float f => .ok (.str (.fmtG f))
  | .ne0, .int n => .ok (.bool (decide (n ≠ 0)))
  | .ne0, .float f => .ok (.bool (pr.ne0 f))
  | .boolConst, .bool b =>
      if a.exprTy.isInt then .ok (.int (if b then 1 else 0))
      else if a.exprTy.isFloat then .ok (.flt (pr.ofInt (if b then 1 else 0)))
      else if a.exprTy == .string then .ok (.str (.lit (boolBytes b)))
      else .panic .illTyped
  | .ident, .str s => .ok (.str s)
  | .parseBool, .str (.lit b) => match parseBool b with
      | some r => .ok (.bool r)
      | none => .throw .cannotConvert
  | .parseBool, .str _ => .throw .cannotConvert
  | _, _ => .panic .illTyped

/-- payload and static type of the direct assertion `any(x).(S)` tried first -/
def SVal.direct : SVal → Option (Kind × Payload)
  | .int n => some (.int, .int n)
  | .float f => some (.float64, .flt f)
  | .bool b => some (.bool, .bool b)
  | .str s => some (.string, .str s)
  | .null => none

def GenTables.forVal (g : GenTables) : SVal → List GenArm
  | .int _ => g.fromInt
  | .float _ => g.fromFloat
  | .bool _ => g.fromBool
  | .str _ => g.fromStr
  | .null => []

/-- `convertTypeAlias[S]`: only `time.Duration` is served (through `AsInt`) -/
def typeAlias (pr : Prim) (t : GoType) (v : SVal) : Outcome GoVal :=
  if t == GoType.duration then
    match access pr .asInt v with
    | .ok p => .ok ⟨t, p⟩
    | _ => .throw .unsupportedType
  else .throw .unsupportedType

/-- `convertValue[S]` (= `utils.Convert[S]`) for the scalar script values -/
def convertValue (pr : Prim) (g : GenTables) (t : GoType) (v : SVal) : Outcome GoVal :=
  match v.direct with
  | none => .throw .unsupportedType                      -- NullValue: default arm, `any(v).(S)` fails
  | some (k, p) =>
    if t == ⟨k, 0⟩ then .ok ⟨t, p⟩                        -- direct assertion succeeds
    else
      match (if t.name == 0 then (g.forVal v).find? (fun a => a.caseTy == t.kind) else none) with
      | some a =>
        (genValue pr a v).bind fun p' =>
          if a.exprTy == t.kind then .ok ⟨t, p'⟩          -- `.(S)` with S = the case type
          else .panic .assertion
      | none => typeAlias pr t v

/-- `ConvertFromIndex[S]` on an existing index: `convertValue`, and on error `convertTypeAlias` -/
def convertFromIndex (pr : Prim) (g : GenTables) (t : GoType) (v : SVal) : Outcome GoVal :=
  match convertValue pr g t v with
  | .throw _ => typeAlias pr t v
  | r => r

end Model.Conv
