/-
C10 — abstract model of the lock protocol around the registry maps of
`runtime/vm.go` (`VM.mu sync.RWMutex` guarding classMap / interfaceMap / funcMap /
constantMap / globalVars / phpFileCache / compiledFiles).

Threads (goroutines: `spawn`, HTTP handlers) execute *sections*
    acquire mode ; access₁ ; … ; accessₙ ; release
where `mode` is the lock the Go method holds around the accesses
(`none` = the method touches the maps with no lock, `R` = `RLock … RUnlock`,
`W` = `Lock … Unlock`).  An access has a duration (a `begin` step and an `end`
step, the effect on the store happens at `end`), so that "two goroutines are
inside conflicting accesses of the same map at the same time" — what the Go
runtime turns into `fatal error: concurrent map writes` and the race detector
into a report — is a state of the model.

Modelled-not-verified (trusted): `sync.RWMutex` as coded here — `Lock` is
enabled only when there is no writer and no reader, `RLock` only when there is
no writer (Go additionally blocks new readers while a writer is *waiting*; the
model allows strictly more schedules, which is sound for the safety theorems);
the Go memory model ("no two conflicting accesses overlap" ⇒ the accesses behave
atomically).

The number of threads is not bounded: thread ids are all of `Nat`, a thread
with an empty program never moves.  A schedule is a list of thread ids; a
choice whose step is not enabled (lock not available, nothing left to do) is a
stutter.
-/
namespace Model.RW

abbrev Tid := Nat
/-- a registry map (`"classMap"`, …) -/
abbrev MapId := String

inductive Mode | none | R | W
deriving DecidableEq, Repr, Inhabited

inductive Kind | rd | wr
deriving DecidableEq, Repr, Inhabited

/-- does holding `m` allow an access of kind `k` to a shared map? -/
def permits : Mode → Kind → Bool
  | .W, _ => true
  | .R, .rd => true
  | _, _ => false

/-- One access to a map.  `L` = the goroutine's private state (arguments,
results so far), `S` = the shared store.  A read cannot change the store *by
type*; a write may read and change it. -/
inductive Acc (L S : Type)
  | rd (m : MapId) (f : L → S → L)
  | wr (m : MapId) (f : L → S → L × S)

namespace Acc
variable {Λ L S : Type}
def map : Acc L S → MapId
  | .rd m _ => m
  | .wr m _ => m
def kind : Acc L S → Kind
  | .rd _ _ => .rd
  | .wr _ _ => .wr
/-- effect of the access (takes place at its `end` step) -/
def apply : Acc L S → L × S → L × S
  | .rd _ f, (l, s) => (f l s, s)
  | .wr _ f, (l, s) => f l s
end Acc

structure Sec (Λ L S : Type) where
  /-- which operation this section is (ignored by the lock semantics) -/
  lbl : Λ
  mode : Mode
  accs : List (Acc L S)

/-- sequential effect of a list of accesses -/
def execAccs {L S : Type} : List (Acc L S) → L × S → L × S
  | [], p => p
  | a :: rest, p => execAccs rest (a.apply p)

/-- every access of the section is allowed by the lock it holds -/
def Sec.ok {Λ L S : Type} (sec : Sec Λ L S) : Prop := ∀ a ∈ sec.accs, permits sec.mode a.kind = true

inductive Pc (Λ L S : Type)
  | idle
  | held (sec : Sec Λ L S) (rest : List (Acc L S))
  | inAcc (sec : Sec Λ L S) (a : Acc L S) (rest : List (Acc L S))

/-- lock mode a thread currently holds -/
def Pc.mode {Λ L S : Type} : Pc Λ L S → Mode
  | .idle => .none
  | .held sec _ => sec.mode
  | .inAcc sec _ _ => sec.mode

structure Thread (Λ L S : Type) where
  pc : Pc Λ L S
  loc : L
  prog : List (Sec Λ L S)

structure State (Λ L S : Type) where
  writer : Option Tid
  readers : List Tid
  store : S
  thr : Tid → Thread Λ L S
  /-- ghost: completed sections in the order of their release -/
  log : List (Tid × Sec Λ L S)

def upd {α : Type} (f : Tid → α) (t : Tid) (v : α) : Tid → α :=
  fun x => if x = t then v else f x

variable {Λ L S : Type}

/-- try to enter the next section `sec` (acquire its lock) -/
def enter (s : State Λ L S) (t : Tid) (sec : Sec Λ L S) (more : List (Sec Λ L S)) : State Λ L S :=
  let th := s.thr t
  let s' : State Λ L S := { s with thr := upd s.thr t { th with pc := .held sec sec.accs, prog := more } }
  match sec.mode with
  | .none => s'
  | .R => if s.writer = Option.none then { s' with readers := t :: s.readers } else s
  | .W => if s.writer = Option.none ∧ s.readers = [] then { s' with writer := some t } else s

/-- leave the section (release its lock) and log it -/
def leave (s : State Λ L S) (t : Tid) (sec : Sec Λ L S) : State Λ L S :=
  let th := s.thr t
  let s' : State Λ L S := { s with thr := upd s.thr t { th with pc := .idle }, log := s.log ++ [(t, sec)] }
  match sec.mode with
  | .none => s'
  | .R => { s' with readers := s.readers.erase t }
  | .W => { s' with writer := Option.none }

/-- one step of thread `t` (a stutter when nothing is enabled) -/
def step (s : State Λ L S) (t : Tid) : State Λ L S :=
  let th := s.thr t
  match th.pc with
  | .idle =>
    match th.prog with
    | [] => s
    | sec :: more => enter s t sec more
  | .held sec (a :: rest) => { s with thr := upd s.thr t { th with pc := .inAcc sec a rest } }
  | .held sec [] => leave s t sec
  | .inAcc sec a rest =>
    let p := a.apply (th.loc, s.store)
    { s with store := p.2, thr := upd s.thr t { th with pc := .held sec rest, loc := p.1 } }

def run (s : State Λ L S) (sched : List Tid) : State Λ L S := sched.foldl step s

/-- initial state: lock free, every thread between sections -/
def mkInit (store : S) (loc : Tid → L) (prog : Tid → List (Sec Λ L S)) : State Λ L S :=
  { writer := Option.none, readers := [], store := store,
    thr := fun t => { pc := .idle, loc := loc t, prog := prog t }, log := [] }

/-- the access a thread is inside of, if any -/
def Pc.cur : Pc Λ L S → Option (Acc L S)
  | .inAcc _ a _ => some a
  | _ => Option.none

/-- two different threads are simultaneously inside accesses of the same map,
at least one of them a write — Go: `concurrent map writes` / `concurrent map
read and map write` / a race report. -/
def Conflict (s : State Λ L S) (t1 t2 : Tid) : Prop :=
  t1 ≠ t2 ∧ ∃ a1 a2, (s.thr t1).pc.cur = some a1 ∧ (s.thr t2).pc.cur = some a2 ∧
    a1.map = a2.map ∧ (a1.kind = .wr ∨ a2.kind = .wr)

/-- decidable version for concrete states (used by the negation witness) -/
def conflictB (s : State Λ L S) (t1 t2 : Tid) : Bool :=
  t1 != t2 &&
  match (s.thr t1).pc.cur, (s.thr t2).pc.cur with
  | some a1, some a2 => a1.map == a2.map && (a1.kind == .wr || a2.kind == .wr)
  | _, _ => false

/-- the sequential reading of a log: run each logged section completely, one
after the other, on the store and on its thread's private state -/
def seqStep (p : S × (Tid → L)) (e : Tid × Sec Λ L S) : S × (Tid → L) :=
  let r := execAccs e.2.accs (p.2 e.1, p.1)
  (r.2, upd p.2 e.1 r.1)

def seqExec (log : List (Tid × Sec Λ L S)) (p : S × (Tid → L)) : S × (Tid → L) :=
  log.foldl seqStep p

/-- sections of thread `t` in a log, in order -/
def logOf (log : List (Tid × Sec Λ L S)) (t : Tid) : List (Sec Λ L S) :=
  (log.filter (fun e => e.1 == t)).map (·.2)

/-- the section a thread is inside of -/
def Pc.sec : Pc Λ L S → List (Sec Λ L S)
  | .idle => []
  | .held sec _ => [sec]
  | .inAcc sec _ _ => [sec]

/-- accesses of the current section still to be executed -/
def Pc.todo : Pc Λ L S → List (Acc L S)
  | .idle => []
  | .held _ rest => rest
  | .inAcc _ a rest => a :: rest

/-- is some step enabled for thread `t`? -/
def enabled (s : State Λ L S) (t : Tid) : Bool :=
  match (s.thr t).pc with
  | .idle =>
    match (s.thr t).prog with
    | [] => false
    | sec :: _ =>
      match sec.mode with
      | .none => true
      | .R => s.writer.isNone
      | .W => s.writer.isNone && s.readers.isEmpty
  | _ => true

/-! ## Facts regenerated from `runtime/vm.go` (see `extract/c10`) -/

/-- one access to a registry map inside a method of `*VM`, with the lock mode
held at that program point -/
structure Fact where
  method : String
  map : MapId
  kind : Kind
  held : Mode
deriving DecidableEq, Repr

/-- a call made while `vm.mu` is held.  `cls`: `"loader"` (can reach
`LoadClass`/autoload/parse/run and so re-enter the registry), `"reentrant"`
(a `*VM` method that itself takes `vm.mu`), `"other"`. -/
structure HeldCall where
  method : String
  callee : String
  held : Mode
  cls : String
deriving DecidableEq, Repr

def Fact.bad (f : Fact) : Bool := !permits f.held f.kind
def HeldCall.bad (c : HeldCall) : Bool := c.cls == "loader" || c.cls == "reentrant"

/-- what the obligation forbids, as readable strings -/
def violations (facts : List Fact) (calls : List HeldCall) (shape : List String) : List String :=
  (facts.filter Fact.bad).map (fun f =>
      f.method ++ ":" ++ f.map ++ ":" ++ (if f.kind == .wr then "write" else "read") ++ "-under-" ++
        (match f.held with | .none => "no-lock" | .R => "RLock" | .W => "Lock")) ++
  (calls.filter HeldCall.bad).map (fun c => c.method ++ ":calls-" ++ c.callee ++ "-while-holding:" ++ c.cls) ++
  shape.map (fun w => "shapeChanged:" ++ w)

/-- the lock a method holds around its accesses of the maps: the weakest mode
over its facts (`none` if it has an unlocked access or no recorded access at all) -/
def weakest : Mode → Mode → Mode
  | .none, _ => .none
  | _, .none => .none
  | .R, _ => .R
  | _, .R => .R
  | .W, .W => .W

def methodMode (facts : List Fact) (m : String) : Mode :=
  match facts.filter (fun f => f.method == m) with
  | [] => .none          -- unknown method: nothing is known about its locking
  | f :: fs => fs.foldl (fun acc g => weakest acc g.held) f.held

def methodWrites (facts : List Fact) (m : String) : Bool :=
  facts.any (fun f => f.method == m && f.kind == .wr)

end Model.RW
