/-
C13 — layers over ONE response.

A request passes through a stack of layers — closure middleware (`handler.go newMiddleware`), class
middleware (`server_middleware.go ServerMiddlewareMethod.Call`), the route handler (`Handler.ServeHTTP`,
`HotHandler.ServeHTTP`), annotation routes (`mount_routes.go`, `route_dispatch.go`), the error handler
(`middleware_stack.go invokeErrorHandler`). Every layer entry does

    rw, response := beginResponse(w, r)     -- newBufferedWriter is idempotent: all layers share ONE bufferedWriter
    defer rw.commitPending()                -- `St.finish` when the layer returns

runs script code on `$response` (operations BEFORE `$next`), optionally calls `$next` (the inner layers),
runs operations AFTER it, and returns. A layer that does not call `$next` short-circuits: the inner layers,
the route handler and THEIR deferred `commitPending` never run.

`Layer.commits` says whether the layer entry defers `commitPending`; it is `true` for every entry of the
pinned tree (regenerated: `Generated.C13.layerEntries`).
-/
import Model.Resp
namespace Model.RespLayer
open Model.Resp

structure Layer where
  commits : Bool := true     -- the layer entry does `defer rw.commitPending()`
  pre : List Op := []        -- operations before `$next`
  calls : Bool := true       -- does it call `$next`
  post : List Op := []       -- operations after `$next` returned (or after `pre` when it does not call)
deriving Repr, DecidableEq

/-- serve the stack (outermost layer first) on the shared writer state. -/
def runLayers (s : St) : List Layer → St
  | [] => s
  | l :: ls =>
    let s1 := l.pre.foldl step s
    let s2 := if l.calls then runLayers s1 ls else s1
    let s3 := l.post.foldl step s2
    if l.commits then s3.finish else s3

/-- the whole request on a recorder (`e = false`) or over a connection (`e = true`). Nothing else runs
    after the outermost layer: net/http sends its implicit 200 if nothing was committed (`St.client`). -/
def serveOn (e : Bool) (ls : List Layer) : St := runLayers { wire := { enforce := e } } ls

/-- what happens on the shared writer, in execution order: an operation, or the return of a layer. -/
inductive Ev
  | op (o : Op)
  | ret (commits : Bool)
deriving Repr, DecidableEq

def events : List Layer → List Ev
  | [] => []
  | l :: ls =>
    l.pre.map Ev.op ++ (if l.calls then events ls else []) ++ l.post.map Ev.op ++ [Ev.ret l.commits]

def stepEv (s : St) : Ev → St
  | .op o => step s o
  | .ret true => s.finish
  | .ret false => s

/-! ### facts regenerated from the source: who obtains a response, and does it commit on return -/

/-- one function (or function literal) that calls `beginResponse` -/
structure Entry where
  fn : String       -- enclosing declaration, `#n` for the n-th function literal inside it
  binds : Bool      -- the writer (first result) is bound to a name
  defers : Bool     -- `defer <that name>.commitPending()` in the same function body
deriving Repr, DecidableEq

def Entry.commits (en : Entry) : Bool := en.binds && en.defers

structure EntryFacts where
  entries : List Entry
  shapeChanged : List String
deriving Repr, DecidableEq

/-- layer entries that return without committing what is pending -/
def EntryFacts.violations (f : EntryFacts) : List String :=
  (f.entries.filter (fun en => !en.commits)).map (·.fn)

/-- the layer an entry makes, for any script code in it -/
def layerOf (en : Entry) (pre : List Op) (calls : Bool) (post : List Op) : Layer :=
  { commits := en.commits, pre := pre, calls := calls, post := post }

end Model.RespLayer
