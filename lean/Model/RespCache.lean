/-
C13 — assignment sites of `bufferedWriter.status` and the fields computed from it.

`bufferedWriter` (std/net/http/response.go) stores the pending status in ONE field that SEVERAL
functions assign (`SetStatus`, `WriteHeader`, `Redirect`, `NoContent`, the constructor literal). A
decision that depends on the status — "may this response carry a body?", "is this a redirect?" — is
right only if it is computed from the status that is current when it is used. A field that CACHES
such a decision has to be recomputed at every assignment site; recomputing it at one of them is
exactly the kind of change that keeps every test green and breaks one interleaving
(`status(204); writeHeader(200); write(..)`: the committed status allows a body, the cache still
says it does not).

The translator `extract/c13` regenerates `Generated.C13.facts` from the source: every assignment site
of the status and, for every other field of the struct, whether some assignment to it mentions the
status (or the value stored into the status) in its right-hand side or in a governing condition.
`Facts.violations` lists the (site, field) pairs where a site leaves a status-derived field as it
was; the obligation in `Proofs/Properties/C13.lean` is that this list is empty.
-/
namespace Model.RespCache

/-- an assignment `X.field = rhs` to a field of `bufferedWriter` other than `status` that depends on the status -/
structure Derived where
  field : String   -- the field that is assigned
  fn : String      -- the function holding the assignment
  how : String     -- "rhs": the right-hand side mentions the status / the value stored into it; "cond": a governing condition does
deriving Repr, DecidableEq

/-- a place where the status is (re)assigned -/
structure Site where
  fn : String
  kind : String            -- "assign": `X.status = …`; "literal": composite literal `bufferedWriter{…}`
  refreshes : List String  -- fields assigned by `fn` itself or, transitively, by the bufferedWriter methods / package functions it calls
deriving Repr, DecidableEq

structure Facts where
  fields : List String        -- named fields of the struct
  derived : List Derived
  sites : List Site
  shapeChanged : List String  -- the expected syntactic shape was not found (struct, field, resolvable selector)
deriving Repr, DecidableEq

def Facts.derivedFields (f : Facts) : List String := (f.derived.map (·.field)).eraseDups

def Facts.assignSites (f : Facts) : List Site := f.sites.filter (fun s => s.kind == "assign")

/-- (site, field): the site assigns the status and leaves the status-derived field as it was. -/
def Facts.violations (f : Facts) : List (String × String) :=
  f.assignSites.flatMap fun s =>
    (f.derivedFields.filter (fun d => !s.refreshes.contains d)).map fun d => (s.fn, d)

/-! ### the abstract machine the obligation is about -/

/-- the status and one value cached from it -/
structure CSt (α : Type) where
  status : Nat
  cache : α

/-- one run of an assignment site with the code `c`: the status is overwritten; the cache is recomputed
    (`g c`) iff the site refreshes it, and keeps its old value otherwise. -/
def CSt.assign {α : Type} (g : Nat → α) (s : CSt α) (refresh : Bool) (c : Nat) : CSt α :=
  { status := c, cache := if refresh then g c else s.cache }

/-- the cache says what the current status says -/
def Coherent {α : Type} (g : Nat → α) (s : CSt α) : Prop := s.cache = g s.status

/-- a history of site runs: (does the site refresh the cache, the code it stores) -/
def runSites {α : Type} (g : Nat → α) (s0 : CSt α) (hist : List (Bool × Nat)) : CSt α :=
  hist.foldl (fun s p => s.assign g p.1 p.2) s0

/-- a history over the regenerated sites, for the derived field `d` -/
def histOf (d : String) (h : List (Site × Nat)) : List (Bool × Nat) :=
  h.map fun p => (p.1.refreshes.contains d, p.2)

end Model.RespCache
