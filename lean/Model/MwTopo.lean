import Model.Mw
/-!
C13 — trees of server objects and their middleware slices
(std/net/http/server_class.go `NewServerClassFromGroup`, server_middleware.go
`h.server.middlewares = append(h.server.middlewares, …)`, server_handler.go
`finalizeHandler` at route registration).

A Go slice is (backing array, len); the capacity is the length of the backing array.
`append` writes IN PLACE into the backing array when `len < cap` and allocates a new
array otherwise. A server object derived from another one (`group()`) either copies
the parent's slice (`append([]T{}, x...)`: a fresh array) or takes the slice itself
(same backing array, same len). A route snapshots the slice of its server object
when it is registered (`applyMiddlewares` copies before sorting).

Modelled-not-verified: the growth policy (`grow`) is "double"; no theorem depends on
it beyond `grow c > c`, and the copying model never shares an array, so its views do
not depend on capacities at all.
-/
namespace Model.MwTopo
open Model.Mw (Entry)

structure Slice where
  arr : Nat
  len : Nat
deriving Repr, DecidableEq

abbrev Heap := Nat → List Entry

/-- what a reader of the slice sees: the first `len` cells of its backing array -/
def view (h : Heap) (s : Slice) : List Entry := (h s.arr).take s.len

def grow (cap : Nat) : Nat := if cap = 0 then 1 else 2 * cap

def pad : Entry := { prio := 0, id := 0 }

structure St where
  heap : Heap
  next : Nat                     -- backing arrays allocated so far
  objs : Nat → Slice             -- the `middlewares` field of every server object
  n : Nat                        -- server objects so far (object 0 = `new Server`)
  routes : List (List Entry)     -- middleware list every route was finalised with, in registration order

/-- `s = append(s, e)`: in place when there is spare capacity, else a new array -/
def appendS (h : Heap) (next : Nat) (s : Slice) (e : Entry) : Heap × Nat × Slice :=
  if s.len < (h s.arr).length then
    (fun a => if a = s.arr then (h s.arr).set s.len e else h a, next, { arr := s.arr, len := s.len + 1 })
  else
    (fun a => if a = next then view h s ++ e :: List.replicate (grow s.len - (s.len + 1)) pad else h a,
      next + 1, { arr := next, len := s.len + 1 })

/-- `append([]T{}, s...)`: a fresh array holding exactly what the slice shows -/
def copyS (h : Heap) (next : Nat) (s : Slice) : Heap × Nat × Slice :=
  (fun a => if a = next then view h s else h a, next + 1, { arr := next, len := s.len })

inductive Op
  | mw (o : Nat) (e : Entry)     -- `$o->middleware(e)`
  | group (p : Nat)              -- `$new = $p->group(prefix)`; the new object gets the next number
  | route (o : Nat)              -- `$o->get(path, h)`
deriving Repr, DecidableEq

def init : St :=
  { heap := fun _ => [], next := 1, objs := fun _ => { arr := 0, len := 0 }, n := 1, routes := [] }

/-- `copy = true`: derived server objects copy the slice (the pinned tree);
    `copy = false`: they take the parent's slice itself. -/
def step (copy : Bool) (st : St) : Op → St
  | .mw o e =>
    if o < st.n then
      let r := appendS st.heap st.next (st.objs o) e
      { st with heap := r.1, next := r.2.1, objs := fun i => if i = o then r.2.2 else st.objs i }
    else st
  | .group p =>
    if p < st.n then
      if copy then
        let r := copyS st.heap st.next (st.objs p)
        { st with heap := r.1, next := r.2.1, objs := fun i => if i = st.n then r.2.2 else st.objs i, n := st.n + 1 }
      else
        { st with objs := fun i => if i = st.n then st.objs p else st.objs i, n := st.n + 1 }
    else st
  | .route o =>
    if o < st.n then { st with routes := st.routes ++ [view st.heap (st.objs o)] } else st

def run (copy : Bool) (ops : List Op) : St := ops.foldl (step copy) init

/-- the trace of every route when it is requested -/
def traces (copy : Bool) (ops : List Op) : List Model.Mw.Handler :=
  (run copy ops).routes.map (Model.Mw.apply [.final])

/-! Regenerated facts (`extract/c13` → `Generated/C13DerivedSlices.lean`): every place of
std/net/http where a slice-typed field of a struct is initialised / assigned from a slice-typed
field of ANOTHER object. -/
inductive How | copied | aliased
deriving Repr, DecidableEq

structure DeriveFact where
  fn : String        -- enclosing function
  typ : String       -- struct type of the receiving object ("" when assigned through a selector)
  field : String     -- receiving field
  src : String       -- source expression
  how : How
deriving Repr, DecidableEq

structure Facts where
  sliceFields : List String       -- `Type.field` of every slice-typed struct field of the package
  derives : List DeriveFact
  shapeChanged : List String
deriving Repr, DecidableEq

def Facts.aliased (f : Facts) : List DeriveFact := f.derives.filter (fun d => d.how == .aliased)

/-- the derivation the real code performs, read off the table -/
def Facts.copies (f : Facts) : Bool := f.aliased.isEmpty

end Model.MwTopo
