/-!
# Model.EmitOrder — ordered collections in the translation of `cmd/compile`

`Model.Emit` treats a collection as a `list` and a handler as "passes on what it reads", so a
handler that reads a keyed collection through the wrong field — the lookup map instead of the
slice that carries the declaration order — is invisible there as long as it still *reads* both.
This module models the one thing `Model.Emit` abstracts away: **in which order** a handler walks a
collection that the AST keeps twice (`ClassStatement.Properties : map[string]Property` for lookup,
`ClassStatement.PropertiesIndex : []string` for the order), and what the constructor the
generated code calls (`node.NewClassStatement(from, name, extends, implements, []data.Property{…},
methods)`) rebuilds from the emitted slice.

* `Keyed α` — a keyed collection as the parser keeps it: `index` (declaration order) and `get`.
* `emitBy keys k` — the slice literal a handler writes when it walks the key list `keys` and looks
  every key up (`for _, name := range keys { emit(k.get name) }`).
  `emitByIndex k = emitBy k.index k` is what `emitClassStatementInit` does.
* `rebuildKeyed xs` — what the constructor rebuilds: the index is the order of the slice, lookup
  finds the entry by name.

The regenerated facts (`Generated.C16CompileNodes.accesses`, `.orderPairs`) say how every function
reached from a handler uses every slice- or map-typed field of an AST struct; `orderRespected`
is the obligation on them.
-/
namespace Model.EmitOrder

/-- a struct that keeps a keyed collection twice -/
structure OrderPair where
  ty : String
  mapField : String
  orderField : String
  deriving Repr, DecidableEq

/-- one use of a slice- or map-typed field of an AST struct inside cmd/compile -/
structure Access where
  fn : String        -- the function of cmd/compile in which the expression stands
  ty : String        -- struct owning the field
  field : String
  isMap : Bool
  how : String       -- range | index | index-const | len | nilcheck | slice | ext:<fun> | other
  deriving Repr, DecidableEq

/-- uses that cannot change the order in which members are emitted -/
def orderNeutral (how : String) : Bool :=
  how == "len" || how == "nilcheck"

/-- a slice is walked front to back (`range`), measured, or tested; anything else (computed index,
re-slicing, handing it to `sort.…`/`slices.…`, …) can emit its members in another order -/
def sliceUseOk (how : String) : Bool :=
  how == "range" || orderNeutral how

/-- a map that has an order-carrying companion is only looked up by key, never iterated -/
def pairedMapUseOk (how : String) : Bool :=
  how == "index" || orderNeutral how

def isPairedMap (pairs : List OrderPair) (a : Access) : Bool :=
  pairs.any (fun p => p.ty == a.ty && p.mapField == a.field)

/-- **The order obligation** on the regenerated facts:
1. every slice-typed field is only walked by `range` (or measured / nil-tested);
2. a map-typed field with an order companion is only looked up by key;
3. a function that looks such a map up walks the companion slice by `range`. -/
def orderRespected (pairs : List OrderPair) (accs : List Access) : Bool :=
  accs.all (fun a => a.isMap || sliceUseOk a.how)
  && accs.all (fun a => !isPairedMap pairs a || pairedMapUseOk a.how)
  && pairs.all (fun p => accs.all (fun a =>
      !(a.ty == p.ty && a.field == p.mapField) ||
      accs.any (fun b => b.fn == a.fn && b.ty == p.ty && b.field == p.orderField && b.how == "range")))

/-! ## keyed collections -/

structure Keyed (α : Type) where
  index : List String
  get : String → Option α

/-- the slice literal written when the key list `keys` is walked and every key looked up -/
def emitBy {α : Type} (keys : List String) (k : Keyed α) : List (String × α) :=
  keys.filterMap (fun n => (k.get n).map (fun v => (n, v)))

def emitByIndex {α : Type} (k : Keyed α) : List (String × α) := emitBy k.index k

/-- what the constructor rebuilds from the slice: order of the slice, lookup by name -/
def rebuildKeyed {α : Type} (xs : List (String × α)) : Keyed α :=
  { index := xs.map (·.1), get := fun n => (xs.find? (fun e => e.1 == n)).map (·.2) }

/-- every declared name has a value (the parser's invariant: `PropertiesIndex` lists exactly the
keys of `Properties`) -/
def Keyed.total {α : Type} (k : Keyed α) (keys : List String) : Prop :=
  ∀ n ∈ keys, (k.get n).isSome = true

/-- insertion sort on strings: the `sort.Strings` of a `sortedKeys` helper -/
def insertSorted (x : String) : List String → List String
  | [] => [x]
  | y :: ys => if x ≤ y then x :: y :: ys else y :: insertSorted x ys

def sortStrings : List String → List String
  | [] => []
  | x :: xs => insertSorted x (sortStrings xs)

end Model.EmitOrder
