/-!
# C20 round 7 — a process-wide stack with a floor (sentinel)

`core.obStack` is a package-level stack whose element 0 is a sentinel: "no buffer open" is length 1,
`ob_get_level()` is `len - 1`, `syncWriter` installs a buffering writer iff `len > 1`, and the end-of-run
repair `FlushAllBuffers` returns early on `len <= 1`. The model keeps of such a container only its
*length* and of every function that touches it the *length guards* under which an effect on the length is
executed — exactly what the translator (`extract/c20/stacks.go`) regenerates from the source:

* a guard is a comparison of `len(c)` with a constant, either the condition of a top-level
  `if … { return }` that precedes the effect (`returns = true`: the effect runs only when it is false) or
  the condition of an enclosing `if` / `for` (`returns = false`: the effect runs only when it is true);
* an effect is `push k` (`append`), `pop s` (`c = c[:len(c)-s]`, `c = c[s:]`), `reset r` (a literal of
  `r` elements, `nil`, `make`), `unknown` (any other assignment: treated as `reset 0`), or `none` (the
  function only reads).

Everything is unbounded: lengths are arbitrary naturals, op sequences arbitrary lists.
-/

namespace Model.Stack

inductive Cmp
  | le | lt | eq | ne | ge | gt
deriving DecidableEq, Repr

def Cmp.holds : Cmp → Nat → Nat → Bool
  | .le, n, k => decide (n ≤ k)
  | .lt, n, k => decide (n < k)
  | .eq, n, k => decide (n = k)
  | .ne, n, k => decide (n ≠ k)
  | .ge, n, k => decide (k ≤ n)
  | .gt, n, k => decide (k < n)

/-- `if len(c) cmp k { return }` (`returns`) or an enclosing `if len(c) cmp k { … }` -/
structure LenGuard where
  cmp : Cmp
  k : Nat
  returns : Bool
deriving DecidableEq, Repr

/-- may the guarded effect be executed at length `n`? -/
def LenGuard.allows (g : LenGuard) (n : Nat) : Bool :=
  if g.returns then !(g.cmp.holds n g.k) else g.cmp.holds n g.k

inductive Effect
  | push (k : Nat)
  | pop (s : Nat)
  | reset (r : Nat)
  | unknown
  | none
deriving DecidableEq, Repr

structure Op where
  guards : List LenGuard
  eff : Effect
deriving DecidableEq, Repr

def Op.runs (o : Op) (n : Nat) : Bool := o.guards.all (·.allows n)

def Effect.apply : Effect → Nat → Nat
  | .push k, n => n + k
  | .pop s, n => n - s
  | .reset r, _ => r
  | .unknown, _ => 0
  | .none, n => n

/-- one call: the effect on the length when every guard lets it through, nothing otherwise -/
def Op.step (o : Op) (n : Nat) : Nat := if o.runs n then o.eff.apply n else n

def run (ops : List Op) (n : Nat) : Nat := ops.foldl (fun n o => o.step n) n

/-- the decidable condition on one op, for floor `F`: a pop of `s` is not executed at the lengths
`F … F+s-1` (the lengths ≥ F from which it would go below), a reset stores at least `F` elements. -/
def Op.safe (F : Nat) (o : Op) : Bool :=
  match o.eff with
  | .pop s => (List.range s).all (fun i => !o.runs (F + i))
  | .reset r => decide (F ≤ r)
  | .unknown => decide (F = 0)
  | .push _ => true
  | .none => true

/-! ## shapes of the regenerated facts -/

/-- one effect (or read) of one function on the container, with the guards in force where it stands -/
structure EffectFact where
  file : String
  fn : String
  guards : List LenGuard
  eff : Effect
deriving DecidableEq, Repr

/-- a slice that is process-wide state: a field of a struct type of which a package-level variable
exists, or a package-level slice variable. `floor` = the number of elements its initialiser stores. -/
structure Container where
  pkg : String
  ty : String
  field : String
  vars : String
  floor : Nat
  effects : List EffectFact
deriving DecidableEq, Repr

def EffectFact.op (e : EffectFact) : Op := ⟨e.guards, e.eff⟩

def Container.ops (c : Container) : List Op := c.effects.map (·.op)

/-- the effects of a container that may take it below its floor, by function -/
def Container.belowFloor (c : Container) : List (String × String × String) :=
  (c.effects.filter (fun e => !e.op.safe c.floor)).map (fun e => (c.pkg ++ "." ++ c.ty ++ "." ++ c.field, e.file, e.fn))

def unsafeEffects (cs : List Container) : List (String × String × String) := cs.flatMap (·.belowFloor)

/-- output buffering as coded in `syncWriter`: a buffering writer is installed iff `len > 1` -/
def buffering (n : Nat) : Bool := decide (1 < n)

/-- `ob_get_level()` -/
def level (n : Nat) : Int := (n : Int) - 1

end Model.Stack
