/-
C10 (round 8) — a LOCK SPLIT: several mutexes, one map.

`runtime/vm.go` binds global names in `globalVars` from two places: `EnsureGlobalZVal` (the `global`
statement) and `RegisterGlobalContext` (the top-level variables of a file that LoadAndRun /
RunCompiledFile has just loaded).  Both are check-then-insert sections

    Lock ℓ ; look the name up ; insert if absent ; Unlock ℓ        (the binding is the call's answer)

Model.RW has ONE lock; a section under any other mutex is "no lock" there.  Here the lock of a
section is a parameter (any number of mutexes, `Lock = Nat`), the look-up and the insert are separate
steps, goroutines and schedules are unbounded.  What the user relies on: a name is bound ONCE — all
calls, in every schedule, are answered with the same binding for the same name.
-/
namespace Model.Split

abbrev Tid := Nat
abbrev Lock := Nat
abbrev Name := Nat
abbrev Val := Nat

/-- a regenerated fact: `method` accesses `map` holding the mutexes `locks` ("" none, "a+b" both) -/
structure LockFact where
  method : String
  map : String
  locks : String
deriving DecidableEq, Repr

/-- the discipline: every access holds a lock, and all accesses of one map hold the SAME lock(s) -/
def oneLock (tbl : List LockFact) : Bool :=
  tbl.all fun f => f.locks != "" && tbl.all fun g => f.map != g.map || f.locks == g.locks

/-- one call that binds `name` to `val` unless it is bound, under mutex `lk` -/
structure Sec where
  lk : Lock
  name : Name
  val : Val
deriving DecidableEq, Repr

inductive Pc
  | idle
  | held (sec : Sec)
  | checked (sec : Sec) (seen : Option Val)
  | done (sec : Sec) (res : Val)
deriving DecidableEq, Repr

structure State where
  owner : Lock → Option Tid
  store : Name → Option Val
  pc : Tid → Pc
  prog : Tid → List Sec
  /-- responses in the order of the unlocks: the binding the call returned for the name -/
  log : List (Name × Val)

def upd {α : Type} (f : Nat → α) (k : Nat) (v : α) : Nat → α := fun x => if x = k then v else f x

/-- one step of goroutine `t` (a step that is not enabled — mutex taken, nothing to do — stutters) -/
def step (s : State) (t : Tid) : State :=
  match s.pc t with
  | .idle =>
    match s.prog t with
    | [] => s
    | sec :: more =>
      if s.owner sec.lk = none then
        { s with owner := upd s.owner sec.lk (some t), pc := upd s.pc t (.held sec), prog := upd s.prog t more }
      else s
  | .held sec => { s with pc := upd s.pc t (.checked sec (s.store sec.name)) }
  | .checked sec none =>
      { s with store := upd s.store sec.name (some sec.val), pc := upd s.pc t (.done sec sec.val) }
  | .checked sec (some w) => { s with pc := upd s.pc t (.done sec w) }
  | .done sec r =>
      { s with owner := upd s.owner sec.lk none, pc := upd s.pc t .idle, log := (sec.name, r) :: s.log }

def run (s : State) : List Tid → State
  | [] => s
  | t :: ts => run (step s t) ts

def init (prog : Tid → List Sec) : State :=
  { owner := fun _ => none, store := fun _ => none, pc := fun _ => .idle, prog := prog, log := [] }

/-- all sections of all goroutines hold the same mutex -/
def SameLock (prog : Tid → List Sec) : Prop :=
  ∀ t sec, sec ∈ prog t → ∀ t' sec', sec' ∈ prog t' → sec.lk = sec'.lk

/-- every response for a name carries the same binding -/
def BoundOnce (log : List (Name × Val)) : Prop :=
  ∀ e₁ ∈ log, ∀ e₂ ∈ log, e₁.1 = e₂.1 → e₁.2 = e₂.2

end Model.Split
