import Model.RW
/-!
C10 — lookups that keep DERIVED state next to the registry (a memo of lookup answers).

`Model.RW` proves that calls which are ONE locked section are linearizable.  A lookup that
remembers what it found — here: a negative cache "this name is not registered", consulted
without the registry lock, invalidated by every registration — is not one section any more:

    get x :  Load(memo, x)?  → miss                        (lock-free, the container synchronises itself)
             RLock; r := x ∈ reg; [Store(memo, x) if ¬r]; RUnlock
             [Store(memo, x) if ¬r]                        ← the discipline decides where the Store is
    add x :  Lock; if x ∈ reg then dup else (reg := x :: reg; Clear(memo)); Unlock

The steps below are the atomic actions of that protocol: a locked section is one step
(`C10.RW_sections_atomic` is what justifies treating it so), an operation of the self-synchronised
container is one step (the contract of `sync.Map` / `atomic.*`).  Threads are all of `Nat`, programs
and schedules arbitrary lists; every step of an unfinished thread is enabled (between two atomic
steps the lock is free).

`Disc` is the discipline: whether lookups keep a memo at all, and whether the miss is recorded INSIDE
the read section that observed it (then it is ordered with every registration: recorded before the
writer's section and cleared by it, or after it and then the scan would have hit) or after the
section has been left (then a registration can fall between the observation and the record, and the
record outlives the `Clear`).

The discipline is read off regenerated facts: `AuxFact` / `auxViolations` / `memoDiscOf` at the end.
-/
namespace Model.Memo
open Model.RW (Tid Kind Mode upd permits)

abbrev Name := Nat

inductive Op
  | add (x : Name)
  | get (x : Name)
deriving DecidableEq, Repr

inductive Res | ok | dup | hit | miss
deriving DecidableEq, Repr

structure Disc where
  /-- lookups consult and fill a negative cache -/
  memo : Bool
  /-- the miss is recorded inside the read section that observed it -/
  storeInside : Bool
deriving DecidableEq, Repr

/-- the disciplines that are proved linearizable -/
def Disc.ok (d : Disc) : Bool := !d.memo || d.storeInside

inductive Pc
  | idle
  /-- inside `get x`: the fast path did not answer, the read section is next -/
  | scan (x : Name)
  /-- inside `get x`: the read section missed and has been left, the `Store` is next -/
  | store (x : Name)
deriving DecidableEq, Repr

structure Thread where
  pc : Pc
  prog : List Op
  /-- results received so far, in program order -/
  out : List Res

structure State where
  reg : List Name
  memo : List Name
  thr : Tid → Thread
  /-- ghost: every call at the step at which it takes effect / reads the registry -/
  log : List (Tid × Op × Res)

/-- a step at which a call takes effect: registry / memo updated, the call logged with its result -/
def logged (s : State) (t : Tid) (op : Op) (r : Res) (reg memo : List Name) (th' : Thread) : State :=
  { reg := reg, memo := memo, thr := upd s.thr t th', log := s.log ++ [(t, op, r)] }

/-- a step that only moves the thread -/
def silent (s : State) (t : Tid) (th' : Thread) : State := { s with thr := upd s.thr t th' }

/-- the first step of a call (`th` = the thread, `more` = the rest of its program) -/
def stepOp (d : Disc) (s : State) (t : Tid) (th : Thread) (more : List Op) : Op → State
  | .add x =>
    -- `AddClass`: one `Lock` section — duplicate check, insert, `Clear`
    if s.reg.contains x then
      logged s t (.add x) .dup s.reg s.memo { th with prog := more, out := th.out ++ [.dup] }
    else
      logged s t (.add x) .ok (x :: s.reg) [] { th with prog := more, out := th.out ++ [.ok] }
  | .get x =>
    -- fast path: lock-free `Load`
    if d.memo && s.memo.contains x then
      logged s t (.get x) .miss s.reg s.memo { th with prog := more, out := th.out ++ [.miss] }
    else
      silent s t { th with prog := more, pc := .scan x }

/-- the `RLock` section of `get x` -/
def stepScan (d : Disc) (s : State) (t : Tid) (th : Thread) (x : Name) : State :=
  if s.reg.contains x then
    logged s t (.get x) .hit s.reg s.memo { th with pc := .idle, out := th.out ++ [.hit] }
  else if d.memo && !d.storeInside then
    -- the section is left with the miss in hand; the `Store` is a step of its own
    logged s t (.get x) .miss s.reg s.memo { th with pc := .store x }
  else
    logged s t (.get x) .miss s.reg (if d.memo then x :: s.memo else s.memo)
      { th with pc := .idle, out := th.out ++ [.miss] }

/-- the `Store` after the section has been left -/
def stepStore (s : State) (t : Tid) (th : Thread) (x : Name) : State :=
  { s with memo := x :: s.memo, thr := upd s.thr t { th with pc := .idle, out := th.out ++ [.miss] } }

/-- one atomic step of thread `t` (a stutter when it has finished) -/
def step (d : Disc) (s : State) (t : Tid) : State :=
  match (s.thr t).pc with
  | .idle =>
    match (s.thr t).prog with
    | [] => s
    | op :: more => stepOp d s t (s.thr t) more op
  | .scan x => stepScan d s t (s.thr t) x
  | .store x => stepStore s t (s.thr t) x

def run (d : Disc) (s : State) (sched : List Tid) : State := sched.foldl (step d) s

def init (progs : Tid → List Op) : State :=
  { reg := [], memo := [], thr := fun t => { pc := .idle, prog := progs t, out := [] }, log := [] }

/-- the call a thread is inside of and that has not taken effect yet -/
def Pc.pending : Pc → List Op
  | .scan x => [.get x]
  | _ => []

/-! ## What the user relies on: the sequential registry -/

def specStep (reg : List Name) : Op → List Name × Res
  | .add x => if reg.contains x then (reg, .dup) else (x :: reg, .ok)
  | .get x => (reg, if reg.contains x then .hit else .miss)

def specRun (reg : List Name) : List Op → List Name × List Res
  | [] => (reg, [])
  | op :: rest =>
    let p := specStep reg op
    let q := specRun p.1 rest
    (q.1, p.2 :: q.2)

/-- calls of thread `t` in a log -/
def logOf (log : List (Tid × Op × Res)) (t : Tid) : List (Op × Res) :=
  (log.filter (fun e => e.1 == t)).map (·.2)

/-! ## Facts regenerated from the source (see `extract/c10`: auxiliary state) -/

/-- one access of auxiliary state — a field of the registry's type the translator has no table for, or a
package-level variable — by a method on the resolution path -/
structure AuxFact where
  method : String
  field : String
  kind : Kind
  held : Mode
  /-- the field's type synchronises itself (`sync.Map`, `atomic.*`) -/
  sync : Bool
  /-- the same critical section of the same method also accesses a guarded field of the registry -/
  withReg : Bool
deriving DecidableEq, Repr

/-- Plain state obeys the lock like a guarded map.  A self-synchronised container may be read anywhere,
but every update lies inside a critical section of the registry lock that also accesses the registry. -/
def AuxFact.bad (f : AuxFact) : Bool :=
  if f.sync then f.kind == .wr && (f.held == .none || !f.withReg) else !permits f.held f.kind

def auxViolations (aux : List AuxFact) : List String :=
  (aux.filter AuxFact.bad).map (fun f =>
    f.method ++ ":" ++ f.field ++ ":" ++
      (if f.sync then
        (if f.held == .none then "memo-updated-outside-every-critical-section"
         else "memo-updated-in-a-critical-section-that-does-not-access-the-registry")
       else (if f.kind == .wr then "write" else "read") ++ "-under-" ++
        (match f.held with | .none => "no-lock" | .R => "RLock" | .W => "Lock")))

/-- the discipline the facts describe -/
def memoDiscOf (aux : List AuxFact) : Disc :=
  { memo := aux.any (·.sync),
    storeInside := aux.all (fun f => !(f.sync && f.kind == .wr) || (f.held != .none && f.withReg)) }

end Model.Memo
