/-!
# C07 — executable model of the instantiation rules (abstract classes, interfaces, abstract completeness)

Mirrors:

* `node/new.go createInstanceFromClassStmt`: `GetOrLoadClass` (an interface name is not a class: error),
  `IsAbstractClassStmt` ⇒ "Cannot instantiate abstract class", then `stmt.GetValue` → `instantiate`;
* `node/class.go ClassStatement.GetValue`: a non-abstract class is validated, then the parent's `GetValue`
  runs (so every non-abstract ancestor is validated as well) → `instChain`;
* `node/class_abstract_validate.go`: `ValidateConcreteClassAbstractMethods` → `validate`,
  `abstractMethodsDeclaredOnClass` → `ACls.abstr ≠ []`, `collectUnimplementedAbstractMethods` → `collect`,
  `unimplementedFromParentClass` → `parentMissing`, `unimplementedInterfaceMethods` → `ifaceMissing`
  (recursive over parent interfaces, **no** visited set → fuel), `classImplementsConcreteMethod` →
  `implementsM` (walks from the class itself upwards; a missing parent ends the walk with `false`).

Method names are numbers; a class lists the names of its concrete methods (instance and static together, as
`classDeclaresConcreteMethod` looks at both) and of the abstract methods it declares.
-/
namespace Model.Inst

abbrev Name := Nat

structure ACls where
  name : Name
  ext : Option Name
  impl : List Name
  isAbstract : Bool
  concrete : List Name
  abstr : List Name
deriving DecidableEq, Repr, Inhabited

structure AIfc where
  name : Name
  ext : List Name
  meths : List Name
deriving DecidableEq, Repr, Inhabited

structure World where
  classes : List ACls
  ifaces : List AIfc
deriving Repr, Inhabited

def getClass (W : World) (n : Name) : Option ACls := W.classes.find? (fun c => c.name == n)
def getIface (W : World) (n : Name) : Option AIfc := W.ifaces.find? (fun c => c.name == n)

def fuelC (W : World) : Nat := W.classes.length + 1
def fuelI (W : World) : Nat := W.ifaces.length + 1

/-- `classImplementsConcreteMethod(vm, class, m)`; `none` = out of fuel -/
def implementsM (W : World) (m : Name) : Nat → ACls → Option Bool
  | 0, _ => none
  | f+1, c =>
    if c.concrete.contains m then some true
    else
      match c.ext with
      | none => some false
      | some p =>
        match getClass W p with
        | none => some false
        | some d => implementsM W m f d

/-- a list of missing `(owner, method)` entries, an error of a lookup, or out of fuel -/
inductive Coll where
  | fuel
  | err
  | got (l : List (Name × Name))
deriving DecidableEq, Repr

def Coll.append : Coll → Coll → Coll
  | .fuel, _ => .fuel
  | .err, _ => .err
  | .got _, .fuel => .fuel
  | .got _, .err => .err
  | .got a, .got b => .got (a ++ b)

/-- `for _, x := range xs { entries, acl := g(x); if acl != nil { return acl }; missing = append(…) }` -/
def collAll (g : Name → Coll) : List Name → Coll
  | [] => .got []
  | x :: r =>
    match g x with
    | .fuel => .fuel
    | .err => .err
    | .got a => Coll.append (.got a) (collAll g r)

/-- the methods of `ms` (declared by `owner`) that the class does not implement -/
def ownMissing (impl : Name → Option Bool) (owner : Name) : List Name → Coll
  | [] => .got []
  | m :: r =>
    match impl m with
    | none => .fuel
    | some true => ownMissing impl owner r
    | some false => Coll.append (.got [(owner, m)]) (ownMissing impl owner r)

/-- `unimplementedInterfaceMethods(vm, class, ifaceName)` -/
def ifaceMissing (W : World) (impl : Name → Option Bool) : Nat → Name → Coll
  | 0, _ => .fuel
  | f+1, i =>
    match getIface W i with
    | none => .err
    | some d => Coll.append (ownMissing impl i d.meths) (collAll (fun j => ifaceMissing W impl f j) d.ext)

/-- `unimplementedFromParentClass(vm, class, parent)` -/
def parentMissing (W : World) (impl : Name → Option Bool) : Nat → ACls → Coll
  | 0, _ => .fuel
  | f+1, p =>
    Coll.append (ownMissing impl p.name p.abstr)
      (Coll.append (collAll (ifaceMissing W impl (fuelI W)) p.impl)
        (match p.ext with
         | none => .got []
         | some g =>
           match getClass W g with
           | none => .err
           | some gd => parentMissing W impl f gd))

/-- `collectUnimplementedAbstractMethods(vm, class)` (before de-duplication) -/
def collect (W : World) (c : ACls) : Coll :=
  let impl := fun m => implementsM W m (fuelC W) c
  Coll.append (collAll (ifaceMissing W impl (fuelI W)) c.impl)
    (match c.ext with
     | none => .got []
     | some p =>
       match getClass W p with
       | none => .err
       | some d => parentMissing W impl (fuelC W) d)

inductive InstOut where
  | ok
  | abstr          -- "Cannot instantiate abstract class"
  | noClass        -- not a class (an interface, or nothing of that name), or a parent/interface lookup failed
  | selfAbstract   -- "declares abstract method … and must therefore be declared abstract"
  | missing        -- "contains n abstract methods and must therefore be declared abstract or implement …"
  | stuck
deriving DecidableEq, Repr, Inhabited

/-- `ValidateConcreteClassAbstractMethods(vm, class)` -/
def validate (W : World) (c : ACls) : InstOut :=
  if c.abstr ≠ [] then .selfAbstract
  else
    match collect W c with
    | .fuel => .stuck
    | .err => .noClass
    | .got [] => .ok
    | .got (_ :: _) => .missing

/-- `ClassStatement.GetValue`: validate unless abstract, then the parent's `GetValue` -/
def instChain (W : World) : Nat → ACls → InstOut
  | 0, _ => .stuck
  | f+1, c =>
    match (if c.isAbstract then InstOut.ok else validate W c) with
    | .ok =>
      match c.ext with
      | none => .ok
      | some p =>
        match getClass W p with
        | none => .noClass
        | some d => instChain W f d
    | r => r

/-- `new C` -/
def instantiate (W : World) (n : Name) : InstOut :=
  match getClass W n with
  | none => .noClass
  | some c => if c.isAbstract then .abstr else instChain W (fuelC W) c

/-! ### `new` attempted repeatedly within one VM

`createInstanceFromClassStmt` and `ClassStatement.GetValue` run the abstract test and the completeness
validation on every call; what persists between two `new` is the class table (`W`, unchanged by `new`) and the
resolved class statement cached in a literal `new C` node (the same `W` entry). `live`: the objects created so
far, most recent first. -/

/-- what `newStep` presumes about the glue, regenerated from the source by the translator
(`Generated.C07Access.instGlue`): `createInstanceFromClassStmt` tests `IsAbstractClassStmt` before anything else,
and `ClassStatement.GetValue` runs `ValidateConcreteClassAbstractMethods`, tests its result and returns it as
its first statement — on every call, not behind a memo -/
structure Glue where
  abstractTestFirst : Bool
  validateEveryCall : Bool
deriving DecidableEq, Repr

def newStep (W : World) (live : List Name) (n : Name) : InstOut × List Name :=
  match instantiate W n with
  | .ok => (.ok, n :: live)
  | r => (r, live)

def newRun (W : World) : List Name → List Name → List InstOut × List Name
  | live, [] => ([], live)
  | live, n :: rest =>
    let r := newStep W live n
    let rr := newRun W r.2 rest
    (r.1 :: rr.1, rr.2)

/-- number of distinct missing entries (what the error message counts) -/
def missingCount (W : World) (c : ACls) : Option Nat :=
  match collect W c with
  | .got l => some l.eraseDups.length
  | _ => none

end Model.Inst
