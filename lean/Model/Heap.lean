/-
C06 — `Model.Heap`: implementation-shaped model of how origami stores, copies and
mutates PHP arrays (`data/value_array.go`, `data/zval.go`, `runtime/context.go`
`SetVariableValue`, `node/index.go` `IndexExpression.SetValue` /
`indexSetValueOnContainer`, `node/unset.go` `writeBackArrayProperty`,
`data/value_class.go` `SetProperty`, `node/clone.go`, `data/value_array_*.go`).

Go keeps `*ArrayValue` objects (a mutable `List []*ZVal`) and `*ZVal` cells behind
pointers; two containers may point at the same cell or the same array object.
The model keeps that heap *unfolded*: every occurrence of a pointer carries the
identity of what it points to (`cid` for a `*ZVal`, `aid` for an `*ArrayValue`)
together with the pointee's content, and an in-place mutation of object `aid`
(resp. cell `cid`) is applied to **every** occurrence of that identity in the whole
state (`St.updArr`, `St.mutCell`).  For the acyclic heaps PHP arrays form this is the
same thing as a pointer graph (equal identities always carry equal contents), and it
makes "who else sees this write" a structural question.

Modelled-not-verified: `sort.SliceStable` as a stable insertion sort on the integer
rank of a slot (`Val.rank`); identities are never observable by a script.
-/
namespace Model.Heap

/-- `ZVal.Name` of an array slot: `""` (positional), `"<n>"` (explicit integer key:
sparse store or after `normalizeDenseIntKeys`), `"k<s>"` (string key). -/
inductive Key
  | pos
  | int (n : Nat)
  | str (s : Nat)
deriving DecidableEq, Repr, Inhabited

/-- an index written in a script: `[n]` or `['k<s>']` -/
inductive IKey
  | int (n : Nat)
  | str (s : Nat)
deriving DecidableEq, Repr

def IKey.toKey : IKey → Key
  | .int n => .int n
  | .str s => .str s

/-- non-array values: null, an integer, an object handle (`*ClassValue`), a string (its
characters as code points). A scalar is a VALUE here: the model has no identity for the
`*StringValue` / `*IntValue` object that carries it, so nothing in the model can change a
scalar "in place" — the only way an element gets another scalar is a store (`setIdx`), which
goes through `storeSlot` (fresh cell). That is the design of the implementation too (copies
share the cells and the value objects of scalar elements *because* both are never mutated);
an implementation that appends to the shared `*StringValue` (`ls.Value += rs.Value`) is
outside what this model can express and shows up as a broken correspondence. -/
inductive Scalar
  | null
  | int (n : Int)
  | inst (h : Nat)
  | str (cs : List Nat)
deriving DecidableEq, Repr, Inhabited

/-- decimal digits of an integer as code points (`IntValue.AsString`) -/
def intChars (n : Int) : List Nat :=
  match n with
  | .ofNat k => (Nat.toDigits 10 k).map Char.toNat
  | .negSucc k => 45 :: (Nat.toDigits 10 (k + 1)).map Char.toNat

/-- the pure function a compound assignment computes: `.=` (`concatPHPValues`), `+=`, `*=`
on integers, `??=` -/
inductive Upd
  | concat (sfx : List Nat)
  | add (n : Int)
  | mul (n : Int)
  | coalesce (n : Int)
deriving DecidableEq, Repr

/-- new value from the old one; `none` = a combination the correspondence does not use -/
def Upd.apply : Upd → Scalar → Option Scalar
  | .concat sfx, .str cs => some (.str (cs ++ sfx))
  | .concat sfx, .int n => some (.str (intChars n ++ sfx))
  | .concat sfx, .null => some (.str sfx)
  | .add k, .int n => some (.int (n + k))
  | .add k, .null => some (.int k)
  | .mul k, .int n => some (.int (n * k))
  | .coalesce k, .null => some (.int k)
  | .coalesce _, s => some s
  | _, _ => none

/-- a `data.Value` as a variable / property / slot holds it: a scalar, or a pointer to
the `*ArrayValue` with identity `aid` whose `List` is `kids`
(each kid = one `*ZVal`: identity, `Name`, `Value`). -/
inductive Val
  | sc (s : Scalar)
  | arr (aid : Nat) (kids : List (Nat × Key × Val))
deriving Repr, Inhabited

/-- one `*ZVal` of an array: (cell identity, Name, Value) -/
abbrev Slot := Nat × Key × Val

/-! ### key lookup on the list of slot names (`FindSlotByIntKey`, name search) -/
namespace Keys

/-- index of the first slot whose Name is `k` -/
def findKey (k : Key) : List Key → Option Nat
  | [] => none
  | h :: t => if h = k then some 0 else (findKey k t).map (· + 1)

/-- `ArrayValue.FindSlotByIntKey`: a slot named `"<i>"` wins; otherwise position `i`
if that slot is unnamed. -/
def findInt (i : Nat) (ks : List Key) : Option Nat :=
  match findKey (.int i) ks with
  | some j => some j
  | none => if ks[i]? = some .pos then some i else none

/-- lookup of a script index -/
def find : IKey → List Key → Option Nat
  | .int i, ks => findInt i ks
  | .str s, ks => findKey (.str s) ks

end Keys

def keys (l : List Slot) : List Key := l.map (·.2.1)

def getVal? (l : List Slot) (j : Nat) : Option Val := (l[j]?).map (·.2.2)

/-! ### which fixes are in the code
`fixed` is the tree with the C06 fixes; `pinned` is the tree before them. -/
structure Cfg where
  /-- a store to an existing slot replaces the `*ZVal` (unless `RefSlotCount>0`);
      before the fix it assigned `z.Value` on the cell shared with every copy -/
  replaceCell : Bool
  /-- `IndexExpression.SetValue` stores a copy of an array value (as
      `SetVariableValue` / `SetProperty` do); before the fix it stored the pointer -/
  cloneOnElemStore : Bool
  /-- `indexSetValueOnContainer` tests `AsInt` before `AsString`; before the fix the
      write-back of `$a[0][1] = v` treated `0` as the string key `"0"` -/
  intKeyFirst : Bool
  /-- binding a variable / by-value parameter to the result of a call copies an array value,
      as for every other argument expression (`paramSetValue` → `Parameter.SetValue` →
      `SetVariableValue`). `false` = the elision "a call result is a temporary nobody else
      holds, the copy is wasted": wrong, because `return $this->p` hands back the very
      pointer the property holds (`C06_call_result_copy_needed`). -/
  copyCallResult : Bool
  /-- `CloneArrayValue` / `CloneObjectValue` copy array-valued elements recursively, so no
      array object is ever reachable from two places; and `writeBackArrayProperty` does not
      re-store (re-copy) an array into the property that already holds it. Before the fix
      (C06-6) the copy was shallow: the copies shared their inner array objects, which every
      nested write (`$b[0][0] = 9`, `$b[0][] = 9`, `unset($b[0][1])`, `$b[0]->push(9)`)
      mutates in place. -/
  deepClone : Bool
deriving DecidableEq, Repr

def Cfg.fixed : Cfg := ⟨true, true, true, true, true⟩
def Cfg.pinned : Cfg := ⟨false, false, false, true, false⟩
/-- the fixed tree with the copy at the binding of a call result elided -/
def Cfg.elided : Cfg := ⟨true, true, true, false, true⟩
/-- the tree with the first five C06 fixes, before C06-6: copies are shallow -/
def Cfg.shallow : Cfg := ⟨true, true, true, true, false⟩

/-! ### list-level stores -/

/-- what a store does: install a new slot list in the array object, or assign
`z.Value` on one cell (pinned code only). -/
inductive Act
  | list (l : List Slot)
  | cell (cid : Nat) (v : Val)

/-- `storeSlot`: write `List[j]`, keeping the Name, in a fresh `*ZVal` -/
def storeSlot (l : List Slot) (j : Nat) (cid : Nat) (v : Val) : List Slot :=
  match l[j]? with
  | some (_, k, _) => l.set j (cid, k, v)
  | none => l

/-- found slot `j`: replace the cell, or (pinned) mutate it in place -/
def hitAct (cfg : Cfg) (l : List Slot) (j : Nat) (cid : Nat) (v : Val) : Act :=
  if cfg.replaceCell then .list (storeSlot l j cid v)
  else match l[j]? with
    | some (c, _, _) => .cell c v
    | none => .list l

/-- `ArrayValue.SetIntKey` -/
def setIntKey (cfg : Cfg) (l : List Slot) (i : Nat) (cid : Nat) (v : Val) : Act :=
  match Keys.findInt i (keys l) with
  | some j => hitAct cfg l j cid v
  | none =>
    if i = l.length then .list (l ++ [(cid, .pos, v)])
    else if l.length < i then .list (l ++ [(cid, .int i, v)])
    else .list (l.set i (cid, .pos, v))      -- `a.List[i] = NewZVal(value)` over a named slot

/-- `ArrayValue.SetStringKey` / the string-key branch of `IndexExpression.SetValue` -/
def setNamedKey (cfg : Cfg) (l : List Slot) (k : Key) (cid : Nat) (v : Val) : Act :=
  match Keys.findKey k (keys l) with
  | some j => hitAct cfg l j cid v
  | none => .list (l ++ [(cid, k, v)])

/-- the `*data.ArrayValue` case of `IndexExpression.SetValue`: `[] =`, int key, string key -/
def storeAct (cfg : Cfg) (l : List Slot) (k : Option IKey) (cid : Nat) (v : Val) : Act :=
  match k with
  | none => .list (l ++ [(cid, .pos, v)])
  | some (.int i) => setIntKey cfg l i cid v
  | some (.str s) => setNamedKey cfg l (.str s) cid v

/-- `indexSetValueOnContainer` on an array (used by the write-back): same as above,
except that the pinned code tested `AsString` first, so an int key was looked up (and
appended) as the name `"<i>"`. -/
def writeBackAct (cfg : Cfg) (l : List Slot) (k : IKey) (cid : Nat) (v : Val) : Act :=
  match k with
  | .int i => if cfg.intKeyFirst then setIntKey cfg l i cid v else setNamedKey cfg l (.int i) cid v
  | .str s => setNamedKey cfg l (.str s) cid v

/-- `normalizeDenseIntKeys`: unnamed slot at position `j` gets the Name `"<j>"`
(in a fresh `*ZVal`: `cid0 + j`). -/
def normFrom (j cid0 : Nat) : List Slot → List Slot
  | [] => []
  | (c, k, v) :: r =>
    (if k = .pos then (cid0 + j, .int j, v) else (c, k, v)) :: normFrom (j + 1) cid0 r

/-- `ArrayValue.UnsetKey`; second component = number of fresh cell ids used -/
def unsetKey (l : List Slot) (k : IKey) (cid0 : Nat) : List Slot × Nat :=
  match k with
  | .int i =>
    let l1 := normFrom 0 cid0 l
    (match Keys.findKey (.int i) (keys l1) with
     | some j => l1.eraseIdx j
     | none => l1, l.length)
  | .str s =>
    (match Keys.findKey (.str s) (keys l) with
     | some j => l.eraseIdx j
     | none => l, 0)

/-! ### in-place methods (`$a->push(n)`, `pop`, `shift`, `unshift(n)`, `sort()`) -/

inductive Meth
  | push (n : Int)
  | pop
  | shift
  | unshift (n : Int)
  | sort
deriving DecidableEq, Repr

/-- sort key of a slot (stands for `Value.AsString()` order on the values the
correspondence uses: single-digit integers; anything else ranks 0) -/
def Val.rank : Val → Int
  | .sc (.int n) => n
  | _ => 0

def insSlot (x : Slot) : List Slot → List Slot
  | [] => [x]
  | y :: ys => if x.2.2.rank < y.2.2.rank then x :: y :: ys else y :: insSlot x ys

/-- stable insertion sort (the cells move with their Names, as in `ArrayValueSort.Call`) -/
def sortSlots (l : List Slot) : List Slot := l.foldl (fun acc x => insSlot x acc) []

def applyMeth (l : List Slot) (m : Meth) (cid : Nat) : List Slot :=
  match m with
  | .push n => l ++ [(cid, .pos, .sc (.int n))]
  | .pop => l.dropLast
  | .shift => l.tail
  | .unshift n => (cid, .pos, .sc (.int n)) :: l
  | .sort => sortSlots l

/-! ### mutation of a heap object = rewrite of every occurrence of its identity -/

mutual
/-- install `f kids` in every occurrence of array object `a` -/
def Val.updArr (a : Nat) (f : List Slot → List Slot) : Val → Val
  | .sc s => .sc s
  | .arr b kids => if b = a then .arr b (f kids) else .arr b (updArrL a f kids)
def updArrL (a : Nat) (f : List Slot → List Slot) : List Slot → List Slot
  | [] => []
  | (c, k, v) :: r => (c, k, v.updArr a f) :: updArrL a f r
end

mutual
/-- `z.Value = w` on every occurrence of cell `c` -/
def Val.mutCell (c : Nat) (w : Val) (v : Val) : Val :=
  match v with
  | .sc s => .sc s
  | .arr b kids => .arr b (mutCellL c w kids)
termination_by structural v
def mutCellL (c : Nat) (w : Val) (l : List Slot) : List Slot :=
  match l with
  | [] => []
  | (c', k, v) :: r => (c', k, if c' = c then w else Val.mutCell c w v) :: mutCellL c w r
termination_by structural l
end

mutual
/-- every array identity occurring in a value (root first) -/
def Val.aids : Val → List Nat
  | .sc _ => []
  | .arr a kids => a :: aidsL kids
def aidsL : List Slot → List Nat
  | [] => []
  | (_, _, v) :: r => v.aids ++ aidsL r
end

/-! ### state -/

/-- `names`: variable → its `*ZVal` (two names share one after `$x = &$y`);
`vcells`: the `Value` of each variable cell; `objs`: the property values of each
`*ClassValue` (declared properties `p0 … p(np-1)`); `next`: allocator. -/
structure St where
  names : List Nat
  vcells : List Val
  objs : List (List Val)
  next : Nat
deriving Repr

def St.updArr (s : St) (a : Nat) (f : List Slot → List Slot) : St :=
  { s with vcells := s.vcells.map (Val.updArr a f), objs := s.objs.map (·.map (Val.updArr a f)) }

def St.mutCell (s : St) (c : Nat) (w : Val) : St :=
  { s with vcells := s.vcells.map (Val.mutCell c w), objs := s.objs.map (·.map (Val.mutCell c w)) }

def St.applyAct (s : St) (a : Nat) : Act → St
  | .list l => s.updArr a (fun _ => l)
  | .cell c w => s.mutCell c w

/-- a place a script can name: `$x`, `$x->p`, `place[k]` -/
inductive Place
  | var (x : Nat)
  | prop (x : Nat) (p : Nat)
  | idx (b : Place) (k : IKey)
deriving DecidableEq, Repr

def St.varVal? (s : St) (x : Nat) : Option Val :=
  match s.names[x]? with
  | some c => s.vcells[c]?
  | none => none

/-- the object handle a variable holds -/
def St.varObj? (s : St) (x : Nat) : Option Nat :=
  match s.varVal? x with
  | some (.sc (.inst h)) => some h
  | _ => none

def St.propVal? (s : St) (h p : Nat) : Option Val :=
  match s.objs[h]? with
  | some ps => ps[p]?
  | none => none

def St.setProp (s : St) (h p : Nat) (v : Val) : St :=
  match s.objs[h]? with
  | some ps => { s with objs := s.objs.set h (ps.set p v) }
  | none => s

def St.setVar (s : St) (x : Nat) (v : Val) : St :=
  match s.names[x]? with
  | some c => { s with vcells := s.vcells.set c v }
  | none => s

/-- reading a place (`GetValue`): the pointer itself, no copy. A missing key reads as
null; indexing a non-array is outside the model (`none`). -/
def readPlace (s : St) : Place → Option Val
  | .var x => s.varVal? x
  | .prop x p =>
    match s.varObj? x with
    | some h => s.propVal? h p
    | none => none
  | .idx b k =>
    match readPlace s b with
    | some (.arr _ kids) =>
      (match Keys.find k (keys kids) with
       | some j => getVal? kids j
       | none => some (.sc .null))
    | _ => none

mutual
/-- `CloneArrayValue` (C06-6): a new array object; the cells of scalar elements are shared
with the source, an element that is itself an array gets a new cell holding a recursive
copy. Every array object of the result is freshly allocated. -/
def Val.deepCopy : Val → Nat → Val × Nat
  | .sc s, n => (.sc s, n)
  | .arr _ kids, n =>
    match deepCopyL kids (n + 1) with
    | (kids', n') => (.arr n kids', n')
def deepCopyL : List Slot → Nat → List Slot × Nat
  | [], n => ([], n)
  | (c, k, v) :: r, n =>
    match v.deepCopy (n + 1) with
    | (v', n1) =>
      match deepCopyL r n1 with
      | (r', n2) => ((match v with | .sc _ => c | .arr _ _ => n, k, v') :: r', n2)
end

/-- `CloneArrayValue` before C06-6: a new array object with the same cells (inner array
objects shared with the source) -/
def shallowCopy (v : Val) (next : Nat) : Val × Nat :=
  match v with
  | .arr _ kids => (.arr next kids, next + 1)
  | v => (v, next)

/-- `CloneArrayOnStore` / `SetVariableValue` / `SetProperty`: the copy made when an array
value is stored -/
def cloneOnStore (cfg : Cfg) (v : Val) (next : Nat) : Val × Nat :=
  if cfg.deepClone then v.deepCopy next else shallowCopy v next

/-- `writeBackArrayProperty(ctx, place, arr)` after the array at `place` was mutated -/
def writeBack (cfg : Cfg) (s : St) : Place → St
  | .var _ => s
  | .prop x p =>
    -- C06-6: the property already holds the array that was mutated in place: nothing to store.
    -- Before: `cv.SetProperty(p, arr)`, the property got a (shallow) copy of the array it held
    if cfg.deepClone then s else
    match readPlace s (.prop x p), s.varObj? x with
    | some (.arr _ kids), some h => { (s.setProp h p (.arr s.next kids)) with next := s.next + 1 }
    | _, _ => s
  | .idx b2 k2 =>
    -- `indexSetValueOnContainer(parent, k2, arr)`, then the parent is written back in turn
    match readPlace s b2, readPlace s (.idx b2 k2) with
    | some (.arr pa pkids), some child =>
      writeBack cfg { (s.applyAct pa (writeBackAct cfg pkids k2 s.next child)) with next := s.next + 1 } b2
    | _, _ => s

/-- does the key exist in the array at `b` (`indexExpressionKeyExists`)? For `b = b'[k']`
the parent key is asked first: a missing parent key answers "no" (so that
`$x[1][2][] = v` creates `$x[1]`, then `$x[1][2]`). -/
def keyExists (s : St) : Place → IKey → Option Bool
  | .idx b' k', k =>
    match keyExists s b' k' with
    | some true =>
      (match readPlace s (.idx b' k') with
       | some (.arr _ kids) => some (Keys.find k (keys kids)).isSome
       | _ => none)
    | r => r
  | b, k =>
    match readPlace s b with
    | some (.arr _ kids) => some (Keys.find k (keys kids)).isSome
    | _ => none

/-- the array case of `IndexExpression.SetValue` at place `b` with the value already
prepared: mutate the array object in place, then write back. -/
def storeAt (cfg : Cfg) (s : St) (b : Place) (k : Option IKey) (v : Val) : Option St :=
  match readPlace s b with
  | some (.arr a kids) =>
    some (writeBack cfg { (s.applyAct a (storeAct cfg kids k s.next v)) with next := s.next + 1 } b)
  | _ => none

/-- `IndexExpression.SetValue`: `b[k] = v` / `b[] = v`.  A missing parent key is
created first (`inner.SetValue(ctx, emptyArr)`). -/
def setIdx (cfg : Cfg) : Place → St → Option IKey → Val → Option St
  | .idx b2 k2, s, k, v =>
    let (v, n) := if cfg.cloneOnElemStore then cloneOnStore cfg v s.next else (v, s.next)
    let s := { s with next := n }
    let s1 :=
      match keyExists s b2 k2 with
      | some false =>
        (match setIdx cfg b2 { s with next := s.next + 1 } (some k2) (.arr s.next []) with
         | some s' => s'
         | none => s)
      | _ => s
    storeAt cfg s1 (.idx b2 k2) k v
  | b, s, k, v =>
    let (v, n) := if cfg.cloneOnElemStore then cloneOnStore cfg v s.next else (v, s.next)
    storeAt cfg { s with next := n } b k v

/-- `unset(b[k])` -/
def unsetAt (cfg : Cfg) (s : St) (b : Place) (k : IKey) : Option St :=
  match readPlace s b with
  | some (.arr a kids) =>
    let (l, used) := unsetKey kids k s.next
    some (writeBack cfg { (s.updArr a (fun _ => l)) with next := s.next + used } b)
  | _ => none

/-- `b->m(...)`: the method works on `&a.List` of the array object `b` evaluates to -/
def methAt (s : St) (b : Place) (m : Meth) : Option St :=
  match readPlace s b with
  | some (.arr a kids) => some { (s.updArr a (fun _ => applyMeth kids m s.next)) with next := s.next + 1 }
  | _ => none

/-! ### literals -/

/-- an array literal `[ … ]`, a scalar, or (as an item of a literal) the value of a place -/
inductive Lit
  | int (n : Int)
  | null
  | arr (items : List (Key × Lit))
  | rd (p : Place)
  | str (cs : List Nat)
deriving Repr

mutual
/-- evaluate a literal (`node.Array.GetValue`): every array and every cell is freshly
allocated; an item that is an array value read from a place is stored as a copy
(pinned code: as the pointer itself). Places are read in the state before the
statement. -/
def Lit.alloc (cfg : Cfg) (s : St) : Lit → Nat → Option (Val × Nat)
  | .int n, nx => some (.sc (.int n), nx)
  | .null, nx => some (.sc .null, nx)
  | .str cs, nx => some (.sc (.str cs), nx)
  | .rd p, nx => (readPlace s p).map (·, nx)
  | .arr items, nx =>
    match allocL cfg s items (nx + 1) with
    | some (kids, nx') => some (.arr nx kids, nx')
    | none => none
def allocL (cfg : Cfg) (s : St) : List (Key × Lit) → Nat → Option (List Slot × Nat)
  | [], nx => some ([], nx)
  | (k, l) :: r, nx =>
    match l.alloc cfg s (nx + 1) with
    | some (v, n1) =>
      let (v, n1) := if cfg.cloneOnElemStore then cloneOnStore cfg v n1 else (v, n1)
      (match allocL cfg s r n1 with
       | some (rest, n2) => some ((nx, k, v) :: rest, n2)
       | none => none)
    | none => none
end

/-- right-hand sides -/
inductive RV
  | int (n : Int)
  | null
  | lit (l : Lit)
  | rd (p : Place)
  /-- the result of a call whose body is `return <place>;` — a getter `$o->getP()`
      (`return $this->p`), a function returning a `static` local or a global, `at($c, k)`
      (`return $x[k]` on a copy of `$c`, which shares the inner array objects):
      `ReturnStatement` evaluates the expression with `GetValue` and hands back the very
      pointer, no copy. The value reaches the next by-value boundary with no variable in
      between. -/
  | call (p : Place)
  /-- a string literal -/
  | str (cs : List Nat)
  /-- the right-hand side of a compound assignment `place op= c` (`assignIndexConcat`,
      `BinaryAssign…`): the scalar at `place` is READ, the new scalar is COMPUTED from it
      (`concatPHPValues`, `+`, `*`, `??`), and the statement then stores that new value like
      any other (`$b[k] .= 'x'` is `setIdx b k (.upd (.idx b k) (.concat x))`). Nothing is
      written while the right-hand side is evaluated. -/
  | upd (p : Place) (u : Upd)
deriving Repr

def RV.isCall : RV → Bool
  | .call _ => true
  | _ => false

def evalRV (cfg : Cfg) (s : St) : RV → Option (Val × St)
  | .int n => some (.sc (.int n), s)
  | .null => some (.sc .null, s)
  | .lit l => (l.alloc cfg s s.next).map (fun (v, n) => (v, { s with next := n }))
  | .rd p => (readPlace s p).map (·, s)
  | .call p => (readPlace s p).map (·, s)
  | .str cs => some (.sc (.str cs), s)
  | .upd p u =>
    match readPlace s p with
    | some (.sc sv) => (u.apply sv).map (fun r => (.sc r, s))
    | _ => none

/-! ### operations (one script statement each) -/

inductive Op
  /-- `$x = rhs` — also by-value parameter binding (`f(rhs)`, `new K(rhs)`, `$o->m(rhs)`: `$x`
      is the callee's parameter) and `$x = f(..)` of a returned array: all end in
      `Context.SetVariableValue` -/
  | setVar (x : Nat) (r : RV)
  /-- `$x->p = rhs` (`ClassValue.SetProperty`) -/
  | setProp (x p : Nat) (r : RV)
  /-- `place[k] = rhs`, `place[] = rhs` -/
  | setIdx (b : Place) (k : Option IKey) (r : RV)
  /-- `unset(place[k])` -/
  | unset (b : Place) (k : IKey)
  /-- `place->push(n)` … -/
  | meth (b : Place) (m : Meth)
  /-- `$x = new O` (all `np` properties null) -/
  | new (x : Nat)
  /-- `$x = clone $y` -/
  | clone (x y : Nat)
  /-- `$x = &$y` -/
  | ref (x y : Nat)
deriving Repr

/-- the name a place belongs to: `$x` or `$x->p` -/
def Place.root : Place → Place
  | .idx b _ => b.root
  | p => p

def Place.isRoot : Place → Bool
  | .var _ => true
  | .prop _ _ => true
  | .idx _ _ => false

/-- the statement writes the array a name holds, not an array nested inside it -/
def Op.flat : Op → Bool
  | .setIdx b _ _ => b.isRoot
  | .unset b _ => b.isRoot
  | .meth b _ => b.isRoot
  | _ => true

/-- every write of the program goes to the array a name holds (syntactic, decidable) -/
def FlatWrites (ops : List Op) : Prop := ∀ op ∈ ops, op.flat = true

instance (ops : List Op) : Decidable (FlatWrites ops) := by unfold FlatWrites; infer_instance

/-- the place a mutating statement writes through -/
def Op.target : Op → Option Place
  | .setIdx b _ _ => some b
  | .unset b _ => some b
  | .meth b _ => some b
  | _ => none

def Op.isRef : Op → Bool
  | .ref _ _ => true
  | _ => false

/-- number of declared properties of the one class `O` -/
def np : Nat := 2

/-- `CloneExpression`: `cloned.SetProperty(key, v)` for every property -/
def cloneProps (cfg : Cfg) : List Val → Nat → List Val × Nat
  | [], n => ([], n)
  | v :: r, n =>
    let (v', n1) := cloneOnStore cfg v n
    let (r', n2) := cloneProps cfg r n1
    (v' :: r', n2)

def stepOpt (cfg : Cfg) (s : St) : Op → Option St
  | .setVar x r =>
    match evalRV cfg s r with
    | some (v, s1) =>
      let (v', n) := if cfg.copyCallResult || !r.isCall then cloneOnStore cfg v s1.next else (v, s1.next)
      some { (s1.setVar x v') with next := n }
    | none => none
  | .setProp x p r =>
    match evalRV cfg s r with
    | some (v, s1) =>
      (match s1.varObj? x with
       | some h =>
         (match s1.propVal? h p with
          | some _ =>
            let (v', n) := cloneOnStore cfg v s1.next
            some { (s1.setProp h p v') with next := n }
          | none => none)          -- undeclared property: outside the model
       | none => none)
    | none => none
  | .setIdx b k r =>
    match evalRV cfg s r with
    | some (v, s1) => setIdx cfg b s1 k v
    | none => none
  | .unset b k => unsetAt cfg s b k
  | .meth b m => methAt s b m
  | .new x =>
    some { (s.setVar x (.sc (.inst s.objs.length))) with objs := s.objs ++ [List.replicate np (.sc .null)] }
  | .clone x y =>
    match s.varObj? y with
    | some h =>
      (match s.objs[h]? with
       | some ps =>
         let (ps', n) := cloneProps cfg ps s.next
         some { ({ s with objs := s.objs ++ [ps'] }.setVar x (.sc (.inst s.objs.length))) with next := n }
       | none => none)
    | none => none
  | .ref x y =>
    match s.names[y]? with
    | some c => if x < s.names.length then some { s with names := s.names.set x c } else none
    | none => none

/-- a statement outside the modelled fragment (indexing a non-array, unknown variable …)
leaves the state unchanged; the driver reports it so that the generator never relies on it -/
def step (cfg : Cfg) (s : St) (op : Op) : St := (stepOpt cfg s op).getD s

def init (nv : Nat) : St :=
  { names := List.range nv, vcells := List.replicate nv (.sc .null), objs := [], next := 0 }

def run (cfg : Cfg) (nv : Nat) (ops : List Op) : St := ops.foldl (step cfg) (init nv)

end Model.Heap
