import Spec.Ctl
/-!
# Model.Ctl — the control-flow core evaluated the way the Go nodes do it

`compile` mirrors what the parser builds from a source program (`Spec.Ctl.Prog`):

* every variable becomes an index into the slot vector of its scope, handed out in order
  of first appearance while parsing (`parser/scope_manager.go`: parameters first, then the
  `static` declarations, then the body; `for`: initialisers, condition, increments, body);
* the fused nodes of `node/fused_assign.go` are chosen by the same syntactic patterns as
  `NewBinaryAssign`, `NewBinaryLe`, `NewPostfixIncr`, `NewForStatement`:
  `$x = $y`, `$x = n`, `$x = a * b`, `$x = a + b` → `fastAssign` (VarFastAssign, with the
  original right-hand side as `slow`), `$x <= n` → `varIntLe`, `$x++` → `postIncr`
  (VarPostIncr), `$x++` as a `for` increment → `stmtIncr` (VarStmtIncr);
* `break n` keeps its level in the node, `continue n` is parsed as `continue; n;` (the
  literal statement behind it is dead code, so it is dropped here).

The evaluator returns, like every `GetValue`, a value or a `Ctl` (Break / Continue /
Return / Throw; `crash` = Go panic) and each node applies its own rule:
every loop node consumes *any* Break (its level is never looked at) and a Continue;
`switch` (node/switch.go) runs from the first matching case through the following bodies
and consumes Break and Continue; a call (node/call.go, node/function.go) makes a fresh
slot vector, binds the arguments by parameter index, runs the body, turns Return into the
value, an escaping Break/Continue into a Throw, and — when the body runs off its end —
yields the value of the last statement executed.  A `static` declaration binds the slot to
the function's persistent cell (data/static_locals.go), so reads and writes of that slot
go to the cell.
-/
namespace Model.Ctl
open Spec.Ctl (Val BinOp FName Var IncKind binop incVal looseEq strictEq wrap64 aget aset)

/-! ## node tree -/

inductive FastOp where
  | copy | mul | add
  deriving DecidableEq, Repr

/-- `preExtract`: a variable slot, an int literal, or "complex" (fall back) -/
inductive Opnd where
  | slot (i : Nat)
  | lit (n : Int)
  | complex
  deriving DecidableEq, Repr

mutual
inductive MExpr where
  | lit (v : Val)
  | var (i : Nat)
  | bin (op : BinOp) (a b : MExpr)
  /-- VarIntLe: `$i <= n`, `le` is the BinaryLe it replaces -/
  | varIntLe (i : Nat) (n : Int) (le : MExpr)
  | not (a : MExpr)
  | and (a b : MExpr)
  | or (a b : MExpr)
  /-- BinaryAssignVariable -/
  | assignVar (i : Nat) (rhs : MExpr)
  /-- VarFastAssign -/
  | fastAssign (op : FastOp) (dst : Nat) (l r : Opnd) (slow : MExpr)
  /-- VarPostIncr / VarPostDecr (fallback PostfixIncr / PostfixDecr) -/
  | postIncr (i : Nat)
  | postDecr (i : Nat)
  /-- VarStmtIncr (fallback PostfixIncr) -/
  | stmtIncr (i : Nat)
  /-- UnaryIncr / UnaryDecr on a variable -/
  | preIncr (i : Nat)
  | preDecr (i : Nat)
  | call (g : FName) (args : MArgs)
  | matchE (subj : MExpr) (arms : MArms) (dflt : MExpr)
inductive MArgs where
  | nil
  | cons (e : MExpr) (rest : MArgs)
inductive MArms where
  | nil
  | cons (c r : MExpr) (rest : MArms)
end

mutual
inductive MStmt where
  | echo (es : MArgs)
  | expr (e : MExpr)
  | ite (c : MExpr) (t : MBlock) (elifs : MElseIfs) (els : MBlock)
  | while_ (c : MExpr) (b : MBlock)
  | doWhile (b : MBlock) (c : MExpr)
  | for_ (inits : MArgs) (cond : MExpr) (incs : MArgs) (b : MBlock)
  | foreach (e : MExpr) (k : Option Nat) (v : Nat) (b : MBlock)
  | switch (e : MExpr) (cases : MCases) (dflt : MBlock)
  | brk (level : Nat)
  | cont
  | ret (e : Option MExpr)
inductive MBlock where
  | nil
  | cons (s : MStmt) (rest : MBlock)
inductive MElseIfs where
  | nil
  | cons (c : MExpr) (b : MBlock) (rest : MElseIfs)
inductive MCases where
  | nil
  | cons (label : MExpr) (b : MBlock) (rest : MCases)
end

structure MParam where
  idx : Nat
  dflt : Option Val

/-- FunctionStatement: `nvars` = length of the scope's variable table; `statics` are the
StaticVarStatement nodes that open the body (slot index, constant initialiser). -/
structure MFun where
  name : FName
  params : List MParam
  nvars : Nat
  statics : List (Nat × Val)
  body : MBlock

structure MProg where
  funs : List MFun
  nvars : Nat
  main : MBlock

/-! ## compile (the parser) -/

open Spec.Ctl (Expr Args Arms Stmt Block ElseIfs Cases Param FunDecl Prog)

mutual
def varsE : Expr → List Var
  | .lit _ => []
  | .var x => [x]
  | .bin _ a b => varsE a ++ varsE b
  | .not a => varsE a
  | .and a b => varsE a ++ varsE b
  | .or a b => varsE a ++ varsE b
  | .assign x e => x :: varsE e
  | .inc _ x => [x]
  | .call _ args => varsArgs args
  | .matchE s arms d => varsE s ++ (varsArms arms ++ varsE d)
def varsArgs : Args → List Var
  | .nil => []
  | .cons e rest => varsE e ++ varsArgs rest
def varsArms : Arms → List Var
  | .nil => []
  | .cons c r rest => varsE c ++ (varsE r ++ varsArms rest)
end

mutual
def varsS : Stmt → List Var
  | .echo es => varsArgs es
  | .expr e => varsE e
  | .ite c t elifs els => varsE c ++ (varsB t ++ (varsElifs elifs ++ varsB els))
  | .while_ c b => varsE c ++ varsB b
  | .doWhile b c => varsB b ++ varsE c
  | .for_ inits cond incs b => varsArgs inits ++ (varsE cond ++ (varsArgs incs ++ varsB b))
  | .foreach e k v b => varsE e ++ (k.toList ++ (v :: varsB b))
  | .switch e cases dflt => varsE e ++ (varsCases cases ++ varsB dflt)
  | .brk _ => []
  | .cont _ => []
  | .ret none => []
  | .ret (some e) => varsE e
def varsB : Block → List Var
  | .nil => []
  | .cons s rest => varsS s ++ varsB rest
def varsElifs : ElseIfs → List Var
  | .nil => []
  | .cons c b rest => varsE c ++ (varsB b ++ varsElifs rest)
def varsCases : Cases → List Var
  | .nil => []
  | .cons l b rest => varsE l ++ (varsB b ++ varsCases rest)
end

/-- `AddVariable`: a new name gets the next index, a known one keeps its index -/
def addVar (sc : List Var) (x : Var) : List Var := if x ∈ sc then sc else sc ++ [x]

/-- the scope's variable table after meeting the names `xs` in this order -/
def mkScope (xs : List Var) : List Var := xs.foldl addVar []

/-- index of a name in the table (`sc.length` if absent) -/
def idx : List Var → Var → Nat
  | [], _ => 0
  | y :: ys, x => if x = y then 0 else idx ys x + 1

def preOpnd (sc : List Var) : Expr → Opnd
  | .var y => .slot (idx sc y)
  | .lit (.int n) => .lit n
  | _ => .complex

/-- `NewBinaryLe` -/
def mkBin (sc : List Var) (op : BinOp) (a b : Expr) (ca cb : MExpr) : MExpr :=
  match op, a, b with
  | .le, .var x, .lit (.int n) => .varIntLe (idx sc x) n (.bin .le ca cb)
  | _, _, _ => .bin op ca cb

/-- `NewBinaryAssign` with a variable on the left -/
def mkAssign (sc : List Var) (x : Var) (e : Expr) (ce : MExpr) : MExpr :=
  match e with
  | .var y => .fastAssign .copy (idx sc x) (.slot (idx sc y)) .complex ce
  | .lit (.int n) => .fastAssign .copy (idx sc x) (.lit n) .complex ce
  | .bin .mul a b => .fastAssign .mul (idx sc x) (preOpnd sc a) (preOpnd sc b) ce
  | .bin .add a b => .fastAssign .add (idx sc x) (preOpnd sc a) (preOpnd sc b) ce
  | _ => .assignVar (idx sc x) ce

def mkInc (sc : List Var) (k : IncKind) (x : Var) : MExpr :=
  match k with
  | .postInc => .postIncr (idx sc x)
  | .postDec => .postDecr (idx sc x)
  | .preInc => .preIncr (idx sc x)
  | .preDec => .preDecr (idx sc x)

mutual
def compE (sc : List Var) : Expr → MExpr
  | .lit v => .lit v
  | .var x => .var (idx sc x)
  | .bin op a b => mkBin sc op a b (compE sc a) (compE sc b)
  | .not a => .not (compE sc a)
  | .and a b => .and (compE sc a) (compE sc b)
  | .or a b => .or (compE sc a) (compE sc b)
  | .assign x e => mkAssign sc x e (compE sc e)
  | .inc k x => mkInc sc k x
  | .call g args => .call g (compArgs sc args)
  | .matchE s arms d => .matchE (compE sc s) (compArms sc arms) (compE sc d)
def compArgs (sc : List Var) : Args → MArgs
  | .nil => .nil
  | .cons e rest => .cons (compE sc e) (compArgs sc rest)
def compArms (sc : List Var) : Arms → MArms
  | .nil => .nil
  | .cons c r rest => .cons (compE sc c) (compE sc r) (compArms sc rest)
end

/-- `NewForStatement`: a `$v++` increment becomes VarStmtIncr -/
def toStmtIncr : MExpr → MExpr
  | .postIncr i => .stmtIncr i
  | e => e

def mapIncs : MArgs → MArgs
  | .nil => .nil
  | .cons e rest => .cons (toStmtIncr e) (mapIncs rest)

mutual
def compS (sc : List Var) : Stmt → MStmt
  | .echo es => .echo (compArgs sc es)
  | .expr e => .expr (compE sc e)
  | .ite c t elifs els => .ite (compE sc c) (compB sc t) (compElifs sc elifs) (compB sc els)
  | .while_ c b => .while_ (compE sc c) (compB sc b)
  | .doWhile b c => .doWhile (compB sc b) (compE sc c)
  | .for_ inits cond incs b =>
    .for_ (compArgs sc inits) (compE sc cond) (mapIncs (compArgs sc incs)) (compB sc b)
  | .foreach e k v b => .foreach (compE sc e) (k.map (idx sc)) (idx sc v) (compB sc b)
  | .switch e cases dflt => .switch (compE sc e) (compCases sc cases) (compB sc dflt)
  | .brk n => .brk n
  | .cont _ => .cont
  | .ret none => .ret none
  | .ret (some e) => .ret (some (compE sc e))
def compB (sc : List Var) : Block → MBlock
  | .nil => .nil
  | .cons s rest => .cons (compS sc s) (compB sc rest)
def compElifs (sc : List Var) : ElseIfs → MElseIfs
  | .nil => .nil
  | .cons c b rest => .cons (compE sc c) (compB sc b) (compElifs sc rest)
def compCases (sc : List Var) : Cases → MCases
  | .nil => .nil
  | .cons l b rest => .cons (compE sc l) (compB sc b) (compCases sc rest)
end

/-- the variable table of a function: parameters, `static` declarations, body -/
def funScope (d : FunDecl) : List Var :=
  mkScope (d.params.map (·.name) ++ (d.svars ++ varsB d.body))

def compFun (d : FunDecl) : MFun :=
  let sc := funScope d
  { name := d.name,
    params := d.params.map fun p => ⟨idx sc p.name, p.dflt⟩,
    nvars := sc.length,
    statics := d.statics.map fun (x, v) => (idx sc x, v),
    body := compB sc d.body }

def mainScope (p : Prog) : List Var := mkScope (varsB p.main)

def compile (p : Prog) : MProg :=
  { funs := p.funs.map compFun,
    nvars := (mainScope p).length,
    main := compB (mainScope p) p.main }

/-! ## state -/

/-- one Context: the slot vector, which slots a `static` declaration has bound to the
function's persistent cells, and whose cells those are -/
structure Frame where
  slots : List Val
  bound : List Nat
  fn : Option FName

structure MSt where
  fr : Frame
  /-- StaticLocals of every function: (function, slot index) ↦ cell -/
  statics : List ((FName × Nat) × Val)
  out : List String

/-- value held by slot `i` (`none`: index out of range — `GetIndexZVal` returns nil).
A bound slot *is* the function's cell (a pointer in Go: it cannot be absent; `bindStatic`
creates the cell before it binds the slot). -/
def MSt.getSlot (s : MSt) (i : Nat) : Option Val :=
  match s.fr.fn with
  | some g => if i ∈ s.fr.bound then some ((aget s.statics (g, i)).getD .null) else s.fr.slots[i]?
  | none => s.fr.slots[i]?

def MSt.setSlot (s : MSt) (i : Nat) (v : Val) : Option MSt :=
  match s.fr.fn with
  | some g =>
    if i ∈ s.fr.bound then
      some { s with statics := aset s.statics (g, i) v }
    else if i < s.fr.slots.length then
      some { s with fr := { s.fr with slots := s.fr.slots.set i v } }
    else none
  | none =>
    if i < s.fr.slots.length then
      some { s with fr := { s.fr with slots := s.fr.slots.set i v } }
    else none

def MSt.echo (s : MSt) (v : Val) : MSt := { s with out := v.toStr :: s.out }

inductive Ctl where
  | brk (level : Nat)
  | cont
  | ret (v : Val)
  | thr
  /-- a Go panic -/
  | crash
  deriving DecidableEq, Repr

inductive MRes (α : Type) where
  | ok (a : α) (s : MSt)
  | ctl (c : Ctl) (s : MSt)
  | timeout

/-- `v, ctl := x.GetValue(ctx); if ctl != nil { return nil, ctl }` -/
def MRes.bind {α β : Type} (r : MRes α) (k : α → MSt → MRes β) : MRes β :=
  match r with
  | .ok a s => k a s
  | .ctl c s => .ctl c s
  | .timeout => .timeout

def lookupFun (funs : List MFun) (g : FName) : Option MFun :=
  funs.find? (fun d => d.name == g)

/-! ## non-recursive node bodies -/

/-- Context.SetVariableValue through `Variable.SetValue`: an out-of-range index is a
thrown error for scalars and a Go panic (`c.variables[idx]`) for arrays -/
def assignTo (s : MSt) (i : Nat) (v : Val) : MRes Val :=
  match s.setSlot i v with
  | some s' => .ok v s'
  | none => match v with
    | .list _ => .ctl .crash s
    | _ => .ctl .thr s

/-- BinaryXxx.GetValue given the evaluator for the operands -/
def binM (ev : MExpr → MSt → MRes Val) (op : BinOp) (a b : MExpr) (s : MSt) : MRes Val :=
  (ev a s).bind fun va s1 =>
  (ev b s1).bind fun vb s2 =>
  match binop op va vb with
  | some v => .ok v s2
  | none => .ctl .thr s2

/-- `readIdx` -/
def readOpnd (s : MSt) : Opnd → Option Int
  | .slot i => match s.getSlot i with | some (.int n) => some n | _ => none
  | .lit n => some n
  | .complex => none

/-- the integer fast path of VarFastAssign: the value to store, if the path applies -/
def fastValue (s : MSt) (op : FastOp) (l r : Opnd) : Option Int :=
  match op with
  | .copy => match l with
    | .slot _ => readOpnd s l
    | .lit n => some n
    | .complex => none
  | .mul => match readOpnd s l, readOpnd s r with
    | some a, some b => some (wrap64 (a * b))
    | _, _ => none
  | .add => match readOpnd s l, readOpnd s r with
    | some a, some b => some (wrap64 (a + b))
    | _, _ => none

/-- PostfixIncr / PostfixDecr / UnaryIncr / UnaryDecr on a variable: read through
`GetVariableValue` (out of range: thrown), switch on the kind of value, `SetValue` -/
def incGeneral (k : IncKind) (s : MSt) (i : Nat) : MRes Val :=
  match s.getSlot i with
  | none => .ctl .thr s
  | some old =>
    match incVal k old with
    | none => .ctl .thr s
    | some (v, new) => (assignTo s i new).bind fun _ s1 => .ok v s1

/-- VarPostIncr / VarPostDecr: the integer path writes the slot directly -/
def incFused (k : IncKind) (s : MSt) (i : Nat) : MRes Val :=
  match s.getSlot i with
  | some (.int n) =>
    match s.setSlot i (.int (wrap64 (match k with | .postInc => n + 1 | _ => n - 1))) with
    | some s1 => .ok (.int n) s1
    | none => incGeneral k s i
  | _ => incGeneral k s i

/-- VarStmtIncr: the integer path stores the incremented value and returns it -/
def stmtIncrM (s : MSt) (i : Nat) : MRes Val :=
  match s.getSlot i with
  | some (.int n) =>
    match s.setSlot i (.int (wrap64 (n + 1))) with
    | some s1 => .ok (.int (wrap64 (n + 1))) s1
    | none => incGeneral .postInc s i
  | _ => incGeneral .postInc s i

/-- StaticVarStatement inside a function: create the cell on first use, bind the slot -/
def bindStatic (g : FName) (s : MSt) (i : Nat) (init : Val) : MSt :=
  let st := if (aget s.statics (g, i)).isNone then aset s.statics (g, i) init else s.statics
  let bound := if i < s.fr.slots.length then i :: s.fr.bound else s.fr.bound
  { s with statics := st, fr := { s.fr with bound := bound } }

def bindStatics (g : FName) : List (Nat × Val) → MSt → MSt
  | [], s => s
  | (i, v) :: rest, s => bindStatics g rest (bindStatic g s i v)

/-- parameters without an argument: `Parameter.GetValue` reads the (fresh) slot and installs
the default when it is null; `none` = slot index out of range (thrown error) -/
def fillDefaults : List MParam → List Val → Option (List Val)
  | [], slots => some slots
  | p :: ps, slots =>
    match slots[p.idx]? with
    | none => none
    | some .null =>
      (match p.dflt with
        | some d => fillDefaults ps (slots.set p.idx d)
        | none => fillDefaults ps slots)
    | some _ => fillDefaults ps slots

/-- FunctionStatement.Call: what the body's result means for the caller -/
def callResultM (caller : Frame) : MRes Val → MRes Val
  | .ok v s => .ok v { s with fr := caller }
  | .ctl (.ret v) s => .ok v { s with fr := caller }
  | .ctl (.brk _) s => .ctl .thr { s with fr := caller }
  | .ctl .cont s => .ctl .thr { s with fr := caller }
  | .ctl c s => .ctl c { s with fr := caller }
  | .timeout => .timeout

mutual
def evalM (funs : List MFun) : Nat → MExpr → MSt → MRes Val
  | 0, _, _ => .timeout
  | _+1, .lit v, s => .ok v s
  | _+1, .var i, s =>
    match s.getSlot i with
    | some v => .ok v s
    | none => .ctl .thr s
  | f+1, .bin op a b, s => binM (evalM funs f) op a b s
  | f+1, .varIntLe i n le, s =>
    match s.getSlot i with
    | some (.int v) => .ok (.bool (v ≤ n)) s
    | _ =>
      (match le with
        | .bin op a b => binM (evalM funs f) op a b s
        | e => evalM funs f e s).bind fun v s1 => .ok (.bool v.truthy) s1
  | f+1, .not a, s => (evalM funs f a s).bind fun va s1 => .ok (.bool (!va.truthy)) s1
  | f+1, .and a b, s =>
    (evalM funs f a s).bind fun va s1 =>
    if va.truthy then (evalM funs f b s1).bind fun vb s2 => .ok (.bool vb.truthy) s2
    else .ok (.bool false) s1
  | f+1, .or a b, s =>
    (evalM funs f a s).bind fun va s1 =>
    if va.truthy then .ok (.bool true) s1
    else (evalM funs f b s1).bind fun vb s2 => .ok (.bool vb.truthy) s2
  | f+1, .assignVar i rhs, s => (evalM funs f rhs s).bind fun v s1 => assignTo s1 i v
  | f+1, .fastAssign op dst l r slow, s =>
    match (if (s.getSlot dst).isSome then fastValue s op l r else none) with
    | some n =>
      match s.setSlot dst (.int n) with
      | some s1 => .ok (.int n) s1
      | none => (evalM funs f slow s).bind fun v s1 => assignTo s1 dst v
    | none => (evalM funs f slow s).bind fun v s1 => assignTo s1 dst v
  | _+1, .postIncr i, s => incFused .postInc s i
  | _+1, .postDecr i, s => incFused .postDec s i
  | _+1, .stmtIncr i, s => stmtIncrM s i
  | _+1, .preIncr i, s => incGeneral .preInc s i
  | _+1, .preDecr i, s => incGeneral .preDec s i
  | f+1, .call g args, s =>
    match lookupFun funs g with
    | none => .ctl .thr s
    | some d =>
      (bindArgs funs f d.params args s (List.replicate d.nvars .null)).bind fun slots s1 =>
      let fresh : MSt := { s1 with fr := { slots := slots, bound := [], fn := some g } }
      callResultM s1.fr (execMB funs f d.body .null (bindStatics g d.statics fresh))
  | f+1, .matchE subj arms dflt, s =>
    (evalM funs f subj s).bind fun v s1 => evalArmsM funs f v arms dflt s1

/-- CallExpression.GetValue: for each parameter, in order: evaluate the argument in the
caller's context and store it in the new slot vector, or install the default.
Arguments beyond the parameters are not evaluated. -/
def bindArgs (funs : List MFun) : Nat → List MParam → MArgs → MSt → List Val → MRes (List Val)
  | 0, _, _, _, _ => .timeout
  | _+1, [], _, s, slots => .ok slots s
  | f+1, p :: ps, .cons a rest, s, slots =>
    (evalM funs f a s).bind fun v s1 =>
    if p.idx < slots.length then bindArgs funs f ps rest s1 (slots.set p.idx v)
    else match v with
      | .list _ => .ctl .crash s1
      | _ => .ctl .thr s1
  | _+1, p :: ps, .nil, s, slots =>
    match fillDefaults (p :: ps) slots with
    | some slots' => .ok slots' s
    | none => .ctl .thr s

def evalArmsM (funs : List MFun) : Nat → Val → MArms → MExpr → MSt → MRes Val
  | 0, _, _, _, _ => .timeout
  | f+1, _, .nil, dflt, s => evalM funs f dflt s
  | f+1, v, .cons c r rest, dflt, s =>
    (evalM funs f c s).bind fun vc s1 =>
    if strictEq v vc then evalM funs f r s1 else evalArmsM funs f v rest dflt s1

def echoM (funs : List MFun) : Nat → MArgs → MSt → MRes Val
  | 0, _, _ => .timeout
  | _+1, .nil, s => .ok .null s
  | f+1, .cons e rest, s => (evalM funs f e s).bind fun v s1 => echoM funs f rest (s1.echo v)

def discardM (funs : List MFun) : Nat → MArgs → MSt → MRes Unit
  | 0, _, _ => .timeout
  | _+1, .nil, s => .ok () s
  | f+1, .cons e rest, s => (evalM funs f e s).bind fun _ s1 => discardM funs f rest s1

def execM (funs : List MFun) : Nat → MStmt → MSt → MRes Val
  | 0, _, _ => .timeout
  | f+1, .echo es, s => echoM funs f es s
  | f+1, .expr e, s => evalM funs f e s
  | f+1, .ite c t elifs els, s =>
    (evalM funs f c s).bind fun vc s1 =>
    if vc.truthy then execMB funs f t .null s1 else elifsM funs f elifs els s1
  | f+1, .while_ c b, s => whileM funs f c b .null s
  | f+1, .doWhile b c, s => doM funs f b c .null s
  | f+1, .for_ inits cond incs b, s =>
    (discardM funs f inits s).bind fun _ s1 => forM funs f cond incs b .null s1
  | f+1, .foreach e k v b, s =>
    (evalM funs f e s).bind fun ve s1 =>
    match ve with
    | .list l => foreachM funs f k v b l 0 .null s1
    | .null => .ok .null s1
    | _ => .ctl .thr s1
  | f+1, .switch e cases dflt, s =>
    (evalM funs f e s).bind fun v s1 => switchM funs f v cases dflt s1
  | _+1, .brk n, s => .ctl (.brk n) s
  | _+1, .cont, s => .ctl .cont s
  | _+1, .ret none, s => .ctl (.ret .null) s
  | f+1, .ret (some e), s => (evalM funs f e s).bind fun v s1 => .ctl (.ret v) s1

/-- `for _, statement := range body { v, c = statement.GetValue(ctx); if c != nil { … } }`:
the value of the last statement, or the first control -/
def execMB (funs : List MFun) : Nat → MBlock → Val → MSt → MRes Val
  | 0, _, _, _ => .timeout
  | _+1, .nil, v, s => .ok v s
  | f+1, .cons st rest, _, s => (execM funs f st s).bind fun v s1 => execMB funs f rest v s1

def elifsM (funs : List MFun) : Nat → MElseIfs → MBlock → MSt → MRes Val
  | 0, _, _, _ => .timeout
  | f+1, .nil, els, s => execMB funs f els .null s
  | f+1, .cons c b rest, els, s =>
    (evalM funs f c s).bind fun vc s1 =>
    if vc.truthy then execMB funs f b .null s1 else elifsM funs f rest els s1

/-- WhileStatement.GetValue -/
def whileM (funs : List MFun) : Nat → MExpr → MBlock → Val → MSt → MRes Val
  | 0, _, _, _, _ => .timeout
  | f+1, c, b, v, s =>
    (evalM funs f c s).bind fun vc s1 =>
    if vc.truthy then
      match execMB funs f b v s1 with
      | .ok v' s2 => whileM funs f c b v' s2
      | .ctl (.brk _) s2 => .ok .null s2          -- any Break ends this loop
      | .ctl .cont s2 => whileM funs f c b .null s2
      | r => r
    else .ok v s1

/-- DoWhileStatement.GetValue -/
def doM (funs : List MFun) : Nat → MBlock → MExpr → Val → MSt → MRes Val
  | 0, _, _, _, _ => .timeout
  | f+1, b, c, v, s =>
    match execMB funs f b v s with
    | .ok v' s1 =>
      (evalM funs f c s1).bind fun vc s2 =>
      if vc.truthy then doM funs f b c v' s2 else .ok v' s2
    | .ctl (.brk _) s1 => .ok .null s1
    | .ctl .cont s1 =>
      (evalM funs f c s1).bind fun vc s2 =>
      if vc.truthy then doM funs f b c .null s2 else .ok .null s2
    | r => r

/-- ForStatement.GetValue. The condition: a BoolTest node (VarIntLe) answers through `testBool`,
other nodes through `GetValue` and AsBool — both are `truthy` of the node's value. -/
def forM (funs : List MFun) : Nat → MExpr → MArgs → MBlock → Val → MSt → MRes Val
  | 0, _, _, _, _, _ => .timeout
  | f+1, cond, incs, b, v, s =>
    (evalM funs f cond s).bind fun vc s1 =>
    if vc.truthy then
      match execMB funs f b v s1 with
      | .ok v' s2 => (discardM funs f incs s2).bind fun _ s3 => forM funs f cond incs b v' s3
      | .ctl (.brk _) s2 => .ok .null s2
      | .ctl .cont s2 => (discardM funs f incs s2).bind fun _ s3 => forM funs f cond incs b .null s3
      | r => r
    else .ok v s1

/-- ForeachStatement.GetValue over an ArrayValue: `for i, zval := range array.List` -/
def foreachM (funs : List MFun) : Nat → Option Nat → Nat → MBlock → List Int → Nat → Val → MSt → MRes Val
  | 0, _, _, _, _, _, _, _ => .timeout
  | _+1, _, _, _, [], _, v, s => .ok v s
  | f+1, k, vi, b, x :: xs, i, v, s =>
    (assignTo s vi (.int x)).bind fun _ s1 =>
    let s2 := match k with
      | some ki => (s1.setSlot ki (.int i)).getD s1     -- the key's SetVariableValue result is dropped
      | none => s1
    match execMB funs f b v s2 with
    | .ok v' s3 => foreachM funs f k vi b xs (i+1) v' s3
    | .ctl (.brk _) s3 => .ok .null s3
    | .ctl .cont s3 => foreachM funs f k vi b xs (i+1) .null s3
    | r => r

/-- SwitchStatement.GetValue: labels are evaluated until one matches … -/
def switchM (funs : List MFun) : Nat → Val → MCases → MBlock → MSt → MRes Val
  | 0, _, _, _, _ => .timeout
  | f+1, _, .nil, dflt, s => runBodiesM funs f .nil dflt s
  | f+1, v, .cons lbl b rest, dflt, s =>
    (evalM funs f lbl s).bind fun vl s1 =>
    if looseEq v vl then runBodiesM funs f (.cons lbl b rest) dflt s1
    else switchM funs f v rest dflt s1

/-- … then `runSwitchBody` on that case and the following ones, then the default body:
Break and Continue end the switch, other controls go to the caller -/
def runBodiesM (funs : List MFun) : Nat → MCases → MBlock → MSt → MRes Val
  | 0, _, _, _ => .timeout
  | f+1, .nil, dflt, s =>
    match execMB funs f dflt .null s with
    | .ok v s1 => .ok v s1
    | .ctl (.brk _) s1 => .ok .null s1
    | .ctl .cont s1 => .ok .null s1
    | r => r
  | f+1, .cons _ b rest, dflt, s =>
    match execMB funs f b .null s with
    | .ok _ s1 => runBodiesM funs f rest dflt s1
    | .ctl (.brk _) s1 => .ok .null s1
    | .ctl .cont s1 => .ok .null s1
    | r => r
end

def MSt.init (nvars : Nat) : MSt :=
  { fr := { slots := List.replicate nvars .null, bound := [], fn := none },
    statics := [], out := [] }

open Spec.Ctl (Status)

/-- Program.GetValue: Return ends the program, any other control is reported as an error -/
def runM (p : MProg) (fuel : Nat) : Option (List String × Status) :=
  match execMB p.funs fuel p.main .null (MSt.init p.nvars) with
  | .ok _ s => some (s.out.reverse, .done)
  | .ctl (.ret _) s => some (s.out.reverse, .done)
  | .ctl _ s => some (s.out.reverse, .error)
  | .timeout => none

def run (p : Prog) (fuel : Nat) : Option (List String × Status) := runM (compile p) fuel

end Model.Ctl
