import Model.Exc
import Model.Cli
import Spec.Exc
import Spec.Cli
import Proofs.Lemmas.ExcTrace
import Proofs.Lemmas.ExcOnce
import Proofs.Lemmas.ExcRefine
import Proofs.Lemmas.ExcIter
import Proofs.Lemmas.HierGraph
import Model.ExcPairs
import Generated.C05Pairs
import Model.ExcShape
import Proofs.Lemmas.ExcShape
import Generated.C05TryShape
import Model.ExcMemo
import Proofs.Lemmas.ExcMemo
/-!
# C05 — first matching catch, finally exactly once, uncaught errors fail the process

All theorems quantify over every class table `G` (hypotheses: the extends chain has no cycle; declared
`Exception`/`Error` classes are `Throwable` — both C08 notions), every program of `Model.Exc` (arbitrary nesting and
length, any number of named functions that call themselves and each other to any depth: the semantics is structurally
recursive on the syntax and on the level, there is no fuel), every starting trace, every value of the enclosing catch
variable and every activation `A` — its level and *whatever its callees do* (`A.env` is universally quantified in the
statement-level theorems). `cfg.guarded = true` / `Cfg.fixed` is the tree with the C05 fixes; the pinned behaviour is
kept as `Cfg.pinned` with proved negation witnesses.
-/
namespace C05
open Model.Exc
open Model.Hier (Name Cls Graph getClass)
open Spec.Hier (NoCycle csucc)
open Spec.Exc (Rules TypeOk ClauseOk FirstMatch NoMatch ThrowableRooted mentionsB mentionsC mentionsP goodB goodP proj Alternates)
open Proofs.Exc

/-! ## first matching catch -/

/-- **First match.** A `try` whose body lets out the thrown value `x` (a user `throw`, a throw from a callee, a
rethrow, a converted host panic) at trace `tr₁`:
* if clause `k` with body `h` is the first clause in source order one of whose types is the class of `x`, an
  ancestor or an implemented interface (`FirstMatch`, over the declared hierarchy `Spec.Hier.IsA`), then exactly that
  body runs, after the event `caught i k x`, with the catch variable holding `x` (`cur = some x`), and then the
  finally phase;
* if no clause qualifies (`NoMatch`), no clause body runs: `x` is still pending when the finally phase starts and
  goes on to the enclosing `try` (the enclosing statement only ever sees this statement's outcome);
* one of the two cases always applies. -/
theorem C05_first_match (G : Graph) (hn : NoCycle (csucc G)) (hroot : ThrowableRooted G) (cfg : Cfg)
    (hg : cfg.guarded = true) (cur : Option Thrown) (A : Act) (i : Nat) (b : Block) (cs : Catches) (hasFin : Bool)
    (fin : Block) (tr tr₁ : List Ev) (x : Thrown)
    (hbody : protect (execB G cfg cur A b (tr ++ [.enterTry A.lvl i])) = (.thr x, tr₁)) :
    (∀ k h, FirstMatch G x cs 0 k h →
        exec G cfg cur A (.try_ i b cs hasFin fin) tr =
          finallyPhase A.lvl i hasFin (fun t => protect (execB G cfg cur A fin t))
            (protect (execB G cfg (some x) A h (tr₁ ++ [.caught A.lvl i k x])))) ∧
    (NoMatch G x cs →
        exec G cfg cur A (.try_ i b cs hasFin fin) tr =
          finallyPhase A.lvl i hasFin (fun t => protect (execB G cfg cur A fin t)) (.thr x, tr₁)) ∧
    ((∃ k h, FirstMatch G x cs 0 k h) ∨ NoMatch G x cs) := by
  refine ⟨fun k h hf => ?_, fun hno => ?_, first_or_none G x cs 0⟩
  · simp only [exec, hg, if_true, tryStmt, hbody, catchPhase, tryValue]
    rw [execC_first G hn hroot cfg A i x hf]
  · simp only [exec, hg, if_true, tryStmt, hbody, catchPhase, tryValue]
    rw [execC_none G hn hroot cfg A i x cs 0 hno]
    rfl

/-- `catchTypeMatches` decides exactly "one of the clause's types is the object's class, an ancestor or an
implemented interface" (for an object-less throwable: the type is named Throwable, Exception or Error). -/
theorem C05_clause_test (G : Graph) (hn : NoCycle (csucc G)) (hroot : ThrowableRooted G) (tys : List Name) (x : Thrown) :
    clauseMatches G tys x = true ↔ ∃ ty ∈ tys, TypeOk G x ty :=
  clauseMatches_iff G hn hroot tys x

/-- **Innermost first.** Whatever an inner `try` statement does with an exception, the clauses of the enclosing
`try` are consulted only about what the inner statement lets out: if the enclosing body ends without a pending
throwable, no clause of the enclosing `try` runs. -/
theorem C05_innermost_first (G : Graph) (cfg : Cfg) (hg : cfg.guarded = true) (cur : Option Thrown) (A : Act) (i : Nat)
    (b : Block) (cs : Catches) (hasFin : Bool) (fin : Block) (tr tr₁ : List Ev) (o : Out)
    (hbody : execB G cfg cur A b (tr ++ [.enterTry A.lvl i]) = (o, tr₁)) (hno : ∀ x, o ≠ .thr x) (hnp : o ≠ .panic) :
    exec G cfg cur A (.try_ i b cs hasFin fin) tr =
      finallyPhase A.lvl i hasFin (fun t => protect (execB G cfg cur A fin t)) (o, tr₁) := by
  simp only [exec, hg, if_true, tryStmt, hbody]
  cases o <;> simp_all [protect, catchPhase, tryValue]

/- Full statement of the clause "the catch variable is that same object":
     ∀ x, Model.Exc.boundValue x = Spec.Exc.boundValue x
   It is false for the code: `tryValue` stores the `*data.ThrowValue` control in the variable, not `c.Object`
   (known finding C05-catch-variable-is-wrapper). What holds: the bound value wraps exactly the thrown object, and
   the handler runs with that object as the current exception (see `C05_first_match`: `some x`). -/
theorem C05_catch_variable_partial (x : Thrown) : (boundValue x).underlying = x := rfl

theorem C05_catch_variable_counterexample : ¬ ∀ x, boundValue x = Spec.Exc.boundValue x := by
  intro h; exact absurd (h .internal) (by decide)

/-! ## finally exactly once -/

/-- **Finally exactly once, one statement, one activation.** A `try` numbered `i` with a finally block, whose parts
contain no other `try` numbered `i`, executed by the activation of level `n` of any program (named functions `fns`
that may call themselves and each other from the try block, the catch bodies and the finally block of this very
statement): for every content of body, clauses and finally block, every class table, every pending catch variable —
hence on every exit path: fall-through, return, break, continue, throw (caught here or not), throw from a catch body,
throw/return/jump from the finally block, host panic anywhere, and however many deeper activations enter the same
statement meanwhile — this execution adds to the events of try `i` *of its own activation* exactly `enterTry`
followed by `enterFinally`, before control leaves the statement. -/
theorem C05_finally_once (G : Graph) (cfg : Cfg) (hg : cfg.guarded = true) (fns : List Block) (n : Nat) (i : Nat)
    (b : Block) (cs : Catches) (fin : Block) (hb : mentionsB i b = false) (hc : mentionsC i cs = false)
    (hf : mentionsB i fin = false) (cur : Option Thrown) (tr : List Ev) :
    ∃ ext, (exec G cfg cur (actAt G cfg fns n) (.try_ i b cs true fin) tr).2 = tr ++ ext ∧
      proj n i ext = [.enterTry n i, .enterFinally n i] :=
  try_once G cfg hg (actAt G cfg fns n) i b cs fin hb hc hf
    (envAt_noEv_above G cfg hg fns i n n (Nat.le_refl n)) cur tr

/-- **Finally exactly once, whole runs.** In the trace of any program in which the `try` statements numbered `i` have
a finally block and are not nested in one another syntactically (`goodP`; the number identifies a statement, it may be
executed many times by loops, calls and recursion), for every level `L` the events of try `i` in the activations of
level `L` are `enterTry, enterFinally, enterTry, enterFinally, …`: every entry is followed by exactly one run of the
finally block by the same activation before the next entry at that level or the end of the run — although the
activations below `L` that the body, the handlers and the finally block start re-enter the same statement in between. -/
theorem C05_finally_once_run (G : Graph) (cfg : Cfg) (hg : cfg.guarded = true) (i : Nat) (p : Prog)
    (hp : goodP i p = true) (L : Nat) : Alternates L i (proj L i (run G cfg p).2) := by
  simp only [goodP, Bool.and_eq_true, List.all_eq_true] at hp
  obtain ⟨ext, h1, h2⟩ := execB_alt G cfg hg L i (actAt G cfg p.fns p.depth)
    (envAt_alt G cfg hg p.fns i hp.2 p.depth L)
    (fun e => envAt_noEv_above G cfg hg p.fns i p.depth L (by simp [actAt] at e; omega)) p.main hp.1 none []
  simp only [run]
  rw [h1]
  simpa [Alt] using h2

/-- a `try` that is not mentioned emits nothing: the events of try `i` come from the statements numbered `i` only -/
theorem C05_no_foreign_events (G : Graph) (cfg : Cfg) (hg : cfg.guarded = true) (i : Nat) (p : Prog)
    (hp : mentionsP i p = false) (L : Nat) : proj L i (run G cfg p).2 = [] := by
  simp only [mentionsP, Bool.or_eq_false_iff, List.any_eq_false, Bool.not_eq_true] at hp
  obtain ⟨ext, h1, h2⟩ := execB_noEv G cfg hg L i (actAt G cfg p.fns p.depth)
    (envAt_noEv_unmentioned G cfg hg p.fns i hp.2 p.depth L) p.main (fun _ => hp.1) none []
  simp only [run]
  rw [h1]
  simpa [NoEv] using h2

/-- the pinned code (one deferred `recover` around the whole statement) skipped the finally block when the body
panicked at Go level: `try { host_panic(); } catch (Throwable $e) { echo 1; } finally { echo 2; }` -/
def witnessPanic : Block :=
  .cons (.try_ 1 (.cons .gopanic .nil) (.cons [0] (.cons (.echo 1) .nil) .nil) true (.cons (.echo 2) .nil)) .nil

theorem C05_finally_once_pinned_counterexample :
    (run ⟨[], []⟩ Cfg.pinned (.ofBlock witnessPanic)).2 = [.enterTry 0 1, .caught 0 1 0 .internal, .echo 0 1] ∧
    (run ⟨[], []⟩ Cfg.fixed (.ofBlock witnessPanic)).2 =
      [.enterTry 0 1, .caught 0 1 0 .internal, .echo 0 1, .enterFinally 0 1, .echo 0 2] := by
  constructor <;> decide

/-! ## what finally does replaces what was pending — and nothing else does -/

/-- **Override.** With `r₂` what is pending after the try/catch part (a return value, an exception, a jump, or
nothing) and `r₃` what the finally block did: if the finally block completes normally the pending outcome is
resumed, otherwise — `return`, `throw`, `break`, `continue` in finally — `r₃` replaces it. -/
theorem C05_finally_return_overrides (a i : Nat) (runFin : List Ev → Res) (r₂ : Res) :
    finallyPhase a i true runFin r₂ =
      (let r₃ := runFin (r₂.2 ++ [.enterFinally a i])
       if r₃.1 = .normal then (r₂.1, r₃.2) else r₃) := by
  unfold finallyPhase
  simp only [if_true]
  generalize runFin (r₂.2 ++ [.enterFinally a i]) = r₃
  rcases r₃ with ⟨o, t⟩
  cases o <;> simp

/-- `function f() { try { return a; } finally { return b; } }` returns `b`; with `throw new K` instead of
`return a` (and no matching clause) the exception is discarded and `f` returns `b`; for every class table. -/
theorem C05_finally_return_wins (G : Graph) (cfg : Cfg) (hg : cfg.guarded = true) (cur : Option Thrown) (A : Act)
    (i a b : Nat) (cls site : Nat) (tr : List Ev) :
    exec G cfg cur A (.call (.cons (.try_ i (.cons (.ret a) .nil) .nil true (.cons (.ret b) .nil)) .nil)) tr =
      (.normal, tr ++ [.enterTry A.lvl i] ++ [.enterFinally A.lvl i] ++ [.result (some (tag A.lvl b))]) ∧
    exec G cfg cur A (.call (.cons (.try_ i (.cons (.throw cls site) .nil) .nil true (.cons (.ret b) .nil)) .nil)) tr =
      (.normal, tr ++ [.enterTry A.lvl i] ++ [.enterFinally A.lvl i] ++ [.result (some (tag A.lvl b))]) := by
  constructor <;>
    simp [exec, execB, execC, hg, tryStmt, protect, catchPhase, tryValue, finallyPhase, callResult]

/-- **A pending outcome belongs to its activation.** `o` is what the try/catch part of a `try` statement executed by
activation `A` left pending — a return value, a thrown object (uncaught here, or thrown by a handler), a break, a
continue, or nothing. If the finally block completes normally, the statement's outcome is `o`, unchanged, whatever
the finally block did on the way: in particular whatever the functions it called returned or threw and caught —
`A.env` is arbitrary — including deeper activations of the enclosing function executing this same `return` / `throw`
/ `break` / `continue` statement. Only a control that leaves the finally block itself replaces `o`
(`C05_finally_return_overrides`). -/
theorem C05_pending_outcome_kept (G : Graph) (cfg : Cfg) (hg : cfg.guarded = true) (cur : Option Thrown) (A : Act)
    (i : Nat) (b : Block) (cs : Catches) (fin : Block) (tr tr₂ tr₃ : List Ev) (o : Out)
    (hpending : catchPhase (fun r => protect (tryValue (fun x t => execC G cfg A i 0 x cs t) r))
        (protect (execB G cfg cur A b (tr ++ [.enterTry A.lvl i]))) = (o, tr₂))
    (hfin : protect (execB G cfg cur A fin (tr₂ ++ [.enterFinally A.lvl i])) = (.normal, tr₃)) :
    exec G cfg cur A (.try_ i b cs true fin) tr = (o, tr₃) := by
  simp only [exec, hg, if_true, tryStmt, hpending, finallyPhase, hfin]

/-- the same seen from the caller: `function g($n) { try { return v; } finally { … } }` — if the finally block
completes normally the call yields the value of *this* activation's `return` (`$n * 1000 + v` with this activation's
`$n`), whatever the activations started by the finally block returned -/
theorem C05_return_survives_finally (G : Graph) (cfg : Cfg) (hg : cfg.guarded = true) (A : Act) (i v : Nat)
    (fin : Block) (tr tr₃ : List Ev)
    (hfin : protect (execB G cfg none A fin (tr ++ [.enterTry A.lvl i] ++ [.enterFinally A.lvl i])) = (.normal, tr₃)) :
    callResult (execB G cfg none A (.cons (.try_ i (.cons (.ret v) .nil) .nil true fin) .nil) tr) =
      (.normal, tr₃ ++ [.result (some (tag A.lvl v))]) := by
  have h := C05_pending_outcome_kept G cfg hg none A i (.cons (.ret v) .nil) .nil fin tr
    (tr ++ [.enterTry A.lvl i]) tr₃ (.ret (tag A.lvl v))
    (by simp [exec, execB, protect, catchPhase, tryValue]) hfin
  simp only [execB, h, callResult]

/-- `function walk($n) { try { return $n*1000+v; } finally { if ($n > 0) { $r = walk($n - 1); echo $r; } } }` -/
def walk (v : Nat) : Block :=
  .cons (.try_ 1 (.cons (.ret v) .nil) .nil true (.cons (.callf 0) .nil)) .nil

/-- one activation of `walk`, whatever level, provided the call it makes (if any) comes back with a `return` -/
theorem C05_reentrant_return_step (G : Graph) (cfg : Cfg) (hg : cfg.guarded = true) (v : Nat) (A : Act)
    (hcallee : A.lvl ≠ 0 → ∀ t, ∃ w t', A.env 0 t = (.ret w, t')) (tr : List Ev) :
    ∃ t', execB G cfg none A (walk v) tr = (.ret (tag A.lvl v), t') := by
  have hfin : ∀ t, ∃ t', protect (execB G cfg none A (.cons (.callf 0) .nil) t) = (.normal, t') := by
    intro t
    by_cases h0 : A.lvl = 0
    · exact ⟨t, by simp [execB, exec, callNamed, h0, protect]⟩
    · obtain ⟨w, t', hr⟩ := hcallee h0 t
      exact ⟨t' ++ [.result (some w)], by simp [execB, exec, callNamed, h0, hr, callResult, protect]⟩
  obtain ⟨t', ht'⟩ := hfin (tr ++ [.enterTry A.lvl 1] ++ [.enterFinally A.lvl 1])
  have h := C05_pending_outcome_kept G cfg hg none A 1 (.cons (.ret v) .nil) .nil
    (.cons (.callf 0) .nil) tr (tr ++ [.enterTry A.lvl 1]) t' (.ret (tag A.lvl v))
    (by simp [exec, execB, protect, catchPhase, tryValue]) ht'
  exact ⟨t', by simp only [walk, execB, h]⟩

/-- **Re-entrant return, every depth.** Each activation of `walk` returns its own value although its finally block
runs the whole rest of the recursion — the same `return` statement executed `n` more times — while that value is
pending: `walk(n)` returns `n * 1000 + v` for every `n`. -/
theorem C05_reentrant_return (G : Graph) (cfg : Cfg) (hg : cfg.guarded = true) (v : Nat) :
    ∀ (n : Nat) (tr : List Ev), ∃ t', envAt G cfg [walk v] (n+1) 0 tr = (.ret (tag n v), t')
  | 0, tr => by
    rw [envAt]
    exact C05_reentrant_return_step G cfg hg v ⟨0, envAt G cfg [walk v] 0⟩ (fun h => absurd rfl h) tr
  | n+1, tr => by
    rw [envAt]
    exact C05_reentrant_return_step G cfg hg v ⟨n+1, envAt G cfg [walk v] (n+1)⟩
      (fun _ t => ⟨tag n v, C05_reentrant_return G cfg hg v n t⟩) tr

/-! ## nothing survives an iteration -/

/-- **Iteration independence.** A loop `for (… k times …) { body }` executed by the activation of level `n` of any
program, for every body (any nesting of try / catch / finally, throws, returns, jumps, host panics, calls of named
functions that recurse to any depth), every pending catch variable and every trace so far: run the body once from
the *empty* trace — it ends with outcome `o` after the events `ext` — then the loop is `o`, `ext` repeated
(`repeatIter`: next iteration on normal / continue, stop on break, hand on anything else). No iteration can tell how
many came before it: no state survives a statement in the model. A real run whose n-th iteration departs from its
first therefore breaks the correspondence — that is how a resource of the interpreter that is not restored on some
exit path (a counter, a stack, a lock) is found, after however many iterations it takes. -/
theorem C05_iteration_independence (G : Graph) (cfg : Cfg) (hg : cfg.guarded = true) (fns : List Block) (n : Nat)
    (cur : Option Thrown) (k : Nat) (body : Block) (tr : List Ev) :
    exec G cfg cur (actAt G cfg fns n) (.loop k body) tr =
      repeatIter (execB G cfg cur (actAt G cfg fns n) body []).1 (execB G cfg cur (actAt G cfg fns n) body []).2 k tr := by
  have hu := (execB_uni G cfg hg (actAt G cfg fns n) (envAt_uni G cfg hg fns n) body cur).at_nil
  simp only [exec]
  exact loopN_repeat (step := fun t => execB G cfg cur (actAt G cfg fns n) body t) hu k tr

/-- **The n-th iteration behaves like the first.** Whatever the first `j` iterations of the loop left in the trace,
the next iteration of the body ends the way the first one (started from nothing) ends and appends the same events —
same handler (`caught i k x` is one of the events), same number of `enterFinally`. -/
theorem C05_nth_iteration_like_first (G : Graph) (cfg : Cfg) (hg : cfg.guarded = true) (fns : List Block) (n : Nat)
    (cur : Option Thrown) (body : Block) (j : Nat) (tr : List Ev) :
    let step := fun t => execB G cfg cur (actAt G cfg fns n) body t
    step (loopN step j tr).2 = ((step []).1, (loopN step j tr).2 ++ (step []).2) :=
  (execB_uni G cfg hg (actAt G cfg fns n) (envAt_uni G cfg hg fns n) body cur).at_nil _

/-- when an iteration ends normally or with `continue`, `k` iterations append its events `k` times and the loop
ends normally: handler identity and finally count are the same in every iteration -/
theorem C05_iterations_alike (G : Graph) (cfg : Cfg) (hg : cfg.guarded = true) (fns : List Block) (n : Nat)
    (cur : Option Thrown) (k : Nat) (body : Block) (tr ext : List Ev) (o : Out) (ho : o = .normal ∨ o = .cont)
    (hfirst : execB G cfg cur (actAt G cfg fns n) body [] = (o, ext)) :
    exec G cfg cur (actAt G cfg fns n) (.loop k body) tr = (.normal, tr ++ (List.replicate k ext).flatten) := by
  rw [C05_iteration_independence G cfg hg fns n cur k body tr, hfirst]
  have : ∀ k tr, repeatIter o ext k tr = (.normal, tr ++ (List.replicate k ext).flatten) := by
    intro k
    induction k with
    | zero => intro tr; simp [repeatIter]
    | succ k ih =>
      intro tr
      rcases ho with rfl | rfl <;> simp [repeatIter, ih, List.replicate_succ]
  exact this k tr

/-- **Long runs.** A program whose top level is one loop is evaluated by running the body once and repeating it
(`runLoop`: the events of the first iteration, `iterCount` times, in time linear in `k` — what the driver answers
for the long-running correspondence programs): the same as `run`. -/
theorem C05_long_run (G : Graph) (cfg : Cfg) (hg : cfg.guarded = true) (fns : List Block) (body : Block) (k d : Nat) :
    run G cfg ⟨fns, .cons (.loop k body) .nil, d⟩ = runLoop G cfg fns body k d := by
  have hs : ∀ tr, execB G cfg none (actAt G cfg fns d) (.cons (.loop k body) .nil) tr =
      exec G cfg none (actAt G cfg fns d) (.loop k body) tr := by
    intro tr
    rw [execB]
    split
    · rename_i tr' heq; rw [execB, heq]
    · rfl
  simp only [run, runLoop, hs, C05_iteration_independence G cfg hg fns d none k body [], repeatIter_closed,
    List.nil_append]

/-! ## what the model leaves out: resources entered on the call path are left on every exit path

`Model.Exc` has no call-depth counter and no locks. `Generated.C05Pairs` (regenerated from `node/`, `runtime/`,
`data/` on every run) lists every Go function that enters a paired operation and how it leaves it. -/

open Model.ExcPairs in
/-- a site that passes `siteOK` gives the resource back on every exit path: return of a value, return of a control
(a propagating exception, break, continue, return), and — where the Leave is deferred — a Go panic -/
theorem C05_paired_restored (s : Site) (hok : siteOK s = true) (e : Exit)
    (he : s.mode = .deferred ∨ e ≠ .goPanic) (d : Nat) : after s e d = d := by
  rcases s with ⟨file, fn, en, lv, mode, ub, rs⟩
  cases mode
  · simp [after]
  · cases e with
    | goPanic => simp at he
    | returnAt l =>
      simp only [siteOK, Bool.and_eq_true, List.isEmpty_iff] at hok
      simp [after, hok.1]
  · simp [siteOK] at hok

open Model.ExcPairs in
/-- hence no drift: after any number of executions the resource is where it was — the iterations of a loop start
from the same interpreter state, as `C05_iteration_independence` takes for granted -/
theorem C05_paired_no_drift (s : Site) (hok : siteOK s = true) (e : Exit)
    (he : s.mode = .deferred ∨ e ≠ .goPanic) : ∀ (n d : Nat), afterN s e n d = d
  | 0, d => rfl
  | n+1, d => by rw [afterN, C05_paired_restored s hok e he d]; exact C05_paired_no_drift s hok e he n d

open Model.ExcPairs in
/-- … and a site that misses the Leave on one exit drifts by one per execution left that way, so that whatever the
limit of the recursion guard, after enough iterations every further call is refused -/
theorem C05_leak_drifts (s : Site) (e : Exit) (hleak : ∀ d, after s e d = d + 1) :
    (∀ (n d : Nat), afterN s e n d = d + n) ∧ ∀ limit d, ∃ n, refused limit (afterN s e n d) = true := by
  have h : ∀ (n d : Nat), afterN s e n d = d + n := by
    intro n
    induction n with
    | zero => intro d; rfl
    | succ n ih => intro d; rw [afterN, hleak, ih]; omega
  exact ⟨h, fun limit d => ⟨limit, by simp [refused, h]; omega⟩⟩

/-- **The regenerated obligation.** In the tree being checked every function of `node/`, `runtime/`, `data/` that
enters a paired operation (`EnterCall`/`LeaveCall` of the method-call recursion guard, locks, any `Enter…/Leave…`,
`Push…/Pop…`, `Begin…/End…`, `Acquire…/Release…` pair) defers the Leave, or — where no script code runs in between —
leaves on every return; the recursion guard of `ClassMethod.Call` is still there; the counter operations cancel. -/
theorem C05_call_path_pairs_balanced :
    Generated.C05Pairs.sites.all Model.ExcPairs.siteOK = true ∧
    Generated.C05Pairs.shapeChanged = [] ∧
    Model.ExcPairs.countersCancel Generated.C05Pairs.counters = true := by decide

/-! ## refinement -/

/-- **The model is PHP.** For every program — any named functions, any depth of recursion — the repaired interpreter
model and the specification (`Spec.Exc`: first clause in source order by the declared hierarchy, handler bound to the
same object, finally once, finally's own control replaces what was pending, `throw $e` rethrows the same object, a host
failure inside `try` is a class-less throwable, a call is a new activation) produce the same trace and end the same
way — for any rule set `R` that decides the hierarchy. -/
theorem C05_refines (G : Graph) (hn : NoCycle (csucc G)) (hroot : ThrowableRooted G) (R : Rules) (hR : R.Decides G)
    (p : Prog) : run G Cfg.fixed p = Spec.Exc.run R p := by
  simp only [run, Spec.Exc.run, actAt, envAt_refines G hn hroot R hR p.fns p.depth,
    execB_refines G hn hroot R hR _ p.main none []]

/-- the same for one statement in any context and any activation -/
theorem C05_refines_stmt (G : Graph) (hn : NoCycle (csucc G)) (hroot : ThrowableRooted G) (R : Rules) (hR : R.Decides G)
    (s : Stmt) (cur : Option Thrown) (A : Act) (tr : List Ev) :
    exec G Cfg.fixed cur A s tr = Spec.Exc.exec R cur A s tr :=
  exec_refines G hn hroot R hR A s cur tr

/-- the pinned `throw $e` threw a class-less copy: the outer `catch (K4)` misses it, `catch (Exception)` gets it -/
def witnessG : Graph :=
  { classes := [⟨1, none, [0], [], []⟩, ⟨3, some 1, [], [], []⟩, ⟨4, some 3, [], [], []⟩],
    ifaces := [⟨0, [], []⟩] }

def witnessRethrow : Block :=
  .cons (.try_ 2
    (.cons (.try_ 1 (.cons (.throw 4 1) .nil) (.cons [3] (.cons .rethrow .nil) .nil) false .nil) .nil)
    (.cons [4] (.cons (.echo 1) .nil) (.cons [1] (.cons (.echo 2) .nil) .nil)) false .nil) .nil

theorem C05_refines_pinned_counterexample :
    (run witnessG Cfg.pinned (.ofBlock witnessRethrow)).2 =
      [.enterTry 0 2, .enterTry 0 1, .caught 0 1 0 (.obj 4 1), .caught 0 2 1 .internal, .echo 0 2] ∧
    (run witnessG Cfg.fixed (.ofBlock witnessRethrow)).2 =
      [.enterTry 0 2, .enterTry 0 1, .caught 0 1 0 (.obj 4 1), .caught 0 2 0 (.obj 4 1), .echo 0 1] := by
  constructor <;> decide

/-! ## the clause list: built as parsed, scanned first-match — and what leaving a clause out does

`execC` is the scan over the clauses *of the source*. Between the source and the scan sits the parser
(`parser/try_parser.go`), which builds `TryStatement.CatchBlocks`; a parse-time rewrite of the statement — leaving out
a clause whose body is "only `throw $e;`" or empty, merging, folding — changes what the scan sees without touching
`node/try.go`. This section says exactly when leaving clauses out is invisible, why a rethrow-only clause is not a
no-op, and pins the parser's clause loop and the scan loop of the tree being checked to the shape the model mirrors
(`Generated.C05TryShape`, regenerated on every run). -/

/-- **The scan in closed form.** For every clause list the catch phase runs the body of the first clause (source
order) whose `catchTypeMatches` answers yes — after that clause's `caught` event, the variable bound to the thrown
value — and nothing else; with no such clause the value stays pending. -/
theorem C05_handler_is_selection (G : Graph) (cfg : Cfg) (A : Act) (i : Nat) (x : Thrown) (cs : Catches) (tr : List Ev) :
    execC G cfg A i 0 x cs tr = handleWith G cfg A i 0 x tr (sel G x cs) ∧
    handleWith G cfg A i 0 x tr none = (.thr x, tr) ∧
    ∀ j h, handleWith G cfg A i 0 x tr (some (j, h)) = execB G cfg (some x) A h (tr ++ [.caught A.lvl i j x]) :=
  ⟨execC_sel G cfg A i x cs 0 tr, rfl, fun j h => by simp [handleWith]⟩

/-- **When may clauses be left out?** Any rewrite of a clause list that only leaves clauses out (`keepC keep`: the
clauses failing `keep` are dropped, the others keep their order) selects the same handler for the thrown value `x`
**iff** the clause that handles `x` in the source is kept. -/
theorem C05_clause_rewrite_iff (G : Graph) (x : Thrown) (keep : Clause → Bool) (cs : Catches) :
    selClause G x (keepC keep cs).toList = selClause G x cs.toList ↔
      ∀ c, selClause G x cs.toList = some c → keep c = true := by
  rw [toList_keepC]
  exact selClause_filter_iff G x keep cs.toList

/-- … hence it is invisible for *every* thrown value iff every clause it drops is dead (never the first match) -/
theorem C05_clause_rewrite_sound_iff (G : Graph) (keep : Clause → Bool) (cs : Catches) :
    (∀ x, selClause G x (keepC keep cs).toList = selClause G x cs.toList) ↔
      ∀ x c, selClause G x cs.toList = some c → keep c = true :=
  ⟨fun h x => (C05_clause_rewrite_iff G x keep cs).1 (h x), fun h x => (C05_clause_rewrite_iff G x keep cs).2 (h x)⟩

/-- **A rethrow-only clause handles.** If the first matching clause for `x` is `catch (T $e) { throw $e; }`, the catch
phase ends with `x` pending again — same object (`rethrowKeeps`: fix 3113568) — and *no later clause of the same try
has been consulted*: `x` goes through the finally block to the enclosing statement. -/
theorem C05_rethrow_only_clause_handles (G : Graph) (cfg : Cfg) (hk : cfg.rethrowKeeps = true) (A : Act) (i j : Nat)
    (x : Thrown) (cs : Catches) (h : Block) (hsel : sel G x cs = some (j, h)) (hr : rethrowOnly h = true) (tr : List Ev) :
    execC G cfg A i 0 x cs tr = (.thr x, tr ++ [.caught A.lvl i j x]) := by
  rw [(C05_handler_is_selection G cfg A i x cs tr).1, hsel]
  have : h = .cons .rethrow .nil := by
    unfold rethrowOnly at hr
    split at hr <;> simp_all
  subst this
  simp [handleWith, execB, exec, rethrown, hk]

/-- the same for the whole statement: a `try` whose body lets out `x`, first matching clause rethrow-only: `x` is
pending over the finally phase, whatever the later clauses are -/
theorem C05_rethrow_only_try (G : Graph) (cfg : Cfg) (hg : cfg.guarded = true) (hk : cfg.rethrowKeeps = true)
    (cur : Option Thrown) (A : Act) (i j : Nat) (b : Block) (cs : Catches) (hasFin : Bool) (fin : Block)
    (tr tr₁ : List Ev) (x : Thrown) (h : Block)
    (hbody : protect (execB G cfg cur A b (tr ++ [.enterTry A.lvl i])) = (.thr x, tr₁))
    (hsel : sel G x cs = some (j, h)) (hr : rethrowOnly h = true) :
    exec G cfg cur A (.try_ i b cs hasFin fin) tr =
      finallyPhase A.lvl i hasFin (fun t => protect (execB G cfg cur A fin t)) (.thr x, tr₁ ++ [.caught A.lvl i j x]) := by
  simp only [exec, hg, if_true, tryStmt, hbody, catchPhase, tryValue]
  rw [C05_rethrow_only_clause_handles G cfg hk A i j x cs h hsel hr]
  rfl

/-- **Leaving the handling clause out hands the value to the next one.** Source clauses `pre ++ c :: post`, no clause of
`pre` matches `x`, `c` is dropped: the scan of the rewritten list stops at the first *kept* clause of `post` that
matches `x`. With `c` rethrow-only that is the difference between "`x` propagates" and "a later, more general clause
of the same try swallows `x`" — unless no kept clause of `post` matches, the only case in which dropping `c` is sound. -/
theorem C05_dropped_clause_next_takes_over (G : Graph) (x : Thrown) (keep : Clause → Bool) (pre post : List Clause)
    (c : Clause) (hpre : ∀ d ∈ pre, clauseMatches G d.1 x = false) (hk : keep c = false) :
    selClause G x (keepC keep (Catches.ofList (pre ++ c :: post))).toList = selClause G x (post.filter keep) := by
  rw [toList_keepC]
  have : ∀ l : List Clause, (Catches.ofList l).toList = l := by
    intro l; induction l with
    | nil => rfl
    | cons a r ih => rcases a with ⟨t, b⟩; simp [Catches.ofList, Catches.toList, ih]
  rw [this]
  exact selClause_filter_dropped G x keep pre post c hpre hk

/-- `try { throw new K4 } catch (K4 $e) { throw $e; } catch (Exception $e) { echo 2; }` -/
def witnessShield : Catches := .cons [4] (.cons .rethrow .nil) (.cons [1] (.cons (.echo 2) .nil) .nil)

/-- **Negation witness for "catch-and-rethrow is equivalent to not having the clause".** With the clause the script
dies of an uncaught `K4` (and a script that prints no marker in that clause shows `T1;` only: `hide`); with the
clause left out `catch (Exception)` swallows the object and the script ends normally. -/
theorem C05_rethrow_only_drop_counterexample :
    observe ⟨[], [], [(1, 0)]⟩ (run witnessG Cfg.fixed (.ofBlock (.cons (.try_ 1 (.cons (.throw 4 1) .nil) witnessShield false .nil) .nil))) =
      (.uncaught (.obj 4 1), [.enterTry 0 1]) ∧
    run witnessG Cfg.fixed (.ofBlock (.cons (.try_ 1 (.cons (.throw 4 1) .nil)
        (keepC (fun c => !rethrowOnly c.2) witnessShield) false .nil) .nil)) =
      (.ok, [.enterTry 0 1, .caught 0 1 0 (.obj 4 1), .echo 0 2]) := by
  constructor <;> decide

/-- **The parser's clause loop, generically.** A clause loop that passes `clauseLoopOK` (one append of the clause
parsed in this trip, under conditions that cannot fail for a parsed clause; no `continue` / `break` that can fire; no
other store into the list) hands `NewTryStatement` exactly the clauses of the source, in order — whatever the value
of any test on a clause. -/
theorem C05_parsed_clauses_kept (ev : String → Clause → Bool) (F : Model.ExcShape.ParserFacts)
    (hok : Model.ExcShape.clauseLoopOK F = true) (src : List Clause) : Model.ExcShape.built ev F src = src :=
  built_ok ev F hok src

/-- … and a loop with a `continue` under a test `g` on the clause builds the source list *without* the clauses that
pass `g`, so (by `C05_clause_rewrite_iff`) the statement selects the handler the source names for `x` **iff** the
handling clause fails `g` -/
theorem C05_clause_skip_iff (ev : String → Clause → Bool) (F : Model.ExcShape.ParserFacts) (g : String)
    (w : Model.ExcShape.Write) (happ : F.appends = [w]) (hw : w.guards.all Model.ExcShape.Guard.isAlways = true)
    (hskip : F.skips = [[.other g]]) (G : Graph) (x : Thrown) (src : List Clause) :
    Model.ExcShape.built ev F src = src.filter (fun c => !ev g c) ∧
    (selClause G x (Model.ExcShape.built ev F src) = selClause G x src ↔
      ∀ c, selClause G x src = some c → ev g c = false) := by
  have hb := built_skip ev F g w happ hw hskip src
  refine ⟨hb, ?_⟩
  rw [hb, selClause_filter_iff]
  simp

/-- a scan that passes `scanOK` (one forward range over `CatchBlocks`, body = `if catchTypeMatches(…) { … return }`)
runs the first matching clause of the list it is given -/
theorem C05_scan_is_first_match (S : Model.ExcShape.ScanFacts) (hok : Model.ExcShape.scanOK S = true) (G : Graph)
    (x : Thrown) (cs : List Clause) : Model.ExcShape.scanSelect G x cs S.loops = selClause G x cs :=
  scanSelect_ok S hok G x cs

/-- **The regenerated obligation.** In the tree being checked `TryParser.Parse` stores into the three variables it
hands to `node.NewTryStatement` exactly once each — the try block and the finally block as `parseBlock` returned them,
every clause `parseCatchBlock` returned appended under no test on the clause —, has no `continue` / `break` in the
clause loop that can fire, returns nothing but that statement; a clause's body is what `parseBlock` returned;
`tryValue` scans `t.CatchBlocks` with one forward range that returns at the first `catchTypeMatches`; nothing else in
`node/` or `parser/` touches `CatchBlocks`. -/
theorem C05_try_statement_as_parsed :
    Model.ExcShape.parserOK Generated.C05TryShape.parser = true ∧
    Model.ExcShape.scanOK Generated.C05TryShape.scan = true ∧
    Generated.C05TryShape.shapeChanged = [] := by decide

/-- **Source to handler, for this tree.** Whatever the clauses of the source look like, the clause whose body runs for
`x` is the first clause *of the source* that matches `x`. -/
theorem C05_source_clause_selected (ev : String → Clause → Bool) (G : Graph) (x : Thrown) (src : List Clause) :
    Model.ExcShape.scanSelect G x (Model.ExcShape.built ev Generated.C05TryShape.parser src)
      Generated.C05TryShape.scan.loops = selClause G x src := by
  have h := C05_try_statement_as_parsed
  simp only [Model.ExcShape.parserOK, Bool.and_eq_true] at h
  rw [built_ok ev _ h.1.1, scanSelect_ok _ h.2.1]

/-! ## a try statement has no memory: the dispatch does not depend on what the node met before -/

open Model.ExcMemo in
/-- **Memo-free dispatch is the model's scan.** The index `firstIdx` finds over the clauses of a statement is the
index `sel` (and by `C05_handler_is_selection` the catch phase) stops at — what every execution of a try statement
does, whatever the same node handled before. -/
theorem C05_dispatch_is_scan (G : Graph) (x : Thrown) (cs : Catches) :
    firstIdx (test G) cs.toList x = (sel G x cs).map (·.1) :=
  Proofs.ExcMemo.firstIdx_sel G x cs

open Model.ExcMemo in
/-- **A node that remembers its dispatch, one clause list.** Give the statement a memo `key ↦ answer of the first
execution that met the key` (a clause index or "no clause"), consulted before any clause test. Along EVERY history of
thrown values — iterations of a loop, calls of the function, nested activations — the node answers like the memo-free
scan **iff** thrown values with equal keys are dispatched alike by the scan. Generic in the thrown values, the clauses,
the clause test and the key. -/
theorem C05_memo_dispatch_iff {X K C : Type} [DecidableEq K] (key : X → K) (m : C → X → Bool) (cs : List C) :
    (∀ h : List X, runHist key m cs [] h = h.map (firstIdx m cs)) ↔
    (∀ x y, key x = key y → firstIdx m cs x = firstIdx m cs y) :=
  Proofs.ExcMemo.memo_invisible_iff key m cs

open Model.ExcMemo in
/-- **… every clause list.** The memo is invisible for all clause lists and all histories iff the key determines the
outcome of every clause test: `key x = key y → ∀ clause, matches clause x = matches clause y`. -/
theorem C05_memo_key_sound_iff {X K C : Type} [DecidableEq K] (key : X → K) (m : C → X → Bool) :
    (∀ (cs : List C) (h : List X), runHist key m cs [] h = h.map (firstIdx m cs)) ↔
    (∀ x y, key x = key y → ∀ c, m c x = m c y) :=
  Proofs.ExcMemo.memo_key_sound_iff key m

open Model.ExcMemo in
/-- a memo keyed by the class of the thrown object, object-less (interpreter-raised) throwables kept apart, is sound
for every class table, clause list and history: the clause tests look at nothing else -/
theorem C05_class_key_sound (G : Graph) (cs : List Clause) (h : List Thrown) :
    runHist classKey (test G) cs [] h = h.map (firstIdx (test G) cs) :=
  (Proofs.ExcMemo.memo_key_sound_iff classKey (test G)).2 (fun x y hxy c => Proofs.ExcMemo.classKey_decides G x y hxy c) cs h

open Model.ExcMemo in
/-- **The class NAME is not such a key** (negation witness; `ThrowValue.GetName()` answers `"Exception"` for an
object-less throwable). `catch (Error $e)`: a runtime error raised by the interpreter matches, an object of class
`Exception` does not — same name. History [runtime error, `new Exception`]: the node with a name-keyed memo runs the
`catch (Error)` clause for both; in the other order it lets both pass. So by `C05_memo_key_sound_iff` the name does not
determine the clause tests, and no statement about "all histories" survives a name-keyed memo. -/
theorem C05_name_key_counterexample :
    runHist nameKey (test witnessG) [([2], Block.nil)] [] [.internal, .obj 1 1] = [some 0, some 0] ∧
    [Thrown.internal, .obj 1 1].map (firstIdx (test witnessG) [([2], Block.nil)]) = [some 0, none] ∧
    runHist nameKey (test witnessG) [([2], Block.nil)] [] [.obj 1 1, .internal] = [none, none] ∧
    ¬ (∀ x y, nameKey x = nameKey y → ∀ c, test witnessG c x = test witnessG c y) := by
  refine ⟨rfl, rfl, rfl, ?_⟩
  intro h
  have := h .internal (.obj 1 1) rfl ([2], Block.nil)
  exact absurd this (by decide)

/-- **The regenerated obligation.** In the tree being checked `TryStatement` has no field beyond the embedded node and
the three blocks the parser fills, and no method of it writes a field of the receiver (assignment, `++`, `&t.F`, a
storing method on a field) or hands the receiver on as a value: the statement keeps no memory between executions, so
its dispatch is `C05_dispatch_is_scan` in every execution. -/
theorem C05_try_node_stateless :
    Model.ExcMemo.stateless Generated.C05TryShape.node = true := by decide

/-! ## exit status -/

open Model.Cli in
/-- **Exit status.** With the repaired `RunScriptFile`: a script that is missing, does not parse, ends with an
uncaught throwable, returns a late control or dies of a Go panic gives a non-zero status and a diagnostic on
stderr, whatever it did before. -/
theorem C05_exit_status (inp : Input)
    (h : inp = .missing ∨ inp = .parseError ∨ ∃ steps, inp = .script steps .uncaught ∨
      inp = .script steps .lateControl ∨ inp = .script steps .goPanic) :
    (exitOf Model.Cli.Cfg.fixed inp).code ≠ 0 ∧ (exitOf Model.Cli.Cfg.fixed inp).diag = true := by
  rcases h with h | h | ⟨steps, h | h | h⟩ <;> subst h <;> simp [exitOf, mainExit, Model.Cli.Cfg.fixed]

open Model.Cli in
/-- status, diagnostic and standard output agree with `Spec.Cli` for every input: everything echoed before the end —
directly or into `ob_start` buffers that are still open — is on standard output when the process ends, however it
ends (a Go panic aborts the runtime and flushes nothing: there the claim is for directly echoed output) -/
theorem C05_exit_status_refines (inp : Input)
    (hd : ∀ steps, inp = .script steps .goPanic → Spec.Cli.Direct steps) :
    ((exitOf Model.Cli.Cfg.fixed inp).code ≠ 0 ↔ Spec.Cli.mustFail inp = true) ∧
    (exitOf Model.Cli.Cfg.fixed inp).diag = Spec.Cli.wantsDiag inp ∧
    (exitOf Model.Cli.Cfg.fixed inp).fd1 = Spec.Cli.stdout inp := by
  have vis : ∀ (steps : List Step) (out : List Nat) (bufs : List (List Nat)),
      flushed (steps.foldl step ⟨out, bufs⟩) = Spec.Cli.visible steps out bufs := by
    intro steps
    induction steps with
    | nil => intro out bufs; simp [flushed, Spec.Cli.visible]
    | cons s r ih =>
      intro out bufs
      cases s with
      | echo m => cases bufs <;> simp [List.foldl, step, Spec.Cli.visible, ih]
      | obStart => simp [List.foldl, step, Spec.Cli.visible, ih]
      | obGetClean => simp [List.foldl, step, Spec.Cli.visible, ih]
  have direct : ∀ (steps : List Step) (out : List Nat), Spec.Cli.Direct steps →
      (steps.foldl step ⟨out, []⟩).bufs = [] := by
    intro steps
    induction steps with
    | nil => intro out _; rfl
    | cons s r ih =>
      intro out hdir
      obtain ⟨m, rfl⟩ := hdir s (List.mem_cons_self ..)
      simpa [List.foldl, step] using ih (out ++ [m]) (fun s hs => hdir s (List.mem_cons_of_mem _ hs))
  cases inp with
  | missing => simp [exitOf, mainExit, Model.Cli.Cfg.fixed, Spec.Cli.mustFail, Spec.Cli.wantsDiag, Spec.Cli.stdout]
  | parseError => simp [exitOf, mainExit, Model.Cli.Cfg.fixed, Spec.Cli.mustFail, Spec.Cli.wantsDiag, Spec.Cli.stdout]
  | script steps e =>
    have hv := vis steps [] []
    cases e
    case goPanic =>
      have hb := direct steps [] (hd steps rfl)
      have : (runSteps steps).fd1 = Spec.Cli.visible steps [] [] := by
        rw [← hv]; simp [flushed, runSteps, hb]
      simp [exitOf, Spec.Cli.mustFail, Spec.Cli.wantsDiag, Spec.Cli.stdout, this]
    all_goals
      simp [exitOf, atExit, mainExit, Model.Cli.Cfg.fixed, Spec.Cli.mustFail, Spec.Cli.wantsDiag, Spec.Cli.stdout,
        runSteps, hv]

/-- an uncaught throwable at the end of `Model.Exc.run` is a failing process -/
theorem C05_uncaught_run_fails (G : Graph) (cfg : Cfg) (p : Prog) (x : Thrown) (steps : List Model.Cli.Step)
    (h : (run G cfg p).1 = .uncaught x) :
    (Model.Cli.exitOf Model.Cli.Cfg.fixed (.script steps (endOf (run G cfg p).1))).code = 1 := by
  rw [h]; rfl

/-- the pinned `RunScriptFile` returned nil after printing the parse error: exit status 0 -/
theorem C05_exit_status_pinned_counterexample :
    (Model.Cli.exitOf Model.Cli.Cfg.pinned .parseError).code = 0 ∧
    (Model.Cli.exitOf Model.Cli.Cfg.pinned .missing).code = 0 := by decide

/-- before fix C05-flush-buffers-before-exit the `os.Exit` paths lost what was still in an `ob_start` buffer:
`echo 1; ob_start(); echo 2; throw …` printed only `1` -/
theorem C05_flush_pinned_counterexample :
    (Model.Cli.exitOf ⟨true, false⟩ (.script [.echo 1, .obStart, .echo 2] .uncaught)).fd1 = [1] ∧
    (Model.Cli.exitOf Model.Cli.Cfg.fixed (.script [.echo 1, .obStart, .echo 2] .uncaught)).fd1 = [1, 2] ∧
    Spec.Cli.stdout (.script [.echo 1, .obStart, .echo 2] .uncaught) = [1, 2] := by decide

/-! ## non-vacuity -/

/-- the hierarchy the harness enumerates over: K3 extends Exception implements I11, I11 extends I10, K4 extends K3,
K5 extends K4, K6 extends Exception implements I12 -/
def exG : Graph :=
  { classes := [⟨1, none, [0], [], []⟩, ⟨3, some 1, [11], [], []⟩, ⟨4, some 3, [], [], []⟩, ⟨5, some 4, [], [], []⟩,
                ⟨6, some 1, [12], [], []⟩],
    ifaces := [⟨0, [], []⟩, ⟨10, [], []⟩, ⟨11, [10], []⟩, ⟨12, [], []⟩] }

theorem exG_noCycle : NoCycle (csucc exG) := (Proofs.Hier.acyclic_of_rankOK exG (by decide)).1
theorem exG_rooted : ThrowableRooted exG := throwableRooted_of_rootedB exG exG_noCycle (by decide)

/-- `try { throw new K4 } catch (K5) {…} catch (I10) { echo 7 } catch (K4) {…} finally { echo 9 }`: the hypotheses of
`C05_first_match` hold with `k = 1` (K5 is a subclass: no; I10 is the parent of an interface K4's parent implements: yes;
the more specific `catch (K4)` comes later and does not run) -/
def exCatches : Catches :=
  .cons [5] (.cons (.echo 6) .nil) (.cons [10] (.cons (.echo 7) .nil) (.cons [4] (.cons (.echo 8) .nil) .nil))

/-- an activation of level 0 at top level of a program without functions -/
def top : Act := actAt exG Cfg.fixed [] 0

example : protect (execB exG Cfg.fixed none top (.cons (.throw 4 1) .nil) ([] ++ [.enterTry 0 1])) = (.thr (.obj 4 1), [.enterTry 0 1]) := by
  decide
example : FirstMatch exG (.obj 4 1) exCatches 0 1 (.cons (.echo 7) .nil) := by
  refine .later ?_ (.here ?_)
  · exact fun h => by
      have := (clauseMatches_iff exG exG_noCycle exG_rooted [5] (.obj 4 1)).2 h
      exact absurd this (by decide)
  · exact (clauseMatches_iff exG exG_noCycle exG_rooted [10] (.obj 4 1)).1 (by decide)
example : (run exG Cfg.fixed (.ofBlock (.cons (.try_ 1 (.cons (.throw 4 1) .nil) exCatches true (.cons (.echo 9) .nil)) .nil))) =
    (.ok, [.enterTry 0 1, .caught 0 1 1 (.obj 4 1), .echo 0 7, .enterFinally 0 1, .echo 0 9]) := by decide
-- no clause: the exception is still pending after the finally block
example : (run exG Cfg.fixed (.ofBlock (.cons (.try_ 1 (.cons (.throw 6 2) .nil) exCatches true (.cons (.echo 9) .nil)) .nil))) =
    (.uncaught (.obj 6 2), [.enterTry 0 1, .enterFinally 0 1, .echo 0 9]) := by decide
-- finally once: a loop runs try 1 three times, leaving by continue, by break … ; goodB holds
def exLoop : Block :=
  .cons (.loop 3 (.cons (.try_ 1 (.cons .cont .nil) .nil true (.cons (.echo 1) .nil)) .nil)) .nil
example : goodP 1 (.ofBlock exLoop) = true := by decide
example : proj 0 1 (run exG Cfg.fixed (.ofBlock exLoop)).2 =
    [.enterTry 0 1, .enterFinally 0 1, .enterTry 0 1, .enterFinally 0 1, .enterTry 0 1, .enterFinally 0 1] := by decide
example : mentionsB 1 (.cons .cont .nil) = false ∧ mentionsC 1 .nil = false := by decide
-- iteration independence: the body of exLoop run once from nothing, and the loop as its repetition
example : execB exG Cfg.fixed none (actAt exG Cfg.fixed [] 0) (.cons (.try_ 1 (.cons .cont .nil) .nil true (.cons (.echo 1) .nil)) .nil) [] =
    (.cont, [.enterTry 0 1, .enterFinally 0 1, .echo 0 1]) := by decide
example : run exG Cfg.fixed (.ofBlock exLoop) = runLoop exG Cfg.fixed [] (.cons (.try_ 1 (.cons .cont .nil) .nil true (.cons (.echo 1) .nil)) .nil) 3 0 := by
  decide
-- a throw out of a call, caught by the second clause, finally: one iteration, and 2 000 of them by the theorem
def exIterBody : Block :=
  .cons (.try_ 1 (.cons (.call (.cons (.throw 4 1) .nil)) .nil) exCatches true (.cons (.echo 9) .nil)) .nil
example : execB exG Cfg.fixed none top exIterBody [] =
    (.normal, [.enterTry 0 1, .caught 0 1 1 (.obj 4 1), .echo 0 7, .enterFinally 0 1, .echo 0 9]) := by decide
example : exec exG Cfg.fixed none top (.loop 2000 exIterBody) [] =
    (.normal, [] ++ (List.replicate 2000 [.enterTry 0 1, .caught 0 1 1 (.obj 4 1), .echo 0 7, .enterFinally 0 1, .echo 0 9]).flatten) :=
  C05_iterations_alike exG Cfg.fixed rfl [] 0 none 2000 exIterBody [] _ .normal (.inl rfl) (by decide)
-- paired operations: the recursion guard as it is (deferred), and with the Leave missing on the throw path
def exSiteDeferred : Model.ExcPairs.Site := ⟨"node/class.go", "ClassMethod.Call", "vm.EnterCall", "vm.LeaveCall", .deferred, [], true⟩
def exSiteLeaky : Model.ExcPairs.Site := ⟨"node/class.go", "ClassMethod.Call", "vm.EnterCall", "vm.LeaveCall", .leaks, [492], true⟩
example : Model.ExcPairs.siteOK exSiteDeferred = true ∧ Model.ExcPairs.siteOK exSiteLeaky = false := by decide
example : Model.ExcPairs.afterN exSiteDeferred .goPanic 600 0 = 0 := C05_paired_no_drift exSiteDeferred rfl .goPanic (.inl rfl) 600 0
example : ∀ d, Model.ExcPairs.after exSiteLeaky (.returnAt 492) d = d + 1 := fun d => by simp [Model.ExcPairs.after, exSiteLeaky]
example : Model.ExcPairs.refused 500 (Model.ExcPairs.afterN exSiteLeaky (.returnAt 492) 500 0) = true := by
  rw [(C05_leak_drifts exSiteLeaky (.returnAt 492) (fun d => by simp [Model.ExcPairs.after, exSiteLeaky])).1]; decide
-- refinement: the closure-based rule set of the driver agrees with the model on the example
example : run exG Cfg.fixed (.ofBlock (.cons (.try_ 1 (.cons (.throw 4 1) .nil) exCatches true (.cons (.echo 9) .nil)) .nil)) =
    Spec.Exc.run (Spec.Exc.rulesOf exG) (.ofBlock (.cons (.try_ 1 (.cons (.throw 4 1) .nil) exCatches true (.cons (.echo 9) .nil)) .nil)) := by
  decide
-- override: pending exception, finally returns
example : finallyPhase 0 1 true (fun t => (.ret 5, t)) (.thr .internal, []) = (.ret 5, [.enterFinally 0 1]) := by decide

/-! ### clause lists -/

-- K4 thrown at `catch (K5) … catch (I10) … catch (K4) …`: the scan stops at clause 1
example : sel exG (.obj 4 1) exCatches = some (1, .cons (.echo 7) .nil) := rfl
-- leaving out the clauses whose body prints 8 (clause 2, dead for K4) is invisible for K4; leaving out clause 1 is not
example : selClause exG (.obj 4 1) (keepC (fun c => c.1 != [4]) exCatches).toList = selClause exG (.obj 4 1) exCatches.toList := rfl
example : selClause exG (.obj 4 1) (keepC (fun c => c.1 != [10]) exCatches).toList = some ([4], .cons (.echo 8) .nil) := rfl
-- hypotheses of `C05_rethrow_only_clause_handles` / `C05_dropped_clause_next_takes_over` on the witness
example : sel witnessG (.obj 4 1) witnessShield = some (0, .cons .rethrow .nil) ∧ rethrowOnly (.cons .rethrow .nil) = true := ⟨rfl, rfl⟩
example : selClause witnessG (.obj 4 1) (keepC (fun c => !rethrowOnly c.2) witnessShield).toList = some ([1], .cons (.echo 2) .nil) := rfl
-- the parser facts of the pinned tree, and of a tree whose clause loop skips rethrow-only clauses
def exSkippingParser : Model.ExcShape.ParserFacts :=
  { writes := [{ role := "try", stored := .parsedBlock, inClauseLoop := false, guards := [] },
               { role := "catch", stored := .appendParsed, inClauseLoop := true, guards := [] },
               { role := "finally", stored := .parsedBlock, inClauseLoop := false, guards := [.other "p.checkPositionIs(0, token.FINALLY)"] }],
    skips := [[.never "catchBlock == nil"], [.other "isRethrowOnlyCatch(catchBlock)"]],
    tryReturns := 1, otherReturns := [], clauseBodyParsed := true, clauseReturns := 1 }
example : Model.ExcShape.clauseLoopOK Generated.C05TryShape.parser = true ∧ Model.ExcShape.clauseLoopOK exSkippingParser = false := by decide
example : Model.ExcShape.built (fun _ c => rethrowOnly c.2) exSkippingParser witnessShield.toList = [([1], .cons (.echo 2) .nil)] := rfl
-- a scan with a fast path in front, a scan that does not stop at the first match: not first-match
example : Model.ExcShape.scanOK ⟨[⟨"f", true, true, true⟩, ⟨"f", true, true, true⟩], [], true⟩ = false ∧
    Model.ExcShape.scanOK ⟨[⟨"f", true, true, false⟩], [], true⟩ = false := by decide
example : Model.ExcShape.ScanLoop.select ⟨"f", true, true, false⟩ exG (.obj 4 1) exCatches.toList = some ([4], .cons (.echo 8) .nil) := rfl

/-! ### re-entrant programs -/

/-- `$n = 2; walk($n - 1)`: the finally block of `walk(1)` runs `walk(0)` — the same `try`, the same `return` — while
`1007` is pending; the outer call still returns `1007` (and the events of try 1 nest across levels, alternate within
each level) -/
def exWalk : Prog := ⟨[walk 7], .cons (.callf 0) .nil, 2⟩
example : run exG Cfg.fixed exWalk =
    (.ok, [.enterTry 1 1, .enterFinally 1 1, .enterTry 0 1, .enterFinally 0 1, .result (some 7), .result (some 1007)]) := by
  decide
example : goodP 1 exWalk = true := by decide
example : proj 1 1 (run exG Cfg.fixed exWalk).2 = [.enterTry 1 1, .enterFinally 1 1] ∧
    proj 0 1 (run exG Cfg.fixed exWalk).2 = [.enterTry 0 1, .enterFinally 0 1] := by decide
-- hypotheses of `C05_pending_outcome_kept` on the outer activation of `exWalk`: `ret 1007` pending, finally normal
example : catchPhase (fun r => protect (tryValue (fun x t => execC exG Cfg.fixed (actAt exG Cfg.fixed [walk 7] 1) 1 0 x .nil t) r))
      (protect (execB exG Cfg.fixed none (actAt exG Cfg.fixed [walk 7] 1) (.cons (.ret 7) .nil) ([] ++ [.enterTry 1 1]))) =
    (.ret 1007, [.enterTry 1 1]) := by decide
example : protect (execB exG Cfg.fixed none (actAt exG Cfg.fixed [walk 7] 1) (.cons (.callf 0) .nil)
      ([.enterTry 1 1] ++ [.enterFinally 1 1])) =
    (.normal, [.enterTry 1 1, .enterFinally 1 1, .enterTry 0 1, .enterFinally 0 1, .result (some 7)]) := by decide
/-- mutual recursion with the pending control an exception caught by the *caller's* handler two levels up:
`g0: try { throw K4 } finally { g1($n-1) }`, `g1: try { g0($n-1) } catch (K3 $e) { echo 5 }` -/
def exMutual : Prog :=
  ⟨[.cons (.try_ 1 (.cons (.throw 4 3) .nil) .nil true (.cons (.callf 1) .nil)) .nil,
    .cons (.try_ 2 (.cons (.callf 0) .nil) (.cons [3] (.cons (.echo 5) .nil) .nil) false .nil) .nil],
   .cons (.try_ 3 (.cons (.callf 0) .nil) (.cons [0] (.cons (.echo 6) .nil) .nil) false .nil) .nil, 3⟩
example : run exG Cfg.fixed exMutual =
    (.ok, [.enterTry 3 3, .enterTry 2 1, .enterFinally 2 1, .enterTry 1 2, .enterTry 0 1, .enterFinally 0 1,
           .caught 1 2 0 (.obj 4 3), .echo 1 5, .result none, .caught 3 3 0 (.obj 4 2003), .echo 3 6]) := by decide
-- exit status: hypotheses of C05_exit_status / _refines
example : Spec.Cli.Direct [.echo 1, .echo 2] := by
  intro s hs; simp at hs; rcases hs with rfl | rfl <;> exact ⟨_, rfl⟩
example : Model.Cli.exitOf Model.Cli.Cfg.fixed (.script [.echo 1, .echo 2] .uncaught) = ⟨[1, 2], true, 1⟩ := by decide
-- nested buffers, one taken back by ob_get_clean, exit(3): 1, then the outer buffer's 2, then 4 (3 went back to the script)
example : Model.Cli.exitOf Model.Cli.Cfg.fixed (.script [.echo 1, .obStart, .echo 2, .obStart, .echo 3, .obGetClean, .echo 4] (.exit 3))
    = ⟨[1, 2, 4], false, 3⟩ := by decide

end C05
