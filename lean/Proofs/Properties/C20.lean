import Proofs.Lemmas.OMap
import Proofs.Lemmas.Pattern
import Proofs.Lemmas.Run
import Proofs.Lemmas.SortTie
import Proofs.Lemmas.Reduce
import Proofs.Lemmas.Stack
import Proofs.Lemmas.Shared
import Proofs.C20Sites
import Generated.C20MapRanges
import Generated.C20PkgState
import Generated.C20Resets
import Generated.C20Sorts
import Generated.C20Stacks
import Generated.C20Shared
/-!
# C20 — sequential programs are deterministic and leave nothing behind for the next VM

Property theorems only.

* `Model.OMap` — `data.OrderedMap` as coded (slice + two Go maps, with its bounds guards);
  `Spec.OMap` — the insertion-ordered association list a script relies on.
* Order-independence patterns — generic theorems over *any permutation* of the entries of a Go
  map (the adversary is the runtime's map iterator), and two negative ones.
* `Model.Run` — a run as an interaction tree over the process-wide cells; reset-before-read.
* `Model.Shared` — the error object a raise hands out (position filled once, frames appended) under
  per-raise and process-wide allocation; `Generated.C20Shared` — package-level references handed out.
* `Generated.C20MapRanges` / `Generated.C20PkgState` — regenerated from the source on every run;
  `C20Sites` — the hand-written (trusted) classification; the obligations below are by `decide`.

Partial: which pattern a loop is an instance of, and which discipline a cell follows, is decided
by hand (`Proofs/C20Sites.lean`). The repetition / history search of the harness judges the real
interpreter independently of all of this.
-/
namespace C20
open Model.OMap Proofs.OMap Proofs.Pattern Model.Run Proofs.Run Model.Sites Model.SortKeys Proofs.SortTie Model.Reduce Proofs.Reduce
open Model.Stack Proofs.Lemmas.Stack
open Model.Shared Proofs.Lemmas.Shared

/-! ## (i) the ordered property store -/

/-- **Insertion order.** For every history of `Set` / `Delete` calls — any length, any keys, any
values — what `Range` hands to its callback, in call order, is exactly the insertion-ordered
association list of the live keys: a key assigned while live keeps its place and gets the new
value, a new key goes to the end, a deleted key disappears and the others keep their relative
order. -/
theorem C20_omap_insertion_order {κ ν : Type} [DecidableEq κ] (ops : List (Op κ ν)) :
    range (run ops) = Spec.OMap.run (ops.map toSpec) := by
  obtain ⟨ks, h, e⟩ := run_refines ops
  rw [range_eq h, e]

/-- **Representation invariant.** After every history the two Go maps encode one duplicate-free
key list as long as the slice: `nameMap i = ks[i]?`, `indexMap k = some i ↔ ks[i]? = some k`. -/
theorem C20_omap_invariant {κ ν : Type} [DecidableEq κ] (ops : List (Op κ ν)) :
    ∃ ks : List κ, Rep (run ops) ks := by
  obtain ⟨ks, h, _⟩ := run_refines ops
  exact ⟨ks, h⟩

/-- **The bounds guards are dead code.** In every reachable state an index stored in `indexMap`
is inside the slice (`idx >= 0 && idx < len(om.data)` never fails) and every position of the slice
has a name (`key, exists := om.nameMap[i]` never misses): no entry is ever skipped silently. -/
theorem C20_omap_guards_dead {κ ν : Type} [DecidableEq κ] (ops : List (Op κ ν)) :
    (∀ k idx, (run ops).indexMap k = some idx → idx < (run ops).data.length) ∧
    (∀ i, i < (run ops).data.length → ((run ops).nameMap i).isSome) := by
  obtain ⟨ks, h, _⟩ := run_refines ops
  constructor
  · intro k idx hi
    have hk := (h.index k idx).1 hi
    rw [← h.len]
    by_cases hh : idx < ks.length
    · exact hh
    · rw [List.getElem?_eq_none (by omega)] at hk; exact absurd hk (by simp)
  · intro i hi
    rw [h.name i, List.getElem?_eq_getElem (by rw [h.len]; exact hi)]
    rfl

/-- **Every observation** of the store is the observation of the association list: `Get`,
`GetByIndex` (any Go `int`, negative included), `Len`, and `Range` with a callback that stops
(everything up to and including the first pair at which it returns false). -/
theorem C20_omap_observations {κ ν : Type} [DecidableEq κ] (ops : List (Op κ ν)) :
    let s := Spec.OMap.run (ops.map toSpec)
    (∀ k, get (run ops) k = Spec.OMap.get s k) ∧
    (∀ i : Int, getByIndex (run ops) i = Spec.OMap.getByIndex s i) ∧
    len (run ops) = Spec.OMap.len s ∧
    (∀ stop, rangeUntil (run ops) stop = visited stop s) := by
  intro s
  obtain ⟨ks, h, e⟩ := run_refines ops
  refine ⟨fun k => ?_, fun i => ?_, ?_, fun stop => ?_⟩
  · rw [get_refines h k, e]
  · rw [getByIndex_refines h i, e]
  · show (run ops).data.length = (Spec.OMap.run (ops.map toSpec)).length
    rw [← e, List.length_zip, h.len, Nat.min_self]
  · show visited stop (range (run ops)) = _
    rw [range_eq h, e]

/-- **Keys are unique** in the enumeration. -/
theorem C20_order_keys_nodup {κ ν : Type} [DecidableEq κ] (ops : List (Spec.OMap.Op κ ν)) :
    (Spec.OMap.keys (Spec.OMap.run ops)).Nodup := spec_keys_nodup ops

/-- **What "insertion order" means, step by step**: assigning a live key leaves the key order
alone, assigning a new key appends it, deleting removes that key and nothing else moves. -/
theorem C20_order_steps {κ ν : Type} [DecidableEq κ] (s : Spec.OMap.St κ ν) (k : κ) (v : ν) :
    (k ∈ Spec.OMap.keys s → Spec.OMap.keys (Spec.OMap.set s k v) = Spec.OMap.keys s) ∧
    (k ∉ Spec.OMap.keys s → Spec.OMap.keys (Spec.OMap.set s k v) = Spec.OMap.keys s ++ [k]) ∧
    Spec.OMap.keys (Spec.OMap.delete s k) = (Spec.OMap.keys s).filter (fun k' => k' ≠ k) := by
  refine ⟨fun h => ?_, fun h => ?_, ?_⟩
  · unfold Spec.OMap.set
    rw [if_pos h]
    simp only [Spec.OMap.keys, List.map_map]
    apply List.map_congr_left
    intro p _
    by_cases e : p.1 = k <;> simp [e]
  · unfold Spec.OMap.set
    rw [if_neg h]
    simp [Spec.OMap.keys]
  · simp only [Spec.OMap.delete, Spec.OMap.keys, List.filter_map]
    rfl

example : range (run [Op.set "a" 1, .set "b" 2, .set "c" 3, .delete "a", .set "a" 4, .set "b" 5])
    = [("b", 5), ("c", 3), ("a", 4)] := by decide

example : getByIndex (run [Op.set "a" 1, .set "b" 2, .delete "a"]) 0 = some ("b", 2) ∧
    getByIndex (run [Op.set "a" 1, .set "b" 2, .delete "a"]) (-1) = none := by decide

/-! ## (ii) order-independence patterns

`for k, v := range m` visits the entries of `m` in an order chosen anew at every execution. Below
`l₁ ~ l₂` (`List.Perm`) are two such orders of the same entries. -/

/-- **fold.** A loop that folds the entries into an accumulator gives the same result for every
order, provided the steps commute on the entries (sum, count, min, max, set a flag, insert into a
set …). -/
theorem Pattern_fold_perm {α β : Type} (f : β → α → β) (b : β) {l₁ l₂ : List α} (hp : l₁.Perm l₂)
    (hc : ∀ x ∈ l₁, ∀ y ∈ l₁, ∀ s, f (f s x) y = f (f s y) x) : l₁.foldl f b = l₂.foldl f b :=
  foldl_perm f hp b hc

/-- **keyed write.** Writing every entry into another map under its own key (`dst[k] = v`): the
entries of a Go map have distinct keys, so the resulting map is the same for every order. -/
theorem Pattern_keyed_write_perm {κ ν : Type} [DecidableEq κ] (dst : GoMap κ ν) {l₁ l₂ : List (κ × ν)}
    (hp : l₁.Perm l₂) (hk : (l₁.map (·.1)).Nodup) :
    l₁.foldl (fun m p => m.put p.1 p.2) dst = l₂.foldl (fun m p => m.put p.1 p.2) dst := by
  apply foldl_perm _ hp
  intro x hx y hy s
  by_cases e : x = y
  · subst e; rfl
  · have hne : x.1 ≠ y.1 := by
      intro h
      exact e (inj_of_nodup_map (·.1) hk hx hy h)
    funext k'
    simp only [GoMap.put]
    by_cases h1 : k' = y.1
    · by_cases h2 : k' = x.1
      · exact absurd (h2.symm.trans h1) hne
      · rw [if_pos h1, if_neg h2, if_pos h1]
    · by_cases h2 : k' = x.1
      · rw [if_neg h1, if_pos h2, if_pos h2]
      · rw [if_neg h1, if_neg h2, if_neg h2, if_neg h1]

/-- **collect then sort.** Whatever sorting algorithm is used (Go's `sort.Slice` is not stable):
two sorted arrangements of the same entries are the same list when the order has no ties on them
— the sort key is total, as a map's own keys always are. -/
theorem Pattern_sort_perm {α : Type} {le : α → α → Prop} {l₁ l₂ r₁ r₂ : List α}
    (hanti : ∀ a b, a ∈ l₁ → b ∈ l₁ → le a b → le b a → a = b) (hp : l₁.Perm l₂)
    (h₁ : r₁.Perm l₁) (s₁ : r₁.Pairwise le) (h₂ : r₂.Perm l₂) (s₂ : r₂.Pairwise le) : r₁ = r₂ :=
  sorted_perm_unique hanti hp h₁ s₁ h₂ s₂

/-- the same with a concrete sort (`List.mergeSort`): collecting in any order and sorting gives
one list -/
theorem Pattern_sort_perm_mergeSort {α : Type} (le : α → α → Bool)
    (htrans : ∀ a b c, le a b = true → le b c = true → le a c = true)
    (htotal : ∀ a b, (le a b || le b a) = true) {l₁ l₂ : List α}
    (hanti : ∀ a b, a ∈ l₁ → b ∈ l₁ → le a b = true → le b a = true → a = b) (hp : l₁.Perm l₂) :
    l₁.mergeSort le = l₂.mergeSort le :=
  sorted_perm_unique (le := fun a b => le a b = true) hanti hp
    (List.mergeSort_perm l₁ le) (List.pairwise_mergeSort htrans htotal l₁)
    (List.mergeSort_perm l₂ le) (List.pairwise_mergeSort htrans htotal l₂)

/-- **unique match.** A loop that returns at the first entry satisfying `p` returns the same entry
for every order when at most one entry satisfies `p`. -/
theorem Pattern_unique_perm {α : Type} (p : α → Bool) {l₁ l₂ : List α} (hp : l₁.Perm l₂)
    (hu : ∀ a ∈ l₁, ∀ b ∈ l₁, p a = true → p b = true → a = b) : l₁.find? p = l₂.find? p :=
  find?_perm_of_unique p hp hu

/-- **all / any with early exit.** "return false at the first entry that fails, else true" and its
dual do not depend on the order. -/
theorem Pattern_all_perm {α : Type} (p : α → Bool) {l₁ l₂ : List α} (hp : l₁.Perm l₂) :
    l₁.all p = l₂.all p := hp.all_eq

theorem Pattern_any_perm {α : Type} (p : α → Bool) {l₁ l₂ : List α} (hp : l₁.Perm l₂) :
    l₁.any p = l₂.any p := hp.any_eq

/-- **NEGATIVE — first match.** With two different matching entries the loop has two possible
results: there are two orders of the same entries on which "return the first match" differs.
(`findClassCaseInsensitive` before fixes/C20-class-map-order: two classes whose names differ only by
case.) -/
theorem Pattern_first_match_depends {α : Type} [DecidableEq α] (p : α → Bool) {l : List α} {a b : α}
    (ha : a ∈ l) (hb : b ∈ l) (hab : a ≠ b) (pa : p a = true) (pb : p b = true) :
    ∃ l₁ l₂ : List α, l₁.Perm l ∧ l₂.Perm l ∧ l₁.find? p ≠ l₂.find? p := by
  refine ⟨a :: l.erase a, b :: l.erase b, perm_front ha, perm_front hb, ?_⟩
  rw [find?_head p a _ pa, find?_head p b _ pb]
  intro h; exact hab (Option.some.inj h)

/-- **NEGATIVE — collect / insert / concatenate in iteration order.** With two different entries
there are two orders that give different lists. (Object construction from `c.Properties`,
`array_values`, `json_decode(…, true)` … before the fixes.) -/
theorem Pattern_collect_depends {α : Type} [DecidableEq α] {l : List α} {a b : α}
    (ha : a ∈ l) (hb : b ∈ l) (hab : a ≠ b) :
    ∃ l₁ l₂ : List α, l₁.Perm l ∧ l₂.Perm l ∧ l₁ ≠ l₂ := by
  refine ⟨a :: l.erase a, b :: l.erase b, perm_front ha, perm_front hb, ?_⟩
  intro h; exact hab (List.cons.inj h).1

example : [("b", 2), ("a", 1), ("c", 3)].foldl (fun (m : GoMap String Nat) p => m.put p.1 p.2) GoMap.empty "a" = some 1 := by
  decide

/-- two classes `(name folded to lower case, declared name)`: the first match of "folds to foo2"
depends on the order -/
example : [("foo2", "FOO2"), ("foo2", "fOo2"), ("bar", "Bar")].find? (fun c => c.1 == "foo2") ≠
    [("foo2", "fOo2"), ("foo2", "FOO2"), ("bar", "Bar")].find? (fun c => c.1 == "foo2") := by decide

/-- the hypotheses of `Pattern_sort_perm` are satisfiable: two collection orders, one sorted result -/
example : ([1, 2, 3] : List Nat) = [1, 2, 3] :=
  Pattern_sort_perm (le := (· ≤ ·)) (l₁ := [3, 1, 2]) (l₂ := [2, 3, 1])
    (by intro a b _ _ h1 h2; omega) (by decide) (by decide) (by decide) (by decide) (by decide)

example : ([3, 1, 2] : List Nat).find? (fun x => x == 1) = [2, 3, 1].find? (fun x => x == 1) :=
  Pattern_unique_perm _ (by decide) (by decide)

/-! ### collect in map order, then sort: when does the map order still show? (round 5)

`Pattern_sort_perm` above needs "the order has no ties on the collected entries" as a hypothesis; the
classification table used to grant it by hand to every loop followed by a sort. The theorems below say
exactly when it holds, in terms of what can be read off the comparator, and that it is *necessary*:
with a tie the result depends on the collection order. `C20_sorts_over_map_order_tie_free` checks the
comparator of every such sort of the tree on every run. -/

/-- **The comparator orders the elements themselves** (`keys[i] < keys[j]`, `sort.Strings(keys)`): for
a strict total order every collection order gives the same sorted slice — no hypothesis on the
collected elements at all. -/
theorem Pattern_sort_whole_perm {α : Type} {lt : α → α → Bool} (h : StrictTotal lt) {l₁ l₂ : List α}
    (hp : l₁.Perm l₂) : sortSlice lt l₁ = sortSlice lt l₂ := by
  apply sortSlice_perm_of_no_tie (strictTotal_strictWeak h) hp
  intro a _ b _ t
  exact (byKey_tie_iff h id a b).1 t

/-- **NEGATIVE — a tie shows the collection order.** Whenever the comparator cannot tell two
*different* collected elements apart there are two collection orders of the same elements that give
different sorted slices: the sort is stable on them (Go's `sort.Slice` is insertion sort below 12
elements), so the tied pair stays in map order. -/
theorem Pattern_sort_tie_depends {α : Type} [DecidableEq α] {less : α → α → Bool} (h : StrictWeak less)
    {l : List α} (hn : l.Nodup) {a b : α} (ha : a ∈ l) (hb : b ∈ l) (hab : a ≠ b) (ht : tie less a b) :
    ∃ l₁ l₂ : List α, l₁.Perm l ∧ l₂.Perm l ∧ sortSlice less l₁ ≠ sortSlice less l₂ :=
  sortSlice_tie_depends h hn ha hb hab ht

/-- **Characterisation.** For the (distinct) entries of a Go map and any comparator `sort.Slice`
accepts: the sorted result is independent of the collection order **iff** the comparator never ties on
two different entries. -/
theorem Pattern_sort_perm_iff {α : Type} [DecidableEq α] {less : α → α → Bool} (h : StrictWeak less)
    {l : List α} (hn : l.Nodup) :
    (∀ l₁ l₂ : List α, l₁.Perm l → l₂.Perm l → sortSlice less l₁ = sortSlice less l₂) ↔
    (∀ a ∈ l, ∀ b ∈ l, tie less a b → a = b) := by
  constructor
  · intro hall a ha b hb ht
    by_cases hab : a = b
    · exact hab
    · obtain ⟨l₁, l₂, p₁, p₂, ne⟩ := sortSlice_tie_depends h hn ha hb hab ht
      exact absurd (hall l₁ l₂ p₁ p₂) ne
  · intro hnt l₁ l₂ p₁ p₂
    apply sortSlice_perm_of_no_tie h (p₁.trans p₂.symm)
    intro a ha b hb
    exact hnt a (p₁.mem_iff.1 ha) b (p₁.mem_iff.1 hb)

/-- **Sorting through a key** (`numericSortKey(ki) < numericSortKey(kj)`, `len(ki) > len(kj)`,
`ms[i].GetName() < ms[j].GetName()`): independent of the collection order **iff** the key function is
injective on the collected entries. This is what has to be argued for every comparator of shape
`derived` (`C20Sites.sortArgued`). -/
theorem Pattern_sort_key_perm_iff {α ν : Type} [DecidableEq α] {lt : ν → ν → Bool} (h : StrictTotal lt)
    (f : α → ν) {l : List α} (hn : l.Nodup) :
    (∀ l₁ l₂ : List α, l₁.Perm l → l₂.Perm l → sortSlice (byKey lt f) l₁ = sortSlice (byKey lt f) l₂) ↔
    (∀ a ∈ l, ∀ b ∈ l, f a = f b → a = b) := by
  rw [Pattern_sort_perm_iff (byKey_strictWeak h f) hn]
  constructor
  · intro hh a ha b hb e; exact hh a ha b hb ((byKey_tie_iff h f a b).2 e)
  · intro hh a ha b hb t; exact hh a ha b hb ((byKey_tie_iff h f a b).1 t)

/-- **`ksort` / `krsort` as coded at the pinned tree** (every `$flags` value compares the raw key
strings): whatever order the map iterator delivers the keys in, the array is rebuilt in one order. -/
theorem C20_ksort_order_independent (desc : Bool) {collected₁ collected₂ : List (List Nat)}
    (hp : collected₁.Perm collected₂) : ksort desc collected₁ = ksort desc collected₂ :=
  Pattern_sort_whole_perm (rawLess_strictTotal desc) hp

/-- **Negation witness: a numeric sort key.** Compare the keys through a conversion under which two
different keys get the same number (every non-numeric string counts as 0; `"1"`, `"1.0"`, `" 1"` are
all 1) and the claim fails: for every such key function and every array holding two keys it
identifies there are two map orders with two different results. -/
theorem C20_ksort_numeric_key_counterexample (num : List Nat → Nat) {keys : List (List Nat)} (hn : keys.Nodup)
    {k₁ k₂ : List Nat} (h₁ : k₁ ∈ keys) (h₂ : k₂ ∈ keys) (hne : k₁ ≠ k₂) (he : num k₁ = num k₂) :
    ¬ (∀ c₁ c₂ : List (List Nat), c₁.Perm keys → c₂.Perm keys →
        sortSlice (byKey (fun a b : Nat => decide (a < b)) num) c₁ = sortSlice (byKey (fun a b : Nat => decide (a < b)) num) c₂) := by
  intro hall
  exact hne ((Pattern_sort_key_perm_iff natLt_strictTotal num hn).1 hall k₁ h₁ k₂ h₂ he)

/-- the hypotheses of the counterexample are satisfiable: the keys `width` and `depth` (as bytes) both
count as 0 -/
example : ¬ (∀ c₁ c₂ : List (List Nat), c₁.Perm [[119, 105, 100, 116, 104], [100, 101, 112, 116, 104]] →
    c₂.Perm [[119, 105, 100, 116, 104], [100, 101, 112, 116, 104]] →
    sortSlice (byKey (fun a b : Nat => decide (a < b)) (fun _ => 0)) c₁ = sortSlice (byKey (fun a b : Nat => decide (a < b)) (fun _ => 0)) c₂) :=
  C20_ksort_numeric_key_counterexample (fun _ => 0) (k₁ := [119, 105, 100, 116, 104]) (k₂ := [100, 101, 112, 116, 104])
    (by decide) (by decide) (by decide) (by decide) rfl

/-- a strict total order exists on the sort keys used above (`<` on lengths / numbers) and on the raw
strings (Go's `<`, bytewise) -/
example : StrictTotal (fun a b : Nat => decide (a < b)) ∧ StrictTotal bytesLt := ⟨natLt_strictTotal, bytesLt_strictTotal⟩

/-! ## (iii) nothing left behind -/

/-- **No residue.** If a run reads a process-wide cell that earlier programs may have changed
(`D c`) only after writing it itself — on every path, whatever it reads meanwhile — then its
observable result is the same from every two stores that agree on the other cells. -/
theorem C20_no_residue {C V O : Type} [DecidableEq C] (D : C → Prop) (p : Prog C V O)
    (hd : Disc D [] p) (s₁ s₂ : Store C V) (hs : ∀ c, ¬ D c → s₁ c = s₂ c) :
    (Model.Run.run p s₁).1 = (Model.Run.run p s₂).1 := by
  apply run_agree D p [] s₁ s₂ hd
  intro c hc
  rcases hc with h | h
  · exact hs c h
  · simp at h

/-- **(A then B) = (B alone).** Whatever program `a` ran before in the same process: if every
cell that `a` leaves different from how it found it is one that `b` resets before reading, `b`
behaves exactly as on the untouched process. (Cells `a` restores before it ends — output writer,
buffer stack — are not in `D`.) -/
theorem C20_history_independent {C V O : Type} [DecidableEq C] (D : C → Prop) (a b : Prog C V O)
    (s : Store C V) (hd : Disc D [] b) (ha : ∀ c, ¬ D c → (Model.Run.run a s).2 c = s c) :
    after a b s = (Model.Run.run b s).1 :=
  C20_no_residue D b hd _ _ ha

/-- **Negation witness.** Without the discipline the claim is false: a run that reads a cell
before writing it shows what the previous program left there. (ini store, include cache,
superglobal caches … — the listed residue channels, replayed on the real interpreter by the
harness's known stream.) -/
theorem C20_no_residue_counterexample :
    ¬ (∀ (a b : Prog Unit Nat Nat) (s : Store Unit Nat), after a b s = (Model.Run.run b s).1) := by
  intro h
  have := h (.write () 3 (.done 0)) (.read () (fun v => .done v)) (fun _ => 14)
  simp [after, Model.Run.run, Store.put] at this

example : Disc (fun _ : String => True) [] (.write "userOutputEmitted" 0 (.read "userOutputEmitted" (fun v => (.done v : Prog String Nat Nat)))) := by
  simp [Disc]

example : after (.write "ini" 3 (.done 0)) (.write "ini" 14 (.read "ini" (fun v => (.done v : Prog String Nat Nat)))) (fun _ => 14) = 14 := by
  decide

/-! ### a reset on the entry path — and what happens when it is put under a condition -/

theorem disc_resetThen {C V O : Type} [DecidableEq C] (D : C → Prop) (rs : List (C × V)) (k : Prog C V O) :
    ∀ W, Disc D ((rs.map Prod.fst).reverse ++ W) k → Disc D W (resetThen rs k) := by
  induction rs with
  | nil => intro W h; simpa [resetThen] using h
  | cons a r ih =>
    intro W h
    obtain ⟨c, v⟩ := a
    simp only [resetThen, Disc]
    apply ih
    simpa [List.map_cons, List.reverse_cons, List.append_assoc] using h

/-- **Resets at the start of a run.** A run that first stores fixed values into the cells `rs` —
unconditionally, before anything else — and afterwards reads, of the cells earlier programs may have
dirtied, only those (or ones it has written itself meanwhile), behaves the same whatever ran before
in the process. This is the shape `C20_resets_unconditional` checks on the source: the reset lies
directly in the body of `LoadAndRun` / `php.Load`. -/
theorem C20_entry_reset_no_residue {C V O : Type} [DecidableEq C] (D : C → Prop) (rs : List (C × V))
    (k : Prog C V O) (hk : Disc D (rs.map Prod.fst).reverse k) (s₁ s₂ : Store C V)
    (hs : ∀ c, ¬ D c → s₁ c = s₂ c) :
    (Model.Run.run (resetThen rs k) s₁).1 = (Model.Run.run (resetThen rs k) s₂).1 :=
  C20_no_residue D _ (disc_resetThen D rs k [] (by simpa using hk)) s₁ s₂ hs

/-- **A guard that holds on every fresh VM is harmless.** When the test of the guard cell succeeds
in the store the run starts from (the include cache of a VM that has run nothing is empty), the
guarded reset is the unconditional one. This is what the `guards` column of
`C20Sites.resetSpecs` claims for `if vm.GetPhpFileCache(file)`; the claim itself is by hand. -/
theorem C20_guarded_reset_when_guard_holds {C V O : Type} [DecidableEq C] (g c : C) (test : V → Bool) (v : V)
    (k : Prog C V O) (s : Store C V) (hg : test (s g) = true) :
    Model.Run.run (guardedReset g test c v k) s = Model.Run.run (.write c v k) s := by
  simp [guardedReset, Model.Run.run, hg]

/-- **Negation witness: a reset under a condition that can fail.** Put the reset under a test of
some other state and there are two stores that differ only in the dirty cell on which the run shows
different results: whenever the test fails the previous program's value is read. (`if
vm.isEntryScript() { data.ResetUserOutput() }` evaluated after the file was registered: the test
never succeeds, the flag set by an earlier program's `echo` reaches the next program's fatal-error
printer.) -/
theorem C20_guarded_reset_counterexample :
    ¬ (∀ (g c : Bool) (test : Nat → Bool) (s₁ s₂ : Store Bool Nat), (∀ x, x ≠ c → s₁ x = s₂ x) →
        (Model.Run.run (guardedReset g test c 0 (.read c (fun v => (.done v : Prog Bool Nat Nat)))) s₁).1 =
        (Model.Run.run (guardedReset g test c 0 (.read c (fun v => (.done v : Prog Bool Nat Nat)))) s₂).1) := by
  intro h
  have := h true false (fun n => n == 0) (fun x => if x then 1 else 0) (fun x => if x then 1 else 7)
    (by intro x hx; cases x <;> simp at hx ⊢)
  simp [guardedReset, Model.Run.run] at this

example : (Model.Run.run (resetThen [("userOutputEmitted", 0)] (.read "userOutputEmitted" (fun v => (.done v : Prog String Nat Nat)))) (fun _ => 1)).1 = 0 := by
  decide

example : Disc (fun c : String => c = "userOutputEmitted") (([("userOutputEmitted", 0)] : List (String × Nat)).map Prod.fst).reverse
    (.read "userOutputEmitted" (fun v => (.done v : Prog String Nat Nat))) := by
  simp [Disc]

/-! ## obligations on the regenerated facts -/

/-- **Obligation (regenerated every run).** Every `for … range <map>` of the packages in scope is
classified in `C20Sites.table` for the loop-body summary it has today, with a pattern that admits
that summary, and no site is `firstMatch` / `leaks` unless it is a listed known finding; the
translator understood every file. A new or changed loop makes this fail. -/
theorem C20_map_ranges_classified :
    C20Sites.badSites C20Sites.table C20Sites.KnownSites Generated.C20MapRanges.sites = [] ∧
    Generated.C20MapRanges.shape = [] := by
  decide

/-- **Obligation (regenerated every run): no sort over a map-ordered slice can tie.** Every sort of a
slice that a `for … range <map>` loop collected either orders the collected elements themselves
(shape `whole`: `Pattern_sort_whole_perm`, nothing to argue), or is listed in `C20Sites.sortArgued`
with exactly the comparator it has today (the sort key is injective on the collected entries:
`Pattern_sort_key_perm_iff`), or is a listed known finding; and the translator found the sort of every
site claimed for the pattern `sort`. A comparator that starts looking at the keys through a function —
`numericSortKey(ki) < numericSortKey(kj)` — makes this fail (`Pattern_sort_tie_depends`: a tie shows the
map order). -/
theorem C20_sorts_over_map_order_tie_free :
    C20Sites.tyingSorts C20Sites.sortArgued C20Sites.KnownSorts Generated.C20Sorts.sorts = [] ∧
    C20Sites.sortSitesWithoutFact Generated.C20MapRanges.sites Generated.C20Sorts.sorts = [] ∧
    Generated.C20Sorts.shape = [] := by
  decide

/-- **Obligation (regenerated every run).** Every package-level variable written outside `init`
(and every call that changes process state outside Go variables) is classified in
`C20Sites.cells`, and none `leaks` unless it is a listed known finding. -/
theorem C20_pkg_state_classified :
    C20Sites.badCells C20Sites.cells C20Sites.KnownCells Generated.C20PkgState.cells = [] := by
  decide

/-- **Obligation (regenerated every run): the resets still happen on every run.** For every cell
whose discipline is `resetBeforeRead` / `restoredAtEnd` the table `C20Sites.resetSpecs` names the
place that keeps it clean; the regenerated source facts contain that place, directly in the body of
its function (enclosing conditions exactly as listed — normally none), preceded by no way out of the
function other than the listed guards; and no such cell is without a place. A reset that is
removed, put under a condition, or put behind a new early return makes this fail. -/
theorem C20_resets_unconditional :
    C20Sites.badResets C20Sites.cells C20Sites.resetSpecs Generated.C20Resets.uses = [] ∧
    Generated.C20Resets.shape = [] := by
  decide

/-- **Obligation (regenerated every run): every observer is probed.** Every function that reads a
reset-per-run cell which a script can leave in more than one state has a clean channel listed whose
`B` side reaches it (the harness checks that the named channels exist and runs them on every run).
A new reader of such a cell makes this fail until a probe is written for it. -/
theorem C20_reset_observers_probed :
    C20Sites.unprobed C20Sites.cells C20Sites.probes Generated.C20Resets.uses = [] := by
  decide

/-- **Obligation (regenerated every run): the entry path is the one the in-process runner mirrors.**
The functions a command-line run goes through around the script (`zy.go init`, `cmd.getRuntimeVM`,
`cmd.RunScriptFile`, `runtime.NewVM` with its default throw control, `VM.LoadAndRun`,
`VM.RunShutdownCallbacks`, `runHeaderCallbacks`) make exactly the calls, in the order and under the
conditions, that `C20Sites.expectedEntry` records and `harness/c20/runner.go` reproduces. -/
theorem C20_entry_path_as_mirrored :
    C20Sites.entryDiff Generated.C20Resets.entry C20Sites.expectedEntry = none := by
  decide

/-! ## (vi) first-of-ties reductions over map-ordered candidates (round 6)

`max`, `min`, `array_search` … keep the *first* candidate that nothing beats and return it as itself.
When the candidates are collected by ranging over the Go map behind a string-keyed array, the candidate
list is an arbitrary permutation of the entries (`Model/Reduce.lean`). -/

/-- **First-of-ties, positive.** For any strict comparison (irreflexive, transitive — Go's `>` on
float64 with NaN, on integers, on strings; no totality assumed): when the entries contain only one
candidate that nothing beats, the loop returns it for every order in which the map iterator may
deliver the entries. -/
theorem Pattern_first_of_ties_perm {α : Type} {gt : α → α → Bool} (h : StrictOrder gt) {xs ys : List α}
    (uniq : ∀ a b, Maximal gt xs a → Maximal gt xs b → a = b) (hp : ys.Perm xs) :
    firstBest gt ys = firstBest gt xs := by
  cases hx : firstBest gt xs with
  | none =>
    cases xs with
    | nil => rw [List.Perm.eq_nil hp]; rfl
    | cons a l => simp [firstBest] at hx
  | some r =>
    have hne : ys ≠ [] := by
      intro e; subst e
      have := hp.symm.eq_nil
      subst this; simp [firstBest] at hx
    obtain ⟨r', hy⟩ := firstBest_isSome gt hne
    have m := firstBest_maximal h hx
    have m' := firstBest_maximal h hy
    have m'' : Maximal gt xs r' :=
      ⟨hp.mem_iff.mp m'.1, fun x hxm => m'.2 x (hp.mem_iff.mpr hxm)⟩
    rw [hy, uniq r' r m'' m]

/-- **First-of-ties, NEGATIVE.** Two different entries that nothing beats (they tie at the top: `3`
and `3.0`): there are two orders of the same entries on which the loop returns different candidates —
each of the two comes out when the iterator delivers it first. No hypothesis on the comparison. -/
theorem Pattern_first_of_ties_depends {α : Type} [DecidableEq α] (gt : α → α → Bool) {xs : List α} {a b : α}
    (ha : Maximal gt xs a) (hb : Maximal gt xs b) (hab : a ≠ b) :
    ∃ l₁ l₂ : List α, l₁.Perm xs ∧ l₂.Perm xs ∧ firstBest gt l₁ ≠ firstBest gt l₂ := by
  refine ⟨a :: xs.erase a, b :: xs.erase b, perm_front ha.1, perm_front hb.1, ?_⟩
  rw [firstBest_head gt a _ (fun x hx => ha.2 x (List.mem_of_mem_erase hx)),
    firstBest_head gt b _ (fun x hx => hb.2 x (List.mem_of_mem_erase hx))]
  intro e; exact hab (Option.some.inj e)

/-- **First-of-ties is independent of the map order iff the best candidate is unique.** For the
entries of an array and any strict comparison: the loop gives one result for every order of the
entries exactly when no two different entries tie at the top. (What a classification of a
`range GetProperties()` site as an order-insensitive reduction has to argue; `max` over values that
may be `3` and `3.0` cannot.) -/
theorem Pattern_first_of_ties_perm_iff {α : Type} [DecidableEq α] {gt : α → α → Bool} (h : StrictOrder gt)
    (xs : List α) :
    (∀ l₁ l₂ : List α, l₁.Perm xs → l₂.Perm xs → firstBest gt l₁ = firstBest gt l₂) ↔
      (∀ a b, Maximal gt xs a → Maximal gt xs b → a = b) := by
  constructor
  · intro indep a b ha hb
    apply Classical.byContradiction
    intro hab
    obtain ⟨l₁, l₂, p₁, p₂, hne⟩ := Pattern_first_of_ties_depends gt ha hb hab
    exact hne (indep l₁ l₂ p₁ p₂)
  · intro uniq l₁ l₂ p₁ p₂
    rw [Pattern_first_of_ties_perm h uniq p₁, Pattern_first_of_ties_perm h uniq p₂]

/-- **`max` / `min` over the entries of a string-keyed array**, candidates taken in the order the loop
meets them: when one entry is strictly the largest (smallest), every collection order gives it. -/
theorem C20_max_unique_best_order_independent {κ : Type} {xs ys : List (κ × PVal)}
    (uniq : ∀ a b, Maximal (fun a b => numGt a.2 b.2) xs a → Maximal (fun a b => numGt a.2 b.2) xs b → a = b)
    (hp : ys.Perm xs) : maxOf ys = maxOf xs := by
  unfold maxOf
  rw [Pattern_first_of_ties_perm (strict_comap numGt_strict (fun e : κ × PVal => e.2)) uniq hp]

theorem C20_min_unique_best_order_independent {κ : Type} {xs ys : List (κ × PVal)}
    (uniq : ∀ a b, Maximal (fun a b => numLt a.2 b.2) xs a → Maximal (fun a b => numLt a.2 b.2) xs b → a = b)
    (hp : ys.Perm xs) : minOf ys = minOf xs := by
  unfold minOf
  rw [Pattern_first_of_ties_perm (strict_comap numLt_strict (fun e : κ × PVal => e.2)) uniq hp]

/-- **Negation witness (replayed on the real interpreter by the reorder stream on a tree that collects
the candidates from the Go map):** `max(['a' => 3, 'b' => 3.0])` with the candidates in map order is not
a function of the array — the two orders of the two entries give `int(3)` and `float(3)`. -/
theorem C20_max_assoc_map_order_counterexample :
    ¬ (∀ l₁ l₂ : List (String × PVal), l₁.Perm [("a", .int 3), ("b", .float 3)] →
        l₂.Perm [("a", .int 3), ("b", .float 3)] → maxOf l₁ = maxOf l₂) := by
  intro hall
  have := hall [("a", .int 3), ("b", .float 3)] [("b", .float 3), ("a", .int 3)] (List.Perm.refl _)
    (List.Perm.swap _ _ _)
  revert this
  decide

/-- the hypotheses of `Pattern_first_of_ties_perm` are satisfiable: one entry on top, two orders -/
example : maxOf [("a", PVal.int 1), ("b", .float 3), ("c", .numstr 2)] = some (.float 3) ∧
    maxOf [("c", PVal.numstr 2), ("a", .int 1), ("b", .float 3)] = some (.float 3) := by decide

/-- … and those of `Pattern_first_of_ties_depends`: `3` and `3.0` both on top -/
example : maxOf [("a", PVal.int 3), ("b", .float 3), ("c", .int 1)] = some (.int 3) ∧
    maxOf [("b", PVal.float 3), ("a", .int 3), ("c", .int 1)] = some (.float 3) := by decide

/-! ## (vii) process-wide stacks with a sentinel (round 7)

`core.obStack` keeps a sentinel at index 0; every function that reads it assumes `len ≥ 1`, and the
end-of-run repair (`FlushAllBuffers`) is itself guarded by `len <= 1`. A built-in that pops under a
weaker guard takes the process-wide stack below its floor for good. `Model/Stack.lean`: the length of
such a container under guarded effects, exactly the facts `extract/c20/stacks.go` regenerates. -/

/-- **Floor, positive (unbounded).** When every op is safe for floor `F` (a pop of `s` is not executed at
the lengths `F … F+s-1`, a reset stores at least `F` elements), every sequence of calls, started at any
length at or above the floor, stays at or above it. -/
theorem Stack_floor_kept {F : Nat} (ops : List Op) (h : ∀ o ∈ ops, o.safe F = true) {n : Nat} (hn : F ≤ n) :
    F ≤ run ops n :=
  run_preserves ops h hn

/-- **Floor, negative.** A pop that is not safe for a floor `F ≥ 1` has a length at or above the floor at
which one call takes the container below it. -/
theorem Stack_unsafe_pop_goes_below {F s : Nat} (hF : 0 < F) {o : Op} (he : o.eff = .pop s)
    (hu : o.safe F = false) : ∃ n, F ≤ n ∧ o.step n < F :=
  unsafe_pop_breaks hF he hu

/-- **Floor, characterisation.** For an alphabet of pushes, pops and readers that contains the unguarded
push (`ob_start`) and a floor `F ≥ 1`: every sequence of calls started at the floor keeps `len ≥ F`
**iff** every popping op is guarded so that it is not executed at the lengths from which it would go
below `F` — for `obStack`: iff every pop is guarded by `len > 1`. -/
theorem Stack_floor_kept_iff (F : Nat) (hF : 0 < F) (A : List Op) (hplain : ∀ o ∈ A, Op.plain o)
    (hpush : push1 ∈ A) :
    (∀ seq : List Op, (∀ o ∈ seq, o ∈ A) → F ≤ run seq F) ↔ (∀ o ∈ A, o.safe F = true) :=
  floor_iff F hF A hplain hpush

/-- **Obligation (regenerated every run): no process-wide slice is taken below its floor.** For every
slice that is process-wide state (field of a struct type with a package-level variable, or a package-level
slice variable) and every effect some function has on its length, with the length guards in force where
the effect stands: a pop is guarded against the lengths from which it would go below the number of
elements the initialiser stores, a reset stores at least as many, an assignment the translator cannot
read is admitted only for floor 0. A new popping function with a weaker guard than its siblings
(`len == 0` where they test `len <= 1`) makes this fail; `echo bad | vm_c20` names it. -/
theorem C20_process_wide_stacks_keep_their_floor :
    unsafeEffects Generated.C20Stacks.containers = [] ∧ Generated.C20Stacks.shape = [] := by
  decide

/-- … and what it means, unbounded: for every regenerated container, every sequence of its regenerated
effects, from any length at or above its floor, ends at or above its floor — in particular the guard of
the end-of-run repair (`len <= floor ⇒ nothing to do`) is right to assume the sentinel is there. -/
theorem C20_regenerated_stacks_floor_invariant :
    ∀ c ∈ Generated.C20Stacks.containers, ∀ seq : List Op, (∀ o ∈ seq, o ∈ c.ops) →
      ∀ n, c.floor ≤ n → c.floor ≤ run seq n := by
  intro c hc seq hseq n hn
  exact run_preserves seq
    (fun o ho => safe_of_unsafeEffects_nil C20_process_wide_stacks_keep_their_floor.1 hc (hseq o ho)) hn

/-- the output-buffer stack as coded at the pinned tree: `push` (ob_start), `pop` (ob_get_clean,
ob_end_clean), `FlushAllBuffers` (end of every run) -/
def obPush : Op := ⟨[], .push 1⟩
def obPop : Op := ⟨[⟨.le, 1, true⟩], .pop 1⟩
def obFlushAll : Op := ⟨[⟨.le, 1, true⟩], .reset 1⟩
def obOps : List Op := [obPush, obPop, obFlushAll]

/-- the regenerated effects on `outputBufferStack.buffers` -/
def obRegenerated : List Op :=
  (Generated.C20Stacks.containers.filter (fun c => c.ty == "outputBufferStack" && c.field == "buffers")).flatMap (·.ops)

/-- **Obligation (regenerated every run): the output-buffer stack is the modelled one** — floor 1, and
every effect on its length is one of `obOps` (or a reader). -/
theorem C20_ob_stack_as_modelled :
    obRegenerated ≠ [] ∧ obRegenerated.all (fun o => o.eff == .none || obOps.contains o) = true ∧
    (Generated.C20Stacks.containers.filter (fun c => c.ty == "outputBufferStack" && c.field == "buffers")).all
      (fun c => c.floor == 1) = true := by
  decide

/-- **The output-buffer stack keeps its sentinel (unbounded):** after any sequence of ob_start /
ob_get_clean / ob_end_clean / end-of-run flushes — any history of programs in one process — the stack holds
its sentinel, `ob_get_level()` is not negative, and the next `ob_start()` does buffer. -/
theorem C20_ob_stack_sentinel_kept (seq : List Op) (h : ∀ o ∈ seq, o ∈ obOps) :
    1 ≤ run seq 1 ∧ 0 ≤ level (run seq 1) ∧ buffering (run (seq ++ [obPush]) 1) = true := by
  have h1 : 1 ≤ run seq 1 := by
    apply run_preserves seq _ (Nat.le_refl 1)
    intro o ho
    have := h o ho
    simp only [obOps, List.mem_cons, List.not_mem_nil, or_false] at this
    rcases this with rfl | rfl | rfl <;> decide
  refine ⟨h1, ?_, ?_⟩
  · simp only [level]; omega
  · rw [run_append]
    have : run [obPush] (run seq 1) = run seq 1 + 1 := by
      simp [Model.Stack.run, obPush, Op.step, Op.runs, Effect.apply]
    rw [this]
    simp only [buffering, decide_eq_true_eq]
    omega

/-- **Negation witness (replayed on the real interpreter by the unbalanced stream on a tree that has it):**
an `ob_end_flush` whose pop is guarded by `len == 0` instead of `len <= 1`. One unmatched call removes the
sentinel (`ob_get_level()` = -1), the end-of-run repair skips it (`len <= 1`), and the next program's
`ob_start()` only re-creates the sentinel: it buffers nothing, where a fresh process buffers. -/
def seededFlush : Op := ⟨[⟨.eq, 0, true⟩], .pop 1⟩

theorem C20_ob_end_flush_sentinel_counterexample :
    seededFlush.safe 1 = false ∧
    run [seededFlush] 1 = 0 ∧ level (run [seededFlush] 1) = -1 ∧
    run [seededFlush, obFlushAll] 1 = 0 ∧
    buffering (run [seededFlush, obFlushAll, obPush] 1) = false ∧ buffering (run [obPush] 1) = true ∧
    ¬ (∀ seq : List Op, (∀ o ∈ seq, o ∈ seededFlush :: obOps) → 1 ≤ run seq 1) := by
  refine ⟨by decide, by decide, by decide, by decide, by decide, by decide, ?_⟩
  intro hall
  have := hall [seededFlush] (by intro o ho; simp only [List.mem_singleton] at ho; rw [ho]; exact List.mem_cons_self)
  revert this
  decide

/-! ## (viii) a raised error is a mutable object: fresh per raise, never process-wide (round 8) -/

/-- **Obligation (regenerated every run): no mutable reference is handed out of a package-level
variable unaccounted for.** Every package-level variable of the linked packages that holds a reference
(pointer, or interface initialised with a pointer — through its constructor if need be) to a struct
some of whose fields are assigned anywhere in the linked packages, and that is used as a value
(returned, passed, stored), is either a classified cell whose discipline speaks about its content
(reset per run, out of scope, or a listed leak) or argued in `C20Sites.sharedArgued`; no argued entry is
stale; the translator could resolve every initialiser. An error value hoisted to package level
(`var errX = data.NewErrorThrow(…)` … `return nil, errX`) makes this fail: `ThrowValue.StackFrames`
and `Error.From` are assigned while it unwinds. -/
theorem C20_shared_references_classified :
    C20Sites.badShared C20Sites.cells C20Sites.KnownCells C20Sites.sharedArgued Generated.C20Shared.refs = [] ∧
    C20Sites.staleShared C20Sites.sharedArgued Generated.C20Shared.refs = [] ∧
    Generated.C20Shared.shape = [] := by
  decide

/-- **A fresh object per raise: what a program's errors show does not depend on the history.** For
every history of raises `h` (any programs, any VMs, caught or not — any steps) and every program `b`:
each raise of `b` shows exactly its own first offered position and its own frames. -/
theorem C20_error_fresh_per_raise_history_independent {P F : Type} (h b : List (List (Step P F))) :
    shows .perRaise h b = shows .perRaise [] b ∧
    shows .perRaise h b = b.map (fun r => (⟨firstFill r, pushes r⟩ : ErrObj P F)) := by
  have key : ∀ h : List (List (Step P F)), shows .perRaise h b = b.map (fun r => unwind r ErrObj.fresh) := by
    intro h
    rw [shows_eq, runRaises_perRaise]
  refine ⟨by rw [key h, key []], ?_⟩
  rw [key h]
  apply List.map_congr_left
  intro r _
  have hp := unwind_pos r (ErrObj.fresh : ErrObj P F)
  have hf := unwind_frames r (ErrObj.fresh : ErrObj P F)
  simp only [ErrObj.fresh, List.nil_append] at hp hf
  cases hu : unwind r (⟨none, []⟩ : ErrObj P F) with
  | mk p f =>
    simp only [ErrObj.fresh, hu] at hp hf ⊢
    simp [hp, hf]

/-- **One object for the whole process: the first raise of the later program shows the history.** Its
position is the first position ANY raise of the process was offered (its own only if none was), and its
frames are the frames of every earlier raise followed by its own. -/
theorem C20_error_shared_object_carries_history {P F : Type} (h : List (List (Step P F)))
    (r : List (Step P F)) (b : List (List (Step P F))) :
    ∃ o rest, shows .shared h (r :: b) = o :: rest ∧
      o.frames = pushes h.flatten ++ pushes r ∧
      o.pos = (match firstFill h.flatten with
        | some p => some p
        | none => firstFill r) := by
  refine ⟨unwind r (unwind h.flatten ErrObj.fresh),
    (runRaises .shared (unwind r (unwind h.flatten ErrObj.fresh)) b).2, ?_, ?_, ?_⟩
  · rw [shows_eq, runRaises_shared_state]
    simp only [runRaises]
  · rw [unwind_frames, unwind_frames]
    simp [ErrObj.fresh]
  · rw [unwind_pos, unwind_pos]
    simp only [ErrObj.fresh]
    cases firstFill h.flatten <;> rfl

/-- **…and that is a difference whenever the history crossed a boundary.** If any earlier raise of the
process recorded a frame, the first raise of the later program does not show what it shows in a fresh
process — whatever the programs are. -/
theorem C20_error_shared_object_differs {P F : Type} (h : List (List (Step P F)))
    (r : List (Step P F)) (b : List (List (Step P F))) (hne : pushes h.flatten ≠ []) :
    (shows .shared h (r :: b)).head? ≠ (shows .shared [] (r :: b)).head? := by
  obtain ⟨o, rest, ho, hf, _⟩ := C20_error_shared_object_carries_history h r b
  obtain ⟨o', rest', ho', hf', _⟩ := C20_error_shared_object_carries_history [] r b
  rw [ho, ho']
  simp only [List.head?_cons, ne_eq, Option.some.injEq]
  intro heq
  rw [heq, hf'] at hf
  simp only [List.flatten_nil, pushes, List.nil_append] at hf
  have hl := congrArg List.length hf
  simp only [List.length_append] at hl
  have : (pushes h.flatten).length = 0 := by omega
  exact hne (List.length_eq_zero_iff.mp this)

/-- **Negation witness (replayed on the real interpreter by the error stream on a tree that has it):**
the spread-operator error as one package-level value. Program A meets a bad spread operand at A.php:4
two boundaries deep and catches it; program B meets one at B.php:3 one boundary deep. With an object
per raise B shows B.php:3 and its own frame; with the shared object it shows A.php:4 and A's two
frames before its own. -/
theorem C20_spread_sentinel_counterexample :
    let a : List (List (Step (String × Nat) String)) := [[.fill ("A.php", 4), .push "merge_rows", .push "Report::add"]]
    let b : List (List (Step (String × Nat) String)) := [[.fill ("B.php", 3), .push "widen"]]
    shows .perRaise a b = [⟨some ("B.php", 3), ["widen"]⟩] ∧
    shows .shared [] b = [⟨some ("B.php", 3), ["widen"]⟩] ∧
    shows .shared a b = [⟨some ("A.php", 4), ["merge_rows", "Report::add", "widen"]⟩] ∧
    shows .shared b b = [⟨some ("B.php", 3), ["widen", "widen"]⟩] := by
  decide

end C20
