import Proofs.Lemmas.HierIs
import Proofs.Lemmas.HierDispatch
import Proofs.Lemmas.HierShapeQ
import Proofs.Lemmas.HierShapeR
import Proofs.Lemmas.HierShapeC
import Proofs.Lemmas.HierShapeD
import Proofs.Lemmas.HierNames
import Generated.C08Walks
/-!
# C08 — instanceof, type hints, catch and dispatch follow the declared class hierarchy

Property theorems only. `Model.Hier` mirrors the Go walks (queue loop with visited set, extends-chain loops with
fuel, the recursive `checkInterfaceIs`, the four method lookups, the `ClassMethodContext` fields); `Spec.Hier`
states what a user relies on (`IsA`, `MostDerived`, `LikeSpec`) on the declared hierarchy alone. All theorems
hold for **every** finite graph — any number of classes, interfaces, edges.

Fuel: `Walk.fuel` / `R.fuel` / `none` are explicit outcomes of the model; every theorem below that says the model
*equals* the specification therefore also says the fuel computed from the graph (`classFuel`, `bfsFuel`,
`depthFuel`) was sufficient. The counting lemmas are `Proofs.Hier.walkUp_no_fuel`, `bfs_fuel`, `dfs_no_fuel`.
-/
namespace C08
open Model.Hier Spec.Hier Proofs.Hier

/-! ### the subtype relation -/

/-- **`interfaceExtends` (BFS with visited set) = reachability, on every graph** — cyclic interface graphs and
undeclared names included; no hypothesis. -/
theorem C08_interfaceExtends_iff_reach (G : Graph) (s t : Name) :
    ∃ b, interfaceExtends G s t = some b ∧ (b = true ↔ IReach G s t) :=
  interfaceExtends_spec G s t

/-- **The extends-chain loop never runs out of fuel on an acyclic class graph** (counting lemma: a chain without
a repeated class has at most `|classes|` declared members), whatever is done at each class. -/
theorem C08_chain_fuel_sufficient {α : Type} (G : Graph) (hac : Acyclic G) (visit : Cls → Option (Option α))
    (hv : ∀ c, visit c ≠ none) (ext : Option Name) : walkUp G visit (classFuel G) ext ≠ .fuel :=
  walkUp_no_fuel G hac.1 visit hv ext

/-- **instanceof ⇔ reachability.** On an acyclic hierarchy each of the four implementations — the `instanceof`
operator (`checkClassIs`), a typed parameter receiving an object (`isClassValueInstanceOf`), a typed parameter
receiving `$this` (`Class.Is` arm `*ThisValue`), and `catch (T)` (`catchTypeMatches`) — answers, and answers
`yes` exactly when `t` is the class, an ancestor, or an interface reachable through implements/extends edges. -/
theorem C08_instanceof_iff_reach (G : Graph) (hac : Acyclic G) (k : Kind) (c : Cls) (t : Name) (hok : KindOK G c k) :
    (isInstanceOf G k c t = .yes ↔ IsA G c t) ∧ (isInstanceOf G k c t = .no ↔ ¬ IsA G c t) := by
  rcases decides_of_kind G hac k c t hok with ⟨h1, h2⟩ | ⟨h1, h2⟩
  · rw [h1]; exact ⟨by simp [h2], by simp [h2]⟩
  · rw [h1]; exact ⟨by simp [h2], by simp [h2]⟩

/-- The type-hint paths need only the *class* part of acyclicity: their interface walk has a visited set. -/
theorem C08_typehint_iff_reach (G : Graph) (hn : NoCycle (csucc G)) (c : Cls) (t : Name) :
    (isClassValue G t c = .yes ↔ IsA G c t) ∧ (isClassValue G t c = .no ↔ ¬ IsA G c t) ∧
    (isThisValue G t c = .yes ↔ IsA G c t) ∧ (isThisValue G t c = .no ↔ ¬ IsA G c t) := by
  have a := isClassValue_spec G hn t c
  have b := isThisValue_spec G hn t c
  refine ⟨?_, ?_, ?_, ?_⟩
  · rcases a with ⟨h1, h2⟩ | ⟨h1, h2⟩ <;> rw [h1] <;> simp [h2]
  · rcases a with ⟨h1, h2⟩ | ⟨h1, h2⟩ <;> rw [h1] <;> simp [h2]
  · rcases b with ⟨h1, h2⟩ | ⟨h1, h2⟩ <;> rw [h1] <;> simp [h2]
  · rcases b with ⟨h1, h2⟩ | ⟨h1, h2⟩ <;> rw [h1] <;> simp [h2]

/-- **The paths agree**: `instanceof`, a T-typed parameter (object or `$this`) and `catch (T)` decide identically. -/
theorem C08_three_paths_agree (G : Graph) (hac : Acyclic G) (hwf : WF G) (c : Cls) (hc : Declared G c)
    (hthr : ThrowableOK G c) (t : Name) (k₁ k₂ : Kind) :
    isInstanceOf G k₁ c t = isInstanceOf G k₂ c t := by
  have ok : ∀ k, KindOK G c k := by
    intro k; cases k
    · exact ⟨hwf, hc⟩
    · trivial
    · trivial
    · exact hthr
  rcases decides_of_kind G hac k₁ c t (ok k₁) with ⟨h1, h2⟩ | ⟨h1, h2⟩ <;>
  rcases decides_of_kind G hac k₂ c t (ok k₂) with ⟨g1, g2⟩ | ⟨g1, g2⟩
  · rw [h1, g1]
  · exact absurd h2 g2
  · exact absurd g2 h2
  · rw [h1, g1]

/-! ### dispatch -/

/-- **`$o->m()` runs the most-derived definition**: the lookup finds instance method `x` in class `d` exactly
when `d` is the nearest class at or above the object's class that declares `m`. -/
theorem C08_dispatch_most_derived (G : Graph) (hac : Acyclic G) (c d : Cls) (m : Name) (x : Meth) :
    getMethod G c m = .found (false, d, x) ↔ MostDerived G (declInst m) c d x := by
  constructor
  · intro h
    unfold getMethod at h
    cases hl : lookupFrom G (·.meths) c m with
    | found r =>
      obtain ⟨d', x'⟩ := r
      rw [hl] at h
      simp only [Walk.found.injEq, Prod.mk.injEq, true_and] at h
      obtain ⟨rfl, rfl⟩ := h
      exact lookupFrom_found G (·.meths) c d' m x' hl
    | fuel => rw [hl] at h; cases h
    | missing n => rw [hl] at h; cases h
    | absent =>
      rw [hl] at h
      simp only at h
      cases hs : lookupFrom G (·.smeths) c m with
      | found r => obtain ⟨d', x'⟩ := r; rw [hs] at h; simp at h
      | fuel => rw [hs] at h; cases h
      | missing n => rw [hs] at h; cases h
      | absent => rw [hs] at h; cases h
  · intro h
    have := lookupFrom_complete G hac.1 (·.meths) c d m x h
    unfold getMethod
    rw [this]

/-- If no class on the chain declares an instance method `m`, `$o->m()` falls back to the most-derived *static*
method `m`; if there is none either, the call fails. -/
theorem C08_dispatch_static_fallback (G : Graph) (hac : Acyclic G) (hwf : WF G) (c : Cls) (hc : Declared G c)
    (m : Name) :
    (∀ d x, getMethod G c m = .found (true, d, x) ↔
        NoneDeclares G (declInst m) c ∧ MostDerived G (declStat m) c d x) ∧
    (getMethod G c m = .absent ↔ NoneDeclares G (declInst m) c ∧ NoneDeclares G (declStat m) c) := by
  have hi := lookupFrom_cases G hac.1 (·.meths) c m
  have hs := lookupFrom_cases G hac.1 (·.smeths) c m
  have nmi := lookupFrom_no_missing G hwf (·.meths) c hc m
  have nms := lookupFrom_no_missing G hwf (·.smeths) c hc m
  unfold getMethod
  rcases hi with ⟨d, x, hl, hm⟩ | ⟨hl, hnd⟩
  · rw [hl]
    refine ⟨fun d' x' => ⟨by simp, fun h => (mostDerived_not_none hm h.1).elim⟩,
      ⟨by simp, fun h => (mostDerived_not_none hm h.1).elim⟩⟩
  · rcases hl with hl | ⟨n, hl⟩
    · rw [hl]
      simp only
      rcases hs with ⟨d, x, hl2, hm2⟩ | ⟨hl2, hnd2⟩
      · rw [hl2]
        refine ⟨fun d' x' => ⟨fun h => ?_, fun h => ?_⟩, ⟨by simp, fun h => (mostDerived_not_none hm2 h.2).elim⟩⟩
        · simp only [Walk.found.injEq, Prod.mk.injEq, true_and] at h
          obtain ⟨rfl, rfl⟩ := h
          exact ⟨hnd, hm2⟩
        · have := lookupFrom_complete G hac.1 (·.smeths) c d' m x' h.2
          rw [hl2] at this
          simp only [Walk.found.injEq, Prod.mk.injEq] at this
          obtain ⟨rfl, rfl⟩ := this
          rfl
      · rcases hl2 with hl2 | ⟨n, hl2⟩
        · rw [hl2]
          exact ⟨fun d' x' => ⟨by simp, fun h => (mostDerived_not_none h.2 hnd2).elim⟩, ⟨fun _ => ⟨hnd, hnd2⟩, fun _ => rfl⟩⟩
        · exact absurd hl2 (nms n)
    · exact absurd hl (nmi n)

/-- **`parent::m()` runs the nearest ancestor's definition**: with `k` the class the call is resolved against
(the class the code was written in — see `C08_parent_base`), the call finds method `x` (instance or static) in
class `a` exactly when `a` is the nearest class at or above `k`'s parent that declares `m`. -/
theorem C08_parent_nearest (G : Graph) (hac : Acyclic G) (ctx : Ctx) (cur : Name) (k p a : Cls)
    (hbase : parentBase G ctx cur = k) (hext : k.ext = some p.name) (hp : Declared G p)
    (m : Name) (b : Bool) (x : Meth) :
    parentCall G ctx cur m = .found (a, b, x) ↔ MostDerived G (declAny m) p a (b, x) := by
  unfold parentCall
  rw [hbase, hext]
  simp only
  rw [visitBoth_eq]
  constructor
  · intro h
    obtain ⟨c0, hc0, hm⟩ := walkTag_found G (declAny m) _ p.name a (b, x) h
    unfold Declared at hp
    rw [hp] at hc0; cases hc0
    exact hm
  · intro h
    exact walkTag_complete G hac.1 (declAny m) p.name p a (b, x) hp h

/-- The class `parent::` is resolved against is the class the code was written in: in a body entered by
`$o->m()` it is the class the running method was found in (recorded in `SelfClass` on entry), in a body
entered through `parent::` likewise — never the runtime class of the object, whatever the parser recorded.
(Before the repair of the visibility checks a body entered by `$o->m()` carried no `SelfClass` and the
parser's record was used, and only if that class was registered and had a parent: the second conjunct.) -/
theorem C08_parent_base (G : Graph) (d k : Cls) (hk : Declared G k) (hext : k.ext.isSome = true) (ctx : Ctx) (f : Cls)
    (cur : Name) :
    parentBase G (Ctx.ofMethod d k) cur = k ∧ parentBase G (Ctx.ofObject d) k.name = k ∧
      parentBase G (ctx.afterParent f) cur = f := by
  refine ⟨rfl, ?_, rfl⟩
  unfold parentBase Ctx.ofObject Declared at *
  simp only
  rw [hk]; simp [hext]

/-- **`self::` binds to the defining class, `static::` to the class the context carries.**
`self::s()` written in class `k` finds the most-derived static `s` at or above `k`, whatever the runtime class;
`static::s()` finds the most-derived static `s` at or above `staticBase ctx`, which is the object's runtime class
in a body entered by `$o->m()` and the named class in a body entered by `D::m()`. -/
theorem C08_self_static_binding (G : Graph) (hac : Acyclic G) (s : Name) (a : Cls) (x : Meth) :
    (∀ k, Declared G k → (selfCall G k.name s = .found (a, x) ↔ MostDerived G (declStat s) k a x)) ∧
    (∀ ctx, staticKwCall G ctx s = .found (a, x) ↔ MostDerived G (declStat s) (staticBase ctx) a x) ∧
    (∀ d, staticBase (Ctx.ofObject d) = d) ∧
    (∀ D f, staticBase (Ctx.afterNamed D f) = D) := by
  refine ⟨fun k hk => ?_, fun ctx => ?_, fun _ => rfl, fun _ _ => rfl⟩
  · unfold selfCall namedStaticCall
    unfold Declared at hk
    rw [hk]
    exact ⟨lookupFrom_found G (·.smeths) k a s x, lookupFrom_complete G hac.1 (·.smeths) k a s x⟩
  · unfold staticKwCall
    exact ⟨lookupFrom_found G (·.smeths) _ a s x, lookupFrom_complete G hac.1 (·.smeths) _ a s x⟩

/-
Full statement (PHP: `self::`, `parent::` and `static::` forward the late-static-binding class):
  ∀ d hops, (staticBase (hops.foldl Ctx.hop (Ctx.ofObject d))).name = d.name
The pinned code violates it (known finding C08-lsb-forwarding): a `self::` hop re-binds `static::` to the class
the code was written in, and a `parent::` hop taken in a static context re-binds it to the class that defines
the running method. What does hold:
-/

/-- In a body entered by `$o->m()`, any sequence of `parent::` and `static::` hops keeps `static::` bound to the
runtime class of the object (and keeps the context's class equal to it). -/
theorem C08_static_binding_paths_partial (d : Cls) (hops : List Hop) (h : ∀ x ∈ hops, x.isSelf = false) :
    staticBase (hops.foldl Ctx.hop (Ctx.ofObject d)) = d := by
  suffices H : ∀ (hops : List Hop) (ctx : Ctx), (∀ x ∈ hops, x.isSelf = false) → ctx.cls = d → staticBase ctx = d →
      staticBase (hops.foldl Ctx.hop ctx) = d from H hops _ h rfl rfl
  intro hops
  induction hops with
  | nil => intro ctx _ _ hs; exact hs
  | cons x r ih =>
    intro ctx hx hc hs
    simp only [List.foldl_cons]
    apply ih _ (fun y hy => hx y (by simp [hy]))
    · cases x with
      | parent f => exact hc
      | staticKw => exact hs
      | self _ _ => have := hx _ (List.mem_cons_self ..); simp [Hop.isSelf] at this
    · cases x with
      | parent f => exact hc
      | staticKw => exact hs
      | self _ _ => have := hx _ (List.mem_cons_self ..); simp [Hop.isSelf] at this

/-- In a body entered by `D::m()`, any sequence of `static::` hops keeps `static::` bound to `D`. -/
theorem C08_static_binding_named_partial (D f : Cls) (hops : List Hop) (h : ∀ x ∈ hops, x.isStaticKw = true) :
    staticBase (hops.foldl Ctx.hop (Ctx.afterNamed D f)) = D := by
  suffices H : ∀ (hops : List Hop) (ctx : Ctx), (∀ x ∈ hops, x.isStaticKw = true) → staticBase ctx = D →
      staticBase (hops.foldl Ctx.hop ctx) = D from H hops _ h rfl
  intro hops
  induction hops with
  | nil => intro ctx _ hs; exact hs
  | cons x r ih =>
    intro ctx hx hs
    simp only [List.foldl_cons]
    apply ih _ (fun y hy => hx y (by simp [hy]))
    cases x with
    | staticKw => exact hs
    | parent f => have := hx _ (List.mem_cons_self ..); simp [Hop.isStaticKw] at this
    | self _ _ => have := hx _ (List.mem_cons_self ..); simp [Hop.isStaticKw] at this

def exA : Cls := { name := 10, ext := none, impl := [101], meths := [⟨0, 1⟩, ⟨1, 0⟩], smeths := [⟨20, 0⟩] }
def exB : Cls := { name := 11, ext := some 10, impl := [102], meths := [⟨0, 2⟩], smeths := [] }
def exC : Cls := { name := 12, ext := some 11, impl := [], meths := [⟨2, 0⟩], smeths := [⟨20, 0⟩] }

/-- negation witness (replayed on the real code by the harness' known stream): object of class C, method of A
does `self::mid()`, `mid` does `static::leaf()` — bound to A, not to C. -/
theorem C08_static_binding_paths_counterexample :
    ¬ ∀ (d : Cls) (hops : List Hop), (staticBase (hops.foldl Ctx.hop (Ctx.ofObject d))).name = d.name := by
  intro h
  have := h exC [.self exA exA]
  simp [Ctx.hop, Ctx.afterNamed, staticBase, exA, exC] at this

/-- negation witness: `C::pentry()` found in B does `parent::mid()` — `static::` is then bound to B, not to C. -/
theorem C08_static_binding_named_counterexample :
    ¬ ∀ (D f : Cls) (hops : List Hop), (staticBase (hops.foldl Ctx.hop (Ctx.afterNamed D f))).name = D.name := by
  intro h
  have := h exC exB [.parent exA]
  simp [Ctx.hop, Ctx.afterNamed, Ctx.afterParent, staticBase, exB, exC] at this

/-! ### like -/

/-- **`$o like T`** holds exactly when the object provides, itself or by inheritance (most-derived definition),
every instance method `T` declares, with the same number of parameters — `T` a class or an interface; an
unknown `T` gives `false`. (Model of the code after fix 2467b2d.) -/
theorem C08_like_iff (G : Graph) (hac : Acyclic G) (c : Cls) (t : Name) :
    (∀ T, getClass G t = some T → ∃ b, like G c t = some b ∧ (b = true ↔ LikeSpec G c T.meths)) ∧
    (getClass G t = none → ∀ I, getIface G t = some I →
        ∃ b, like G c t = some b ∧ (b = true ↔ LikeSpec G c I.meths)) ∧
    (getClass G t = none → getIface G t = none → like G c t = some false) := by
  refine ⟨fun T hT => ?_, fun hn I hI => ?_, fun hn hi => ?_⟩
  · unfold like; rw [hT]; exact likeMeths_spec G hac.1 c T.meths
  · unfold like; rw [hn, hI]; exact likeMeths_spec G hac.1 c I.meths
  · unfold like; rw [hn, hi]

/-! ### why acyclicity is assumed, and only where -/

def exCyc : Graph :=
  { classes := [{ name := 10, ext := none, impl := [100], meths := [], smeths := [] }],
    ifaces := [{ name := 100, ext := [101], meths := [] }, { name := 101, ext := [100], meths := [] },
               { name := 102, ext := [], meths := [] }] }

/-- On a cyclic interface graph the recursive `checkInterfaceIs` of the `instanceof` operator does not terminate
(the model runs out of fuel; the real interpreter overflows its stack), while the BFS of the type-hint path
answers `no`. -/
theorem C08_acyclic_needed_for_op :
    ∃ c, getClass exCyc 10 = some c ∧ instanceofOp exCyc 102 c = .fuel ∧ isClassValue exCyc 102 c = .no := by
  refine ⟨_, rfl, ?_, ?_⟩ <;> decide

/-! ### non-vacuity -/

def exG : Graph :=
  { classes := [exA, exB, exC],
    ifaces := [{ name := 100, ext := [], meths := [⟨0, 1⟩] }, { name := 101, ext := [100], meths := [] },
               { name := 102, ext := [101, 100], meths := [⟨1, 0⟩] }, { name := 103, ext := [], meths := [] }] }

example : Acyclic exG := acyclic_of_rankOK exG (by decide)
example : WF exG := wf_of_wfB exG (by decide)
example : Declared exG exC := by unfold Declared; decide
/-- a class that is neither `Exception` nor `Error` satisfies `ThrowableOK` -/
example : ThrowableOK exG exC := by
  have hac : Acyclic exG := acyclic_of_rankOK exG (by decide)
  constructor <;> intro h
  · have := (C08_instanceof_iff_reach exG hac .param exC exceptionName trivial).2.1 (by decide)
    exact absurd h this
  · have := (C08_instanceof_iff_reach exG hac .param exC errorName trivial).2.1 (by decide)
    exact absurd h this
-- C is an I (grandparent's interface's parent), reached by all four implementations; C is not an L
example : (List.map (fun k => isInstanceOf exG k exC 100) [.op, .param, .this, .thrown]) = [.yes, .yes, .yes, .yes] := by decide
example : (List.map (fun k => isInstanceOf exG k exC 103) [.op, .param, .this, .thrown]) = [.no, .no, .no, .no] := by decide
example : IsA exG exC 100 :=
  IsA.ext rfl (by decide : getClass exG 11 = some exB)
    (IsA.impl (i := 102) (by decide) (IReach.step (d := ⟨102, [101, 100], [⟨1, 0⟩]⟩) (by decide) (by decide : 100 ∈ [101, 100]) (IReach.refl 100)))
-- dispatch: `$c->m0()` runs B::m0 (arity 2), `parent::m0()` written in B runs A::m0
example : getMethod exG exC 0 = .found (false, exB, ⟨0, 2⟩) := by decide
example : parentCall exG (Ctx.ofMethod exC exB) 11 0 = .found (exA, false, ⟨0, 1⟩) := by decide
-- `parent::` written in A (no parent) and inherited by C: nothing above A, whatever the object's class
example : parentCall exG (Ctx.ofMethod exC exA) 10 0 = .absent := by decide
-- the hypotheses of `C08_parent_nearest` on that call: code written in B (11), B's parent is the declared class A
example : parentBase exG (Ctx.ofMethod exC exB) 11 = exB ∧ exB.ext = some exA.name ∧ Declared exG exA := by
  refine ⟨by decide, rfl, ?_⟩; unfold Declared; decide
example : MostDerived exG (declAny 0) exA exA (false, ⟨0, 1⟩) := ⟨[], AncVia.self exA, by decide, by simp⟩
example : MostDerived exG (declInst 1) exC exA ⟨1, 0⟩ :=
  ⟨[exC, exB], AncVia.up rfl (by decide : getClass exG 11 = some exB) (AncVia.up rfl (by decide : getClass exG 10 = some exA) (AncVia.self exA)),
    by decide, by decide⟩
-- a hop sequence without `self::` (hypothesis of `C08_static_binding_paths_partial`)
example : ∀ x ∈ [Hop.parent exB, Hop.staticKw, Hop.parent exA], x.isSelf = false := by decide
example : selfCall exG 10 20 = .found (exA, ⟨20, 0⟩) ∧ staticKwCall exG (Ctx.ofObject exC) 20 = .found (exC, ⟨20, 0⟩) := by decide
-- like: C provides I0's m0? most-derived m0 is B's with 2 parameters, I0 wants 1 → false; K's m1/0 is A's → true
example : like exG exC 100 = some false ∧ like exG exC 102 = some true := by decide

/-! ## Regenerated facts: the shape of the walks (`Generated.C08Walks`, written by `extract/c08` on every run)

`Model.Hier` mirrors the walks by hand. What makes the mirror right is a list of syntactic facts about the Go loops; the
translator regenerates them, `Model.HierShape` interprets a fact record as a walk, and the theorems below say, for EVERY
record that passes the decidable check, that the interpreted walk is reachability / the most-derived lookup / `IsA` (so it
is the model's walk). The obligations `C08_walks_obligation_*` discharge the checks for the regenerated records by `decide`:
a change of the source that invalidates a fact breaks the obligation of that name. Each `…_counterexample` is a record with
one realistic mistake and a concrete hierarchy on which the guarantee fails. -/

section Walks
open Model.HierShape Proofs.HierShape

/-! ### the queue loop of `interfaceExtends` -/

/-- **Generic: every well-shaped worklist decides reachability over interface-extends edges, on every graph** (cyclic ones,
undeclared names included): the start is tested, the queue is seeded with ALL parents, the loop re-reads the queue every trip,
takes from either end, tests the name taken, SKIPS a visited name, marks, skips an unregistered name, appends ALL parents of
the loaded interface, and answers `false` when the queue is dry. -/
theorem C08_walks_worklist_reach (S : Worklist) (hok : S.ok = true) (G : Graph) (s t : Name) :
    ∃ b, runIE S G s t = some b ∧ (b = true ↔ IReach G s t) :=
  runIE_spec hok G s t

/-- a well-shaped worklist that takes from the head and also tests the loaded name IS the model's `bfs`, trip by trip -/
theorem C08_walks_worklist_is_bfs (S : Worklist) (hok : S.ok = true) (hh : S.take = .head) (hl : S.hitOnLoad = true)
    (G : Graph) (t : Name) (f : Nat) (q vis : List Name) : runW S G t f q vis = bfs G t f q vis :=
  runW_eq_bfs (wok_of_ok hok) hh hl G t f q vis

/-- obligation: the regenerated worklist facts are well-shaped -/
theorem C08_walks_obligation_worklist :
    (∀ S ∈ Generated.C08Walks.worklists, S.ok = true) ∧ Generated.C08Walks.worklists ≠ [] := by
  first | decide | fail "obligation C08_walks_obligation_worklist no longer holds: data/type_class.go interfaceExtends no longer has the shape of a worklist that decides reachability (start test, queue seeded with ALL parents, loop that re-reads the queue, target test on the name taken, visited names SKIPPED and marked, ALL parents appended, false when dry) — see Generated.C08Walks.worklists"

/-- hence the `interfaceExtends` of the working tree decides reachability -/
theorem C08_walks_interfaceExtends_generated (S : Worklist) (hS : S ∈ Generated.C08Walks.worklists) (G : Graph) (s t : Name) :
    ∃ b, runIE S G s t = some b ∧ (b = true ↔ IReach G s t) :=
  C08_walks_worklist_reach S (C08_walks_obligation_worklist.1 S hS) G s t

def wlCanon : Worklist :=
  { fn := "w", startHit := true, seed := .all, loop := .live, take := .head, hitOnTake := true, onSeen := .skip,
    marks := true, onMissing := .next, hitOnLoad := true, push := .all, dry := false }

def ifc (n : Name) (ext : List Name) : Ifc := { name := n, ext := ext, meths := [] }

/-- I100 → I101 → I102 -/
def exLine : Graph := { classes := [], ifaces := [ifc 100 [101], ifc 101 [102], ifc 102 []] }
/-- I100 → {I101, I102}, I101 → I103, I102 → {I103, I104} -/
def exDiamond : Graph :=
  { classes := [], ifaces := [ifc 100 [101, 102], ifc 101 [103], ifc 102 [103, 104], ifc 103 [], ifc 104 []] }
/-- I100 ⇄ I101 -/
def exLoop : Graph := { classes := [], ifaces := [ifc 100 [101], ifc 101 [100]] }

/-- negation witness (seeded change C08-interface-extends-range-snapshot): `for _, name := range queue` iterates over a
snapshot, what the body appends is never visited — an interface two hops up is missed. -/
theorem C08_walks_snapshot_counterexample :
    ¬ ∀ G s t, ∃ b, runIE { wlCanon with loop := .snapshot } G s t = some b ∧ (b = true ↔ IReach G s t) := by
  intro h
  obtain ⟨b, hb, hiff⟩ := h exLine 100 102
  have : runIE { wlCanon with loop := .snapshot } exLine 100 102 = some false := by decide
  rw [this] at hb; cases hb
  exact absurd (hiff.2 (reach_of_ok (S := wlCanon) (by decide) (by decide))) (by simp)

/-- negation witness: only the first parent of a loaded interface is appended (`append(queue, parent.GetExtends()[0])`) -/
theorem C08_walks_first_parent_counterexample :
    ¬ ∀ G s t, ∃ b, runIE { wlCanon with push := .first } G s t = some b ∧ (b = true ↔ IReach G s t) := by
  intro h
  obtain ⟨b, hb, hiff⟩ := h exDiamond 100 104
  have : runIE { wlCanon with push := .first } exDiamond 100 104 = some false := by decide
  rw [this] at hb; cases hb
  exact absurd (hiff.2 (reach_of_ok (S := wlCanon) (by decide) (by decide))) (by simp)

/-- negation witness: a visited name ends the walk (`return false` / `break` where `continue` belongs) — the siblings still in
the queue are never looked at -/
theorem C08_walks_seen_stops_counterexample :
    ¬ ∀ G s t, ∃ b, runIE { wlCanon with onSeen := .stop } G s t = some b ∧ (b = true ↔ IReach G s t) := by
  intro h
  obtain ⟨b, hb, hiff⟩ := h exDiamond 100 104
  have : runIE { wlCanon with onSeen := .stop } exDiamond 100 104 = some false := by decide
  rw [this] at hb; cases hb
  exact absurd (hiff.2 (reach_of_ok (S := wlCanon) (by decide) (by decide))) (by simp)

/-- negation witness: without marking, the loop does not end on a cyclic interface graph (the model runs out of any fuel) -/
theorem C08_walks_unmarked_counterexample :
    ¬ ∀ G s t, ∃ b, runIE { wlCanon with marks := false } G s t = some b ∧ (b = true ↔ IReach G s t) := by
  intro h
  obtain ⟨b, hb, _⟩ := h exLoop 100 105
  have : runIE { wlCanon with marks := false } exLoop 100 105 = none := by decide
  rw [this] at hb; cases hb

-- non-vacuity: the pinned shape, and the harmless variants (a stack instead of a queue; no second target test)
example : wlCanon.ok = true ∧ ({ wlCanon with take := .last } : Worklist).ok = true ∧
    ({ wlCanon with hitOnLoad := false } : Worklist).ok = true := by decide
example : runIE { wlCanon with take := .last } exDiamond 100 104 = some true := by decide

/-! ### the recursion of `checkInterfaceIs` -/

/-- **Generic: a well-shaped recursive walk without seen set IS the model's `dfs`** (name test, range over ALL parents, an
unregistered parent is skipped, a parent that reaches the target ends the walk with `true`, one that does not lets the loop go
on, `false` after the loop). -/
theorem C08_walks_rec_is_dfs (S : RecWalk) (hok : S.ok = true) (ha : S.onSeen = .absent) (G : Graph) (t : Name) (f : Nat)
    (i : Ifc) (seen : List Name) : runR S G t f i seen = (dfs G t f i).map (fun b => (b, seen)) :=
  runR_eq_dfs (rok_of_ok hok).1 ha G t f i seen

/-- **Generic: a well-shaped recursive walk that keeps a seen set and SKIPS seen parents decides reachability on every graph
whose parent names are declared — cyclic ones included** (so adding a correct seen set to `checkInterfaceIs` keeps the
obligation; making a seen parent end the loop does not). -/
theorem C08_walks_rec_seen_reach (S : RecWalk) (hok : S.ok = true) (hs : S.onSeen = .skip) (G : Graph)
    (hwf : ∀ d ∈ G.ifaces, ∀ j ∈ d.ext, (getIface G j).isSome) (t : Name) (i : Ifc) (hi : getIface G i.name = some i) :
    ∃ b s, runR S G t (depthFuel G) i [] = some (b, s) ∧ (b = true ↔ IReach G i.name t) :=
  runR_skip_decides (rok_of_ok hok).1 hs G hwf t i hi

/-- obligation: the regenerated facts of the recursive walk are well-shaped -/
theorem C08_walks_obligation_rec :
    (∀ S ∈ Generated.C08Walks.recWalks, S.ok = true) ∧ Generated.C08Walks.recWalks ≠ [] := by
  first | decide | fail "obligation C08_walks_obligation_rec no longer holds: node/class.go checkInterfaceIs no longer has the shape of a recursive walk that decides reachability (name test, range over ALL parents, a parent that reaches the target returns true, one that does not lets the loop go on, a seen parent — if a seen set is kept — is SKIPPED, false after the loop) — see Generated.C08Walks.recWalks"

def rwCanon : RecWalk :=
  { fn := "r", selfHit := true, over := .all, onSeen := .absent, onMissing := .next, childTrue := true, childFalse := .next,
    dry := false }

/-- I100 → {I101, I102, I103}, I101 → I102 -/
def exShared : Graph :=
  { classes := [], ifaces := [ifc 100 [101, 102, 103], ifc 101 [102], ifc 102 [], ifc 103 []] }

/-- negation witness (seeded change C08-interface-walk-seen-return): a parent that was already seen makes the walk `return
false`; the parents listed after it are never examined. The model's `dfs` (and reachability) say `true`. -/
theorem C08_walks_rec_seen_stops_counterexample :
    ∃ G t i, (runR { rwCanon with onSeen := .stop } G t (depthFuel G) i []).map (·.1) = some false ∧
      dfs G t (depthFuel G) i = some true :=
  ⟨exShared, 103, ifc 100 [101, 102, 103], by decide, by decide⟩

/-- negation witness: the first parent decides (`return walk(parent)` inside the loop) -/
theorem C08_walks_rec_first_parent_counterexample :
    ∃ G t i, (runR { rwCanon with childFalse := .stop } G t (depthFuel G) i []).map (·.1) = some false ∧
      dfs G t (depthFuel G) i = some true :=
  ⟨exShared, 103, ifc 100 [101, 102, 103], by decide, by decide⟩

example : rwCanon.ok = true ∧ ({ rwCanon with onSeen := .skip } : RecWalk).ok = true ∧
    ({ rwCanon with onSeen := .stop } : RecWalk).ok = false := by decide
-- the skipping variant answers on a cyclic graph, where the pinned shape runs out of fuel
example : (runR { rwCanon with onSeen := .skip } exLoop 105 (depthFuel exLoop) (ifc 100 [101]) []).map (·.1) = some false ∧
    runR rwCanon exLoop 105 (depthFuel exLoop) (ifc 100 [101]) [] = none := by decide

/-! ### loops over the extends chain -/

/-- **Generic: a well-shaped chain loop that examines the base class first finds the most-derived declaration** — for every
member table `decl`, whatever the extra-condition oracle `keep` and the stale class are (a well-shaped loop uses neither). -/
theorem C08_walks_chain_most_derived {α : Type} (S : Chain) (hok : S.okCore = true) (hb : S.«from» = .base) (G : Graph)
    (hac : Acyclic G) (decl : Cls → Option α) (keep : α → Bool) (stale b d : Cls) (x : α) :
    lookupS S G decl keep stale b = .found (d, x) ↔ MostDerived G decl b d x := by
  rw [lookupS_base (cok_of_okCore hok) hb]
  exact ⟨lookupG_found G decl b d x, lookupG_complete G hac.1 decl b d x⟩

/-- for the method tables it IS the model's `lookupFrom` -/
theorem C08_walks_chain_is_lookupFrom (S : Chain) (hok : S.okCore = true) (hb : S.«from» = .base) (G : Graph)
    (pick : Cls → List Meth) (m : Name) (keep : Meth → Bool) (stale b : Cls) :
    lookupS S G (fun k => findM (pick k) m) keep stale b = lookupFrom G pick b m := by
  rw [lookupS_base (cok_of_okCore hok) hb, lookupFrom_eq_lookupG]

/-- **Generic: a well-shaped chain loop that starts above the base class** (`parent::`) finds the nearest declaration at or
above the base's parent. -/
theorem C08_walks_chain_above {α : Type} (S : Chain) (hok : S.okCore = true) (hb : S.«from» ≠ .base) (G : Graph)
    (hac : Acyclic G) (decl : Cls → Option α) (keep : α → Bool) (stale b p a : Cls) (hext : b.ext = some p.name)
    (hp : Declared G p) (x : α) :
    lookupS S G decl keep stale b = .found (a, x) ↔ MostDerived G decl p a x := by
  rw [lookupS_above (cok_of_okCore hok) hb, hext]
  constructor
  · intro h
    obtain ⟨c0, hc0, hm⟩ := walkTag_found G decl _ p.name a x h
    unfold Declared at hp
    rw [hp] at hc0; cases hc0
    exact hm
  · intro h
    exact walkTag_complete G hac.1 decl p.name p a x hp h

/-- obligation: every regenerated chain loop is well-shaped, and the loops the model mirrors are exactly the expected ones,
each examining the classes, consulting the tables and treating an unloadable parent the way `Model.Hier` says -/
theorem C08_walks_obligation_chains : chainsOK Generated.C08Walks.chains = true := by
  first | decide | fail "obligation C08_walks_obligation_chains no longer holds: a loop over the extends chain (extendISClass, ClassValue.GetPropertyStmt / GetMethod, CallParentMethod, CallStaticMethod, CallStaticKeywordMethod, findMethodInHierarchy …) no longer leaves at the FIRST hit of a plain table lookup, advances to the parent of the class examined, reports that class, or no longer examines / consults / treats a missing parent the way Model.Hier says — see Generated.C08Walks.chains against Model.HierShape.expectedChains"

def chCanon : Chain :=
  { fn := "c", role := "method", start := "c.Class", «from» := .base, advance := .parentOfVisited, lookups := ["GetMethod"],
    extra := [], onHit := .leave, found := .unrecorded, repair := false, onMissing := "notFound" }

/-- A { m0/1, m1/0 }, B extends A { m0/2 }, C extends B {} -/
def clsA : Cls := { name := 10, ext := none, impl := [], meths := [⟨0, 1⟩, ⟨1, 0⟩], smeths := [] }
def clsB : Cls := { name := 11, ext := some 10, impl := [], meths := [⟨0, 2⟩], smeths := [] }
def clsC : Cls := { name := 12, ext := some 11, impl := [], meths := [], smeths := [] }
def exABC : Graph := { classes := [clsA, clsB, clsC], ifaces := [] }

/-- negation witness (seeded change C08-like-walk-skips-shadowing): an extra condition inside the hit test (the parameter
count) lets the walk pass the most-derived definition and accept a shadowed one. -/
theorem C08_walks_chain_filter_counterexample :
    lookupS { chCanon with extra := ["len(m.GetParams()) == len(want.GetParams())"] } exABC (declInst 0)
        (fun x => x.arity == 1) clsC clsC = .found (clsA, ⟨0, 1⟩) ∧
    lookupFrom exABC (·.meths) clsC 0 = .found (clsB, ⟨0, 2⟩) := by decide

/-- negation witness: the hit is kept as a candidate and the loop goes on — the LEAST derived definition wins -/
theorem C08_walks_chain_goes_on_counterexample :
    lookupS { chCanon with onHit := .goOn } exABC (declInst 0) (fun _ => true) clsC clsC = .found (clsA, ⟨0, 1⟩) ∧
    lookupFrom exABC (·.meths) clsC 0 = .found (clsB, ⟨0, 2⟩) := by decide

/-- negation witness (seeded change C08-parent-chain-gap on the tree before 3770e5b): the class reported with the method is
a variable set before the loop (the class the walk started from: B for `parent::m1()` written in C), not the class the method
was found in (A) — a nested `parent::` restarts below the definition. With the re-derivation the pinned tree has had since
3770e5b (`repair`) the same record is well-shaped and reports A. -/
theorem C08_walks_chain_stale_class_counterexample :
    lookupS { chCanon with «from» := .above, found := .start "foundClass = current" } exABC (declInst 1) (fun _ => true) clsB clsC
      = .found (clsB, ⟨1, 0⟩) ∧
    walkUp exABC (fun d => some ((declInst 1 d).map (fun x => (d, x)))) (classFuel exABC) clsC.ext = .found (clsA, ⟨1, 0⟩) ∧
    lookupS { chCanon with «from» := .above, found := .start "foundClass = current", repair := true } exABC (declInst 1)
      (fun _ => true) clsB clsC = .found (clsA, ⟨1, 0⟩) ∧
    ({ chCanon with found := .start "foundClass = current", repair := true } : Chain).okCore = true ∧
    ({ chCanon with found := .start "foundClass = current" } : Chain).okCore = false ∧
    ({ chCanon with found := .stale "foundClass = other", repair := true } : Chain).okCore = false := by decide

/-- negation witness: the walk starts one level up (the class itself is not examined where it should be) -/
theorem C08_walks_chain_one_level_up_counterexample :
    lookupS { chCanon with «from» := .above } exABC (declInst 0) (fun _ => true) clsB clsB = .found (clsA, ⟨0, 1⟩) ∧
    lookupFrom exABC (·.meths) clsB 0 = .found (clsB, ⟨0, 2⟩) := by decide

/-- negation witness: the cursor is not advanced to the parent of the class just examined — the loop never ends -/
theorem C08_walks_chain_stuck_counterexample :
    lookupS { chCanon with advance := .other "last = c.Class" } exABC (declInst 7) (fun _ => true) clsC clsC = .fuel ∧
    lookupFrom exABC (·.meths) clsC 7 = .absent := by decide

example : chCanon.okCore = true ∧ chCanon.«from» = .base := by decide
example : Acyclic exABC := acyclic_of_rankOK exABC (by decide)
example : lookupS chCanon exABC (declInst 0) (fun _ => false) clsA clsC = .found (clsB, ⟨0, 2⟩) := by decide

/-! ### the subtype deciders -/

/-- **Generic: every well-shaped decider decides `IsA`**, whatever interface walks it calls as long as they decide
reachability: it tests the name, scans the WHOLE implements list with a direct test and a walk, and hands the parent chain to
a well-shaped decider. `miss` is what it answers when a parent class cannot be loaded (`no` for the type-hint path, an error
for `instanceof`). -/
theorem C08_walks_decider_isA (D Dc : Decider) (hD : D.ok = true) (hDc : Dc.ok = true) (G : Graph) (hac : Acyclic G)
    (t : Name) (walk : String → Name → Name → Option Bool)
    (hw : ∀ L, L ∈ D.impls ∨ L ∈ Dc.impls → L.walk ≠ "" → WalkDecides G t (walk L.walk))
    (miss : R) (hm : miss ≠ .fuel) (c : Cls) :
    (IsA G c t → decideD D Dc walk G t miss c = .yes) ∧
    (¬ IsA G c t → decideD D Dc walk G t miss c = .no ∨ decideD D Dc walk G t miss c = miss) :=
  decideD_spec (dok_of_ok hD) (dok_of_ok hDc) G hac.1 t walk hw miss hm c

/-- **all well-shaped deciders share one subtype relation** -/
theorem C08_walks_deciders_agree (D Dc D' Dc' : Decider) (h1 : D.ok = true) (h2 : Dc.ok = true) (h3 : D'.ok = true)
    (h4 : Dc'.ok = true) (G : Graph) (hac : Acyclic G) (t : Name) (walk walk' : String → Name → Name → Option Bool)
    (hw : ∀ L, L ∈ D.impls ∨ L ∈ Dc.impls → L.walk ≠ "" → WalkDecides G t (walk L.walk))
    (hw' : ∀ L, L ∈ D'.impls ∨ L ∈ Dc'.impls → L.walk ≠ "" → WalkDecides G t (walk' L.walk)) (c : Cls) :
    decideD D Dc walk G t .no c = decideD D' Dc' walk' G t .no c :=
  deciders_agree (dok_of_ok h1) (dok_of_ok h2) (dok_of_ok h3) (dok_of_ok h4) G hac.1 t walk walk' hw hw' c

/-- obligation: the regenerated deciders are well-shaped and hand the chain to a decider of the table -/
theorem C08_walks_obligation_deciders : decidersOK Generated.C08Walks.deciders = true := by
  first | decide | fail "obligation C08_walks_obligation_deciders no longer holds: a subtype decider (isClassValueInstanceOf, Class.Is arm *ThisValue, the body of extendISClass, checkClassIs) no longer tests the name, scans the WHOLE implements list with a direct test and an interface walk called as walk(implemented, target), and hands the parent chain on — see Generated.C08Walks.deciders"

/-- obligation: instanceof, catch and the arms of `Class.Is` call the deciders the model says they reach -/
theorem C08_walks_obligation_routes : Generated.C08Walks.routes = expectedRoutes := by
  first | decide | fail "obligation C08_walks_obligation_routes no longer holds: instanceof / catchTypeMatches / an arm of Class.Is / a decider calls other subtype deciders or interface walks than Model.Hier mirrors — see Generated.C08Walks.routes against Model.HierShape.expectedRoutes"

/-- a well-shaped worklist is a walk a decider may call (`interfaceExtends` for the type-hint and catch paths) -/
theorem C08_walks_worklist_walkDecides (S : Worklist) (hok : S.ok = true) (G : Graph) (t : Name) :
    WalkDecides G t (fun s t => runIE S G s t) := by
  intro s
  obtain ⟨b, hb, hiff⟩ := C08_walks_worklist_reach S hok G s t
  exact ⟨b, hb, hiff.1, fun _ hr => hiff.2 hr⟩

def dcCanon : Decider :=
  { fn := "d", nameTest := true, impls := [{ direct := true, walk := "interfaceExtends", argsOK := true, onMiss := .next }],
    chain := .call "extendISClass" }

def canonWalk (G : Graph) : String → Name → Name → Option Bool := fun _ s t => runIE wlCanon G s t

/-- class K implements I100, I101 (unrelated interfaces); class L extends K -/
def clsK : Cls := { name := 10, ext := none, impl := [100, 101], meths := [], smeths := [] }
def clsL : Cls := { name := 11, ext := some 10, impl := [], meths := [], smeths := [] }
def exImpl : Graph := { classes := [clsK, clsL], ifaces := [ifc 100 [], ifc 101 []] }

/-- negation witness: the scan of the implements list returns after the first interface that does not reach the target -/
theorem C08_walks_decider_first_interface_counterexample :
    decideD { dcCanon with impls := [{ direct := true, walk := "interfaceExtends", argsOK := true, onMiss := .stop }] } dcCanon
      (canonWalk exImpl) exImpl 101 .no clsK = .no ∧
    isClassValue exImpl 101 clsK = .yes := by decide

/-- negation witness: the parent chain is not followed — the interfaces of an ancestor are missed -/
theorem C08_walks_decider_no_chain_counterexample :
    decideD { dcCanon with chain := .none } dcCanon (canonWalk exImpl) exImpl 101 .no clsL = .no ∧
    isClassValue exImpl 101 clsL = .yes := by decide

/-- negation witness: the arguments of the interface walk are swapped (is the TARGET a sub-interface of the implemented one?) -/
theorem C08_walks_decider_swapped_counterexample :
    decideD { dcCanon with impls := [{ direct := true, walk := "interfaceExtends", argsOK := false, onMiss := .next }] } dcCanon
      (canonWalk exLine) { exLine with classes := [{ clsK with impl := [102] }] } 100 .no { clsK with impl := [102] } = .yes ∧
    isClassValue { exLine with classes := [{ clsK with impl := [102] }] } 100 { clsK with impl := [102] } = .no := by decide

example : dcCanon.ok = true ∧ decidersOK [dcCanon, { dcCanon with fn := "extendISClass", chain := .loop }] = true := by decide
example : decideD dcCanon dcCanon (canonWalk exImpl) exImpl 101 .no clsL = .yes := by decide

/-! ### what `parent::` / `static::` are resolved against, and state kept on AST nodes -/

/-- the order in which `CallParentMethod` and `CallStaticKeywordMethod` pick their class is the model's `parentBase` /
`staticBase`: for every table equal to the expected one -/
theorem C08_walks_base_is_model (tbl : List Base) (h : tbl = expectedBases) (G : Graph) (ctx : Ctx) (cur : Name) :
    (tbl.map (fun B => baseOf G ctx cur B.order)) = [some (parentBase G ctx cur), some (staticBase ctx)] := by
  subst h
  simp only [expectedBases, List.map, baseOf, Src.ofString, Src.get, parentBase, staticBase]
  cases hs : ctx.selfC <;> cases hst : ctx.staticC <;> simp <;>
    (cases getClass G cur with
     | none => rfl
     | some c => cases hc : c.ext <;> simp [hc])

/-- a call site without memo gives every runtime class its own lookup -/
theorem C08_walks_site_no_memo {α : Type} (own look : Cls → Option α) (m : Option α) (cs : List Cls) :
    siteRun false own look m cs = cs.map (fun c => match own c with | some x => some x | none => look c) := by
  induction cs generalizing m with
  | nil => rfl
  | cons c r ih =>
    rw [siteRun]
    cases ho : own c with
    | some x => simp [ih, ho]
    | none => simp [ih, ho]

/-- obligation: `parent::` / `static::` pick the class they resolve against in the order the model says -/
theorem C08_walks_obligation_bases : Generated.C08Walks.bases = expectedBases := by
  first | decide | fail "obligation C08_walks_obligation_bases no longer holds: CallParentMethod no longer resolves against SelfClass, else the parser's CurrentClass (registered, with a parent), else the context's class — or CallStaticKeywordMethod no longer starts from StaticClass, else the context's class — see Generated.C08Walks.bases"

/-- obligation: no method-call node writes to its own fields while the program runs, except the resolution of the class
NAME written in the source -/
theorem C08_walks_obligation_node_state : nodeWritesOK Generated.C08Walks.nodeWrites = true := by
  first | decide | fail "obligation C08_walks_obligation_node_state no longer holds: a method-call AST node (node/call_*_method.go, like.go, instanceof.go) assigns to one of its own fields at run time — a result kept on the node is shared by every runtime class that reaches the site — see Generated.C08Walks.nodeWrites"

/-- obligation: the translator understood every shape it met -/
theorem C08_walks_obligation_shape_notes : Generated.C08Walks.shapeNotes = [] := by
  first | decide | fail "obligation C08_walks_obligation_shape_notes no longer holds: extract/c08 met a statement in a hierarchy walk that it does not understand (or a walk is gone) — see Generated.C08Walks.shapeNotes"

/-- negation witness: `parent::` resolved against the runtime class (no `SelfClass`, no `CurrentClass`) — in a method of B
inherited by C the call restarts at C's parent B instead of B's parent A -/
theorem C08_walks_base_runtime_class_counterexample :
    baseOf exABC (Ctx.ofMethod clsC clsB) 11 ["Class"] = some clsC ∧ parentBase exABC (Ctx.ofMethod clsC clsB) 11 = clsB := by
  decide

/-- negation witness (seeded change C08-static-kw-site-cache): the method found by walking is kept on the node; the next
runtime class that does not declare it gets the first class's answer -/
theorem C08_walks_site_memo_counterexample :
    siteRun true (fun _ => none) (fun c => if c.name = 12 then some 1 else some 2) (none : Option Nat) [clsC, clsB] = [some 1, some 1] ∧
    siteRun false (fun _ => none) (fun c => if c.name = 12 then some 1 else some 2) (none : Option Nat) [clsC, clsB] = [some 1, some 2] := by
  decide

end Walks

/-! ### Names: the name-based special cases of the deciders (round 7)

`catchTypeMatches` gives the root interface `Throwable` a meaning beyond reachability, and which catch types count as
"the root interface" is decided by a test on the SPELLING of the type name. `isThrownP p` is the decider with that test
abstracted; the translator records every comparison of a type name with a string literal inside the deciders as
`Generated.C08Walks.nameTests` (literal, kind of comparison), `NameKind.holds` says what a kind means on spellings. -/
section Names

/-- the pinned `catchTypeMatches` (`Model.Hier.isThrown`, what the driver runs) is the abstract decider with the test
"the name IS `Throwable`" -/
theorem C08_names_pinned_is_abstract (G : Graph) (t : Name) (c : Cls) :
    isThrown G t c = isThrownP (fun t => decide (t = throwableName)) G t c := isThrownP_eq G t c

/-- **catch (T) is exact iff the special-name test holds for the root interface's own name only.** If `p` holds for
`Throwable` alone, `catch (T)` decides `IsA` on every acyclic hierarchy; if `p` holds for ANY other type name `t`, then
already on the std hierarchy (`Exception implements Throwable`, `Error implements Throwable`) some object that is not a
`t` is caught by `catch (t)`. -/
theorem C08_names_catch_exact_iff (p : Name → Bool) :
    (∀ (G : Graph), Acyclic G → ∀ (c : Cls), ThrowableOK G c → ∀ t,
        (isThrownP p G t c = .yes ↔ IsA G c t) ∧ (isThrownP p G t c = .no ↔ ¬ IsA G c t)) ↔
    (∀ t, p t = true → t = throwableName) := by
  constructor
  · intro h t hpt
    apply Classical.byContradiction
    intro hne
    obtain ⟨c, _, hok, hnot, hyes⟩ := isThrownP_loose p t hpt hne
    exact hnot ((h nmG nmG_acyclic c hok t).1.1 hyes)
  · intro hp G hac c hok t
    rcases isThrownP_spec p hp G hac.1 t c hok with ⟨h1, h2⟩ | ⟨h1, h2⟩
    · rw [h1]; exact ⟨by simp [h2], by simp [h2]⟩
    · rw [h1]; exact ⟨by simp [h2], by simp [h2]⟩

/-- an exact comparison (`==`, `==` after stripping ONE leading backslash) holds only for the special name's own
spelling, and does hold for it -/
theorem C08_names_exact_kind (k : NameKind) (hk : k.exact = true) (s n : List Char) :
    (k.holds s n = some true → n = s ∨ n = '\\' :: s) ∧ (stripLead s = s → k.holds s s = some true) :=
  ⟨holds_exact k hk s n, holds_self k hk s⟩

/-- **From spellings to catch.** Type names are spelled by an injective `nm`; the tables hold fully qualified names
(no leading backslash). If the special-name test of `catchTypeMatches` is an EXACT comparison with the spelling of the
root interface, `catch (T)` decides `IsA` on every acyclic hierarchy — whatever the user's types are called. -/
theorem C08_names_catch_exact_spelling (nm : Name → List Char) (hinj : ∀ a b, nm a = nm b → a = b)
    (k : NameKind) (hk : k.exact = true) (s : List Char) (hs : nm throwableName = s) (hfq : ∀ t, nm t ≠ '\\' :: s)
    (G : Graph) (hac : Acyclic G) (c : Cls) (hok : ThrowableOK G c) (t : Name) :
    (isThrownP (fun t => k.holds s (nm t) == some true) G t c = .yes ↔ IsA G c t) ∧
    (isThrownP (fun t => k.holds s (nm t) == some true) G t c = .no ↔ ¬ IsA G c t) := by
  refine ((C08_names_catch_exact_iff _).2 ?_) G hac c hok t
  intro t ht
  have ht' : k.holds s (nm t) = some true := by simpa using ht
  rcases holds_exact k hk s (nm t) ht' with h | h
  · exact hinj _ _ (h.trans hs.symm)
  · exact absurd h (hfq t)

/-- the comparisons of the pinned tree that are NOT exact: both strip the namespace (`App\Throwable` is taken for the
root interface by `catch`, `App\Exception` / `App\Error` / `App\Throwable` catch every interpreter-raised error) — known
findings `names:catch:ns-base-name`, `names:catch-internal:ns-base-name`, replayed by the harness on every run -/
def knownLooseNameTests : List (String × String × NameKind) :=
  [("data/type_class.go:Class.Is", "Error", .baseName),
   ("data/type_class.go:Class.Is", "Exception", .baseName),
   ("data/type_class.go:Class.Is", "Throwable", .baseName),
   ("node/try.go:isThrowableTypeName", "Throwable", .suffixSep)]

/-- obligation: every comparison of a type name with a string literal inside the subtype deciders is exact equality
(possibly after stripping one leading backslash), except the recorded namespace-stripping ones -/
theorem C08_names_obligation_exact : nameTestsOK knownLooseNameTests Generated.C08Walks.nameTests = true := by
  first | decide | fail "obligation C08_names_obligation_exact no longer holds: a subtype decider (catchTypeMatches / isThrowableTypeName, Class.Is, isClassValueInstanceOf, extendISClass, interfaceExtends, instanceof, checkClassIs, checkInterfaceIs) compares a type name with a string literal by something looser than equality (suffix / prefix / substring / case-folded / unclassified): user types whose names merely resemble the special name get its semantics — see Generated.C08Walks.nameTests"

/-- obligation: the root interface itself is still recognised by an exact test in `catchTypeMatches` -/
theorem C08_names_obligation_root :
    Generated.C08Walks.nameTests.any (fun t => t.fn = "node/try.go:isThrowableTypeName" && t.special = "Throwable" && t.kind.exact) = true := by
  first | decide | fail "obligation C08_names_obligation_root no longer holds: node/try.go isThrowableTypeName no longer compares the catch type with \"Throwable\" by equality — see Generated.C08Walks.nameTests"

def spThrowable : List Char := ['T', 'h', 'r', 'o', 'w', 'a', 'b', 'l', 'e']
def spAppThrowable : List Char := ['A', 'p', 'p'] ++ spThrowable
def spNsThrowable : List Char := ['A', 'p', 'p', '\\'] ++ spThrowable
/-- spelling of the names used by the witnesses: 0 `Throwable`, 100 `AppThrowable`, 101 `App\Throwable` -/
def spNm : Name → List Char
  | 0 => spThrowable
  | 100 => spAppThrowable
  | 101 => spNsThrowable
  | _ => []

/-- negation witness (seeded change C08-catch-name-ends-in-throwable): the test is `HasSuffix(name, "Throwable")`; the
user interface `AppThrowable` is taken for the root interface, and `catch (AppThrowable)` catches an `Exception` that
does not reach it -/
theorem C08_names_suffix_counterexample :
    NameKind.suffix.holds spThrowable spAppThrowable = some true ∧ spAppThrowable ≠ spThrowable ∧
    ∃ c, c ∈ nmG.classes ∧ ThrowableOK nmG c ∧ ¬ IsA nmG c 100 ∧
      isThrownP (fun t => NameKind.suffix.holds spThrowable (spNm t) == some true) nmG 100 c = .yes ∧
      isClassValue nmG 100 c = .no :=
  ⟨by decide, by decide, by
    obtain ⟨c, hc, hok, hnot, hyes⟩ :=
      isThrownP_loose (fun t => NameKind.suffix.holds spThrowable (spNm t) == some true) 100 (by decide) (by decide)
    exact ⟨c, hc, hok, hnot, hyes, decides_no (isClassValue_spec nmG nmG_acyclic.1 100 c) hnot⟩⟩

/-- negation witnesses for the other loose kinds: each holds for a user name that is not the special name -/
theorem C08_names_loose_kinds_counterexample :
    NameKind.prefix.holds spThrowable (spThrowable ++ ['X']) = some true ∧
    NameKind.contains.holds spThrowable (['M', 'y'] ++ spThrowable ++ ['X']) = some true ∧
    NameKind.fold.holds spThrowable ('t' :: spThrowable.tail) = some true ∧
    NameKind.suffixSep.holds spThrowable spNsThrowable = some true ∧
    NameKind.baseName.holds spThrowable spNsThrowable = some true ∧
    NameKind.eq.holds spThrowable spNsThrowable = some false ∧
    NameKind.eqStripLead.holds spThrowable ('\\' :: spThrowable) = some true ∧
    NameKind.eqStripLead.holds spThrowable spAppThrowable = some false := by decide

/-- known finding `names:catch:ns-base-name` (pinned tree): the namespace-stripping test takes the user interface
`App\Throwable` for the root interface -/
theorem C08_names_namespace_counterexample :
    ∃ c, c ∈ nmG.classes ∧ ThrowableOK nmG c ∧ ¬ IsA nmG c 101 ∧
      isThrownP (fun t => NameKind.eq.holds spThrowable (spNm t) == some true ||
                          NameKind.suffixSep.holds spThrowable (spNm t) == some true) nmG 101 c = .yes :=
  isThrownP_loose _ 101 (by decide) (by decide)

example : nameTestsOK [] [⟨"f", "Throwable", .eq⟩, ⟨"f", "Throwable", .eqStripLead⟩] = true := by decide
example : nameTestsOK knownLooseNameTests [⟨"node/try.go:isThrowableTypeName", "Throwable", .suffix⟩] = false := by decide
example : looseTests Generated.C08Walks.nameTests ≠ [] := by decide
example : (fun t : Name => decide (t = throwableName)) 0 = true ∧ ∀ t, (fun t : Name => decide (t = throwableName)) t = true → t = throwableName := by
  refine ⟨rfl, ?_⟩; intro t h; simpa using h

end Names

end C08
