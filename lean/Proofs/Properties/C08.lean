import Proofs.Lemmas.HierIs
import Proofs.Lemmas.HierDispatch
/-!
# C08 — instanceof, type hints, catch and dispatch follow the declared class hierarchy

Property theorems only. `Model.Hier` mirrors the Go walks (queue loop with visited set, extends-chain loops with
fuel, the recursive `checkInterfaceIs`, the four method lookups, the `ClassMethodContext` fields); `Spec.Hier`
states what a user relies on (`IsA`, `MostDerived`, `LikeSpec`) on the declared hierarchy alone. All theorems
hold for **every** finite graph — any number of classes, interfaces, edges.

Fuel: `Walk.fuel` / `R.fuel` / `none` are explicit outcomes of the model; every theorem below that says the model
*equals* the specification therefore also says the fuel computed from the graph (`classFuel`, `bfsFuel`,
`depthFuel`) was sufficient. The counting lemmas are `Proofs.Hier.walkUp_no_fuel`, `bfs_fuel`, `dfs_no_fuel`.
-/
namespace C08
open Model.Hier Spec.Hier Proofs.Hier

/-! ### the subtype relation -/

/-- **`interfaceExtends` (BFS with visited set) = reachability, on every graph** — cyclic interface graphs and
undeclared names included; no hypothesis. -/
theorem C08_interfaceExtends_iff_reach (G : Graph) (s t : Name) :
    ∃ b, interfaceExtends G s t = some b ∧ (b = true ↔ IReach G s t) :=
  interfaceExtends_spec G s t

/-- **The extends-chain loop never runs out of fuel on an acyclic class graph** (counting lemma: a chain without
a repeated class has at most `|classes|` declared members), whatever is done at each class. -/
theorem C08_chain_fuel_sufficient {α : Type} (G : Graph) (hac : Acyclic G) (visit : Cls → Option (Option α))
    (hv : ∀ c, visit c ≠ none) (ext : Option Name) : walkUp G visit (classFuel G) ext ≠ .fuel :=
  walkUp_no_fuel G hac.1 visit hv ext

/-- **instanceof ⇔ reachability.** On an acyclic hierarchy each of the four implementations — the `instanceof`
operator (`checkClassIs`), a typed parameter receiving an object (`isClassValueInstanceOf`), a typed parameter
receiving `$this` (`Class.Is` arm `*ThisValue`), and `catch (T)` (`catchTypeMatches`) — answers, and answers
`yes` exactly when `t` is the class, an ancestor, or an interface reachable through implements/extends edges. -/
theorem C08_instanceof_iff_reach (G : Graph) (hac : Acyclic G) (k : Kind) (c : Cls) (t : Name) (hok : KindOK G c k) :
    (isInstanceOf G k c t = .yes ↔ IsA G c t) ∧ (isInstanceOf G k c t = .no ↔ ¬ IsA G c t) := by
  rcases decides_of_kind G hac k c t hok with ⟨h1, h2⟩ | ⟨h1, h2⟩
  · rw [h1]; exact ⟨by simp [h2], by simp [h2]⟩
  · rw [h1]; exact ⟨by simp [h2], by simp [h2]⟩

/-- The type-hint paths need only the *class* part of acyclicity: their interface walk has a visited set. -/
theorem C08_typehint_iff_reach (G : Graph) (hn : NoCycle (csucc G)) (c : Cls) (t : Name) :
    (isClassValue G t c = .yes ↔ IsA G c t) ∧ (isClassValue G t c = .no ↔ ¬ IsA G c t) ∧
    (isThisValue G t c = .yes ↔ IsA G c t) ∧ (isThisValue G t c = .no ↔ ¬ IsA G c t) := by
  have a := isClassValue_spec G hn t c
  have b := isThisValue_spec G hn t c
  refine ⟨?_, ?_, ?_, ?_⟩
  · rcases a with ⟨h1, h2⟩ | ⟨h1, h2⟩ <;> rw [h1] <;> simp [h2]
  · rcases a with ⟨h1, h2⟩ | ⟨h1, h2⟩ <;> rw [h1] <;> simp [h2]
  · rcases b with ⟨h1, h2⟩ | ⟨h1, h2⟩ <;> rw [h1] <;> simp [h2]
  · rcases b with ⟨h1, h2⟩ | ⟨h1, h2⟩ <;> rw [h1] <;> simp [h2]

/-- **The paths agree**: `instanceof`, a T-typed parameter (object or `$this`) and `catch (T)` decide identically. -/
theorem C08_three_paths_agree (G : Graph) (hac : Acyclic G) (hwf : WF G) (c : Cls) (hc : Declared G c)
    (hthr : ThrowableOK G c) (t : Name) (k₁ k₂ : Kind) :
    isInstanceOf G k₁ c t = isInstanceOf G k₂ c t := by
  have ok : ∀ k, KindOK G c k := by
    intro k; cases k
    · exact ⟨hwf, hc⟩
    · trivial
    · trivial
    · exact hthr
  rcases decides_of_kind G hac k₁ c t (ok k₁) with ⟨h1, h2⟩ | ⟨h1, h2⟩ <;>
  rcases decides_of_kind G hac k₂ c t (ok k₂) with ⟨g1, g2⟩ | ⟨g1, g2⟩
  · rw [h1, g1]
  · exact absurd h2 g2
  · exact absurd g2 h2
  · rw [h1, g1]

/-! ### dispatch -/

/-- **`$o->m()` runs the most-derived definition**: the lookup finds instance method `x` in class `d` exactly
when `d` is the nearest class at or above the object's class that declares `m`. -/
theorem C08_dispatch_most_derived (G : Graph) (hac : Acyclic G) (c d : Cls) (m : Name) (x : Meth) :
    getMethod G c m = .found (false, d, x) ↔ MostDerived G (declInst m) c d x := by
  constructor
  · intro h
    unfold getMethod at h
    cases hl : lookupFrom G (·.meths) c m with
    | found r =>
      obtain ⟨d', x'⟩ := r
      rw [hl] at h
      simp only [Walk.found.injEq, Prod.mk.injEq, true_and] at h
      obtain ⟨rfl, rfl⟩ := h
      exact lookupFrom_found G (·.meths) c d' m x' hl
    | fuel => rw [hl] at h; cases h
    | missing n => rw [hl] at h; cases h
    | absent =>
      rw [hl] at h
      simp only at h
      cases hs : lookupFrom G (·.smeths) c m with
      | found r => obtain ⟨d', x'⟩ := r; rw [hs] at h; simp at h
      | fuel => rw [hs] at h; cases h
      | missing n => rw [hs] at h; cases h
      | absent => rw [hs] at h; cases h
  · intro h
    have := lookupFrom_complete G hac.1 (·.meths) c d m x h
    unfold getMethod
    rw [this]

/-- If no class on the chain declares an instance method `m`, `$o->m()` falls back to the most-derived *static*
method `m`; if there is none either, the call fails. -/
theorem C08_dispatch_static_fallback (G : Graph) (hac : Acyclic G) (hwf : WF G) (c : Cls) (hc : Declared G c)
    (m : Name) :
    (∀ d x, getMethod G c m = .found (true, d, x) ↔
        NoneDeclares G (declInst m) c ∧ MostDerived G (declStat m) c d x) ∧
    (getMethod G c m = .absent ↔ NoneDeclares G (declInst m) c ∧ NoneDeclares G (declStat m) c) := by
  have hi := lookupFrom_cases G hac.1 (·.meths) c m
  have hs := lookupFrom_cases G hac.1 (·.smeths) c m
  have nmi := lookupFrom_no_missing G hwf (·.meths) c hc m
  have nms := lookupFrom_no_missing G hwf (·.smeths) c hc m
  unfold getMethod
  rcases hi with ⟨d, x, hl, hm⟩ | ⟨hl, hnd⟩
  · rw [hl]
    refine ⟨fun d' x' => ⟨by simp, fun h => (mostDerived_not_none hm h.1).elim⟩,
      ⟨by simp, fun h => (mostDerived_not_none hm h.1).elim⟩⟩
  · rcases hl with hl | ⟨n, hl⟩
    · rw [hl]
      simp only
      rcases hs with ⟨d, x, hl2, hm2⟩ | ⟨hl2, hnd2⟩
      · rw [hl2]
        refine ⟨fun d' x' => ⟨fun h => ?_, fun h => ?_⟩, ⟨by simp, fun h => (mostDerived_not_none hm2 h.2).elim⟩⟩
        · simp only [Walk.found.injEq, Prod.mk.injEq, true_and] at h
          obtain ⟨rfl, rfl⟩ := h
          exact ⟨hnd, hm2⟩
        · have := lookupFrom_complete G hac.1 (·.smeths) c d' m x' h.2
          rw [hl2] at this
          simp only [Walk.found.injEq, Prod.mk.injEq] at this
          obtain ⟨rfl, rfl⟩ := this
          rfl
      · rcases hl2 with hl2 | ⟨n, hl2⟩
        · rw [hl2]
          exact ⟨fun d' x' => ⟨by simp, fun h => (mostDerived_not_none h.2 hnd2).elim⟩, ⟨fun _ => ⟨hnd, hnd2⟩, fun _ => rfl⟩⟩
        · exact absurd hl2 (nms n)
    · exact absurd hl (nmi n)

/-- **`parent::m()` runs the nearest ancestor's definition**: with `k` the class the call is resolved against
(the class the code was written in — see `C08_parent_base`), the call finds method `x` (instance or static) in
class `a` exactly when `a` is the nearest class at or above `k`'s parent that declares `m`. -/
theorem C08_parent_nearest (G : Graph) (hac : Acyclic G) (ctx : Ctx) (cur : Name) (k p a : Cls)
    (hbase : parentBase G ctx cur = k) (hext : k.ext = some p.name) (hp : Declared G p)
    (m : Name) (b : Bool) (x : Meth) :
    parentCall G ctx cur m = .found (a, b, x) ↔ MostDerived G (declAny m) p a (b, x) := by
  unfold parentCall
  rw [hbase, hext]
  simp only
  rw [visitBoth_eq]
  constructor
  · intro h
    obtain ⟨c0, hc0, hm⟩ := walkTag_found G (declAny m) _ p.name a (b, x) h
    unfold Declared at hp
    rw [hp] at hc0; cases hc0
    exact hm
  · intro h
    exact walkTag_complete G hac.1 (declAny m) p.name p a (b, x) hp h

/-- The class `parent::` is resolved against is the class the code was written in: in a body entered by
`$o->m()` it is the class the running method was found in (recorded in `SelfClass` on entry), in a body
entered through `parent::` likewise — never the runtime class of the object, whatever the parser recorded.
(Before the repair of the visibility checks a body entered by `$o->m()` carried no `SelfClass` and the
parser's record was used, and only if that class was registered and had a parent: the second conjunct.) -/
theorem C08_parent_base (G : Graph) (d k : Cls) (hk : Declared G k) (hext : k.ext.isSome = true) (ctx : Ctx) (f : Cls)
    (cur : Name) :
    parentBase G (Ctx.ofMethod d k) cur = k ∧ parentBase G (Ctx.ofObject d) k.name = k ∧
      parentBase G (ctx.afterParent f) cur = f := by
  refine ⟨rfl, ?_, rfl⟩
  unfold parentBase Ctx.ofObject Declared at *
  simp only
  rw [hk]; simp [hext]

/-- **`self::` binds to the defining class, `static::` to the class the context carries.**
`self::s()` written in class `k` finds the most-derived static `s` at or above `k`, whatever the runtime class;
`static::s()` finds the most-derived static `s` at or above `staticBase ctx`, which is the object's runtime class
in a body entered by `$o->m()` and the named class in a body entered by `D::m()`. -/
theorem C08_self_static_binding (G : Graph) (hac : Acyclic G) (s : Name) (a : Cls) (x : Meth) :
    (∀ k, Declared G k → (selfCall G k.name s = .found (a, x) ↔ MostDerived G (declStat s) k a x)) ∧
    (∀ ctx, staticKwCall G ctx s = .found (a, x) ↔ MostDerived G (declStat s) (staticBase ctx) a x) ∧
    (∀ d, staticBase (Ctx.ofObject d) = d) ∧
    (∀ D f, staticBase (Ctx.afterNamed D f) = D) := by
  refine ⟨fun k hk => ?_, fun ctx => ?_, fun _ => rfl, fun _ _ => rfl⟩
  · unfold selfCall namedStaticCall
    unfold Declared at hk
    rw [hk]
    exact ⟨lookupFrom_found G (·.smeths) k a s x, lookupFrom_complete G hac.1 (·.smeths) k a s x⟩
  · unfold staticKwCall
    exact ⟨lookupFrom_found G (·.smeths) _ a s x, lookupFrom_complete G hac.1 (·.smeths) _ a s x⟩

/-
Full statement (PHP: `self::`, `parent::` and `static::` forward the late-static-binding class):
  ∀ d hops, (staticBase (hops.foldl Ctx.hop (Ctx.ofObject d))).name = d.name
The pinned code violates it (known finding C08-lsb-forwarding): a `self::` hop re-binds `static::` to the class
the code was written in, and a `parent::` hop taken in a static context re-binds it to the class that defines
the running method. What does hold:
-/

/-- In a body entered by `$o->m()`, any sequence of `parent::` and `static::` hops keeps `static::` bound to the
runtime class of the object (and keeps the context's class equal to it). -/
theorem C08_static_binding_paths_partial (d : Cls) (hops : List Hop) (h : ∀ x ∈ hops, x.isSelf = false) :
    staticBase (hops.foldl Ctx.hop (Ctx.ofObject d)) = d := by
  suffices H : ∀ (hops : List Hop) (ctx : Ctx), (∀ x ∈ hops, x.isSelf = false) → ctx.cls = d → staticBase ctx = d →
      staticBase (hops.foldl Ctx.hop ctx) = d from H hops _ h rfl rfl
  intro hops
  induction hops with
  | nil => intro ctx _ _ hs; exact hs
  | cons x r ih =>
    intro ctx hx hc hs
    simp only [List.foldl_cons]
    apply ih _ (fun y hy => hx y (by simp [hy]))
    · cases x with
      | parent f => exact hc
      | staticKw => exact hs
      | self _ _ => have := hx _ (List.mem_cons_self ..); simp [Hop.isSelf] at this
    · cases x with
      | parent f => exact hc
      | staticKw => exact hs
      | self _ _ => have := hx _ (List.mem_cons_self ..); simp [Hop.isSelf] at this

/-- In a body entered by `D::m()`, any sequence of `static::` hops keeps `static::` bound to `D`. -/
theorem C08_static_binding_named_partial (D f : Cls) (hops : List Hop) (h : ∀ x ∈ hops, x.isStaticKw = true) :
    staticBase (hops.foldl Ctx.hop (Ctx.afterNamed D f)) = D := by
  suffices H : ∀ (hops : List Hop) (ctx : Ctx), (∀ x ∈ hops, x.isStaticKw = true) → staticBase ctx = D →
      staticBase (hops.foldl Ctx.hop ctx) = D from H hops _ h rfl
  intro hops
  induction hops with
  | nil => intro ctx _ hs; exact hs
  | cons x r ih =>
    intro ctx hx hs
    simp only [List.foldl_cons]
    apply ih _ (fun y hy => hx y (by simp [hy]))
    cases x with
    | staticKw => exact hs
    | parent f => have := hx _ (List.mem_cons_self ..); simp [Hop.isStaticKw] at this
    | self _ _ => have := hx _ (List.mem_cons_self ..); simp [Hop.isStaticKw] at this

def exA : Cls := { name := 10, ext := none, impl := [101], meths := [⟨0, 1⟩, ⟨1, 0⟩], smeths := [⟨20, 0⟩] }
def exB : Cls := { name := 11, ext := some 10, impl := [102], meths := [⟨0, 2⟩], smeths := [] }
def exC : Cls := { name := 12, ext := some 11, impl := [], meths := [⟨2, 0⟩], smeths := [⟨20, 0⟩] }

/-- negation witness (replayed on the real code by the harness' known stream): object of class C, method of A
does `self::mid()`, `mid` does `static::leaf()` — bound to A, not to C. -/
theorem C08_static_binding_paths_counterexample :
    ¬ ∀ (d : Cls) (hops : List Hop), (staticBase (hops.foldl Ctx.hop (Ctx.ofObject d))).name = d.name := by
  intro h
  have := h exC [.self exA exA]
  simp [Ctx.hop, Ctx.afterNamed, staticBase, exA, exC] at this

/-- negation witness: `C::pentry()` found in B does `parent::mid()` — `static::` is then bound to B, not to C. -/
theorem C08_static_binding_named_counterexample :
    ¬ ∀ (D f : Cls) (hops : List Hop), (staticBase (hops.foldl Ctx.hop (Ctx.afterNamed D f))).name = D.name := by
  intro h
  have := h exC exB [.parent exA]
  simp [Ctx.hop, Ctx.afterNamed, Ctx.afterParent, staticBase, exB, exC] at this

/-! ### like -/

/-- **`$o like T`** holds exactly when the object provides, itself or by inheritance (most-derived definition),
every instance method `T` declares, with the same number of parameters — `T` a class or an interface; an
unknown `T` gives `false`. (Model of the code after fix 2467b2d.) -/
theorem C08_like_iff (G : Graph) (hac : Acyclic G) (c : Cls) (t : Name) :
    (∀ T, getClass G t = some T → ∃ b, like G c t = some b ∧ (b = true ↔ LikeSpec G c T.meths)) ∧
    (getClass G t = none → ∀ I, getIface G t = some I →
        ∃ b, like G c t = some b ∧ (b = true ↔ LikeSpec G c I.meths)) ∧
    (getClass G t = none → getIface G t = none → like G c t = some false) := by
  refine ⟨fun T hT => ?_, fun hn I hI => ?_, fun hn hi => ?_⟩
  · unfold like; rw [hT]; exact likeMeths_spec G hac.1 c T.meths
  · unfold like; rw [hn, hI]; exact likeMeths_spec G hac.1 c I.meths
  · unfold like; rw [hn, hi]

/-! ### why acyclicity is assumed, and only where -/

def exCyc : Graph :=
  { classes := [{ name := 10, ext := none, impl := [100], meths := [], smeths := [] }],
    ifaces := [{ name := 100, ext := [101], meths := [] }, { name := 101, ext := [100], meths := [] },
               { name := 102, ext := [], meths := [] }] }

/-- On a cyclic interface graph the recursive `checkInterfaceIs` of the `instanceof` operator does not terminate
(the model runs out of fuel; the real interpreter overflows its stack), while the BFS of the type-hint path
answers `no`. -/
theorem C08_acyclic_needed_for_op :
    ∃ c, getClass exCyc 10 = some c ∧ instanceofOp exCyc 102 c = .fuel ∧ isClassValue exCyc 102 c = .no := by
  refine ⟨_, rfl, ?_, ?_⟩ <;> decide

/-! ### non-vacuity -/

def exG : Graph :=
  { classes := [exA, exB, exC],
    ifaces := [{ name := 100, ext := [], meths := [⟨0, 1⟩] }, { name := 101, ext := [100], meths := [] },
               { name := 102, ext := [101, 100], meths := [⟨1, 0⟩] }, { name := 103, ext := [], meths := [] }] }

example : Acyclic exG := acyclic_of_rankOK exG (by decide)
example : WF exG := wf_of_wfB exG (by decide)
example : Declared exG exC := by unfold Declared; decide
/-- a class that is neither `Exception` nor `Error` satisfies `ThrowableOK` -/
example : ThrowableOK exG exC := by
  have hac : Acyclic exG := acyclic_of_rankOK exG (by decide)
  constructor <;> intro h
  · have := (C08_instanceof_iff_reach exG hac .param exC exceptionName trivial).2.1 (by decide)
    exact absurd h this
  · have := (C08_instanceof_iff_reach exG hac .param exC errorName trivial).2.1 (by decide)
    exact absurd h this
-- C is an I (grandparent's interface's parent), reached by all four implementations; C is not an L
example : (List.map (fun k => isInstanceOf exG k exC 100) [.op, .param, .this, .thrown]) = [.yes, .yes, .yes, .yes] := by decide
example : (List.map (fun k => isInstanceOf exG k exC 103) [.op, .param, .this, .thrown]) = [.no, .no, .no, .no] := by decide
example : IsA exG exC 100 :=
  IsA.ext rfl (by decide : getClass exG 11 = some exB)
    (IsA.impl (i := 102) (by decide) (IReach.step (d := ⟨102, [101, 100], [⟨1, 0⟩]⟩) (by decide) (by decide : 100 ∈ [101, 100]) (IReach.refl 100)))
-- dispatch: `$c->m0()` runs B::m0 (arity 2), `parent::m0()` written in B runs A::m0
example : getMethod exG exC 0 = .found (false, exB, ⟨0, 2⟩) := by decide
example : parentCall exG (Ctx.ofMethod exC exB) 11 0 = .found (exA, false, ⟨0, 1⟩) := by decide
-- `parent::` written in A (no parent) and inherited by C: nothing above A, whatever the object's class
example : parentCall exG (Ctx.ofMethod exC exA) 10 0 = .absent := by decide
-- the hypotheses of `C08_parent_nearest` on that call: code written in B (11), B's parent is the declared class A
example : parentBase exG (Ctx.ofMethod exC exB) 11 = exB ∧ exB.ext = some exA.name ∧ Declared exG exA := by
  refine ⟨by decide, rfl, ?_⟩; unfold Declared; decide
example : MostDerived exG (declAny 0) exA exA (false, ⟨0, 1⟩) := ⟨[], AncVia.self exA, by decide, by simp⟩
example : MostDerived exG (declInst 1) exC exA ⟨1, 0⟩ :=
  ⟨[exC, exB], AncVia.up rfl (by decide : getClass exG 11 = some exB) (AncVia.up rfl (by decide : getClass exG 10 = some exA) (AncVia.self exA)),
    by decide, by decide⟩
-- a hop sequence without `self::` (hypothesis of `C08_static_binding_paths_partial`)
example : ∀ x ∈ [Hop.parent exB, Hop.staticKw, Hop.parent exA], x.isSelf = false := by decide
example : selfCall exG 10 20 = .found (exA, ⟨20, 0⟩) ∧ staticKwCall exG (Ctx.ofObject exC) 20 = .found (exC, ⟨20, 0⟩) := by decide
-- like: C provides I0's m0? most-derived m0 is B's with 2 parameters, I0 wants 1 → false; K's m1/0 is A's → true
example : like exG exC 100 = some false ∧ like exG exC 102 = some true := by decide

end C08
