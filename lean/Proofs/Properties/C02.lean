import Proofs.Lemmas.CtlSim
import Proofs.Lemmas.CtlMono
import Proofs.Lemmas.CtlExit
import Proofs.Lemmas.CtlIso
import Proofs.Lemmas.CtlWitness
/-!
# C02 — control flow and function calls behave as the reference semantics prescribe

Property theorems only.  `Spec.Ctl` is the reference semantics (big-step, fuel-indexed,
structured outcomes `normal | brk n | cont n | ret v`, every loop and `switch` consumes one
level, a call has its own locals, static locals are cells shared by all activations).
`Model.Ctl` is the interpreter as coded: `compile` builds the node tree the parser builds
(variable indexes in order of first appearance, the fused integer nodes of
`node/fused_assign.go` chosen by the same patterns) and the evaluator follows the `GetValue`
of each node (`node/while.go`, `do_while.go`, `for.go`, `foreach.go`, `switch.go`, `call.go`,
`function.go`, `var.go` as they are after the fixes `C02-while-continue`,
`C02-for-incr-alias`, `C02-static-cell`, `C02-switch-fallthrough`, `C02-stray-break`).

Every theorem quantifies over all programs of the language (`Spec.Ctl.Prog`: any nesting
depth, any number of functions and variables) and all amounts of fuel.
-/
namespace C02
open Spec.Ctl Model.Ctl Proofs.Ctl

/-! ## the model follows the reference semantics

Full statement (false on the pinned interpreter, see the three witnesses below):

    ∀ p fuel r, Spec.Ctl.run p fuel = some r → Model.Ctl.run p fuel = some r
-/

/-- **Refinement** on the fragment `inFragment` (single-level `break`/`continue`, function
bodies end in `return`, calls pass between the required and the declared number of
arguments, parameter names distinct): whenever the reference semantics gives a program an
answer — output and done/error — within the fuel, the model of the interpreter gives exactly
that answer with the same fuel. -/
theorem C02_refines_partial (p : Prog) (h : inFragment p = true) (fuel : Nat) (r : List String × Status)
    (hs : Spec.Ctl.run p fuel = some r) : Model.Ctl.run p fuel = some r :=
  run_refines p h fuel r hs

/-- **Fuel monotonicity**: more fuel never changes an answer of the reference semantics, so
`C02_refines_partial` speaks about every terminating program: the model agrees at the fuel
where the reference run completes and at every larger one. -/
theorem C02_fuel_mono (p : Prog) (fuel k : Nat) (r : List String × Status)
    (h : Spec.Ctl.run p fuel = some r) : Spec.Ctl.run p (fuel + k) = some r :=
  run_mono p fuel k r h

theorem C02_refines_all_fuel (p : Prog) (h : inFragment p = true) (fuel k : Nat) (r : List String × Status)
    (hs : Spec.Ctl.run p fuel = some r) : Model.Ctl.run p (fuel + k) = some r :=
  run_refines p h (fuel + k) r (run_mono p fuel k r hs)

-- non-vacuity: a program with every construct is in the fragment, terminates, and prints this
example : inFragment progAll = true := by decide
set_option maxRecDepth 20000 in
example : Spec.Ctl.run progAll 40 = some (["w", "1", "w", "3", "s", "0", "s", "1", "d", "z", "n", "7", "4"], .done) := by
  decide
set_option maxRecDepth 20000 in
example : Model.Ctl.run progAll 40 = some (["w", "1", "w", "3", "s", "0", "s", "1", "d", "z", "n", "7", "4"], .done) :=
  C02_refines_partial progAll (by decide) 40 _ (by decide)

/-! ### negation witnesses (each is replayed on the real interpreter by the harness) -/

set_option maxRecDepth 8000 in
/-- `break 2` ends only the innermost loop: every loop node consumes *any* Break. -/
theorem C02_refines_break_level_counterexample :
    ¬ (∀ p fuel r, Spec.Ctl.run p fuel = some r → Model.Ctl.run p fuel = some r) := by
  intro h
  have h1 : Spec.Ctl.run progBreak2 12 = some ([], .done) := by decide
  have h2 : Model.Ctl.run progBreak2 12 = some (["a", "a"], .done) := by decide
  rw [h progBreak2 12 _ h1] at h2
  exact absurd h2 (by decide)

set_option maxRecDepth 8000 in
/-- `continue 2` (parsed as `continue; 2;`) is consumed by the switch it is written in. -/
theorem C02_refines_continue_level_counterexample :
    ¬ (∀ p fuel r, Spec.Ctl.run p fuel = some r → Model.Ctl.run p fuel = some r) := by
  intro h
  have h1 : Spec.Ctl.run progContinue2 12 = some ([], .done) := by decide
  have h2 : Model.Ctl.run progContinue2 12 = some (["a", "a"], .done) := by decide
  rw [h progContinue2 12 _ h1] at h2
  exact absurd h2 (by decide)

set_option maxRecDepth 8000 in
/-- A function body that runs off its end yields the value of its last statement, not null. -/
theorem C02_refines_implicit_return_counterexample :
    ¬ (∀ p fuel r, Spec.Ctl.run p fuel = some r → Model.Ctl.run p fuel = some r) := by
  intro h
  have h1 : Spec.Ctl.run progNoReturn 12 = some (["[", "", "]"], .done) := by decide
  have h2 : Model.Ctl.run progNoReturn 12 = some (["[", "5", "]"], .done) := by decide
  rw [h progNoReturn 12 _ h1] at h2
  exact absurd h2 (by decide)

set_option maxRecDepth 8000 in
/-- A missing required argument is silently null instead of an error. -/
theorem C02_refines_arity_counterexample :
    ¬ (∀ p fuel r, Spec.Ctl.run p fuel = some r → Model.Ctl.run p fuel = some r) := by
  intro h
  have h1 : Spec.Ctl.run progTooFew 12 = some ([], .error) := by decide
  have h2 : Model.Ctl.run progTooFew 12 = some (["1", "after"], .done) := by decide
  rw [h progTooFew 12 _ h1] at h2
  exact absurd h2 (by decide)

-- each witness violates exactly the clause of `inFragment` that names it
example : inFragment progBreak2 = false ∧ inFragment progContinue2 = false ∧
    inFragment progNoReturn = false ∧ inFragment progTooFew = false := by decide

/-! ## exit targets -/

/-- **A `break n` / `continue n` leaves at most `n` constructs, and none it does not name.**
If every `break n` / `continue n` in a statement is written under at least `n - k` enclosing
loops or switches of that statement (`closedS k`), the statement's outcome leaves at most
`k` constructs around it (`brk m` / `cont m` with `1 ≤ m ≤ k`) — at every fuel, from every
state. -/
theorem C02_exit_targets (funs : List FunDecl) (fuel k : Nat) (cur : Cur) (st : Stmt) (s s' : St) (o : Out)
    (hcl : closedS k st = true) (h : execS funs fuel cur st s = .ok o s') : OutLe k o :=
  (exitAt funs fuel).execS k cur st s hcl o s' h

/-- In particular a statement whose jumps all name constructs inside it (`closedS 0`) ends
normally or by `return`: no loop outside it is ever left or restarted. -/
theorem C02_exit_targets_closed (funs : List FunDecl) (fuel : Nat) (cur : Cur) (st : Stmt) (s s' : St) (o : Out)
    (hcl : closedS 0 st = true) (h : execS funs fuel cur st s = .ok o s') :
    o = .normal ∨ ∃ v, o = .ret v := by
  have := C02_exit_targets funs fuel 0 cur st s s' o hcl h
  cases o with
  | normal => exact Or.inl rfl
  | ret v => exact Or.inr ⟨v, rfl⟩
  | brk m => simp only [OutLe] at this; omega
  | cont m => simp only [OutLe] at this; omega

/-- A loop hands a jump that names a construct further out (`n + 2` levels) on at once, one
level lower, in the state the body left: no further iteration, no increment, no condition. -/
theorem C02_exit_loop_immediate (funs : List FunDecl) (fuel : Nat) (cur : Cur) (c : Expr) (b : Block)
    (s s1 s2 : St) (vc : Val) (n : Nat)
    (hc : evalE funs fuel cur c s = .ok vc s1) (ht : vc.truthy = true)
    (hb : execB funs fuel cur b s1 = .ok (.brk (n+2)) s2) :
    execWhile funs (fuel+1) cur c b s = .ok (.brk (n+1)) s2 := by
  simp [execWhile, hc, Res.bind, ht, hb, loopStep]

/-- `break 1` ends exactly the loop it is written in: the loop completes normally in the
state the body left, and what follows the loop runs next (`execB` on `cons`). -/
theorem C02_exit_loop_break (funs : List FunDecl) (fuel : Nat) (cur : Cur) (c : Expr) (b : Block)
    (s s1 s2 : St) (vc : Val)
    (hc : evalE funs fuel cur c s = .ok vc s1) (ht : vc.truthy = true)
    (hb : execB funs fuel cur b s1 = .ok (.brk 1) s2) :
    execWhile funs (fuel+1) cur c b s = .ok .normal s2 := by
  simp [execWhile, hc, Res.bind, ht, hb, loopStep]

/-- `return` unwinds to the nearest enclosing call and no further; `break` / `continue` never
cross a call: whatever the body does, a call yields a value or an error. -/
theorem C02_exit_call (env : Env) (r : Res Out) :
    (∀ v s, r = .ok (.ret v) s → callResult env r = .ok v { s with env := env }) ∧
    (∀ n s, r = .ok (.brk n) s → callResult env r = .err { s with env := env }) ∧
    (∀ n s, r = .ok (.cont n) s → callResult env r = .err { s with env := env }) := by
  refine ⟨?_, ?_, ?_⟩ <;> intro a s e <;> subst e <;> rfl

-- non-vacuity: `for { for { break 2; } echo }` is closed, its inner loop alone is not
example : closedS 0 (forUpTo 0 2 [forUpTo 1 2 [.brk 2], echo [str "a"]]) = true ∧
    closedS 0 (forUpTo 1 2 [.brk 2]) = false ∧ closedS 1 (forUpTo 1 2 [.brk 2]) = true := by decide

/-! ## locals of one call are not visible to another -/

/-- **The caller's slots are untouched by the callee.** After a call (however it ends) the
running Context holds exactly the slot vector that evaluating the arguments left. -/
theorem C02_locals_isolated (mf : List MFun) (fuel : Nat) (g : FName) (args : MArgs) (s : MSt) (d : MFun)
    (hd : Model.Ctl.lookupFun mf g = some d) (slots : List Val) (s1 : MSt)
    (hb : bindArgs mf fuel d.params args s (List.replicate d.nvars .null) = .ok slots s1) (fr : Frame)
    (h : frameOf (evalM mf (fuel+1) (.call g args) s) = some fr) : fr = s1.fr :=
  call_frame mf fuel g args s d hd slots s1 hb fr h

/-- **A call depends only on its argument values, the static cells and the output so far.**
Two calls of `g` from arbitrary contexts whose arguments bind to the same fresh slot vector,
with the same static cells and output, give the same result, static cells and output —
whatever the callers' own variables hold. -/
theorem C02_call_depends_only_on_args (mf : List MFun) (fuel : Nat) (g : FName) (argsA argsB : MArgs)
    (sA sB : MSt) (d : MFun) (hd : Model.Ctl.lookupFun mf g = some d) (slots : List Val) (sA1 sB1 : MSt)
    (hA : bindArgs mf fuel d.params argsA sA (List.replicate d.nvars .null) = .ok slots sA1)
    (hB : bindArgs mf fuel d.params argsB sB (List.replicate d.nvars .null) = .ok slots sB1)
    (hst : sA1.statics = sB1.statics) (hout : sA1.out = sB1.out) :
    noFrame (evalM mf (fuel+1) (.call g argsA) sA) = noFrame (evalM mf (fuel+1) (.call g argsB) sB) :=
  call_depends mf fuel g argsA argsB sA sB d hd slots sA1 sB1 hA hB hst hout

-- non-vacuity: `f(1)` called with the caller's slots holding [7] resp. [9, 9]
set_option maxRecDepth 8000 in
example :
    noFrame (evalM (compile progAll).funs 20 (.call 0 (.cons (.lit (.int 1)) .nil))
        { fr := { slots := [.int 7], bound := [], fn := none }, statics := [], out := [] }) =
      noFrame (evalM (compile progAll).funs 20 (.call 0 (.cons (.lit (.int 1)) .nil))
        { fr := { slots := [.int 9, .int 9], bound := [], fn := none }, statics := [], out := [] }) := by
  decide

/-! ## the fused nodes equal the nodes they replace -/

/-- VarPostIncr / VarPostDecr (`$x++`, `$x--`): integer path = PostfixIncr / PostfixDecr. -/
theorem C02_fastpath_eq_incr (s : MSt) (i : Nat) :
    incFused .postInc s i = incGeneral .postInc s i ∧ incFused .postDec s i = incGeneral .postDec s i :=
  ⟨incFused_postInc s i, incFused_postDec s i⟩

/-- VarStmtIncr (the `$x++` of a `for` increment): same effect as PostfixIncr, the value is
never used. -/
theorem C02_fastpath_eq_stmt_incr (mf : List MFun) (fuel : Nat) (e : MExpr) (m : MSt) (k : MSt → MRes Val) :
    (evalM mf (fuel+1) (toStmtIncr e) m).bind (fun _ m1 => k m1) =
      (evalM mf (fuel+1) e m).bind (fun _ m1 => k m1) :=
  toStmtIncr_effect mf fuel e m k

/-- VarFastAssign, for every assignment `$x = e` the parser turns into one: same value, same
state as BinaryAssignVariable on the same right-hand side (which may need more fuel). -/
theorem C02_fastpath_eq (mf : List MFun) (sc : List Var) (x : Var) (e : Expr) (m : MSt) (fuel : Nat) :
    evalM mf (fuel+1) (.assignVar (idx sc x) (compE sc e)) m = .timeout ∨
    evalM mf (fuel+1) (mkAssign sc x e (compE sc e)) m =
      evalM mf (fuel+1) (.assignVar (idx sc x) (compE sc e)) m :=
  compiled_assign_eq mf sc x e m fuel

/-- VarIntLe (`$x <= n`): the boolean of what BinaryLe gives. -/
theorem C02_fastpath_eq_le (mf : List MFun) (i : Nat) (n : Int) (m : MSt) (fuel : Nat) :
    evalM mf (fuel+1) (.bin .le (.var i) (.lit (.int n))) m = .timeout ∨
    evalM mf (fuel+1) (.varIntLe i n (.bin .le (.var i) (.lit (.int n)))) m =
      (evalM mf (fuel+1) (.bin .le (.var i) (.lit (.int n))) m).bind fun v s => .ok (.bool v.truthy) s :=
  varIntLe_eq mf i n m fuel

-- non-vacuity: `$x = $x * 3` on an int slot takes the integer path and agrees
example :
    evalM [] 3 (mkAssign [0] 0 (.bin .mul (.var 0) (.lit (.int 3))) (compE [0] (.bin .mul (.var 0) (.lit (.int 3)))))
        { fr := { slots := [.int 4], bound := [], fn := none }, statics := [], out := [] } =
      evalM [] 3 (.assignVar 0 (compE [0] (.bin .mul (.var 0) (.lit (.int 3)))))
        { fr := { slots := [.int 4], bound := [], fn := none }, statics := [], out := [] } := rfl

end C02
