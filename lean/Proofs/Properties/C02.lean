import Proofs.Lemmas.CtlSim
import Proofs.Lemmas.CtlMono
import Proofs.Lemmas.CtlExit
import Proofs.Lemmas.CtlIso
import Proofs.Lemmas.CtlWitness
import Proofs.Lemmas.CtlShape
import Generated.C02Shapes
import Proofs.Lemmas.CtlScan
import Generated.C02BodyScans
import Proofs.Lemmas.CtlTable
/-!
# C02 — control flow and function calls behave as the reference semantics prescribe

Property theorems only.  `Spec.Ctl` is the reference semantics (big-step, fuel-indexed,
structured outcomes `normal | brk n | cont n | ret v`, every loop and `switch` consumes one
level, a call has its own locals, static locals are cells shared by all activations).
`Model.Ctl` is the interpreter as coded: `compile` builds the node tree the parser builds
(variable indexes in order of first appearance, the fused integer nodes of
`node/fused_assign.go` chosen by the same patterns) and the evaluator follows the `GetValue`
of each node (`node/while.go`, `do_while.go`, `for.go`, `foreach.go`, `switch.go`, `call.go`,
`function.go`, `var.go` as they are after the fixes `C02-while-continue`,
`C02-for-incr-alias`, `C02-static-cell`, `C02-switch-fallthrough`, `C02-stray-break`).

Every theorem quantifies over all programs of the language (`Spec.Ctl.Prog`: any nesting
depth, any number of functions and variables) and all amounts of fuel.
-/
namespace C02
open Spec.Ctl Model.Ctl Proofs.Ctl

/-! ## the model follows the reference semantics

Full statement (false on the pinned interpreter, see the three witnesses below):

    ∀ p fuel r, Spec.Ctl.run p fuel = some r → Model.Ctl.run p fuel = some r
-/

/-- **Refinement** on the fragment `inFragment` (single-level `break`/`continue`, function
bodies end in `return`, calls pass between the required and the declared number of
arguments, parameter names distinct): whenever the reference semantics gives a program an
answer — output and done/error — within the fuel, the model of the interpreter gives exactly
that answer with the same fuel. -/
theorem C02_refines_partial (p : Prog) (h : inFragment p = true) (fuel : Nat) (r : List String × Status)
    (hs : Spec.Ctl.run p fuel = some r) : Model.Ctl.run p fuel = some r :=
  run_refines p h fuel r hs

/-- **Fuel monotonicity**: more fuel never changes an answer of the reference semantics, so
`C02_refines_partial` speaks about every terminating program: the model agrees at the fuel
where the reference run completes and at every larger one. -/
theorem C02_fuel_mono (p : Prog) (fuel k : Nat) (r : List String × Status)
    (h : Spec.Ctl.run p fuel = some r) : Spec.Ctl.run p (fuel + k) = some r :=
  run_mono p fuel k r h

theorem C02_refines_all_fuel (p : Prog) (h : inFragment p = true) (fuel k : Nat) (r : List String × Status)
    (hs : Spec.Ctl.run p fuel = some r) : Model.Ctl.run p (fuel + k) = some r :=
  run_refines p h (fuel + k) r (run_mono p fuel k r hs)

-- non-vacuity: a program with every construct is in the fragment, terminates, and prints this
example : inFragment progAll = true := by decide
set_option maxRecDepth 20000 in
example : Spec.Ctl.run progAll 40 = some (["w", "1", "w", "3", "s", "0", "s", "1", "d", "z", "n", "7", "4"], .done) := by
  decide
set_option maxRecDepth 20000 in
example : Model.Ctl.run progAll 40 = some (["w", "1", "w", "3", "s", "0", "s", "1", "d", "z", "n", "7", "4"], .done) :=
  C02_refines_partial progAll (by decide) 40 _ (by decide)

/-! ### negation witnesses (each is replayed on the real interpreter by the harness) -/

set_option maxRecDepth 8000 in
/-- `break 2` ends only the innermost loop: every loop node consumes *any* Break. -/
theorem C02_refines_break_level_counterexample :
    ¬ (∀ p fuel r, Spec.Ctl.run p fuel = some r → Model.Ctl.run p fuel = some r) := by
  intro h
  have h1 : Spec.Ctl.run progBreak2 12 = some ([], .done) := by decide
  have h2 : Model.Ctl.run progBreak2 12 = some (["a", "a"], .done) := by decide
  rw [h progBreak2 12 _ h1] at h2
  exact absurd h2 (by decide)

set_option maxRecDepth 8000 in
/-- `continue 2` (parsed as `continue; 2;`) is consumed by the switch it is written in. -/
theorem C02_refines_continue_level_counterexample :
    ¬ (∀ p fuel r, Spec.Ctl.run p fuel = some r → Model.Ctl.run p fuel = some r) := by
  intro h
  have h1 : Spec.Ctl.run progContinue2 12 = some ([], .done) := by decide
  have h2 : Model.Ctl.run progContinue2 12 = some (["a", "a"], .done) := by decide
  rw [h progContinue2 12 _ h1] at h2
  exact absurd h2 (by decide)

set_option maxRecDepth 8000 in
/-- A function body that runs off its end yields the value of its last statement, not null. -/
theorem C02_refines_implicit_return_counterexample :
    ¬ (∀ p fuel r, Spec.Ctl.run p fuel = some r → Model.Ctl.run p fuel = some r) := by
  intro h
  have h1 : Spec.Ctl.run progNoReturn 12 = some (["[", "", "]"], .done) := by decide
  have h2 : Model.Ctl.run progNoReturn 12 = some (["[", "5", "]"], .done) := by decide
  rw [h progNoReturn 12 _ h1] at h2
  exact absurd h2 (by decide)

set_option maxRecDepth 8000 in
/-- A missing required argument is silently null instead of an error. -/
theorem C02_refines_arity_counterexample :
    ¬ (∀ p fuel r, Spec.Ctl.run p fuel = some r → Model.Ctl.run p fuel = some r) := by
  intro h
  have h1 : Spec.Ctl.run progTooFew 12 = some ([], .error) := by decide
  have h2 : Model.Ctl.run progTooFew 12 = some (["1", "after"], .done) := by decide
  rw [h progTooFew 12 _ h1] at h2
  exact absurd h2 (by decide)

-- each witness violates exactly the clause of `inFragment` that names it
example : inFragment progBreak2 = false ∧ inFragment progContinue2 = false ∧
    inFragment progNoReturn = false ∧ inFragment progTooFew = false := by decide

/-! ## exit targets -/

/-- **A `break n` / `continue n` leaves at most `n` constructs, and none it does not name.**
If every `break n` / `continue n` in a statement is written under at least `n - k` enclosing
loops or switches of that statement (`closedS k`), the statement's outcome leaves at most
`k` constructs around it (`brk m` / `cont m` with `1 ≤ m ≤ k`) — at every fuel, from every
state. -/
theorem C02_exit_targets (funs : List FunDecl) (fuel k : Nat) (cur : Cur) (st : Stmt) (s s' : St) (o : Out)
    (hcl : closedS k st = true) (h : execS funs fuel cur st s = .ok o s') : OutLe k o :=
  (exitAt funs fuel).execS k cur st s hcl o s' h

/-- In particular a statement whose jumps all name constructs inside it (`closedS 0`) ends
normally or by `return`: no loop outside it is ever left or restarted. -/
theorem C02_exit_targets_closed (funs : List FunDecl) (fuel : Nat) (cur : Cur) (st : Stmt) (s s' : St) (o : Out)
    (hcl : closedS 0 st = true) (h : execS funs fuel cur st s = .ok o s') :
    o = .normal ∨ ∃ v, o = .ret v := by
  have := C02_exit_targets funs fuel 0 cur st s s' o hcl h
  cases o with
  | normal => exact Or.inl rfl
  | ret v => exact Or.inr ⟨v, rfl⟩
  | brk m => simp only [OutLe] at this; omega
  | cont m => simp only [OutLe] at this; omega

/-- A loop hands a jump that names a construct further out (`n + 2` levels) on at once, one
level lower, in the state the body left: no further iteration, no increment, no condition. -/
theorem C02_exit_loop_immediate (funs : List FunDecl) (fuel : Nat) (cur : Cur) (c : Expr) (b : Block)
    (s s1 s2 : St) (vc : Val) (n : Nat)
    (hc : evalE funs fuel cur c s = .ok vc s1) (ht : vc.truthy = true)
    (hb : execB funs fuel cur b s1 = .ok (.brk (n+2)) s2) :
    execWhile funs (fuel+1) cur c b s = .ok (.brk (n+1)) s2 := by
  simp [execWhile, hc, Res.bind, ht, hb, loopStep]

/-- `break 1` ends exactly the loop it is written in: the loop completes normally in the
state the body left, and what follows the loop runs next (`execB` on `cons`). -/
theorem C02_exit_loop_break (funs : List FunDecl) (fuel : Nat) (cur : Cur) (c : Expr) (b : Block)
    (s s1 s2 : St) (vc : Val)
    (hc : evalE funs fuel cur c s = .ok vc s1) (ht : vc.truthy = true)
    (hb : execB funs fuel cur b s1 = .ok (.brk 1) s2) :
    execWhile funs (fuel+1) cur c b s = .ok .normal s2 := by
  simp [execWhile, hc, Res.bind, ht, hb, loopStep]

/-- `return` unwinds to the nearest enclosing call and no further; `break` / `continue` never
cross a call: whatever the body does, a call yields a value or an error. -/
theorem C02_exit_call (env : Env) (r : Res Out) :
    (∀ v s, r = .ok (.ret v) s → callResult env r = .ok v { s with env := env }) ∧
    (∀ n s, r = .ok (.brk n) s → callResult env r = .err { s with env := env }) ∧
    (∀ n s, r = .ok (.cont n) s → callResult env r = .err { s with env := env }) := by
  refine ⟨?_, ?_, ?_⟩ <;> intro a s e <;> subst e <;> rfl

-- non-vacuity: `for { for { break 2; } echo }` is closed, its inner loop alone is not
example : closedS 0 (forUpTo 0 2 [forUpTo 1 2 [.brk 2], echo [str "a"]]) = true ∧
    closedS 0 (forUpTo 1 2 [.brk 2]) = false ∧ closedS 1 (forUpTo 1 2 [.brk 2]) = true := by decide

/-! ## locals of one call are not visible to another -/

/-- **The caller's slots are untouched by the callee.** After a call (however it ends) the
running Context holds exactly the slot vector that evaluating the arguments left. -/
theorem C02_locals_isolated (mf : List MFun) (fuel : Nat) (g : FName) (args : MArgs) (s : MSt) (d : MFun)
    (hd : Model.Ctl.lookupFun mf g = some d) (slots : List Val) (s1 : MSt)
    (hb : bindArgs mf fuel d.params args s (List.replicate d.nvars .null) = .ok slots s1) (fr : Frame)
    (h : frameOf (evalM mf (fuel+1) (.call g args) s) = some fr) : fr = s1.fr :=
  call_frame mf fuel g args s d hd slots s1 hb fr h

/-- **A call depends only on its argument values, the static cells and the output so far.**
Two calls of `g` from arbitrary contexts whose arguments bind to the same fresh slot vector,
with the same static cells and output, give the same result, static cells and output —
whatever the callers' own variables hold. -/
theorem C02_call_depends_only_on_args (mf : List MFun) (fuel : Nat) (g : FName) (argsA argsB : MArgs)
    (sA sB : MSt) (d : MFun) (hd : Model.Ctl.lookupFun mf g = some d) (slots : List Val) (sA1 sB1 : MSt)
    (hA : bindArgs mf fuel d.params argsA sA (List.replicate d.nvars .null) = .ok slots sA1)
    (hB : bindArgs mf fuel d.params argsB sB (List.replicate d.nvars .null) = .ok slots sB1)
    (hst : sA1.statics = sB1.statics) (hout : sA1.out = sB1.out) :
    noFrame (evalM mf (fuel+1) (.call g argsA) sA) = noFrame (evalM mf (fuel+1) (.call g argsB) sB) :=
  call_depends mf fuel g argsA argsB sA sB d hd slots sA1 sB1 hA hB hst hout

-- non-vacuity: `f(1)` called with the caller's slots holding [7] resp. [9, 9]
set_option maxRecDepth 8000 in
example :
    noFrame (evalM (compile progAll).funs 20 (.call 0 (.cons (.lit (.int 1)) .nil))
        { fr := { slots := [.int 7], bound := [], fn := none }, statics := [], out := [] }) =
      noFrame (evalM (compile progAll).funs 20 (.call 0 (.cons (.lit (.int 1)) .nil))
        { fr := { slots := [.int 9, .int 9], bound := [], fn := none }, statics := [], out := [] }) := by
  decide

/-! ## the fused nodes equal the nodes they replace -/

/-- VarPostIncr / VarPostDecr (`$x++`, `$x--`): integer path = PostfixIncr / PostfixDecr. -/
theorem C02_fastpath_eq_incr (s : MSt) (i : Nat) :
    incFused .postInc s i = incGeneral .postInc s i ∧ incFused .postDec s i = incGeneral .postDec s i :=
  ⟨incFused_postInc s i, incFused_postDec s i⟩

/-- VarStmtIncr (the `$x++` of a `for` increment): same effect as PostfixIncr, the value is
never used. -/
theorem C02_fastpath_eq_stmt_incr (mf : List MFun) (fuel : Nat) (e : MExpr) (m : MSt) (k : MSt → MRes Val) :
    (evalM mf (fuel+1) (toStmtIncr e) m).bind (fun _ m1 => k m1) =
      (evalM mf (fuel+1) e m).bind (fun _ m1 => k m1) :=
  toStmtIncr_effect mf fuel e m k

/-- VarFastAssign, for every assignment `$x = e` the parser turns into one: same value, same
state as BinaryAssignVariable on the same right-hand side (which may need more fuel). -/
theorem C02_fastpath_eq (mf : List MFun) (sc : List Var) (x : Var) (e : Expr) (m : MSt) (fuel : Nat) :
    evalM mf (fuel+1) (.assignVar (idx sc x) (compE sc e)) m = .timeout ∨
    evalM mf (fuel+1) (mkAssign sc x e (compE sc e)) m =
      evalM mf (fuel+1) (.assignVar (idx sc x) (compE sc e)) m :=
  compiled_assign_eq mf sc x e m fuel

/-- VarIntLe (`$x <= n`): the boolean of what BinaryLe gives. -/
theorem C02_fastpath_eq_le (mf : List MFun) (i : Nat) (n : Int) (m : MSt) (fuel : Nat) :
    evalM mf (fuel+1) (.bin .le (.var i) (.lit (.int n))) m = .timeout ∨
    evalM mf (fuel+1) (.varIntLe i n (.bin .le (.var i) (.lit (.int n)))) m =
      (evalM mf (fuel+1) (.bin .le (.var i) (.lit (.int n))) m).bind fun v s => .ok (.bool v.truthy) s :=
  varIntLe_eq mf i n m fuel

-- non-vacuity: `$x = $x * 3` on an int slot takes the integer path and agrees
example :
    evalM [] 3 (mkAssign [0] 0 (.bin .mul (.var 0) (.lit (.int 3))) (compE [0] (.bin .mul (.var 0) (.lit (.int 3)))))
        { fr := { slots := [.int 4], bound := [], fn := none }, statics := [], out := [] } =
      evalM [] 3 (.assignVar 0 (compE [0] (.bin .mul (.var 0) (.lit (.int 3)))))
        { fr := { slots := [.int 4], bound := [], fn := none }, statics := [], out := [] } := rfl

/-! ## the node rules are what the source says (regenerated facts)

`Model.Ctl`'s loop, switch, call, `if` and `static` rules are hand-written mirrors of the Go
nodes.  `extract/c02` regenerates, on every run, the shape of those nodes from the source
(`Generated.C02`, data only; `Model.CtlShape` says what the data means).  For each rule there is
(1) a generic theorem over EVERY table — the evaluator the facts describe equals the
hand-written rule whenever the table passes the decidable test `…OK` (all programs, all fuel,
all states), (2) the obligation `…OK Generated.C02.…` by `decide`, (3) the instance for the
generated table, and (4) a negation witness: a table with the shape of a realistic mistake, on
which the two evaluators differ on a concrete program.  A source change that invalidates a
rule therefore breaks the obligation that names the rule. -/

open Model.CtlShape Proofs.CtlShape

/-- `while`: condition, body; Break ends the loop, Continue goes back to the condition,
Return / Throw go up. -/
theorem C02_tie_while (L : LoopFacts) (h : whileOK L = true) (funs : List MFun) (fuel : Nat) (c : MExpr)
    (incs : MArgs) (b : MBlock) (v : Val) (s : MSt) :
    loopBy L funs fuel c incs b v s = whileM funs fuel c b v s := loopBy_while L h funs fuel c incs b v s

/-- `do-while`: body, condition; Continue still evaluates the condition. -/
theorem C02_tie_do (L : LoopFacts) (h : doOK L = true) (funs : List MFun) (fuel : Nat) (c : MExpr)
    (incs : MArgs) (b : MBlock) (v : Val) (s : MSt) :
    loopBy L funs fuel c incs b v s = doM funs fuel b c v s := loopBy_do L h funs fuel c incs b v s

/-- `for`: condition, body, increments; Continue still runs the increments; no path around
the loop, no assertion on the header other than the BoolTest short cut. -/
theorem C02_tie_for (L : LoopFacts) (h : forOK L = true) (funs : List MFun) (fuel : Nat) (c : MExpr)
    (incs : MArgs) (b : MBlock) (v : Val) (s : MSt) :
    loopBy L funs fuel c incs b v s = Model.Ctl.forM funs fuel c incs b v s := loopBy_for L h funs fuel c incs b v s

/-- `foreach` over an array. -/
theorem C02_tie_foreach (d : Dispatch) (h : foreachOK d = true) (funs : List MFun) (fuel : Nat) (k : Option Nat)
    (vi : Nat) (b : MBlock) (xs : List Int) (i : Nat) (v : Val) (s : MSt) :
    foreachBy d funs fuel k vi b xs i v s = foreachM funs fuel k vi b xs i v s :=
  foreachBy_eq d h funs fuel k vi b xs i v s

/-- the bodies of a `switch`: fall through until Break or Continue, which end the switch. -/
theorem C02_tie_switch_body (d : Dispatch) (h : switchBodyOK d = true) (funs : List MFun) (fuel : Nat)
    (cs : MCases) (dflt : MBlock) (s : MSt) :
    runBodiesBy d funs fuel cs dflt s = runBodiesM funs fuel cs dflt s := runBodiesBy_eq d h funs fuel cs dflt s

/-- branches of `if` and arms of `match` consume no control. -/
theorem C02_tie_block (d : Dispatch) (h : blockOK d = true) (funs : List MFun) (fuel : Nat) (b : MBlock) (v : Val)
    (s : MSt) : blockBy d funs fuel b v s = execMB funs fuel b v s := blockBy_eq d h funs fuel b v s

/-- the call boundary: Return is the value, an escaping Break / Continue becomes a thrown error. -/
theorem C02_tie_call (d : Dispatch) (h : callOK d = true) (caller : Frame) (r : MRes Val) :
    callResultBy d caller r = callResultM caller r := callResultBy_eq d h caller r

/-- the `elseif` chain runs the first branch whose test succeeds and evaluates no later test. -/
theorem C02_tie_elseif (F : ScanFacts) (h : ifScanOK F = true) (funs : List MFun) (fuel : Nat) (es : MElseIfs)
    (els : MBlock) (s : MSt) : elifsBy F funs fuel es els none s = elifsM funs fuel es els s :=
  elifsBy_eq F h funs fuel es els s

/-- every clause scan (`elseif`, `match` arms, `switch` labels) evaluates the tests up to and
including the first that succeeds, whatever the outcomes `ts` of the tests would be. -/
theorem C02_tie_scan (F : ScanFacts) (h : scanOK F = true) (ts : List Bool) : scanTests F false ts = refTests ts :=
  scanTests_eq F h ts

/-- the `static` statement: the cell is created once and never dropped or overwritten by the store. -/
theorem C02_tie_static_store (F : StoreFacts) (h : storeOK F = true) (g : FName) (s : MSt) (i : Nat) (init : Val) :
    bindStaticBy F g s i init = bindStatic g s i init := bindStaticBy_eq F h g s i init

/-- …and in terms of the cells alone: whatever was there stays, for every key. -/
theorem C02_tie_static_cells_kept (F : StoreFacts) (h : storeOK F = true) (cells : List (Nat × Val)) (i j : Nat)
    (v z : Val) (hj : aget cells j = some z) : aget (initBy F cells i v) j = some z := by
  rw [initBy_eq F h]
  by_cases hi : (aget cells i).isNone
  · have hne : j ≠ i := by intro e; subst e; simp [hj] at hi
    simp only [hi, if_true]
    clear hi
    induction cells with
    | nil => simp [aget] at hj
    | cons p rest ih =>
      obtain ⟨k', a'⟩ := p
      by_cases hk : i = k'
      · subst hk; simp [aset, aget, hne] at hj ⊢; exact hj
      · by_cases hjk : j = k'
        · subst hjk; simp [aset, aget, hk] at hj ⊢; exact hj
        · simp [aset, aget, hk, hjk] at hj ⊢; exact ih hj
  · simp [hi, hj]

/-! ### obligations over the regenerated tables (`Generated/C02Shapes.lean`) -/

/-- the translator found every named thing -/
theorem C02_tie_shape : Generated.C02.shapeNotes = [] := by first | decide | fail "obligation C02_tie_shape no longer holds: the translator extract/c02 did not find a construct it names (see Generated.C02.shapeNotes)"

theorem C02_tie_while_facts :
    Generated.C02.whileLoops.all whileOK = true ∧ Generated.C02.whileLoops ≠ [] := by first | decide | fail "obligation C02_tie_while_facts no longer holds: node/while.go no longer has the shape of Model.Ctl.whileM (phases cond,body; Break leaves, Continue goes to the condition, Return/Throw propagate) — see Generated.C02.whileLoops / unknownWhy"

theorem C02_tie_do_facts :
    Generated.C02.doLoops.all doOK = true ∧ Generated.C02.doLoops ≠ [] := by first | decide | fail "obligation C02_tie_do_facts no longer holds: node/do_while.go no longer has the shape of Model.Ctl.doM (phases body,cond; Continue must still reach the condition) — see Generated.C02.doLoops / unknownWhy"

theorem C02_tie_for_facts :
    Generated.C02.forLoops.all forOK = true ∧ Generated.C02.forLoops ≠ [] := by first | decide | fail "obligation C02_tie_for_facts no longer holds: node/for.go no longer has the shape of Model.Ctl.forM (phases cond,body,incr; Continue must still reach the increments; no early path around the loop; no assertion on the header but BoolTest) — see Generated.C02.forLoops / unknownWhy"

theorem C02_tie_foreach_facts : foreachAllOK Generated.C02.foreachBodies = true := by first | decide | fail "obligation C02_tie_foreach_facts no longer holds: node/foreach.go: a statement loop no longer obeys the loop rule of Model.Ctl.foreachM (Break leaves, Continue goes to the next element) — see Generated.C02.foreachBodies / unknownWhy"

theorem C02_tie_switch_facts :
    Generated.C02.switchBodies.all (fun B => switchBodyOK B.dispatch) = true ∧ Generated.C02.switchBodies ≠ [] := by
  first | decide | fail "obligation C02_tie_switch_facts no longer holds: node/switch.go: runSwitchBody no longer has the arms of Model.Ctl.runBodiesM (Break and Continue end the switch, Return/Throw propagate, otherwise fall through) — see Generated.C02.switchBodies"

theorem C02_tie_call_facts :
    Generated.C02.callBodies.all (fun B => callOK B.dispatch) = true ∧ Generated.C02.callBodies ≠ [] := by first | decide | fail "obligation C02_tie_call_facts no longer holds: node/function.go: FunctionStatement.Call no longer has the arms of Model.Ctl.callResultM (Return is the value, Break/Continue become a thrown error, Throw propagates) — see Generated.C02.callBodies"

theorem C02_tie_block_facts : Generated.C02.blocks.all (fun B => blockOK B.dispatch) = true := by first | decide | fail "obligation C02_tie_block_facts no longer holds: a branch of if / an arm of match consumes a control (Model.Ctl.execMB hands every control up) — see Generated.C02.blocks"

/-- all three scans evaluate a prefix of the tests; the `if` node's scan stops at the branch -/
theorem C02_tie_scan_facts :
    Generated.C02.scans.all scanOK = true ∧ Generated.C02.scans.map (·.over) = ["ElseIf", "Arms", "Cases"] ∧
    (Generated.C02.scans.filter (·.over == "ElseIf")).all ifScanOK = true := by first | decide | fail "obligation C02_tie_scan_facts no longer holds: a clause scan (if/elseif, match arms, switch labels) may evaluate a test behind the first that succeeds, or the if node no longer runs the branch inside the scan — see Generated.C02.scans"

theorem C02_tie_static_store_facts : storeOK Generated.C02.store = true := by first | decide | fail "obligation C02_tie_static_store_facts no longer holds: data/static_locals.go / node/var.go: the store of static cells may drop, overwrite or re-create an existing cell (Model.Ctl.bindStatic creates a cell once and keeps it) — see Generated.C02.store"

/-- the header of `for`: one parse-time rewrite (`$x++` increment → VarStmtIncr, same slot, same
fallback), parameters stored in their own fields, one BoolTest type whose GetValue is its
testBool, and `IsBreak` / `IsContinue` are the constants the dispatch code takes them for -/
theorem C02_tie_for_header_facts :
    forCtorOK Generated.C02.forCtor = true ∧
    Generated.C02.boolTests = [{ type := "VarIntLe", getValueViaTestBool := true }] ∧
    controlsOK Generated.C02.controls = true := by first | decide | fail "obligation C02_tie_for_header_facts no longer holds: the specialised nodes around the for header changed (NewForStatement rewrites, ForStatement fields, BoolTest implementors, IsBreak/IsContinue constants) — see Generated.C02.forCtor / boolTests / controls"

/-! ### the rules of Model.Ctl, instantiated with the regenerated tables -/

theorem C02_tie_loops_generated (funs : List MFun) (fuel : Nat) (c : MExpr) (incs : MArgs) (b : MBlock) (v : Val)
    (s : MSt) :
    (∀ L ∈ Generated.C02.whileLoops, loopBy L funs fuel c incs b v s = whileM funs fuel c b v s) ∧
    (∀ L ∈ Generated.C02.doLoops, loopBy L funs fuel c incs b v s = doM funs fuel b c v s) ∧
    (∀ L ∈ Generated.C02.forLoops, loopBy L funs fuel c incs b v s = Model.Ctl.forM funs fuel c incs b v s) :=
  ⟨fun L hL => C02_tie_while L (List.all_eq_true.mp C02_tie_while_facts.1 L hL) funs fuel c incs b v s,
   fun L hL => C02_tie_do L (List.all_eq_true.mp C02_tie_do_facts.1 L hL) funs fuel c incs b v s,
   fun L hL => C02_tie_for L (List.all_eq_true.mp C02_tie_for_facts.1 L hL) funs fuel c incs b v s⟩

theorem C02_tie_bodies_generated (funs : List MFun) (fuel : Nat) :
    (∀ B ∈ Generated.C02.foreachBodies, B.isArrayPath = true → ∀ k vi b xs i v s,
      foreachBy B.dispatch funs fuel k vi b xs i v s = foreachM funs fuel k vi b xs i v s) ∧
    (∀ B ∈ Generated.C02.switchBodies, ∀ cs dflt s,
      runBodiesBy B.dispatch funs fuel cs dflt s = runBodiesM funs fuel cs dflt s) ∧
    (∀ B ∈ Generated.C02.blocks, ∀ b v s, blockBy B.dispatch funs fuel b v s = execMB funs fuel b v s) ∧
    (∀ B ∈ Generated.C02.callBodies, ∀ caller r, callResultBy B.dispatch caller r = callResultM caller r) := by
  refine ⟨?_, ?_, ?_, ?_⟩
  · intro B hB hA k vi b xs i v s
    have h := C02_tie_foreach_facts
    simp only [foreachAllOK, Bool.and_eq_true, List.all_eq_true] at h
    have hB' := h.2 B hB
    rw [hA] at hB'
    exact C02_tie_foreach _ hB' funs fuel k vi b xs i v s
  · intro B hB cs dflt s
    exact C02_tie_switch_body _ (List.all_eq_true.mp C02_tie_switch_facts.1 B hB) funs fuel cs dflt s
  · intro B hB b v s
    exact C02_tie_block _ (List.all_eq_true.mp C02_tie_block_facts B hB) funs fuel b v s
  · intro B hB caller r
    exact C02_tie_call _ (List.all_eq_true.mp C02_tie_call_facts.1 B hB) caller r

theorem C02_tie_static_store_generated (g : FName) (s : MSt) (i : Nat) (init : Val) :
    bindStaticBy Generated.C02.store g s i init = bindStatic g s i init :=
  C02_tie_static_store _ C02_tie_static_store_facts g s i init

/-! ### negation witnesses: tables with the shape of a realistic mistake -/

/-- what a witness looks at: slots and output -/
def tieObs : MRes Val → Option (List Val × List String)
  | .ok _ s => some (s.fr.slots, s.out.reverse)
  | .ctl _ s => some (s.fr.slots, s.out.reverse)
  | .timeout => none

def tieSt (slots : List Val) : MSt := { fr := { slots := slots, bound := [], fn := none }, statics := [], out := [] }

def tieOkDispatch : Dispatch :=
  { noneProceeds := true, onBreak := [.leave], onContinue := [.next], onReturn := [.propagate], onThrow := [.propagate] }

/-- `if ($x == n) { continue; }` on slot `i` -/
def tieContinueWhen (i : Nat) (n : Int) : MStmt :=
  .ite (.bin .eq (.var i) (.lit (.int n))) (.cons .cont .nil) .nil .nil

/-- the seeded change `C02-dowhile-continue-skips-condition`: the Continue arm of do-while
restarts the Go loop (`continue loop`). `do { $i++; if ($i == 1) { continue; } } while (false);`
runs the body twice. -/
def tieDoRestart : LoopFacts :=
  { fn := "DoWhileStatement.GetValue", phases := [.body, .cond], condFalseExits := true,
    dispatch := { tieOkDispatch with onContinue := [.restart] }, preExits := [], asserts := [] }

theorem C02_tie_do_counterexample :
    doOK tieDoRestart = false ∧
    tieObs (loopBy tieDoRestart [] 9 (.lit (.bool false)) .nil
      (.cons (.expr (.postIncr 0)) (.cons (tieContinueWhen 0 1) .nil)) .null (tieSt [.int 0])) = some ([.int 2], []) ∧
    tieObs (doM [] 9 (.cons (.expr (.postIncr 0)) (.cons (tieContinueWhen 0 1) .nil)) (.lit (.bool false)) .null
      (tieSt [.int 0])) = some ([.int 1], []) := by decide

/-- Continue in `for` that skips the increments:
`for (; $i < 2; $i++) { $j++; if ($j == 2) { continue; } }` makes three passes instead of two. -/
def tieForRestart : LoopFacts :=
  { fn := "ForStatement.GetValue", phases := [.cond, .body, .incr], condFalseExits := true,
    dispatch := { tieOkDispatch with onContinue := [.restart] }, preExits := [], asserts := [] }

theorem C02_tie_for_counterexample :
    forOK tieForRestart = false ∧
    tieObs (loopBy tieForRestart [] 9 (.bin .lt (.var 0) (.lit (.int 2))) (.cons (.stmtIncr 0) .nil)
      (.cons (.expr (.postIncr 1)) (.cons (tieContinueWhen 1 2) .nil)) .null (tieSt [.int 0, .int 0])) =
        some ([.int 2, .int 3], []) ∧
    tieObs (Model.Ctl.forM [] 9 (.bin .lt (.var 0) (.lit (.int 2))) (.cons (.stmtIncr 0) .nil)
      (.cons (.expr (.postIncr 1)) (.cons (tieContinueWhen 1 2) .nil)) .null (tieSt [.int 0, .int 0])) =
        some ([.int 2, .int 2], []) := by decide

/-- the defect `C02-while-continue` (fixed 9e604f1): Go's `continue` bound to the statement
loop, so the control was dropped and the rest of the body still ran:
`while ($i < 3) { $i++; if ($i == 2) { continue; } echo $i; }` printed 123. -/
def tieWhileSwallow : LoopFacts :=
  { fn := "WhileStatement.GetValue", phases := [.cond, .body], condFalseExits := true,
    dispatch := { tieOkDispatch with onContinue := [.swallow] }, preExits := [], asserts := [] }

theorem C02_tie_while_counterexample :
    whileOK tieWhileSwallow = false ∧
    tieObs (loopBy tieWhileSwallow [] 12 (.bin .lt (.var 0) (.lit (.int 3))) .nil
      (.cons (.expr (.postIncr 0)) (.cons (tieContinueWhen 0 2) (.cons (.echo (.cons (.var 0) .nil)) .nil))) .null
      (tieSt [.int 0])) = some ([.int 3], ["1", "2", "3"]) ∧
    tieObs (whileM [] 12 (.bin .lt (.var 0) (.lit (.int 3)))
      (.cons (.expr (.postIncr 0)) (.cons (tieContinueWhen 0 2) (.cons (.echo (.cons (.var 0) .nil)) .nil))) .null
      (tieSt [.int 0])) = some ([.int 3], ["1", "3"]) := by decide

/-- the seeded change `C02-counted-for-native-loop`: a path around the loop for one header
shape, with its own statement loop inside a Go counted loop, is refused by name -/
theorem C02_tie_for_early_path_refused :
    forOK { fn := "ForStatement.GetValue", phases := [.cond, .body, .incr], condFalseExits := true,
            dispatch := tieOkDispatch, preExits := ["if le, ok := u.Condition.(*VarIntLe); ok && len(u.Increments) == 1"],
            asserts := [("Condition", "*VarIntLe"), ("Increments", "*VarStmtIncr"), ("Condition", "BoolTest")] } = false ∧
    forOK { fn := "ForStatement.runCounted", phases := [.other], condFalseExits := false,
            dispatch := tieOkDispatch, preExits := [], asserts := [] } = false := by decide

/-- the defect `C02-stray-break` (fixed 765fc7d): the call boundary handed Break on, so a
`break` in a loop-less function body ended the caller's loop -/
theorem C02_tie_call_counterexample :
    callOK { tieOkDispatch with onBreak := [.propagate], onContinue := [.propagate], onReturn := [.leave] } = false ∧
    (∃ s, callResultBy { tieOkDispatch with onBreak := [.propagate], onContinue := [.propagate], onReturn := [.leave] }
        (tieSt []).fr (.ctl (.brk 1) (tieSt [])) = .ctl (.brk 1) s) ∧
    (∃ s, callResultM (tieSt []).fr (.ctl (.brk 1) (tieSt [])) = .ctl .thr s) :=
  ⟨by decide, ⟨_, rfl⟩, ⟨_, rfl⟩⟩

/-- the seeded change `C02-elseif-conditions-all-evaluated`: the branch is only selected in the
scan and run behind it. `if (false) {} elseif (true) { echo "t"; } elseif ($x++ == 9) {}` still
increments `$x`. -/
def tieScanGoOn : ScanFacts :=
  { fn := "IfStatement.GetValue", over := "ElseIf", forward := true, testGuard := .always, afterMatch := .goOn }

theorem C02_tie_elseif_counterexample :
    ifScanOK tieScanGoOn = false ∧ scanOK tieScanGoOn = false ∧
    scanTests tieScanGoOn false [true, false] = [true, true] ∧ refTests [true, false] = [true, false] ∧
    tieObs (elifsBy tieScanGoOn [] 9
      (.cons (.lit (.bool true)) (.cons (.echo (.cons (.lit (.str "t")) .nil)) .nil)
        (.cons (.bin .eq (.postIncr 0) (.lit (.int 9))) .nil .nil)) .nil none (tieSt [.int 0])) = some ([.int 1], ["t"]) ∧
    tieObs (elifsM [] 9
      (.cons (.lit (.bool true)) (.cons (.echo (.cons (.lit (.str "t")) .nil)) .nil)
        (.cons (.bin .eq (.postIncr 0) (.lit (.int 9))) .nil .nil)) .nil (tieSt [.int 0])) = some ([.int 0], ["t"]) := by
  decide

/-- the seeded change `C02-static-locals-slice-grow-copy`: the grow step copies in the wrong
direction, so the new container never receives the existing cells: creating cell 1 loses cell 0 -/
def tieStoreDrop : StoreFacts :=
  { container := "[]*ZVal", presentGuard := true, initOps := [.clobber, .growDrop, .insertFresh], otherWrites := [],
    stmtSameKey := true, stmtBindsAlways := true, stmtInitGuarded := false }

/-- the store as it is in the pinned tree (a map) -/
def tieStoreMap : StoreFacts :=
  { container := "map[int]*ZVal", presentGuard := true, initOps := [.insertFresh], otherWrites := [],
    stmtSameKey := true, stmtBindsAlways := true, stmtInitGuarded := false }

theorem C02_tie_static_store_counterexample :
    storeOK tieStoreDrop = false ∧
    aget (initBy tieStoreDrop [(0, Val.int 7)] 1 (.int 0)) 0 = none ∧
    aget (initBy tieStoreMap [(0, Val.int 7)] 1 (.int 0)) 0 = some (.int 7) ∧
    -- and without the "already there" test a second execution of the statement resets the cell
    storeOK { tieStoreMap with presentGuard := false } = false ∧ storeOK { tieStoreMap with presentGuard := false, stmtInitGuarded := true } = true ∧
    initBy { tieStoreMap with presentGuard := false } [(0, Val.int 7)] 0 (.int 0) = [(0, Val.int 0)] := by
  decide

-- non-vacuity: the loop the regenerated `for` facts describe really runs:
-- `for (; $i <= 2; $i++) { echo $i; }`
example : ∀ L ∈ Generated.C02.forLoops, forOK L = true →
    tieObs (loopBy L [] 9 (.varIntLe 0 2 (.bin .le (.var 0) (.lit (.int 2)))) (.cons (.stmtIncr 0) .nil)
      (.cons (.echo (.cons (.var 0) .nil)) .nil) .null (tieSt [.int 0])) = some ([.int 3], ["0", "1", "2"]) := by decide

/-! ### pre-scans of a function body (round 7: seed `C02-static-binding-skipped-by-scan`)

A flag computed when the function node is built, by a scan that opens the statement-list fields `o` only, stands
for "the body holds the construct". Theorems over every body (any nesting), every set of opened fields. -/
section BodyScan
open Model.CtlScan Proofs.CtlScan

/-- a scan never reports a construct that is not there -/
theorem C02_scan_sound (o : List String) (body : Blk) : scanBlk o body = true → hasBlk body = true :=
  scanBlk_sound o body

/-- a scan that opens every statement-list field occurring in the body is exact -/
theorem C02_scan_complete (o : List String) (body : Blk) (h : ∀ f ∈ fieldsBlk body, f ∈ o) :
    scanBlk o body = hasBlk body := scanBlk_complete o body h

/-- … and that is the only way: a scan is exact on all bodies built from the containers `cs` iff it opens all of `cs` -/
theorem C02_scan_exact_iff (o cs : List String) :
    (∀ body, (∀ f ∈ fieldsBlk body, f ∈ cs) → scanBlk o body = hasBlk body) ↔ ∀ c ∈ cs, c ∈ o := by
  constructor
  · intro h c hc
    refine Classical.byContradiction fun hn => ?_
    have := h (missBody c) (by simp [missBody_fields, hc])
    rw [missBody_scan o c hn, missBody_has] at this
    exact Bool.noConfusion this
  · intro h body hb
    exact scanBlk_complete o body fun f hf => h f (hb f hf)

/-- `FunctionStatement.Call` with the store bound under the flag of a scan = the store always bound
(`Model.Ctl.bindStatics`, the rule `C02_refines_partial` is about), when the scan opens every field of the body.
`statics` are the declarations the body executes; `hdecl`: a body without the construct declares none. -/
theorem C02_static_flag_bind (o : List String) (body : Blk) (g : FName) (statics : List (Nat × Val)) (s : MSt)
    (hopen : ∀ f ∈ fieldsBlk body, f ∈ o) (hdecl : hasBlk body = false → statics = []) :
    bindStaticsIf (scanBlk o body) g statics s = bindStatics g statics s := by
  rw [scanBlk_complete o body hopen]
  cases hb : hasBlk body
  · simp [bindStaticsIf, hdecl hb, bindStatics, localStatics]
  · simp [bindStaticsIf]

/-- the seeded change, for EVERY field a scan leaves out: a `static` alone inside that field is a fresh local —
no cell is created, the slot is not bound (so the next call starts from the initialiser again) -/
theorem C02_static_flag_unbound_counterexample (o : List String) (f : String) (hf : f ∉ o) :
    ∃ body, fieldsBlk body = [f] ∧ hasBlk body = true ∧
      ∀ g : FName, ∃ s : MSt,
        (bindStaticsIf (scanBlk o body) g [(0, Val.int 0)] s).statics = [] ∧
        (bindStaticsIf (scanBlk o body) g [(0, Val.int 0)] s).fr.bound = [] ∧
        (bindStatics g [(0, Val.int 0)] s).statics = [((g, 0), Val.int 0)] ∧
        (bindStatics g [(0, Val.int 0)] s).fr.bound = [0] := by
  refine ⟨missBody f, missBody_fields f, missBody_has f, fun g => ?_⟩
  refine ⟨{ fr := { slots := [.null], bound := [], fn := some g }, statics := [], out := [] }, ?_⟩
  rw [missBody_scan o f hf]
  simp [bindStaticsIf, localStatics, localStatic, bindStatics, bindStatic, aget, aset]

/-- obligation over the regenerated facts: every body scan of node/ opens every statement-list field of node/ that
can occur in a function body (minus the pairs with a known finding) -/
theorem C02_tie_scan_opens_every_container :
    Generated.C02.bodyScans.all (scanFnOK Generated.C02.stmtContainers) = true := by
  first | decide | fail "obligation C02_tie_scan_opens_every_container no longer holds: a pre-scan of the function body in node/ (containsYield, containsStatic, … — a recursive bool walk over statements whose answer decides how the body is run) does not open a node field that holds statements: a construct placed there is silently treated as absent — compare Generated.C02.bodyScans with Generated.C02.stmtContainers"

/-- the regenerated scans are exact on every body built from the containers they have to open -/
theorem C02_tie_body_scans_generated :
    ∀ S ∈ Generated.C02.bodyScans, ∀ body,
      (∀ f ∈ fieldsBlk body, f ∈ mustOpen Generated.C02.stmtContainers S.name) → scanBlk S.opened body = hasBlk body := by
  intro S hS body hb
  have hall := List.all_eq_true.mp C02_tie_scan_opens_every_container S hS
  refine scanBlk_complete S.opened body fun f hf => ?_
  have := List.all_eq_true.mp hall f (hb f hf)
  simpa using this

/-- the seeded scan as a table: it opens what `containsYield` opens; the obligation refuses it, and the body it gets
wrong is a `static` in a switch case -/
def tieSeededScan : ScanFn :=
  { name := "containsStatic", opened := ["DoWhileStatement.Body", "ElseIfBranch.ThenBranch", "ForStatement.Body",
      "ForeachStatement.Body", "IfStatement.ElseBranch", "IfStatement.ThenBranch", "WhileStatement.Body"] }

theorem C02_tie_scan_counterexample :
    scanFnOK ["IfStatement.ThenBranch", "SwitchCase.Statements", "WhileStatement.Body"] tieSeededScan = false ∧
    scanBlk tieSeededScan.opened (missBody "SwitchCase.Statements") = false ∧
    hasBlk (missBody "SwitchCase.Statements") = true ∧
    scanBlk tieSeededScan.opened (missBody "IfStatement.ThenBranch") = true := by decide

-- non-vacuity: the pinned tree has a body scan, it has containers to open, and a three-deep body it is exact on
example : Generated.C02.bodyScans ≠ [] ∧
    (Generated.C02.bodyScans.all fun S => decide (2 ≤ (mustOpen Generated.C02.stmtContainers S.name).length)) = true := by decide
example : scanBlk tieSeededScan.opened
    (.cons .other (.cons (.node (.cons "IfStatement.ThenBranch" (.cons (.node (.cons "WhileStatement.Body"
      (.cons (.node (.cons "ForStatement.Body" (.cons .hit .nil) .nil)) .nil) .nil)) .nil) .nil)) .nil)) = true := by decide

end BodyScan

/-! ## a clause list dispatched through a construction-time table (round 8)

`switch` / `match` / `if-elseif` are ordered scans: the FIRST clause carrying the key is the entry point and the tests
in front of it are evaluated. A table built when the node is constructed may replace the scan exactly when it maps
every key to the first clause carrying it and the scan would have performed no effect. (`Model.CtlTable`; the harness
stream `clause-list` runs clause lists with repeated and loosely-equal keys on the real code.) -/
section ClauseTable
open Model.CtlTable Proofs.CtlTable

/-- one lookup equals the ordered scan for every condition **iff** the table maps each key to the first clause
carrying it (and keys no clause carries to nothing) -/
theorem C02_table_dispatch_iff_first_wins (ls : List Nat) (t : Table) :
    (∀ k, tableDispatch t k = scanDispatch ls k) ↔ FirstWins ls t :=
  (firstWins_iff ls t).symm

/-- the guarded construction loop (`if _, ok := t[l]; !ok { t[l] = i }`) builds exactly the scan, for every clause list -/
theorem C02_table_guarded_build_exact (ls : List Nat) (k : Nat) :
    tableDispatch (buildBy true ls 0 Table.empty) k = scanDispatch ls k := by
  rw [tableDispatch, buildBy_guarded]
  cases scanDispatch ls k <;> simp [Table.empty]

/-- the plain construction loop (`t[l] = i`, the seeded one) dispatches to the LAST clause carrying the key -/
theorem C02_table_overwrite_build_last (ls : List Nat) (k : Nat) :
    tableDispatch (buildBy false ls 0 Table.empty) k = lastDispatch ls k := by
  rw [tableDispatch, buildBy_overwrite]
  cases lastDispatch ls k <;> simp [Table.empty]

/-- … so it is exact on a clause list **iff** no key is repeated -/
theorem C02_table_overwrite_exact_iff_nodup (ls : List Nat) :
    (∀ k, tableDispatch (buildBy false ls 0 Table.empty) k = scanDispatch ls k) ↔ ls.Nodup := by
  rw [← last_eq_scan_iff_nodup]
  exact forall_congr' fun k => by rw [C02_table_overwrite_build_last]

/-- the lookup evaluates no label; the scan performs no effect for condition `k` **iff** every label up to and
including the first that carries `k` is effect-free -/
theorem C02_table_scan_effect_free_iff (cs : List Clause) (k : Nat) :
    scanEffects cs 0 k = [] ↔
      ∀ (n : Nat) (c : Clause), cs[n]? = some c →
        (∀ j : Nat, j < n → (cs[j]?.map Clause.key) ≠ some k) → c.effect = false :=
  scanEffects_nil_iff cs 0 k

/-- negation witness (the seeded change; the harness replays it on the real code): labels 1, 2, 3, 2 — the scan enters
`case 2` at clause 1, the overwriting table at clause 3; the guarded table agrees with the scan; and with an effectful
label in front the scan prints where the lookup does not -/
theorem C02_table_last_wins_counterexample :
    scanDispatch [1, 2, 3, 2] 2 = some 1 ∧
    tableDispatch (buildBy false [1, 2, 3, 2] 0 Table.empty) 2 = some 3 ∧
    tableDispatch (buildBy true [1, 2, 3, 2] 0 Table.empty) 2 = some 1 ∧
    ¬ FirstWins [1, 2, 3, 2] (buildBy false [1, 2, 3, 2] 0 Table.empty) ∧
    scanEffects [⟨1, true⟩, ⟨2, false⟩] 0 2 = [0] := by
  refine ⟨by decide, by decide, by decide, ?_, by decide⟩
  intro h
  have := (C02_table_dispatch_iff_first_wins [1, 2, 3, 2] _).mpr h 2
  revert this
  decide

-- non-vacuity: a list without repetition where both constructions agree with the scan, and one with an absent key
example : [4, 7, 9].Nodup ∧ tableDispatch (buildBy false [4, 7, 9] 0 Table.empty) 7 = scanDispatch [4, 7, 9] 7 ∧
    scanDispatch [4, 7, 9] 5 = none ∧ FirstWins [4, 7, 9] (buildBy false [4, 7, 9] 0 Table.empty) :=
  ⟨by decide, by decide, by decide,
   (C02_table_dispatch_iff_first_wins _ _).mp ((C02_table_overwrite_exact_iff_nodup _).mpr (by decide))⟩

end ClauseTable

/-! ## switch labels are compared by the language's `==` (fix C02-switch-loose-compare)

`SwitchStatement.isMatch` compared `AsInt` with `AsInt`, else `AsString` with `AsString`:
`switch (true) { case 1: }` did not match, `switch (1.5) { case 1: }` did. It is now
`data.LooseCompare v1 v2 == 0` (what `BinaryEq` computes); `Spec.Ctl.looseEq`, the comparison both the
reference semantics and the model use for a label, states that rule on the value layer of the core. -/
section LabelCompare

/-- wherever the core's `==` operator is defined, a switch label matches iff `==` says true -/
theorem C02_switch_label_agrees_with_eq (a b : Val) (r : Bool)
    (h : binop .eq a b = some (.bool r)) : looseEq a b = r := by
  cases a <;> cases b <;> simp [binop] at h <;> simp [looseEq, Val.truthy, ← h]

/-- the comparison is symmetric: condition and label can be exchanged -/
theorem C02_switch_label_symmetric (a b : Val) : looseEq a b = looseEq b a := by
  cases a <;> cases b <;> simp [looseEq, Val.truthy, Bool.beq_comm]

/-- a bool condition (or label) compares both sides as booleans; `null` is `""` against a string and
`false` against everything else -/
theorem C02_switch_label_bool_null (b : Bool) (v : Val) (s : String) :
    looseEq (.bool b) v = (b == v.truthy) ∧ looseEq v (.bool b) = (v.truthy == b) ∧
    looseEq .null (.str s) = (s == "") ∧ looseEq .null (.int 0) = true ∧ looseEq .null (.int 1) = false := by
  refine ⟨by cases v <;> simp [looseEq, Val.truthy], ?_, by simp [looseEq], by decide, by decide⟩
  cases v <;> simp [looseEq, Val.truthy, Bool.beq_comm]

/-- the two repaired findings on the value layer, and what the old `isMatch` (ints by value, else
texts) said: `true` against `1`, `2`, `'a'` matches, `false` against `0`, `''`, `null` matches; equal
kinds are unchanged -/
theorem C02_switch_label_loose_witness :
    looseEq (.bool true) (.int 1) = true ∧ looseEq (.int 2) (.bool true) = true ∧
    looseEq (.bool true) (.str "a") = true ∧ looseEq (.bool false) (.int 0) = true ∧
    looseEq (.bool false) (.str "") = true ∧ looseEq (.bool false) .null = true ∧
    looseEq (.bool true) (.int 0) = false ∧ looseEq (.int 1) (.str "1") = true ∧
    looseEq (.int 1) (.str "a") = false ∧ looseEq (.int 1) (.int 2) = false ∧
    looseEq (.list [1]) (.list [1]) = false ∧ looseEq (.list []) .null = true := by
  decide

end LabelCompare

end C02
