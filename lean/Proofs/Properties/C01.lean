import Proofs.Lemmas.LexFuel
import Proofs.Lemmas.Backtrack
import Spec.Backtrack
import Proofs.Properties.C18
import Generated.C01Rewinds
import Spec.TypedNil
import Generated.C01TypedNil
/-!
# C01 — lexing is total: every byte string, in both modes, yields a token list;
no index is ever out of range, every loop-body step consumes at least one byte,
and the main loop needs at most `size + 1` iterations.

Property theorems for the lexer clause of C01. The parser clause (parse
terminates with a program or a positioned error; an accepted program runs
without an internal crash) is not modelled in Lean: it is decided by the
violation search of the harness only (crash / hang / time-bound observation in
child processes) — see DESIGN.md §5 C01, "partial".

Parse-WORK clause ("within a time bounded by a modest function of the input
length"), second half of this file: the parser is a recursive descent over one
cursor; `Model.Backtrack` is the cost model of such a parser (cursor advances
over the bracket structure of the source, one reading policy per bracket kind).
Proved for every source and every policy table: without a reading that rewinds
over a nested parse the work is at most `2·size` (no look-ahead scans) resp.
`2·size·(depth+1) ≤ 2·size²`; with one, the source that nests the construct `d`
deep (`2d+1` tokens) costs at least `2^d`, so no bound `c·size²` holds. The
tie to parser/*.go is the regenerated list of every write of a parser cursor
(`Generated.C01.positionWrites`, extract/c01/rewinds.go) with the decidable
obligation `gen_rewinds_bounded`: every write that moves a cursor backwards over
a nested parse of the same tokens is one of the `guardedRewinds`, whose reading
is decided by a token look-ahead before anything is parsed. The harness measures
the same quantity on the real parser (allocation count always, cursor advances
when the tree carries the verif hook) on every bracketed construct of the token
table and of the corpus nested in itself.
-/
namespace C01
open Model.Lex Proofs.Lex

/-- **No crash, any input.** For every configuration meeting `WF`, every byte
string and both modes, the raw tokenizer returns a token list: none of the reads
the Go code performs without a guard of its own (`input[pos+1]`, `input[pos+2]`
in the full-width-space test, `input[pos-1]` in the number scanner,
`input[start+1]` in the comment scanner) is out of range. -/
theorem C01_lex_total {cfg : Cfg} (wf : WF cfg) (inp : Input) (mode : Mode) :
    ∃ ts, tokenizeRaw cfg inp mode = .ok ts := by
  obtain ⟨ts, h, _⟩ := C18.C18_raw_spans wf inp mode
  exact ⟨ts, h⟩

/-- the same for `lexer.Tokenize` / `TokenizeTemplate` with the regenerated
tables, including the shebang / DOCTYPE dispatch and `Preprocessor.Process` -/
theorem C01_tokenize_no_crash (inp : Input) (mode : Mode) (w : String) :
    (tokenize genCfg inp mode).1 ≠ .crash w := by
  cases mode with
  | template =>
    obtain ⟨ts, h⟩ := C01_lex_total C18.gen_wf inp .template
    simp [tokenize, h]
  | script =>
    unfold tokenize
    simp only []
    split
    · split
      · simp
      · rename_i nl _
        obtain ⟨ts, h⟩ := C01_lex_total C18.gen_wf (inp.extract (nl+1) inp.size) .template
        simp [h]
    · split
      · simp
      · obtain ⟨ts, h⟩ := C01_lex_total C18.gen_wf inp .script
        simp [h]

/-- **Progress.** Every loop-body step at a position holding a byte other than
`\n` produces a token that ends strictly after the position and inside the input. -/
theorem C01_step_progress {cfg : Cfg} (wf : WF cfg) (inp : Input) (tmpl : Bool) (pos line : Nat)
    (hlt : pos < inp.size) (hnl : bAt inp pos ≠ 10) :
    ∃ s, scanTok cfg inp tmpl pos line = .ok s ∧ pos < s.newPos ∧ s.newPos ≤ inp.size := by
  obtain ⟨s, h, ok⟩ := scanTok_spec wf inp tmpl pos line hlt hnl
  exact ⟨s, h, ok.progress, ok.bound⟩

/-- **Linear number of main-loop iterations** (script mode): running the loop
with any fuel above `size` gives the same result as with `size + 1`, i.e. the
loop is never cut short; each iteration's scanners are themselves bounded by
`size` steps, so lexing takes at most quadratically many steps. -/
theorem C01_lex_main_loop_linear {cfg : Cfg} (wf : WF cfg) (inp : Input) (f : Nat) (hf : inp.size < f) :
    scriptLoop cfg inp f 0 0 false [] = tokenizeRaw cfg inp .script := by
  unfold tokenizeRaw
  exact scriptLoop_fuel wf inp f (inp.size + 1) 0 0 false [] (by omega) (by omega)

/-! ### non-vacuity / witnesses -/

/-- the two sources that crashed the pinned lexer (fixed by `fix:` commits) are fine now:
a source ending in `E3 80`, and a source ending in `$` -/
example : (tokenize genCfg #[97, 0xe3, 0x80] .script).1.toks.length = 3 := by decide +kernel
example : (tokenize genCfg #[97, 59, 36] .script).1.toks.map (·.ty) = [274, 230, 228] := by decide +kernel

/-! ## parse work -/
section ParseWork
open Model.Backtrack Proofs.Backtrack

/-- **Linear work.** A parser whose readings only move forward or re-read a group's own tokens
(no look-ahead scan, no retry over a nested parse) advances its cursor at most `2·size` times, for
every source. -/
theorem C01_parse_work_linear {pol : Nat → Policy} (h : ∀ k, pol k = .direct ∨ pol k = .retryFlat)
    (t : Tree) : work pol t ≤ 2 * t.size :=
  work_le_linear h t

/-- **Polynomial work.** With token look-ahead scans to the matching closer allowed too — but no
reading that rewinds over a nested parse — the work is at most `2·size·(depth+1)`, hence at most
`2·size²`: a modest function of the input length, whatever the source. (The harness checks
`advances ≤ 2·tokens·(depth+1) + 64` on the real parser when the tree carries the verif hook.) -/
theorem C01_parse_work_polynomial {pol : Nat → Policy} (h : ∀ k, (pol k).nestedRetry = false)
    (t : Tree) : work pol t ≤ 2 * t.size * (t.depth + 1) ∧ work pol t ≤ 2 * t.size * t.size :=
  ⟨work_le_quadratic h t, work_le_size_sq h t⟩

/-- **Negation witness: rewind after a nested parse doubles per level.** If the reading of one
bracket kind parses an element, rewinds and parses it again, the source that nests that construct
`d` deep — `2d+1` tokens — costs at least `2^d` advances. -/
theorem C01_nested_retry_exponential {pol : Nat → Policy} {k : Nat} (hk : (pol k).nestedRetry = true)
    (d : Nat) : (nest k d).size = 2 * d + 1 ∧ 2 ^ d ≤ work pol (nest k d) :=
  ⟨size_nest k d, two_pow_le_work_nest hk d⟩

/-- … so no bound of the form `c·size²` holds for such a parser (the full statement "bounded by a
modest function of the input length" fails). -/
theorem C01_nested_retry_no_square_bound {pol : Nat → Policy} {k : Nat} (hk : (pol k).nestedRetry = true) :
    ¬ ∃ c, ∀ t : Tree, work pol t ≤ c * (t.size * t.size) :=
  no_square_bound hk

/-- **Characterisation (model = spec).** The work of a backtracking recursive-descent parser is a
modest function of the input length for every source **iff** none of its readings rewinds over a
nested parse. -/
theorem C01_modest_work_iff (pol : Nat → Policy) :
    Spec.Backtrack.ModestWork pol ↔ ∀ k, (pol k).nestedRetry = false := by
  constructor
  · intro hm k
    cases h : (pol k).nestedRetry
    · rfl
    · exact absurd hm (no_square_bound h)
  · intro h
    exact ⟨2, fun t => by
      have := work_le_size_sq h t
      rwa [Nat.mul_assoc] at this⟩

/-- The cursor writes that move backwards over a nested parse and are nevertheless bounded: the
speculative multi-assignment reading `$a, $b = …` of `parseAssignment` is entered only when the
token look-ahead `multiAssignAhead` has seen `(, $var)+ =` — every element is then a single
variable token, the reading succeeds, and the restore is not reached with a nested parse behind
it (before the fix of round 5 the look-ahead accepted any assignment operator at bracket depth 0
and `[$a, [$a, 1] = $x] = $y` doubled per level: harness finding `work:nest:[] after start`). -/
def guardedRewinds : List (String × String × String) :=
  [("parser/expression_parser.go", "ExpressionParser.parseAssignment", "checkPositionIs,multiAssignAhead")]

/-- obligation on the regenerated facts: the translator recognised every cursor write -/
theorem gen_rewinds_shape : Generated.C01.rewindShapeChanged = [] := by decide

/-- obligation on the regenerated facts: no cursor write of parser/*.go moves backwards over a nested
parse of the same tokens, except the guarded ones. A change that saves the position, calls a
recursive parse and restores the position (`try A, rewind, parse B`) breaks this `decide`. -/
theorem gen_rewinds_bounded : sitesBounded guardedRewinds Generated.C01.positionWrites = true := by decide

theorem tableOf_noNestedRetry {g : List (String × String × String)} {ws : List PosWrite}
    (h : sitesBounded g ws = true) : ∀ k, (tableOf g ws k).nestedRetry = false := by
  intro k
  unfold tableOf
  split
  · rename_i w hw
    have hmem : w ∈ ws := List.mem_of_getElem? hw
    have hb := (List.all_eq_true.mp h) w hmem
    unfold policyOf
    split
    · rfl
    · split
      · rfl
      · split
        · rfl
        · rename_i h1 h2 h3
          simp [PosWrite.reparsesNested] at hb h1 h2 h3
          simp [h1, h2] at hb
          exact absurd hb h3
  · rfl

/-- **The pinned parser's policy table is polynomial.** For the table read off the regenerated
cursor writes (guarded writes cost a scan), every source is parsed with at most
`2·size·(depth+1) ≤ 2·size²` cursor advances. -/
theorem C01_parse_work_generated (t : Tree) :
    work (tableOf guardedRewinds Generated.C01.positionWrites) t ≤ 2 * t.size * (t.depth + 1) ∧
    work (tableOf guardedRewinds Generated.C01.positionWrites) t ≤ 2 * t.size * t.size :=
  C01_parse_work_polynomial (tableOf_noNestedRetry gen_rewinds_bounded) t

/-- the same as the spec predicate -/
theorem C01_generated_modest_work :
    Spec.Backtrack.ModestWork (tableOf guardedRewinds Generated.C01.positionWrites) :=
  (C01_modest_work_iff _).mpr (tableOf_noNestedRetry gen_rewinds_bounded)

/-! non-vacuity -/

/-- a table with a scan and a flat retry meets the hypothesis of the polynomial theorem … -/
example : ∀ k, ((fun k => if k = 0 then Policy.scan else if k = 1 then .retryFlat else .direct) k).nestedRetry = false := by
  intro k; by_cases h0 : k = 0 <;> by_cases h1 : k = 1 <;> simp [h0, h1, Policy.nestedRetry]
/-- … the regenerated list does contain a backwards write over a nested parse (the guarded one) … -/
example : ∃ w ∈ Generated.C01.positionWrites, w.reparsesNested = true := by decide
/-- … and the seeded shape — a restore after a nested parse in `LbraceParser.Parse` — fails the obligation -/
example : sitesBounded guardedRewinds
    [{ file := "parser/lbrace_parser.go", fn := "LbraceParser.Parse", kind := .restore, swap := false, nested := true, guard := "" }] = false := by decide
/-- 24 bare blocks around one token: 49 tokens, at least 16 777 216 advances under a nested retry -/
example : (nest 0 24).size = 49 ∧ 16777216 ≤ work (fun _ => .retryFirst) (nest 0 24) := by
  have := C01_nested_retry_exponential (pol := fun _ => .retryFirst) (k := 0) rfl 24
  simpa using this

end ParseWork

/-! ## Accepted-program-is-complete clause: the missing-operand guard and Go's typed nil (round 8)

`Parser.required` is a test `v == nil` on an interface value. It is sound for a producer exactly when
the producer reports "nothing found" as the UNTYPED nil. A sub-parser with a concrete pointer result
type that returns `nil` reaches the guard as a typed nil: accepted, and dereferenced when the program
is executed. The tie to parser/*.go: `Generated.C01.ifaceConversions` (extract/c01/typednil.go) lists
every conversion of a declared pointer result to an interface slot; obligation
`gen_no_typed_nil_guard_sites`. -/
section TypedNil
open Model.TypedNil Spec.TypedNil

/-- **The guard is sound for a producer iff "nothing found" arrives as the untyped nil** (for any
producer that hands back the node it found). -/
theorem C01_required_guard_sound_iff (conv : Found → Iface)
    (hnode : ∀ n, conv (some n) = .typed (.node n)) (hnone : ∀ n, conv none ≠ .typed (.node n)) :
    GuardSound conv ↔ conv none = .untyped := by
  constructor
  · intro h
    cases hc : conv none with
    | untyped => rfl
    | typed p =>
      cases p with
      | node n => exact absurd hc (hnone n)
      | nil =>
        have := h none (.typed .nil) (by simp [required, hc, Iface.isNil])
        simp [Iface.use] at this
  · intro h r w hw
    cases r with
    | none => simp [required, h, Iface.isNil] at hw
    | some n =>
      simp [required, hnode, Iface.isNil] at hw
      subst hw; simp [Iface.use]

/-- and then the guard is also complete: a missing operand is rejected with the diagnostic -/
theorem C01_required_guard_complete_iff (conv : Found → Iface) :
    GuardComplete conv ↔ conv none = .untyped := by
  unfold GuardComplete required
  cases hc : conv none with
  | untyped => simp [Iface.isNil]
  | typed p => simp [Iface.isNil]

/-- a sub-parser declared to return the interface is guarded soundly and completely … -/
theorem C01_iface_producer_guarded : GuardSound viaIface ∧ GuardComplete viaIface :=
  ⟨(C01_required_guard_sound_iff viaIface (fun _ => rfl) (fun _ => by simp [viaIface])).mpr rfl,
   (C01_required_guard_complete_iff viaIface).mpr rfl⟩

/-- … so is a pointer producer whose result is tested before the conversion … -/
theorem C01_checked_ptr_producer_guarded : GuardSound viaPtrChecked ∧ GuardComplete viaPtrChecked :=
  ⟨(C01_required_guard_sound_iff viaPtrChecked (fun _ => rfl) (fun _ => by simp [viaPtrChecked])).mpr rfl,
   (C01_required_guard_complete_iff viaPtrChecked).mpr rfl⟩

/-- **Negation witness (the seeded shape).** A helper declared `(*T, Control)` that returns `nil, nil`
for a missing operand defeats the guard: the incomplete construct is accepted and evaluating it
dereferences nil. Replayed on the real code by the hole stream (`[0, ...]`). -/
theorem C01_typed_nil_defeats_guard :
    required (viaPtr none) false = .accept (.typed .nil) ∧ (Iface.typed .nil).use = .nilDeref ∧
    ¬ GuardSound viaPtr ∧ ¬ GuardComplete viaPtr := by
  refine ⟨rfl, rfl, ?_, ?_⟩
  · intro h
    exact h none (.typed .nil) rfl rfl
  · intro h
    simp [GuardComplete, required, viaPtr, Iface.isNil] at h

/-- **Table theorem.** If no regenerated conversion site can carry a typed nil, every conversion of
the table is guarded soundly and completely; -/
theorem C01_no_typed_nil_sound {tbl : List Conv} (h : noTypedNil tbl = true) :
    ∀ c ∈ tbl, GuardSound c.conv ∧ GuardComplete c.conv := by
  intro c hc
  have hb := (List.all_eq_true.mp h) c hc
  have hconv : c.conv none = .untyped ∧ (∀ n, c.conv (some n) = .typed (.node n)) := by
    unfold Conv.conv
    cases hn : c.nilOk <;> cases hk : c.checked <;> simp [Conv.typedNil, hn, hk] at hb ⊢ <;>
      exact ⟨rfl, fun _ => rfl⟩
  exact ⟨(C01_required_guard_sound_iff c.conv hconv.2 (fun n => by simp [hconv.1])).mpr hconv.1,
         (C01_required_guard_complete_iff c.conv).mpr hconv.1⟩

/-- and conversely a site that can is unsound: the obligation is exactly the property of the table -/
theorem C01_typed_nil_site_unsound {c : Conv} (h : c.typedNil = true) :
    ¬ GuardSound c.conv ∧ ¬ GuardComplete c.conv := by
  have hc : c.conv = viaPtr := by
    unfold Conv.conv
    simp [Conv.typedNil] at h
    simp [h.1, h.2]
  rw [hc]
  exact ⟨C01_typed_nil_defeats_guard.2.2.1, C01_typed_nil_defeats_guard.2.2.2⟩

theorem C01_no_typed_nil_iff (tbl : List Conv) :
    noTypedNil tbl = true ↔ ∀ c ∈ tbl, GuardSound c.conv := by
  constructor
  · intro h c hc
    exact (C01_no_typed_nil_sound h c hc).1
  · intro h
    apply List.all_eq_true.mpr
    intro c hc
    cases ht : c.typedNil with
    | false => rfl
    | true => exact absurd (h c hc) (C01_typed_nil_site_unsound ht).1

theorem gen_typednil_shape : Generated.C01.typedNilShapeChanged = [] := by decide

/-- obligation on the regenerated facts ("no typed-nil guard sites"): no function of package parser
with a concrete pointer result type that may return (nil, no error) has that result converted to an
interface slot without a nil test. A helper `parseX() (*node.X, data.Control)` under
`p.required(p.parseX())` breaks this `decide`. -/
theorem gen_no_typed_nil_guard_sites : noTypedNil Generated.C01.ifaceConversions = true := by decide

/-- **The pinned parser's conversions are all guarded soundly and completely.** -/
theorem C01_guard_sound_generated :
    ∀ c ∈ Generated.C01.ifaceConversions, GuardSound c.conv ∧ GuardComplete c.conv :=
  C01_no_typed_nil_sound gen_no_typed_nil_guard_sites

/-! non-vacuity -/
/-- the regenerated table is not empty … -/
example : Generated.C01.ifaceConversions ≠ [] := by decide
/-- … an accepted operand is used … -/
example : required (viaIface (some 7)) false = .accept (.typed (.node 7)) ∧ (Iface.typed (.node 7)).use = .ok 7 := by decide
/-- … and the seeded shape — `ep.required(ep.parseSpread())` with `parseSpread` returning `nil, acl` — fails the obligation -/
example : noTypedNil [{ file := "parser/lbracket_parser.go", fn := "LbracketParser.Parse", producer := "parseSpread", form := .forward, consumer := "required", nilOk := true, checked := false }] = false := by decide

end TypedNil

end C01
