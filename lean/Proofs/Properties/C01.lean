import Proofs.Lemmas.LexFuel
import Proofs.Properties.C18
/-!
# C01 — lexing is total: every byte string, in both modes, yields a token list;
no index is ever out of range, every loop-body step consumes at least one byte,
and the main loop needs at most `size + 1` iterations.

Property theorems for the lexer clause of C01. The parser clause (parse
terminates with a program or a positioned error; an accepted program runs
without an internal crash) is not modelled in Lean: it is decided by the
violation search of the harness only (crash / hang / time-bound observation in
child processes) — see DESIGN.md §5 C01, "partial".
-/
namespace C01
open Model.Lex Proofs.Lex

/-- **No crash, any input.** For every configuration meeting `WF`, every byte
string and both modes, the raw tokenizer returns a token list: none of the reads
the Go code performs without a guard of its own (`input[pos+1]`, `input[pos+2]`
in the full-width-space test, `input[pos-1]` in the number scanner,
`input[start+1]` in the comment scanner) is out of range. -/
theorem C01_lex_total {cfg : Cfg} (wf : WF cfg) (inp : Input) (mode : Mode) :
    ∃ ts, tokenizeRaw cfg inp mode = .ok ts := by
  obtain ⟨ts, h, _⟩ := C18.C18_raw_spans wf inp mode
  exact ⟨ts, h⟩

/-- the same for `lexer.Tokenize` / `TokenizeTemplate` with the regenerated
tables, including the shebang / DOCTYPE dispatch and `Preprocessor.Process` -/
theorem C01_tokenize_no_crash (inp : Input) (mode : Mode) (w : String) :
    (tokenize genCfg inp mode).1 ≠ .crash w := by
  cases mode with
  | template =>
    obtain ⟨ts, h⟩ := C01_lex_total C18.gen_wf inp .template
    simp [tokenize, h]
  | script =>
    unfold tokenize
    simp only []
    split
    · split
      · simp
      · rename_i nl _
        obtain ⟨ts, h⟩ := C01_lex_total C18.gen_wf (inp.extract (nl+1) inp.size) .template
        simp [h]
    · split
      · simp
      · obtain ⟨ts, h⟩ := C01_lex_total C18.gen_wf inp .script
        simp [h]

/-- **Progress.** Every loop-body step at a position holding a byte other than
`\n` produces a token that ends strictly after the position and inside the input. -/
theorem C01_step_progress {cfg : Cfg} (wf : WF cfg) (inp : Input) (tmpl : Bool) (pos line : Nat)
    (hlt : pos < inp.size) (hnl : bAt inp pos ≠ 10) :
    ∃ s, scanTok cfg inp tmpl pos line = .ok s ∧ pos < s.newPos ∧ s.newPos ≤ inp.size := by
  obtain ⟨s, h, ok⟩ := scanTok_spec wf inp tmpl pos line hlt hnl
  exact ⟨s, h, ok.progress, ok.bound⟩

/-- **Linear number of main-loop iterations** (script mode): running the loop
with any fuel above `size` gives the same result as with `size + 1`, i.e. the
loop is never cut short; each iteration's scanners are themselves bounded by
`size` steps, so lexing takes at most quadratically many steps. -/
theorem C01_lex_main_loop_linear {cfg : Cfg} (wf : WF cfg) (inp : Input) (f : Nat) (hf : inp.size < f) :
    scriptLoop cfg inp f 0 0 false [] = tokenizeRaw cfg inp .script := by
  unfold tokenizeRaw
  exact scriptLoop_fuel wf inp f (inp.size + 1) 0 0 false [] (by omega) (by omega)

/-! ### non-vacuity / witnesses -/

/-- the two sources that crashed the pinned lexer (fixed by `fix:` commits) are fine now:
a source ending in `E3 80`, and a source ending in `$` -/
example : (tokenize genCfg #[97, 0xe3, 0x80] .script).1.toks.length = 3 := by decide +kernel
example : (tokenize genCfg #[97, 59, 36] .script).1.toks.map (·.ty) = [274, 230, 228] := by decide +kernel

end C01
