import Proofs.Lemmas.ConvGen
import Proofs.Lemmas.ConvReg
import Proofs.Lemmas.ConvBuf
import Generated.C17GoKinds
/-!
# C17 — values cross the Go boundary unchanged in both directions

Property theorems only. `Model.Conv` mirrors `ReflectFunction.Call` / `ReflectMethod.Call`
(`convertToGoValue` → `reflect.Value.Call` → `convertToScriptValue`) and the generic converter
`utils.Convert[S]` / `utils.ConvertFromIndex[S]`; `Spec.Conv.denote` / `reflectBack` say which Go
value a script value *is*. The kind switches of the Go source are regenerated on every run into
`Generated.C17GoKinds`; every theorem is stated for **any** tables satisfying the decidable
predicates `tableExact` / `outTableExact` / `genExact`, and the obligations below re-check those
predicates on the regenerated tables by `decide`. All statements are for every Go type (predeclared
or defined, e.g. `type ID int64`), every arity, every argument list, every float-primitive
implementation `pr`.

History: on the tree before `fixes/C17-reflect-convert-param-type.patch` the arms were
`convert := false`, so `table_exact` was false and `C17_no_panic` failed for every `int64` or
defined-type parameter (`C17_pinned_counterexample`); before `fixes/C17-generic-int-range.patch`
the sized-integer clauses were `form := .cast`, so `gen_exact` was false (`Convert[int8](300) = 44`,
`C17_pinned_generic_counterexample`).
-/
namespace C17
open Model.Conv Spec.Conv Proofs.Conv Proofs.ConvReg
open Generated.C17GoKinds (table tableMethod outTable outTableMethod gen shapeChanged memos callPathWrites)

/-! ### obligations on the regenerated facts -/

/-- every arm of `ReflectFunction.convertToGoValue` hands over a value of exactly the requested
type (accessor result unchanged, `.Convert(goType)`), only for kinds that hold every such value,
and every supported kind has an arm -/
theorem table_exact : tableExact table = true := by decide

/-- the same for `ReflectMethod.convertToGoValue` (struct methods) -/
theorem tableMethod_exact : tableExact tableMethod = true := by decide

/-- every arm of `ReflectFunction.convertToScriptValue` reads the Go value with the accessor of its
kind and wraps it in the script constructor of the same class; every supported kind has an arm -/
theorem outTable_exact : outTableExact outTable = true := by decide

theorem outTableMethod_exact : outTableExact outTableMethod = true := by decide

/-- every clause of `utils.convertFrom{Int,String,Float,Bool}Value` asserts back the type it was
selected for with an expression of that static type, and every sized integer type is served by the
range-checked `narrowInt` -/
theorem gen_exact : genExact gen = true := by decide

/-- the translator found every syntactic shape it expects -/
theorem shape_unchanged : shapeChanged = [] := by decide

/-- every table of `runtime/reflect_*.go` that is written while calls are served (package-level
variables of package runtime, map / slice / sync.Map fields of the wrapper structs) is keyed by what
its entries depend on: (Go type, method) — or the Go type alone for data of a registered type. A
table keyed by the bare method name, a single slot, or something the translator cannot classify
fails here. -/
theorem memos_sound : memosSound memos = true := by decide

/-! ### script → Go -/

/-- **In, exact.** A script value that denotes a Go value at a supported parameter type is handed
to `reflect.Value.Call` as exactly that value: same data, dynamic type = the declared parameter type. -/
theorem C17_in_exact (pr : Prim) (tin : List InArm) (h : tableExact tin = true)
    (t : GoType) (hk : supported.contains t.kind = true) (v : SVal) (g : GoVal)
    (hd : denote t v = some g) : toGo pr tin t v = .ok g := by
  simp only [tableExact, Bool.and_eq_true] at h
  exact toGo_exact pr h.1 h.2 t hk v g hd

/-- **In, exact, whole call.** For every signature over the supported kinds (any arity, any defined
types) and arguments that denote at the parameter types, the Go function is called, with exactly
the denoted values. -/
theorem C17_call_in_exact (pr : Prim) (tin : List InArm) (tout : List OutArm) (h : tableExact tin = true)
    (sig : Sig) (body : List GoVal → List GoVal) (args : List SVal) (gs : List GoVal)
    (hs : ∀ t ∈ sig.params, supported.contains t.kind = true)
    (hd : denoteAll sig.params args = some gs) :
    (call pr tin tout sig body args).received = some gs := by
  simp only [tableExact, Bool.and_eq_true] at h
  have hc := convArgs_exact pr h.1 h.2 sig.params args gs hs hd
  have hasg : assignableAll sig.params gs = true := by
    rcases convArgs_wf pr h.1 sig.params args with ⟨gs', h1, h2⟩ | ⟨e, he⟩
    · rw [hc] at h1; cases h1; exact h2
    · rw [hc] at he; cases he
  unfold call
  simp only [hc, hasg, if_true]
  split <;> rfl

/-! ### Go → script -/

/-- **Out, exact.** A Go value of a supported kind (of any defined type of that kind) arrives in the
script as exactly that value. -/
theorem C17_out_exact (pr : Prim) (tout : List OutArm) (h : outTableExact tout = true)
    (g : GoVal) (hg : g.wt = true) (hk : supported.contains g.ty.kind = true) :
    ∃ v, reflectBack g = some v ∧ toScript pr tout g = .ok v := by
  simp only [outTableExact, Bool.and_eq_true] at h
  exact toScript_exact pr h.1 h.2 g hg hk

/-- **Out, exact, whole call.** When the call goes through, the script receives exactly the first
value the Go function returned. -/
theorem C17_call_out_exact (pr : Prim) (tin : List InArm) (tout : List OutArm)
    (hin : tableExact tin = true) (hout : outTableExact tout = true)
    (sig : Sig) (body : List GoVal → List GoVal) (args : List SVal) (gs : List GoVal)
    (hs : ∀ t ∈ sig.params, supported.contains t.kind = true)
    (hd : denoteAll sig.params args = some gs)
    (r : GoVal) (rest : List GoVal) (hb : body gs = r :: rest)
    (hr : r.wt = true) (hk : supported.contains r.ty.kind = true) :
    ∃ v, reflectBack r = some v ∧ (call pr tin tout sig body args).result = .ok (some v) := by
  obtain ⟨v, hv, hts⟩ := C17_out_exact pr tout hout r hr hk
  refine ⟨v, hv, ?_⟩
  simp only [tableExact, Bool.and_eq_true] at hin
  have hc := convArgs_exact pr hin.1 hin.2 sig.params args gs hs hd
  have hasg : assignableAll sig.params gs = true := by
    rcases convArgs_wf pr hin.1 sig.params args with ⟨gs', h1, h2⟩ | ⟨e, he⟩
    · rw [hc] at h1; cases h1; exact h2
    · rw [hc] at he; cases he
  unfold call
  simp [hc, hasg, hb, hts, Outcome.map]

/-! ### round trips -/

/-- **Round trip script → Go → script**: handing a value to Go at a supported type and handing it
straight back gives the value the script started with. -/
theorem C17_roundtrip (pr : Prim) (tin : List InArm) (tout : List OutArm)
    (hin : tableExact tin = true) (hout : outTableExact tout = true)
    (t : GoType) (hk : supported.contains t.kind = true) (v : SVal) (g : GoVal)
    (hd : denote t v = some g) :
    (toGo pr tin t v).bind (toScript pr tout) = .ok v := by
  rw [C17_in_exact pr tin hin t hk v g hd]
  obtain ⟨hwt, hty⟩ := wt_of_denote hd
  obtain ⟨v', hv', hts⟩ := C17_out_exact pr tout hout g hwt (by rw [hty]; exact hk)
  rw [reflectBack_denote hk hd] at hv'
  cases hv'
  simpa [Outcome.bind] using hts

/-- **Round trip Go → script → Go**: a Go value of a supported kind returned to the script and
passed back to a parameter of its own type is the same Go value. -/
theorem C17_roundtrip_go (pr : Prim) (tin : List InArm) (tout : List OutArm)
    (hin : tableExact tin = true) (hout : outTableExact tout = true)
    (g : GoVal) (hg : g.wt = true) (hk : supported.contains g.ty.kind = true) :
    (toScript pr tout g).bind (toGo pr tin g.ty) = .ok g := by
  obtain ⟨v, hv, hts⟩ := C17_out_exact pr tout hout g hg hk
  rw [hts]
  simpa [Outcome.bind] using C17_in_exact pr tin hin g.ty hk v g (denote_reflectBack hv)

/-! ### no registered signature crashes the interpreter -/

/-- **No panic.** For every signature — any arity, parameter and result types of any kind
(supported, sized, defined, slices, interfaces …) — every argument list (too short, too long, any
script values) and every Go function that returns well-typed values of its result types, the call
does not panic: it yields a script value, no value, or a catchable error. -/
theorem C17_no_panic (pr : Prim) (tin : List InArm) (tout : List OutArm)
    (hin : tableExact tin = true) (hout : outTableExact tout = true)
    (sig : Sig) (body : List GoVal → List GoVal) (hb : bodyRespects sig body) (args : List SVal) :
    (call pr tin tout sig body args).result.isPanic = false := by
  simp only [tableExact, outTableExact, Bool.and_eq_true] at hin hout
  unfold call
  rcases convArgs_wf pr hin.1 sig.params args with ⟨gs, h1, h2⟩ | ⟨e, he⟩
  · simp only [h1, h2, if_true]
    cases hbody : body gs with
    | nil => rfl
    | cons r rest =>
      have hr : r.wt = true := (hb gs).2 r (by rw [hbody]; simp)
      obtain ⟨v, hv⟩ := toScript_no_panic pr hout.1 r hr
      simp [hv, Outcome.map, Outcome.isPanic]
  · simp only [he]; rfl

/-- **Unsupported is catchable.** If some parameter has a kind outside the supported set, every call
is answered by a catchable script error and the Go function is not invoked. -/
theorem C17_unsupported_is_catchable (pr : Prim) (tin : List InArm) (tout : List OutArm)
    (hin : tableExact tin = true) (sig : Sig) (body : List GoVal → List GoVal) (args : List SVal)
    (hu : ∃ t ∈ sig.params, supported.contains t.kind = false) :
    (∃ e, (call pr tin tout sig body args).result = .throw e) ∧
    (call pr tin tout sig body args).received = none := by
  simp only [tableExact, Bool.and_eq_true] at hin
  obtain ⟨e, he⟩ := convArgs_unsupported pr hin.1 sig.params args hu
  unfold call
  simp [he]

/-- **Whatever cannot be converted is catchable.** For any signature and arguments the Go function is
either called with values of exactly its parameter types, or not called at all and the script gets a
catchable error. -/
theorem C17_called_or_catchable (pr : Prim) (tin : List InArm) (tout : List OutArm)
    (hin : tableExact tin = true) (sig : Sig) (body : List GoVal → List GoVal) (args : List SVal) :
    (∃ gs, (call pr tin tout sig body args).received = some gs ∧ gs.map (·.ty) = sig.params) ∨
    ((call pr tin tout sig body args).received = none ∧
      ∃ e, (call pr tin tout sig body args).result = .throw e) := by
  simp only [tableExact, Bool.and_eq_true] at hin
  have hty : ∀ (ps : List GoType) (gs : List GoVal), assignableAll ps gs = true → gs.map (·.ty) = ps := by
    intro ps
    induction ps with
    | nil => intro gs h; cases gs <;> simp [assignableAll] at h ⊢
    | cons t ts ih =>
      intro gs h
      cases gs with
      | nil => simp [assignableAll] at h
      | cons g gs => simp [assignableAll] at h; simp [h.1, ih gs h.2]
  unfold call
  rcases convArgs_wf pr hin.1 sig.params args with ⟨gs, h1, h2⟩ | ⟨e, he⟩
  · left
    refine ⟨gs, ?_, hty _ _ h2⟩
    simp only [h1, h2, if_true]
    split <;> rfl
  · right
    simp [he]

/-- **Struct methods.** A method call reaches the same conversion as a function call whenever it
supplies at least as many arguments as the method has parameters; with fewer it is refused with a
catchable error and the method does not run. So every theorem above about `call` holds for methods. -/
theorem C17_method_path (pr : Prim) (tin : List InArm) (tout : List OutArm) (sig : Sig)
    (body : List GoVal → List GoVal) (args : List SVal) :
    (sig.params.length ≤ args.length →
      callVia .method pr tin tout sig body args = call pr tin tout sig body args) ∧
    (args.length < sig.params.length →
      (callVia .method pr tin tout sig body args).received = none ∧
      (callVia .method pr tin tout sig body args).result = .throw .missingArgument) ∧
    callVia .fn pr tin tout sig body args = call pr tin tout sig body args := by
  refine ⟨?_, ?_, ?_⟩
  · intro h
    have : ¬ args.length < sig.params.length := by omega
    simp [callVia, this]
  · intro h
    simp [callVia, h]
  · simp [callVia]


/-! ### many registrations, one process: the outcome of a call does not depend on its history -/

/-- **History independence.** After ANY history of registrations and calls (any other struct types
and functions registered before or after, with methods of the same name and other signatures; any
earlier calls, of this callee or others, succeeding or refused) a call of a registered callee is
answered by `Cfg.own`: a function of the callee's own signature and code and of the arguments only. -/
theorem C17_history_independent (cfg : Cfg) (U : Universe) (reg : List Nat) (h : List Op)
    (c : Callee) (env : Nat) (args : List SVal) (hr : (regAfter reg h).contains c.owner = true) :
    (runPlain cfg U reg (h ++ [.call c env args])).getLast? = some (some (cfg.own (U c) env args)) := by
  rw [runPlain_append]
  have hm : c.owner ∈ regAfter reg h := by simpa using hr
  simp [runPlain, hm]

/-- the same, as an equation between two worlds: different Go universes that agree on this callee,
different earlier registrations, different earlier calls — same answer -/
theorem C17_outcome_depends_on_callee_only (cfg : Cfg) (U U' : Universe) (reg reg' : List Nat)
    (h h' : List Op) (c : Callee) (env : Nat) (args : List SVal) (hU : U c = U' c)
    (hr : (regAfter reg h).contains c.owner = true) (hr' : (regAfter reg' h').contains c.owner = true) :
    (runPlain cfg U reg (h ++ [.call c env args])).getLast?
      = (runPlain cfg U' reg' (h' ++ [.call c env args])).getLast? := by
  rw [C17_history_independent cfg U reg h c env args hr,
      C17_history_independent cfg U' reg' h' c env args hr', hU]

/-- `Cfg.own` never panics (the single-call theorems lifted to both wrapper families) -/
theorem C17_own_no_panic (cfg : Cfg)
    (hin : tableExact cfg.tin = true) (hout : outTableExact cfg.tout = true)
    (hinM : tableExact cfg.tinM = true) (houtM : outTableExact cfg.toutM = true)
    (e : Entry) (env : Nat) (hb : bodyRespects e.sig (e.body env)) (args : List SVal) :
    (cfg.own e env args).result.isPanic = false := by
  unfold Cfg.own
  cases e.path with
  | fn =>
    simp only [callVia]
    exact C17_no_panic cfg.pr _ _ hin hout e.sig _ hb args
  | method =>
    simp only [callVia]
    split
    · rfl
    · exact C17_no_panic cfg.pr _ _ hinM houtM e.sig _ hb args

/-- **No call of any history crashes the interpreter**: whatever was registered and called before. -/
theorem C17_registry_no_panic (cfg : Cfg)
    (hin : tableExact cfg.tin = true) (hout : outTableExact cfg.tout = true)
    (hinM : tableExact cfg.tinM = true) (houtM : outTableExact cfg.toutM = true)
    (U : Universe) (hb : ∀ c env, bodyRespects (U c).sig ((U c).body env))
    (ops : List Op) (reg : List Nat) :
    ∀ tr, some tr ∈ runPlain cfg U reg ops → tr.result.isPanic = false := by
  induction ops generalizing reg with
  | nil => intro tr h; simp [runPlain] at h
  | cons op ops ih =>
    intro tr h
    cases op with
    | register o =>
      simp only [runPlain, List.mem_cons] at h
      rcases h with h | h
      · cases h
      · exact ih _ tr h
    | call c env args =>
      simp only [runPlain, List.mem_cons] at h
      rcases h with h | h
      · split at h
        · cases h
          exact C17_own_no_panic cfg hin hout hinM houtM (U c) env (hb c env) args
        · cases h
      · exact ih _ tr h

/-- **In, exact, after any history**: arguments that denote at the callee's own parameter types reach
the Go code as exactly the denoted values — whatever other callees of the same name exist. -/
theorem C17_registry_in_exact (cfg : Cfg)
    (hin : tableExact cfg.tin = true) (hinM : tableExact cfg.tinM = true)
    (U : Universe) (reg : List Nat) (h : List Op) (c : Callee) (env : Nat) (args : List SVal)
    (gs : List GoVal) (hr : (regAfter reg h).contains c.owner = true)
    (hs : ∀ t ∈ (U c).sig.params, supported.contains t.kind = true)
    (hd : denoteAll (U c).sig.params args = some gs) :
    ∃ tr, (runPlain cfg U reg (h ++ [.call c env args])).getLast? = some (some tr) ∧ tr.received = some gs := by
  refine ⟨_, C17_history_independent cfg U reg h c env args hr, ?_⟩
  have hlen : ∀ (ps : List GoType) (as : List SVal) (gs : List GoVal), denoteAll ps as = some gs → ps.length = as.length := by
    intro ps
    induction ps with
    | nil => intro as gs h; cases as <;> simp [denoteAll] at h ⊢
    | cons t ts ih =>
      intro as gs h
      cases as with
      | nil => simp [denoteAll] at h
      | cons a as =>
        simp only [denoteAll] at h
        split at h
        · rename_i g gs' _ h2
          simp [ih as gs' h2]
        · cases h
  have hl := hlen _ _ _ hd
  unfold Cfg.own
  cases (U c).path with
  | fn =>
    simp only [callVia]
    exact C17_call_in_exact cfg.pr _ _ hin _ _ args gs hs hd
  | method =>
    have : ¬ args.length < (U c).sig.params.length := by omega
    simp only [callVia, this]
    simpa using C17_call_in_exact cfg.pr _ _ hinM _ _ args gs hs hd

/-- **A memo whose key determines its datum is invisible.** Put a table in front of the parameter
list (`GetParams` answered from a table that outlives the call): if the table is keyed by
(Go type, method) — or by the Go type alone while the Go type alone determines the list — every
call of every history is answered exactly as without the table. -/
theorem C17_sound_memo_transparent (cfg : Cfg) (U : Universe) (m : MemoFact) (hs : m.sound = true)
    (hU : m.datum = .perOwner → ∀ c c' : Callee, c.owner = c'.owner → (U c).sig.params = (U c').sig.params)
    (reg : List Nat) (ops : List Op) :
    runMemo cfg U m.keyBy.key reg [] ops = runPlain cfg U reg ops := by
  apply runMemo_eq_runPlain cfg U _ _ ops reg [] (memoInv_nil U _)
  intro c c' hk
  unfold MemoFact.sound at hs
  cases hkb : m.keyBy <;> cases hd : m.datum <;> simp [hkb, hd] at hs
  · -- callee, perCallee
    simp only [hkb, KeyBy.key, Prod.mk.injEq] at hk
    have : c = c' := by cases c; cases c'; simp_all
    rw [this]
  · simp only [hkb, KeyBy.key, Prod.mk.injEq] at hk
    have : c = c' := by cases c; cases c'; simp_all
    rw [this]
  · -- owner, perOwner
    simp only [hkb, KeyBy.key, Prod.mk.injEq] at hk
    exact hU hd c c' hk.1

/-- the tables the source has now (obligation `memos_sound`) are invisible -/
theorem C17_memos_transparent_now (cfg : Cfg) (U : Universe) (m : MemoFact) (hm : m ∈ memos)
    (hU : m.datum = .perOwner → ∀ c c' : Callee, c.owner = c'.owner → (U c).sig.params = (U c').sig.params)
    (reg : List Nat) (ops : List Op) :
    runMemo cfg U m.keyBy.key reg [] ops = runPlain cfg U reg ops :=
  C17_sound_memo_transparent cfg U m (List.all_eq_true.mp memos_sound m hm) hU reg ops

/-! ### the generic converter -/

/-- **Generic converter, exact.** `utils.Convert[T]` / `utils.ConvertFromIndex[T]` for a predeclared
`T` give exactly the Go value the script value denotes — in particular every sized integer type
when the value is representable. -/
theorem C17_generic_exact (pr : Prim) (g : GenTables) (h : genExact g = true)
    (t : GoType) (ht : t.name = 0) (v : SVal) (gv : GoVal) (hd : denote t v = some gv) :
    convertValue pr g t v = .ok gv ∧ convertFromIndex pr g t v = .ok gv := by
  simp only [genExact, Bool.and_eq_true] at h
  have h1 := convertValue_exact pr h.1 h.2 t ht v gv hd
  exact ⟨h1, by simp [convertFromIndex, h1]⟩

/-- **Generic converter, unrepresentable integers are errors** (never a wrapped value). -/
theorem C17_generic_unrepresentable_is_catchable (pr : Prim) (g : GenTables) (h : genExact g = true)
    (k : Kind) (hk : k ∈ sizedInts) (n : Int) (hfit : k.fits n = false) :
    convertValue pr g ⟨k, 0⟩ (.int n) = .throw .outOfRange ∧
    ∃ e, convertFromIndex pr g ⟨k, 0⟩ (.int n) = .throw e := by
  simp only [genExact, Bool.and_eq_true] at h
  exact convertValue_unrepresentable pr h.1 h.2 k hk n hfit

/-- **Generic converter, no panic**: for every requested type and every scalar script value. -/
theorem C17_generic_no_panic (pr : Prim) (g : GenTables) (h : genExact g = true) (t : GoType) (v : SVal) :
    (convertValue pr g t v).isPanic = false ∧ (convertFromIndex pr g t v).isPanic = false := by
  simp only [genExact, Bool.and_eq_true] at h
  exact ⟨convertValue_no_panic pr h.1 t v, convertFromIndex_no_panic pr h.1 t v⟩

/-! ### instantiation at the regenerated tables -/

/-- the four call theorems for the code as it is now (function and struct-method variants) -/
theorem C17_no_panic_now (pr : Prim) (sig : Sig) (body : List GoVal → List GoVal)
    (hb : bodyRespects sig body) (args : List SVal) :
    (call pr table outTable sig body args).result.isPanic = false ∧
    (call pr tableMethod outTableMethod sig body args).result.isPanic = false :=
  ⟨C17_no_panic pr _ _ table_exact outTable_exact sig body hb args,
   C17_no_panic pr _ _ tableMethod_exact outTableMethod_exact sig body hb args⟩

/-! ### what the tree looked like before the fixes (negation witnesses, replayed by the harness
on a tree without the patches as `panic:callArgType` / `gen:wrap`) -/

def pinnedTable : List InArm :=
  [ { kinds := [.string], acc := .asString, produced := .string, convert := false },
    { kinds := [.int, .int64], acc := .asInt, produced := .int, convert := false },
    { kinds := [.float64], acc := .asFloat, produced := .float64, convert := false },
    { kinds := [.bool], acc := .asBool, produced := .bool, convert := false } ]

def nullPrim : Prim := { ofInt := fun _ => 0, trunc := fun _ => 0, gt0 := fun _ => false, ne0 := fun _ => false,
                         to32 := id, parse := fun _ => none }

/-- without `.Convert(goType)`, `func(x int64) int64` called with `5` panics in `reflect.Value.Call` -/
theorem C17_pinned_counterexample :
    ¬ (∀ (sig : Sig) (body : List GoVal → List GoVal) (_ : bodyRespects sig body) (args : List SVal),
        (call nullPrim pinnedTable outTable sig body args).result.isPanic = false) := by
  intro h
  have := h ⟨[⟨.int64, 0⟩], [⟨.int64, 0⟩]⟩ (fun _ => [⟨⟨.int64, 0⟩, .int 0⟩])
    (by intro gs; exact ⟨rfl, by intro r hr; simp at hr; subst hr; decide⟩) [.int 5]
  revert this
  decide

def pinnedGenFromInt : List GenArm :=
  gen.fromInt.map fun a => if a.form == .narrow then { a with form := .cast } else a

/-- with plain casts `Convert[int8](300)` is `44`, not an error -/
theorem C17_pinned_generic_counterexample :
    convertValue nullPrim { gen with fromInt := pinnedGenFromInt } ⟨.int8, 0⟩ (.int 300)
      = .ok ⟨⟨.int8, 0⟩, .int 44⟩ := by decide


/-! ### a parameter-list memo keyed by the bare method name (negation witness, replayed by the
harness as `hist:*` on a tree that has one) -/

def nowCfg (pr : Prim) : Cfg := ⟨pr, table, outTable, tableMethod, outTableMethod⟩

/-- `Inventory.Put(string) string` (owner 1) and `Ledger.Put(string, int64, float64) int64` (owner 2) -/
def demoU : Universe := fun c =>
  if c.owner == 1 then ⟨.method, ⟨[⟨.string, 0⟩], [⟨.string, 0⟩]⟩, fun _ gs => gs.take 1⟩
  else ⟨.method, ⟨[⟨.string, 0⟩, ⟨.int64, 0⟩, ⟨.float64, 0⟩], [⟨.int64, 0⟩]⟩, fun _ gs => (gs.drop 1).take 1⟩

def demoHist : List Op :=
  [.register 1, .register 2, .call ⟨1, 7⟩ 0 [.str (.lit [98])],
   .call ⟨2, 7⟩ 0 [.str (.lit [97]), .int 9223372036854775807, .float 0x8000000000000000]]

/-- keyed by the method name, the second `Put` walks the first one's one-element list and
`reflect.Value.Call` panics; without the memo both calls go through -/
theorem C17_name_keyed_memo_counterexample :
    ¬ (∀ (U : Universe) (reg : List Nat) (ops : List Op),
        runMemo (nowCfg nullPrim) U KeyBy.meth.key reg [] ops = runPlain (nowCfg nullPrim) U reg ops) := by
  intro h
  have := congrArg (List.map (fun t : Option Trace => t.map (fun tr => tr.result.isPanic))) (h demoU [] demoHist)
  revert this
  decide

/-! ### several calls of one callee in flight at once (round 6: `Model.ConvBuf`)

`spawn`ed closures, HTTP handlers and re-entrant conversions put several calls of ONE registered
callee between their first `convertToGoValue` and their `reflect.Value.Call` at the same time. The
argument list is filled slot by slot; a schedule is any list of caller ids. -/

open Model.ConvBuf in
/-- **one argument list per call in flight** (`bufOf` injective — the code as it is: `args := make(…)`
inside `Call`): under EVERY interleaving of ANY number of callers, nested or concurrent, of any arity,
whatever a caller's Go code receives is exactly what that caller passed, position by position -/
theorem C17_private_buffers_exact {α : Type} (bufOf : Nat → Nat) (hinj : ∀ a b, bufOf a = bufOf b → a = b)
    (args : Nat → List α) (n : Nat) (sched : List Nat) (c : Nat) (r : List (Option α))
    (h : (run bufOf args n sched).recv c = some r) : r = passed args n c :=
  Proofs.ConvBuf.run_private_exact bufOf hinj args n sched c r h

open Model.ConvBuf in
/-- **negation witness: an argument list kept per registration** (`rf.args`, `rm.args`, a package-level
scratch slice: `bufOf = fun _ => 0`). Two callers of a two-parameter callee, caller `c` passes
`(c+1, c+1)`; schedule: 0 writes slot 0, 1 writes slot 0, 0 writes slot 1, 0 invokes — caller 0's Go code
receives `(2, 1)`: the first value is one the calling script never passed. The harness replays this
schedule (and every other interleaving) on the real wrappers with gated argument values. -/
theorem C17_shared_buffer_counterexample :
    ¬ (∀ (args : Nat → List Nat) (n : Nat) (sched : List Nat) (c : Nat) (r : List (Option Nat)),
        (run (fun _ => 0) args n sched).recv c = some r → r = passed args n c) := by
  intro h
  have := h (fun c => [c + 1, c + 1]) 2 [0, 1, 0, 0] 0 [some 2, some 1] (by decide)
  revert this
  decide

open Model.ConvBuf in
/-- the same list is invisible to every stream that makes its calls one after the other from one
goroutine: a re-entrant schedule is needed as well (0 writes slot 0, then — inside the conversion of its
second argument — a complete call 1, then 0 goes on) -/
theorem C17_shared_buffer_reentrant_counterexample :
    (run (fun _ => 0) (fun c => [c + 1, c + 1]) 2 [0, 1, 1, 1, 0, 0]).recv 0 = some [some 2, some 1] ∧
    (run (fun _ => 0) (fun c => [c + 1, c + 1]) 2 (sequential 2 [0, 1])).recv 0 = some [some 1, some 1] ∧
    (run (fun _ => 0) (fun c => [c + 1, c + 1]) 2 (sequential 2 [0, 1])).recv 1 = some [some 2, some 2] := by
  decide

/-- call-path writes that have been looked at and found to be the call's own (none on the pinned tree) -/
def knownCallPathWrites : List String := []

/-- the call-path writes of the source that nobody has looked at -/
def unexplainedCallPathWrites : List String :=
  callPathWrites.filter (fun w => !knownCallPathWrites.contains w)

/-- **obligation `callPathWrites ⊆ Known`**: while a call is served, no function of
`runtime/reflect_*.go` writes a receiver field or a package-level variable — directly, through an
aliasing local (`args := rm.args; args[i] = …`), by `append` / `copy` into one, or by a non-reader
method call on one. Regenerated on every run (`extract/c17/callpath.go`). -/
theorem callPath_private : unexplainedCallPathWrites = [] := by decide

open Model.ConvBuf in
/-- with the call-path facts the source has now, every caller's Go code receives exactly what it
passed under every interleaving -/
theorem C17_concurrent_exact_now {α : Type} (args : Nat → List α) (n : Nat) (sched : List Nat) (c : Nat)
    (r : List (Option α)) (h : (run (bufPolicy unexplainedCallPathWrites) args n sched).recv c = some r) :
    r = passed args n c := by
  have hp : bufPolicy unexplainedCallPathWrites = id := by
    unfold bufPolicy; rw [callPath_private]; rfl
  rw [hp] at h
  exact C17_private_buffers_exact id (fun _ _ e => e) args n sched c r h

/-! ### non-vacuity -/

-- a three-parameter signature with a defined int64 type, a string and a float64; all hypotheses of
-- `C17_call_in_exact` / `C17_call_out_exact` hold and the call yields the returned value
example : (call nullPrim table outTable ⟨[⟨.int64, 7⟩, ⟨.string, 0⟩, ⟨.float64, 0⟩], [⟨.int64, 7⟩]⟩
      (fun gs => gs.take 1) [.int (-9223372036854775808), .str (.lit [0xff, 0]), .float 0x8000000000000000]).received
    = some [⟨⟨.int64, 7⟩, .int (-9223372036854775808)⟩, ⟨⟨.string, 0⟩, .str (.lit [0xff, 0])⟩,
            ⟨⟨.float64, 0⟩, .flt 0x8000000000000000⟩] := by decide

example : (call nullPrim table outTable ⟨[⟨.int64, 7⟩], [⟨.int64, 7⟩]⟩ (fun gs => gs.take 1)
      [.int 9223372036854775807]).result = .ok (some (.int 9223372036854775807)) := by decide

example : denoteAll [⟨.int64, 7⟩, ⟨.bool, 0⟩] [.int 3, .bool true]
    = some [⟨⟨.int64, 7⟩, .int 3⟩, ⟨⟨.bool, 0⟩, .bool true⟩] := by decide

-- `bodyRespects` is satisfiable by a non-constant body
example : bodyRespects ⟨[⟨.int, 0⟩], [⟨.int, 0⟩]⟩ (fun gs => [⟨⟨.int, 0⟩, .int (if gs.isEmpty then 0 else 1)⟩]) := by
  intro gs
  refine ⟨rfl, ?_⟩
  intro r hr
  simp at hr; subst hr
  cases gs <;> simp [GoVal.wt, Kind.fits, Kind.intRange]

-- an unsupported parameter kind: catchable, Go function not called
example : (call nullPrim table outTable ⟨[⟨.int, 0⟩, ⟨.int8, 0⟩], []⟩ (fun _ => []) [.int 1, .int 2]).result
    = .throw .unsupportedType := by decide

-- the generic converter at a sized type, representable / not representable
example : convertValue nullPrim gen ⟨.uint16, 0⟩ (.int 65535) = .ok ⟨⟨.uint16, 0⟩, .int 65535⟩ := by decide
example : convertValue nullPrim gen ⟨.uint16, 0⟩ (.int 65536) = .throw .outOfRange := by decide
example : convertValue nullPrim gen ⟨.uint64, 0⟩ (.int (-1)) = .throw .outOfRange := by decide
example : convertFromIndex nullPrim gen GoType.duration (.int 1500) = .ok ⟨GoType.duration, .int 1500⟩ := by decide


-- a history: two struct types whose `Put` differ in arity, called in both orders; every answer is the
-- callee's own and nothing panics
example : (runPlain (nowCfg nullPrim) demoU [] (demoHist ++ [.call ⟨1, 7⟩ 1 [.str (.lit [99])]])).map
      (fun t => t.map (fun tr => tr.result))
    = [none, none, some (.ok (some (.str (.lit [98])))), some (.ok (some (.int 9223372036854775807))),
       some (.ok (some (.str (.lit [99]))))] := by decide

-- the hypotheses of `C17_history_independent` / `C17_registry_in_exact` are satisfiable
example : (regAfter [] demoHist).contains (Callee.mk 2 7).owner = true := by decide
example : denoteAll (demoU ⟨2, 7⟩).sig.params [.str (.lit [97]), .int 5, .float 0]
    = some [⟨⟨.string, 0⟩, .str (.lit [97])⟩, ⟨⟨.int64, 0⟩, .int 5⟩, ⟨⟨.float64, 0⟩, .flt 0⟩] := by decide

-- a sound memo (keyed by callee) on the same history answers like the plain code; the name-keyed one panics
example : (runMemo (nowCfg nullPrim) demoU KeyBy.callee.key [] [] demoHist).map (fun t => t.map (fun tr => tr.result.isPanic))
    = [none, none, some false, some false] := by decide
example : (runMemo (nowCfg nullPrim) demoU KeyBy.meth.key [] [] demoHist).map (fun t => t.map (fun tr => tr.result.isPanic))
    = [none, none, some false, some true] := by decide
example : memosSound [⟨"reflectMethodParams.Store(rm.name, …)", .meth, .perCallee⟩] = false := by decide
example : memosSound [⟨"ctorParams.Store(rc.instanceType, …)", .owner, .perOwner⟩] = true := by decide

-- three callers of a three-parameter callee with private lists, fully interleaved: each receives its own
example : (Model.ConvBuf.run id (fun c => [10 * c, 10 * c + 1, 10 * c + 2]) 3 [0, 1, 2, 2, 1, 0, 0, 1, 2, 2, 0, 1]).recv 1
    = some [some 10, some 11, some 12] := by decide
example : Model.ConvBuf.passed (fun c => [10 * c, 10 * c + 1, 10 * c + 2]) 3 1 = [some 10, some 11, some 12] := by decide
-- the facts of the seeded tree C17-shared-args-buffer fail the obligation
example : (["runtime/reflect_register.go (*ReflectFunction).Call: args[i] = … [args = rf.args]"].filter
    (fun w => !knownCallPathWrites.contains w)) ≠ [] := by decide

end C17
