import Proofs.Lemmas.Gen
/-!
# C19 — a generic instantiation enforces its own type arguments, whatever came before

Property theorems only.  `Model.Gen.step` mirrors `ClassGeneric.Clone/GetProperty`,
`NewClassGenerated.resolveClass` and the typed property store as the code is
now (lookup returns a substituted *copy* of the declaration — fix
`C19-generic-property-copy`); `Model.Gen.stepShared` mirrors the code before
that fix (lookup overwrote the type on the declaration shared by every
instantiation).  `Spec.Gen` is the statement a user relies on: acceptance is a
function of how *this* object was created.

All theorems quantify over every list of generic class declarations without a
repeated type-parameter name (`WF`), every history of instantiations (with
type arguments, raw, through a constructor that stores its argument), typed
writes, reads and method calls with a parameter declared `T`, of any length.

A `new` can be executed through an AST node that is executed many times
(`instAt site …`: a factory function, a loop body, a method, a closure); the
node keeps what it resolved (`NewExpression.class`) and the model carries that
(`State.cache`, `resolveAt`).  `SiteWF h` says only that `h` is the run of a
program: a node has one text, i.e. two operations through the same node name
the same class and the same written type arguments.  The specification does not
know about nodes at all, so every theorem below covers objects created by the
first, second, … n-th execution of one node as well as by different nodes.
-/
namespace C19
open Model.Gen Spec.Gen Proofs.Gen

/-- **Refinement.** Every outcome of every history — which `new` succeeds,
crashes or is aborted by its constructor, which write is accepted or rejected —
is what the per-object specification prescribes. -/
theorem C19_refines (decls : List Class) (hwf : WF decls) (h : List Op) (hs : SiteWF h) :
    (Model.Gen.run decls h).2 = Spec.Gen.run decls h :=
  (run_sim hwf h hs).1

/-- **Instance-local.** After *any* history, whether object `i` accepts value `v`
in member `p` is decided by the class text and by the type arguments `i` itself
was created with — nothing else (`created` lists the creation records; it is
computed from each `new` alone). -/
theorem C19_instance_local (decls : List Class) (hwf : WF decls) (h : List Op) (hs : SiteWF h)
    (i p : Nat) (v : Val) :
    Model.Gen.writeOut (Model.Gen.run decls h).1 i p v =
      match (created decls h)[i]? with
      | none => Out.noInst
      | some r => if accepts decls r p v then Out.accepted else Out.rejected := by
  rw [writeOut_eq (run_sim hwf h hs).2]
  rfl

/-- The same for a method parameter declared with a type parameter: after any history,
`$x_i->take(v)` is decided by the creation record of object `i` alone. -/
theorem C19_call_instance_local (decls : List Class) (hwf : WF decls) (h : List Op) (hs : SiteWF h)
    (i name : Nat) (v : Val) :
    Model.Gen.callOut (Model.Gen.run decls h).1 i name v =
      Spec.Gen.outOf decls (created decls h) (.call i name v) :=
  callOut_eq (run_sim hwf h hs).2 i name v

/-- **Order / company / node irrelevant.** Two objects created with the same class and
the same type arguments — in two arbitrary, unrelated histories (or in one: `h₁ = h₂`), at
arbitrary positions, by different `new` nodes or by the first and the n-th execution of the
same node — accept exactly the same values in every member and in every `T` parameter. In
particular what was instantiated earlier, later, or how often does not matter. -/
theorem C19_order_irrelevant (decls : List Class) (hwf : WF decls) (h₁ h₂ : List Op)
    (hs₁ : SiteWF h₁) (hs₂ : SiteWF h₂) (i₁ i₂ : Nat)
    (r : Creation) (e₁ : (created decls h₁)[i₁]? = some r) (e₂ : (created decls h₂)[i₂]? = some r)
    (p name : Nat) (v : Val) :
    Model.Gen.writeOut (Model.Gen.run decls h₁).1 i₁ p v =
        Model.Gen.writeOut (Model.Gen.run decls h₂).1 i₂ p v ∧
      Model.Gen.callOut (Model.Gen.run decls h₁).1 i₁ name v =
        Model.Gen.callOut (Model.Gen.run decls h₂).1 i₂ name v := by
  rw [C19_instance_local decls hwf h₁ hs₁, C19_instance_local decls hwf h₂ hs₂,
    C19_call_instance_local decls hwf h₁ hs₁, C19_call_instance_local decls hwf h₂ hs₂]
  simp only [outOf, e₁, e₂, and_self]

/-- **Same node, executed again.** The objects made by two executions of one `new C<args>()`
node — anywhere in a history, whatever ran in between, however often the node ran before —
answer every write identically (the instance of `C19_order_irrelevant` the per-node cache of
`resolveClass` has to satisfy). -/
theorem C19_same_site_twins (decls : List Class) (hwf : WF decls) (h₁ h₂ h₃ : List Op) (site c : Nat)
    (args : List Ty) (hok : arityOk decls c args = true)
    (hs : SiteWF (h₁ ++ Op.instAt site c args :: h₂ ++ Op.instAt site c args :: h₃)) (p : Nat) (v : Val) :
    let h := h₁ ++ Op.instAt site c args :: h₂ ++ Op.instAt site c args :: h₃
    Model.Gen.writeOut (Model.Gen.run decls h).1 (created decls h₁).length p v =
      Model.Gen.writeOut (Model.Gen.run decls h).1
        ((created decls h₁).length + 1 + (created decls h₂).length) p v := by
  intro h
  have e : created decls h =
      created decls h₁ ++ ⟨c, some args⟩ :: (created decls h₂ ++ ⟨c, some args⟩ :: created decls h₃) := by
    simp [h, created, List.filterMap_append, creates, hok]
  refine (C19_order_irrelevant decls hwf h h hs hs _ _ ⟨c, some args⟩ ?_ ?_ p 0 v).1
  · rw [e]; simp
  · rw [e, List.getElem?_append_right (by omega)]
    have : (created decls h₁).length + 1 + (created decls h₂).length - (created decls h₁).length =
        (created decls h₂).length + 1 := by omega
    rw [this, List.getElem?_cons_succ]; simp

/-- **"Instantiating `Box<int>` never changes what `Box<string>` accepts."**
The object made by `new C<args>()` in the middle of an arbitrary history
(`pre` before it, `post` after it) answers every write exactly as it does in
the history that consists of that `new` alone. -/
theorem C19_alone (decls : List Class) (hwf : WF decls) (pre post : List Op) (o : Op) (c : Nat)
    (args : List Ty) (ho : creates decls o = some ⟨c, some args⟩) (hs : SiteWF (pre ++ o :: post))
    (p : Nat) (v : Val) :
    Model.Gen.writeOut (Model.Gen.run decls (pre ++ o :: post)).1
        (created decls pre).length p v =
      Model.Gen.writeOut (Model.Gen.run decls [Op.inst c args]).1 0 p v := by
  have hok : arityOk decls c args = true := creates_arity ho
  refine (C19_order_irrelevant decls hwf _ _ hs (by simp [SiteWF]) _ _ ⟨c, some args⟩ ?_ ?_ p 0 v).1
  · simp [created, List.filterMap_append, ho]
  · simp [created, creates, hok]

/-- **Own argument, and only that.** For a member declared with the k-th type
parameter, an object created with arguments `args` accepts `v` iff `args[k]`
accepts `v` — after any history. -/
theorem C19_accepts_exactly_own (decls : List Class) (hwf : WF decls) (h : List Op) (hs : SiteWF h)
    (i p : Nat) (v : Val)
    (c : Nat) (args : List Ty) (cl : Class) (name k : Nat) (t : Ty)
    (hi : (created decls h)[i]? = some ⟨c, some args⟩) (hc : decls[c]? = some cl)
    (hp : cl.props[p]? = some (.generic name)) (hmem : name ∈ cl.params)
    (hk : cl.params.idxOf name = k) (ht : args[k]? = some t) :
    Model.Gen.writeOut (Model.Gen.run decls h).1 i p v = Out.accepted ↔ t.accepts v = true := by
  rw [C19_instance_local decls hwf h hs, hi]
  simp only [accepts, hc, hp, argOf, hmem, if_true, hk, ht]
  cases t.accepts v <;> simp

/-- **The shared declarations are never written.** -/
theorem C19_decls_never_mutated (decls : List Class) (hwf : WF decls) (h : List Op) (hs : SiteWF h) :
    (Model.Gen.run decls h).1.classes = decls :=
  (run_sim hwf h hs).2.classes

/-! ### The code before the fix: negation witness

`Box<T> { T v }`, the 2-step history `new Box<int>; ->v = 1; new Box<string>; ->v = "s"`. -/

def box : Class := ⟨[0], [.generic 0]⟩
def witness : List Op :=
  [.inst 0 [.int], .write 0 0 .int, .inst 0 [.string], .write 1 0 .string]

/-- On the pre-fix model the first lookup wins: the `Box<string>` object rejects a string … -/
theorem C19_pinned_counterexample :
    ¬ (∀ (decls : List Class) (h : List Op), WF decls → SiteWF h →
        (Model.Gen.runShared decls h).2 = Spec.Gen.run decls h) := by
  intro hall
  have := hall [box] witness (by decide) (by decide)
  revert this
  decide

/-- … and the outcomes of the witness under both models, as the harness replays them. -/
theorem C19_witness_outcomes :
    (Model.Gen.runShared [box] witness).2 = [.created 0, .accepted, .created 1, .rejected] ∧
    (Model.Gen.run [box] witness).2 = [.created 0, .accepted, .created 1, .accepted] := by
  decide

/-! ### The node cache is really in the model

`SiteWF` cannot be dropped: a "history" that uses one node with two texts is not the run of any
program, and on it the model — which, like `resolveClass`, returns what the node stored on its
first execution — departs from the specification.  (So an implementation whose node stores
anything else than what it returns, e.g. the registered un-instantiated class, breaks
`C19_refines` / `C19_same_site_twins` on a well-formed history: the second object of the node
would answer as a raw object.) -/
theorem C19_node_cache_is_modelled :
    ¬ (∀ (decls : List Class) (h : List Op), WF decls →
        (Model.Gen.run decls h).2 = Spec.Gen.run decls h) := by
  intro hall
  have := hall [box] [.instAt 0 0 [.int], .instAt 0 0 [.string], .write 1 0 .string] (by decide)
  revert this
  decide

/-! ### Non-vacuity -/

def pair : Class := ⟨[0, 1], [.generic 0, .generic 1, .conc .int, .untyped]⟩
def decls₀ : List Class := [box, pair]

example : WF decls₀ := by decide
/- a history with every kind of operation, an arity crash and a constructor abort -/
def hist₀ : List Op :=
  [.inst 0 [.int], .instRaw 0, .inst 1 [.string, .cls 0], .inst 1 [.int], .instCtor 0 [.array] 0 .int,
   .instCtor 0 [.array] 0 .array, .write 0 0 .string, .write 2 1 (.obj 0), .write 2 1 (.obj 1), .read 1 0,
   .write 1 0 .null, .write 9 0 .int]
example : (Model.Gen.run decls₀ hist₀).2 =
    [.created 0, .created 1, .created 2, .crash, .rejected, .created 3, .rejected, .accepted, .rejected,
     .readOk, .accepted, .noInst] := by decide
example : created decls₀ hist₀ = [⟨0, some [.int]⟩, ⟨0, none⟩, ⟨1, some [.string, .cls 0]⟩, ⟨0, some [.array]⟩] := by
  decide
/- `C19_order_irrelevant` with two different histories, same creation record at different indexes -/
example : (created decls₀ hist₀)[3]? = some ⟨0, some [.array]⟩ ∧
    (created decls₀ [.inst 0 [.array]])[0]? = some ⟨0, some [.array]⟩ := by decide
/- `C19_alone` / `C19_accepts_exactly_own` hypotheses are satisfiable -/
example : arityOk decls₀ 1 [.string, .cls 0] = true := by decide
example : (created decls₀ hist₀)[2]? = some ⟨1, some [.string, .cls 0]⟩ ∧ decls₀[1]? = some pair ∧
    pair.props[1]? = some (.generic 1) ∧ 1 ∈ pair.params ∧ pair.params.idxOf 1 = 1 ∧
    [Ty.string, .cls 0][1]? = some (.cls 0) := by decide

/- nodes executed repeatedly: node 7 = `new Box<int>()` three times (a factory / loop body), node 8 =
`new Box<string>()`, node 9 = `new Box()`, node 5 = `new Box<array>($x)` whose constructor stores `$x`,
interleaved with un-sited instantiations, writes and `T`-parameter calls -/
def histS : List Op :=
  [.instAt 7 0 [.int], .write 0 0 .string, .instAt 8 0 [.string], .instAt 7 0 [.int], .write 2 0 .string,
   .write 1 0 .string, .instRawAt 9 0, .inst 0 [.array], .instAt 7 0 [.int], .write 4 0 .array,
   .write 5 0 .int, .write 5 0 .string, .instCtorAt 5 0 [.array] 0 .int, .instCtorAt 5 0 [.array] 0 .array,
   .instRawAt 9 0, .write 7 0 .int, .call 5 0 .string, .call 5 0 .int, .call 1 0 .null, .call 3 0 .int,
   .call 5 1 .int]
example : SiteWF histS := by decide
example : (Model.Gen.run decls₀ histS).2 =
    [.created 0, .rejected, .created 1, .created 2, .rejected, .accepted, .created 3, .created 4, .created 5,
     .accepted, .accepted, .rejected, .rejected, .created 6, .created 7, .accepted, .rejected, .accepted,
     .accepted, .accepted, .noMember] := by decide
example : (Model.Gen.run decls₀ histS).2 = Spec.Gen.run decls₀ histS := by decide
/- the early return of `resolveClass` is taken: the nodes hold something after the run -/
example : (((Model.Gen.run decls₀ histS).1.cache 7).isSome, ((Model.Gen.run decls₀ histS).1.cache 5).isSome,
    ((Model.Gen.run decls₀ histS).1.cache 6).isSome) = (true, true, false) := by decide
/- `C19_same_site_twins`: h₁ = [], h₂ = 2 operations creating one object, objects 0 and 2 -/
example : arityOk decls₀ 0 [.int] = true ∧
    histS = [] ++ Op.instAt 7 0 [.int] :: [.write 0 0 .string, .instAt 8 0 [.string]] ++
      Op.instAt 7 0 [.int] :: histS.drop 4 := by decide
/- `C19_alone` with `o` the third execution of node 7 -/
example : creates decls₀ (Op.instAt 7 0 [.int]) = some ⟨0, some [.int]⟩ := by decide

end C19
