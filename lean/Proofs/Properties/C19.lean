import Proofs.Lemmas.Gen
/-!
# C19 — a generic instantiation enforces its own type arguments, whatever came before

Property theorems only.  `Model.Gen.step` mirrors `ClassGeneric.Clone/GetProperty`,
`NewClassGenerated.resolveClass` and the typed property store as the code is
now (lookup returns a substituted *copy* of the declaration — fix
`C19-generic-property-copy`); `Model.Gen.stepShared` mirrors the code before
that fix (lookup overwrote the type on the declaration shared by every
instantiation).  `Spec.Gen` is the statement a user relies on: acceptance is a
function of how *this* object was created.

All theorems quantify over every list of generic class declarations without a
repeated type-parameter name (`WF`), every history of instantiations (with
type arguments, raw, through a constructor that stores its argument), typed
writes and reads, of any length.
-/
namespace C19
open Model.Gen Spec.Gen Proofs.Gen

/-- **Refinement.** Every outcome of every history — which `new` succeeds,
crashes or is aborted by its constructor, which write is accepted or rejected —
is what the per-object specification prescribes. -/
theorem C19_refines (decls : List Class) (hwf : WF decls) (h : List Op) :
    (Model.Gen.run decls h).2 = Spec.Gen.run decls h :=
  (runFrom_sim hwf h (init decls) [] (rel_init decls)).1

/-- **Instance-local.** After *any* history, whether object `i` accepts value `v`
in member `p` is decided by the class text and by the type arguments `i` itself
was created with — nothing else (`created` lists the creation records; it is
computed from each `new` alone). -/
theorem C19_instance_local (decls : List Class) (hwf : WF decls) (h : List Op) (i p : Nat) (v : Val) :
    Model.Gen.writeOut (Model.Gen.run decls h).1 i p v =
      match (created decls h)[i]? with
      | none => Out.noInst
      | some r => if accepts decls r p v then Out.accepted else Out.rejected := by
  have hr := (runFrom_sim hwf h (init decls) [] (rel_init decls)).2
  rw [List.nil_append] at hr
  rw [show Model.Gen.run decls h = Model.Gen.runFrom (init decls) h from rfl, writeOut_eq hr]
  rfl

/-- **Order / company irrelevant.** Two objects created with the same class and
the same type arguments — in two arbitrary, unrelated histories, at arbitrary
positions — accept exactly the same values in every member. In particular what
was instantiated earlier, later, or how often does not matter. -/
theorem C19_order_irrelevant (decls : List Class) (hwf : WF decls) (h₁ h₂ : List Op) (i₁ i₂ : Nat)
    (r : Creation) (e₁ : (created decls h₁)[i₁]? = some r) (e₂ : (created decls h₂)[i₂]? = some r)
    (p : Nat) (v : Val) :
    Model.Gen.writeOut (Model.Gen.run decls h₁).1 i₁ p v =
      Model.Gen.writeOut (Model.Gen.run decls h₂).1 i₂ p v := by
  rw [C19_instance_local decls hwf h₁, C19_instance_local decls hwf h₂, e₁, e₂]

/-- **"Instantiating `Box<int>` never changes what `Box<string>` accepts."**
The object made by `new C<args>()` in the middle of an arbitrary history
(`pre` before it, `post` after it) answers every write exactly as it does in
the history that consists of that `new` alone. -/
theorem C19_alone (decls : List Class) (hwf : WF decls) (pre post : List Op) (c : Nat) (args : List Ty)
    (hok : arityOk decls c args = true) (p : Nat) (v : Val) :
    Model.Gen.writeOut (Model.Gen.run decls (pre ++ Op.inst c args :: post)).1
        (created decls pre).length p v =
      Model.Gen.writeOut (Model.Gen.run decls [Op.inst c args]).1 0 p v := by
  apply C19_order_irrelevant decls hwf _ _ _ _ ⟨c, some args⟩
  · simp [created, List.filterMap_append, creates, hok]
  · simp [created, creates, hok]

/-- **Own argument, and only that.** For a member declared with the k-th type
parameter, an object created with arguments `args` accepts `v` iff `args[k]`
accepts `v` — after any history. -/
theorem C19_accepts_exactly_own (decls : List Class) (hwf : WF decls) (h : List Op) (i p : Nat) (v : Val)
    (c : Nat) (args : List Ty) (cl : Class) (name k : Nat) (t : Ty)
    (hi : (created decls h)[i]? = some ⟨c, some args⟩) (hc : decls[c]? = some cl)
    (hp : cl.props[p]? = some (.generic name)) (hmem : name ∈ cl.params)
    (hk : cl.params.idxOf name = k) (ht : args[k]? = some t) :
    Model.Gen.writeOut (Model.Gen.run decls h).1 i p v = Out.accepted ↔ t.accepts v = true := by
  rw [C19_instance_local decls hwf h, hi]
  simp only [accepts, hc, hp, argOf, hmem, if_true, hk, ht]
  cases t.accepts v <;> simp

/-- **The shared declarations are never written.** -/
theorem C19_decls_never_mutated (decls : List Class) (hwf : WF decls) (h : List Op) :
    (Model.Gen.run decls h).1.classes = decls :=
  ((runFrom_sim hwf h (init decls) [] (rel_init decls)).2).classes

/-! ### The code before the fix: negation witness

`Box<T> { T v }`, the 2-step history `new Box<int>; ->v = 1; new Box<string>; ->v = "s"`. -/

def box : Class := ⟨[0], [.generic 0]⟩
def witness : List Op :=
  [.inst 0 [.int], .write 0 0 .int, .inst 0 [.string], .write 1 0 .string]

/-- On the pre-fix model the first lookup wins: the `Box<string>` object rejects a string … -/
theorem C19_pinned_counterexample :
    ¬ (∀ (decls : List Class) (h : List Op), WF decls →
        (Model.Gen.runShared decls h).2 = Spec.Gen.run decls h) := by
  intro hall
  have := hall [box] witness (by decide)
  revert this
  decide

/-- … and the outcomes of the witness under both models, as the harness replays them. -/
theorem C19_witness_outcomes :
    (Model.Gen.runShared [box] witness).2 = [.created 0, .accepted, .created 1, .rejected] ∧
    (Model.Gen.run [box] witness).2 = [.created 0, .accepted, .created 1, .accepted] := by
  decide

/-! ### Non-vacuity -/

def pair : Class := ⟨[0, 1], [.generic 0, .generic 1, .conc .int, .untyped]⟩
def decls₀ : List Class := [box, pair]

example : WF decls₀ := by decide
/- a history with every kind of operation, an arity crash and a constructor abort -/
def hist₀ : List Op :=
  [.inst 0 [.int], .instRaw 0, .inst 1 [.string, .cls 0], .inst 1 [.int], .instCtor 0 [.array] 0 .int,
   .instCtor 0 [.array] 0 .array, .write 0 0 .string, .write 2 1 (.obj 0), .write 2 1 (.obj 1), .read 1 0,
   .write 1 0 .null, .write 9 0 .int]
example : (Model.Gen.run decls₀ hist₀).2 =
    [.created 0, .created 1, .created 2, .crash, .rejected, .created 3, .rejected, .accepted, .rejected,
     .readOk, .accepted, .noInst] := by decide
example : created decls₀ hist₀ = [⟨0, some [.int]⟩, ⟨0, none⟩, ⟨1, some [.string, .cls 0]⟩, ⟨0, some [.array]⟩] := by
  decide
/- `C19_order_irrelevant` with two different histories, same creation record at different indexes -/
example : (created decls₀ hist₀)[3]? = some ⟨0, some [.array]⟩ ∧
    (created decls₀ [.inst 0 [.array]])[0]? = some ⟨0, some [.array]⟩ := by decide
/- `C19_alone` / `C19_accepts_exactly_own` hypotheses are satisfiable -/
example : arityOk decls₀ 1 [.string, .cls 0] = true := by decide
example : (created decls₀ hist₀)[2]? = some ⟨1, some [.string, .cls 0]⟩ ∧ decls₀[1]? = some pair ∧
    pair.props[1]? = some (.generic 1) ∧ 1 ∈ pair.params ∧ pair.params.idxOf 1 = 1 ∧
    [Ty.string, .cls 0][1]? = some (.cls 0) := by decide

end C19
