import Proofs.Lemmas.Gen
import Proofs.Lemmas.GenFacts
import Generated.C19Generics
/-!
# C19 — a generic instantiation enforces its own type arguments, whatever came before

Property theorems only.  `Model.Gen.step` mirrors `ClassGeneric.Clone/GetProperty`,
`NewClassGenerated.resolveClass` and the typed property store as the code is
now (lookup returns a substituted *copy* of the declaration — fix
`C19-generic-property-copy`); `Model.Gen.stepShared` mirrors the code before
that fix (lookup overwrote the type on the declaration shared by every
instantiation).  `Spec.Gen` is the statement a user relies on: acceptance is a
function of how *this* object was created.

All theorems quantify over every list of generic class declarations without a
repeated type-parameter name (`WF`), every history of instantiations (with
type arguments, raw, through a constructor that stores its argument), typed
writes, reads and method calls with a parameter declared `T`, of any length.

A `new` can be executed through an AST node that is executed many times
(`instAt site …`: a factory function, a loop body, a method, a closure); the
node keeps what it resolved (`NewExpression.class`) and the model carries that
(`State.cache`, `resolveAt`).  `SiteWF h` says only that `h` is the run of a
program: a node has one text, i.e. two operations through the same node name
the same class and the same written type arguments.  The specification does not
know about nodes at all, so every theorem below covers objects created by the
first, second, … n-th execution of one node as well as by different nodes.
-/
namespace C19
open Model.Gen Spec.Gen Proofs.Gen

/-- **Refinement.** Every outcome of every history — which `new` succeeds,
crashes or is aborted by its constructor, which write is accepted or rejected —
is what the per-object specification prescribes. -/
theorem C19_refines (decls : List Class) (hwf : WF decls) (h : List Op) (hs : SiteWF h) :
    (Model.Gen.run decls h).2 = Spec.Gen.run decls h :=
  (run_sim hwf h hs).1

/-- **Instance-local.** After *any* history, whether object `i` accepts value `v`
in member `p` is decided by the class text and by the type arguments `i` itself
was created with — nothing else (`created` lists the creation records; it is
computed from each `new` alone). -/
theorem C19_instance_local (decls : List Class) (hwf : WF decls) (h : List Op) (hs : SiteWF h)
    (i p : Nat) (v : Val) :
    Model.Gen.writeOut (Model.Gen.run decls h).1 i p v =
      match (created decls h)[i]? with
      | none => Out.noInst
      | some r => if accepts decls r p v then Out.accepted else Out.rejected := by
  rw [writeOut_eq (run_sim hwf h hs).2]
  rfl

/-- The same for a method parameter declared with a type parameter: after any history,
`$x_i->take(v)` is decided by the creation record of object `i` alone. -/
theorem C19_call_instance_local (decls : List Class) (hwf : WF decls) (h : List Op) (hs : SiteWF h)
    (i name : Nat) (v : Val) :
    Model.Gen.callOut (Model.Gen.run decls h).1 i name v =
      Spec.Gen.outOf decls (created decls h) (.call i name v) :=
  callOut_eq (run_sim hwf h hs).2 i name v

/-- **Order / company / node irrelevant.** Two objects created with the same class and
the same type arguments — in two arbitrary, unrelated histories (or in one: `h₁ = h₂`), at
arbitrary positions, by different `new` nodes or by the first and the n-th execution of the
same node — accept exactly the same values in every member and in every `T` parameter. In
particular what was instantiated earlier, later, or how often does not matter. -/
theorem C19_order_irrelevant (decls : List Class) (hwf : WF decls) (h₁ h₂ : List Op)
    (hs₁ : SiteWF h₁) (hs₂ : SiteWF h₂) (i₁ i₂ : Nat)
    (r : Creation) (e₁ : (created decls h₁)[i₁]? = some r) (e₂ : (created decls h₂)[i₂]? = some r)
    (p name : Nat) (v : Val) :
    Model.Gen.writeOut (Model.Gen.run decls h₁).1 i₁ p v =
        Model.Gen.writeOut (Model.Gen.run decls h₂).1 i₂ p v ∧
      Model.Gen.callOut (Model.Gen.run decls h₁).1 i₁ name v =
        Model.Gen.callOut (Model.Gen.run decls h₂).1 i₂ name v := by
  rw [C19_instance_local decls hwf h₁ hs₁, C19_instance_local decls hwf h₂ hs₂,
    C19_call_instance_local decls hwf h₁ hs₁, C19_call_instance_local decls hwf h₂ hs₂]
  simp only [outOf, e₁, e₂, and_self]

/-- **Same node, executed again.** The objects made by two executions of one `new C<args>()`
node — anywhere in a history, whatever ran in between, however often the node ran before —
answer every write identically (the instance of `C19_order_irrelevant` the per-node cache of
`resolveClass` has to satisfy). -/
theorem C19_same_site_twins (decls : List Class) (hwf : WF decls) (h₁ h₂ h₃ : List Op) (site c : Nat)
    (args : List Ty) (hok : arityOk decls c args = true)
    (hs : SiteWF (h₁ ++ Op.instAt site c args :: h₂ ++ Op.instAt site c args :: h₃)) (p : Nat) (v : Val) :
    let h := h₁ ++ Op.instAt site c args :: h₂ ++ Op.instAt site c args :: h₃
    Model.Gen.writeOut (Model.Gen.run decls h).1 (created decls h₁).length p v =
      Model.Gen.writeOut (Model.Gen.run decls h).1
        ((created decls h₁).length + 1 + (created decls h₂).length) p v := by
  intro h
  have e : created decls h =
      created decls h₁ ++ ⟨c, some args⟩ :: (created decls h₂ ++ ⟨c, some args⟩ :: created decls h₃) := by
    simp [h, created, List.filterMap_append, creates, hok]
  refine (C19_order_irrelevant decls hwf h h hs hs _ _ ⟨c, some args⟩ ?_ ?_ p 0 v).1
  · rw [e]; simp
  · rw [e, List.getElem?_append_right (by omega)]
    have : (created decls h₁).length + 1 + (created decls h₂).length - (created decls h₁).length =
        (created decls h₂).length + 1 := by omega
    rw [this, List.getElem?_cons_succ]; simp

/-- **"Instantiating `Box<int>` never changes what `Box<string>` accepts."**
The object made by `new C<args>()` in the middle of an arbitrary history
(`pre` before it, `post` after it) answers every write exactly as it does in
the history that consists of that `new` alone. -/
theorem C19_alone (decls : List Class) (hwf : WF decls) (pre post : List Op) (o : Op) (c : Nat)
    (args : List Ty) (ho : creates decls o = some ⟨c, some args⟩) (hs : SiteWF (pre ++ o :: post))
    (p : Nat) (v : Val) :
    Model.Gen.writeOut (Model.Gen.run decls (pre ++ o :: post)).1
        (created decls pre).length p v =
      Model.Gen.writeOut (Model.Gen.run decls [Op.inst c args]).1 0 p v := by
  have hok : arityOk decls c args = true := creates_arity ho
  refine (C19_order_irrelevant decls hwf _ _ hs (by simp [SiteWF]) _ _ ⟨c, some args⟩ ?_ ?_ p 0 v).1
  · simp [created, List.filterMap_append, ho]
  · simp [created, creates, hok]

/-- **Own argument, and only that.** For a member declared with the k-th type
parameter, an object created with arguments `args` accepts `v` iff `args[k]`
accepts `v` — after any history. -/
theorem C19_accepts_exactly_own (decls : List Class) (hwf : WF decls) (h : List Op) (hs : SiteWF h)
    (i p : Nat) (v : Val)
    (c : Nat) (args : List Ty) (cl : Class) (name k : Nat) (t : Ty)
    (hi : (created decls h)[i]? = some ⟨c, some args⟩) (hc : decls[c]? = some cl)
    (hp : cl.props[p]? = some (.generic name)) (hmem : name ∈ cl.params)
    (hk : cl.params.idxOf name = k) (ht : args[k]? = some t) :
    Model.Gen.writeOut (Model.Gen.run decls h).1 i p v = Out.accepted ↔ t.accepts v = true := by
  rw [C19_instance_local decls hwf h hs, hi]
  simp only [accepts, hc, hp, argOf, hmem, if_true, hk, ht]
  cases t.accepts v <;> simp

/-- **The shared declarations are never written.** -/
theorem C19_decls_never_mutated (decls : List Class) (hwf : WF decls) (h : List Op) (hs : SiteWF h) :
    (Model.Gen.run decls h).1.classes = decls :=
  (run_sim hwf h hs).2.classes

/-! ### The code before the fix: negation witness

`Box<T> { T v }`, the 2-step history `new Box<int>; ->v = 1; new Box<string>; ->v = "s"`. -/

def box : Class := ⟨[0], [.generic 0]⟩
def witness : List Op :=
  [.inst 0 [.int], .write 0 0 .int, .inst 0 [.string], .write 1 0 .string]

/-- On the pre-fix model the first lookup wins: the `Box<string>` object rejects a string … -/
theorem C19_pinned_counterexample :
    ¬ (∀ (decls : List Class) (h : List Op), WF decls → SiteWF h →
        (Model.Gen.runShared decls h).2 = Spec.Gen.run decls h) := by
  intro hall
  have := hall [box] witness (by decide) (by decide)
  revert this
  decide

/-- … and the outcomes of the witness under both models, as the harness replays them. -/
theorem C19_witness_outcomes :
    (Model.Gen.runShared [box] witness).2 = [.created 0, .accepted, .created 1, .rejected] ∧
    (Model.Gen.run [box] witness).2 = [.created 0, .accepted, .created 1, .accepted] := by
  decide

/-! ### The node cache is really in the model

`SiteWF` cannot be dropped: a "history" that uses one node with two texts is not the run of any
program, and on it the model — which, like `resolveClass`, returns what the node stored on its
first execution — departs from the specification.  (So an implementation whose node stores
anything else than what it returns, e.g. the registered un-instantiated class, breaks
`C19_refines` / `C19_same_site_twins` on a well-formed history: the second object of the node
would answer as a raw object.) -/
theorem C19_node_cache_is_modelled :
    ¬ (∀ (decls : List Class) (h : List Op), WF decls →
        (Model.Gen.run decls h).2 = Spec.Gen.run decls h) := by
  intro hall
  have := hall [box] [.instAt 0 0 [.int], .instAt 0 0 [.string], .write 1 0 .string] (by decide)
  revert this
  decide

/-! ### Non-vacuity -/

def pair : Class := ⟨[0, 1], [.generic 0, .generic 1, .conc .int, .untyped]⟩
def decls₀ : List Class := [box, pair]

example : WF decls₀ := by decide
/- a history with every kind of operation, an arity crash and a constructor abort -/
def hist₀ : List Op :=
  [.inst 0 [.int], .instRaw 0, .inst 1 [.string, .cls 0], .inst 1 [.int], .instCtor 0 [.array] 0 .int,
   .instCtor 0 [.array] 0 .array, .write 0 0 .string, .write 2 1 (.obj 0), .write 2 1 (.obj 1), .read 1 0,
   .write 1 0 .null, .write 9 0 .int]
example : (Model.Gen.run decls₀ hist₀).2 =
    [.created 0, .created 1, .created 2, .crash, .rejected, .created 3, .rejected, .accepted, .rejected,
     .readOk, .accepted, .noInst] := by decide
example : created decls₀ hist₀ = [⟨0, some [.int]⟩, ⟨0, none⟩, ⟨1, some [.string, .cls 0]⟩, ⟨0, some [.array]⟩] := by
  decide
/- `C19_order_irrelevant` with two different histories, same creation record at different indexes -/
example : (created decls₀ hist₀)[3]? = some ⟨0, some [.array]⟩ ∧
    (created decls₀ [.inst 0 [.array]])[0]? = some ⟨0, some [.array]⟩ := by decide
/- `C19_alone` / `C19_accepts_exactly_own` hypotheses are satisfiable -/
example : arityOk decls₀ 1 [.string, .cls 0] = true := by decide
example : (created decls₀ hist₀)[2]? = some ⟨1, some [.string, .cls 0]⟩ ∧ decls₀[1]? = some pair ∧
    pair.props[1]? = some (.generic 1) ∧ 1 ∈ pair.params ∧ pair.params.idxOf 1 = 1 ∧
    [Ty.string, .cls 0][1]? = some (.cls 0) := by decide

/- nodes executed repeatedly: node 7 = `new Box<int>()` three times (a factory / loop body), node 8 =
`new Box<string>()`, node 9 = `new Box()`, node 5 = `new Box<array>($x)` whose constructor stores `$x`,
interleaved with un-sited instantiations, writes and `T`-parameter calls -/
def histS : List Op :=
  [.instAt 7 0 [.int], .write 0 0 .string, .instAt 8 0 [.string], .instAt 7 0 [.int], .write 2 0 .string,
   .write 1 0 .string, .instRawAt 9 0, .inst 0 [.array], .instAt 7 0 [.int], .write 4 0 .array,
   .write 5 0 .int, .write 5 0 .string, .instCtorAt 5 0 [.array] 0 .int, .instCtorAt 5 0 [.array] 0 .array,
   .instRawAt 9 0, .write 7 0 .int, .call 5 0 .string, .call 5 0 .int, .call 1 0 .null, .call 3 0 .int,
   .call 5 1 .int]
example : SiteWF histS := by decide
example : (Model.Gen.run decls₀ histS).2 =
    [.created 0, .rejected, .created 1, .created 2, .rejected, .accepted, .created 3, .created 4, .created 5,
     .accepted, .accepted, .rejected, .rejected, .created 6, .created 7, .accepted, .rejected, .accepted,
     .accepted, .accepted, .noMember] := by decide
example : (Model.Gen.run decls₀ histS).2 = Spec.Gen.run decls₀ histS := by decide
/- the early return of `resolveClass` is taken: the nodes hold something after the run -/
example : (((Model.Gen.run decls₀ histS).1.cache 7).isSome, ((Model.Gen.run decls₀ histS).1.cache 5).isSome,
    ((Model.Gen.run decls₀ histS).1.cache 6).isSome) = (true, true, false) := by decide
/- `C19_same_site_twins`: h₁ = [], h₂ = 2 operations creating one object, objects 0 and 2 -/
example : arityOk decls₀ 0 [.int] = true ∧
    histS = [] ++ Op.instAt 7 0 [.int] :: [.write 0 0 .string, .instAt 8 0 [.string]] ++
      Op.instAt 7 0 [.int] :: histS.drop 4 := by decide
/- `C19_alone` with `o` the third execution of node 7 -/
example : creates decls₀ (Op.instAt 7 0 [.int]) = some ⟨0, some [.int]⟩ := by decide

/-! ## Regenerated facts (tie)

`extract/c19` regenerates `Generated.C19` from the source on every run: what `ClassGeneric.Clone` does with
each field and what it returns, every write of a `ClassGeneric` method, every read of the type-argument map,
every write to a field of an AST node of the instantiation / typed-store / call path and the discipline of
the functions that keep such state, every type check of that path, the way a written type argument reaches
`data.NewBaseType`, the switch of `NewBaseType`, the name comparisons of `data.Class.Is`.

For each group: a generic theorem (for EVERY table: a well-formed table selects the piece of `Model.Gen` the
property theorems above are about), the obligation on the regenerated table (`decide`), a negation witness
(a realistic ill-formed table on which the guarantee fails). -/
section Tie
open Model.GenFacts Proofs.GenFacts

/-- the translator found every syntactic shape it relies on -/
theorem C19_gen_shape : Generated.C19.shapeChanged = [] := by decide

/-! ### A. `Clone`: what is per instantiation -/

/-- **Generic.** For every field table and every list of `Clone` returns that satisfy `CloneWF`: after any
sequence of instantiations and lookups, whatever tables the class objects memoise in, every lookup is
`Model.Gen.getProperty` with the class object's own type-argument map (what `Model.Gen.writeOut` uses), and
every request `Clone(args)` gets an instantiation with exactly `args`, whatever key a memo might use. -/
theorem C19_clone_discipline_generic (fs : List Field) (rets : List Ret) (hwf : CloneWF fs rets = true)
    (c : Class) (ops : List TOp) {K : Type} [DecidableEq K] (key : List Ty → K) (reqs : List (List Ty)) :
    trunOf fs c ops = tspec c [GMap.empty] ops ∧ cloneRunOf rets key reqs = reqs := by
  unfold CloneWF at hwf
  simp only [Bool.and_eq_true, Bool.not_eq_true'] at hwf
  obtain ⟨⟨⟨_, hs⟩, _⟩, hm⟩ := hwf
  exact ⟨trunOf_eq_spec fs hs c ops, by simp [cloneRunOf, hm]⟩

/-- a memoised `Clone` is harmless exactly when its key separates argument lists -/
theorem C19_clone_memo_generic (rets : List Ret) {K : Type} [DecidableEq K] (key : List Ty → K)
    (hinj : ∀ a b, key a = key b → a = b) (reqs : List (List Ty)) : cloneRunOf rets key reqs = reqs := by
  unfold cloneRunOf
  split
  · exact cloneRun_inj key hinj reqs [] (by simp)
  · rfl

/-- **Obligation.** `Clone` as it is in the source: a fresh object, the map from the parameter, nothing
written after construction is taken over from the receiver, the map is written nowhere else. -/
theorem C19_clone_obligation :
    CloneWF Generated.C19.classFields Generated.C19.cloneReturns = true ∧ Generated.C19.tyargWrites = [] := by
  decide

/-- the table of seed `C19-clone-shallow-copy-typed-table`: a lazily filled `typed` table, `inst := *c` -/
def shallowFields : List Field :=
  [⟨"ClassStatement", "*ClassStatement", .decl, .receiver, false⟩, ⟨"Generic", "[]data.Types", .params, .receiver, false⟩,
   ⟨"GenericMap", "map[string]data.Types", .tyargs, .param, false⟩,
   ⟨"typed", "map[string]data.Property", .aux, .receiver, true⟩]

/-- **Negation witness.** With that table a raw `new Box()` touches member 0, then `Box<int>` is resolved:
its lookup answers "unchecked" where its own map says `int`. -/
theorem C19_clone_shallow_copy_witness :
    CloneWF shallowFields [.fresh] = false ∧
    trunOf shallowFields box [.lookup 0 0, .clone (GMap.empty.set 0 .int), .lookup 1 0] =
      [some (some none), none, some (some none)] ∧
    tspec box [GMap.empty] [.lookup 0 0, .clone (GMap.empty.set 0 .int), .lookup 1 0] =
      [some (some none), none, some (some (some .int))] := by decide

/-- **Negation witness** (seed `C19-clone-memo-sorted-key`): a memo keyed by the sorted argument names hands
`Pair<string,int>` the instantiation made for `Pair<int,string>`. -/
theorem C19_clone_sorted_key_witness :
    CloneWF Generated.C19.classFields [.stored, .fresh] = false ∧
    cloneRunOf [.stored, .fresh] sortedKey [[.int, .string], [.string, .int]] = [[.int, .string], [.int, .string]] := by
  decide

/-- **Generic / obligation.** Every read of the type-argument map sees the map of the class object the
operation is about. -/
theorem C19_lookups_generic (l : Lookup) (h : l.ok = true) (own kept : GMap) : l.map own kept = own := by
  unfold Lookup.ok at h
  simp only [Bool.and_eq_true] at h
  simp [Lookup.map, h.1]

theorem C19_lookups_obligation :
    Generated.C19.lookups.all Lookup.ok = true ∧ Generated.C19.lookups.isEmpty = false := by decide

/-! ### C. AST nodes that keep state -/

/-- **Generic.** A node whose text denotes `spec` (≠ the registered class `raw`) hands out `spec` on every
one of its executions iff its resolver is well-formed. -/
theorem C19_node_cache_generic {α : Type} (r : Resolver) (raw spec : α) (hne : raw ≠ spec) :
    (∀ n, ∀ x ∈ nodeRuns r raw spec n none, x = spec) ↔ r.ok = true := by
  constructor
  · intro h
    cases hr : r.ok with
    | true => rfl
    | false =>
      have := h 2 raw (by rw [nodeRuns_bad r hr]; simp)
      exact absurd this hne
  · intro hr n
    exact nodeRuns_ok r hr raw spec n none (fun _ => Or.inl rfl)

/-- **Generic.** Well-formed node facts: the only node state is the one `Model.Gen.State.cache` models, and
every function that keeps it hands out the node's own class on every execution. -/
theorem C19_nodes_generic (ws : List NodeWrite) (rs : List Resolver) (pk : List String)
    (h : NodesWF ws rs pk = true) :
    (∀ w ∈ ws, (w.node, w.field) ∈ modelledNodeState) ∧
    (∀ r ∈ rs, ∀ (raw spec : Inst) (n : Nat), ∀ x ∈ nodeRuns r raw spec n none, x = spec) := by
  simp only [NodesWF, Bool.and_eq_true, List.all_eq_true, List.contains_iff_mem] at h
  obtain ⟨⟨hw, hr⟩, _⟩ := h
  exact ⟨fun w hw' => (hw w hw').1, fun r hr' raw spec n =>
    nodeRuns_ok r (hr r hr').2 raw spec n none (fun _ => Or.inl rfl)⟩

/-- the discipline "read back, store what is returned" selects `Model.Gen.resolveAt` literally -/
theorem C19_resolver_is_model (r : Resolver) (h1 : r.cacheRead = true) (h2 : r.stored = .returned) :
    resolveAtR r = resolveAt := resolveAtR_eq r h1 h2

/-- **Obligation.** -/
theorem C19_nodes_obligation :
    NodesWF Generated.C19.nodeWrites Generated.C19.resolvers Generated.C19.pkgStateWrites = true := by decide

/-- the resolver of seed `C19-generic-new-cache-raw-class`: the node keeps what a callee stored -/
def rawResolver : Resolver := ⟨"NewExpression", "class", "NewClassGenerated.resolveClass", true, .other, true⟩

/-- **Negation witness.** Under that resolver the second object of one `new Box<int>()` node accepts a
string; the specification (and the first object) reject it. -/
theorem C19_raw_class_cached_witness :
    rawResolver.ok = false ∧
    (let s1 := (instAtR rawResolver (init [box]) 1 0 [.int]).1
     let s2 := (instAtR rawResolver s1 1 0 [.int]).1
     (Model.Gen.writeOut s2 0 0 .string, Model.Gen.writeOut s2 1 0 .string)) = (Out.rejected, Out.accepted) ∧
    Spec.Gen.run [box] [.instAt 1 0 [.int], .instAt 1 0 [.int], .write 0 0 .string, .write 1 0 .string] =
      [.created 0, .created 1, .rejected, .rejected] := by decide

/-! ### E. the type checks -/

/-- **Generic.** A well-formed site rejects exactly when the effective type under the receiver object's own
instantiation refuses the value (`Model.Gen.writeOut`; for a parameter `null` passes: `callOut`), whatever
the executing node may have kept. -/
theorem C19_sites_generic (s : Site) (hok : s.ok = true) (own kept : Option Ty) (extra : Bool) (v : Val) :
    s.rejected own kept extra v =
      match s.kind with
      | .prop => !(check own v)
      | .param => (v != .null && !(check own v)) := by
  cases hk : s.kind with
  | prop => exact site_prop s hok hk own kept extra v
  | param => exact site_param s hok hk own kept extra v

theorem C19_sites_obligation :
    Generated.C19.objectLookup.ok = true ∧ Generated.C19.sites.all Site.ok = true ∧
    Generated.C19.sites.any (·.kind == .prop) = true ∧ Generated.C19.sites.any (·.kind == .param) = true := by
  decide

/-- **Negation witness** (seed `C19-property-write-site-cache`): a site that takes the declaration from the
node answers by what the node kept — `Box<string>` member ← int passes when the site last saw `Box<int>`. -/
theorem C19_site_cache_witness :
    let s : Site := ⟨"call_object_property.go", "CallObjectProperty.SetValue", .prop, .nodeState, [.typeNotNil, .notIs], true⟩
    s.ok = false ∧ s.rejected (some .string) (some .int) false .int = false ∧ check (some .string) .int = false := by
  decide

/-! ### F. the argument-binding loops of the generic call path -/

/-- **Generic.** A binding loop that tests the result of every iteration refuses the call exactly when SOME
argument — at whatever position, whatever follows it — is refused by its own `param` site (`C19_sites_generic`:
non-null and not accepted by the receiver object's own type argument); and when the call is not refused every
parameter reached is bound.  So the body of a constructor / method of a generic instantiation only ever runs with
all its `T`-typed parameters holding values of the instantiation's own type arguments. -/
theorem C19_bind_loops_generic (l : BindLoop) (hok : l.ok = true) (args : List Arg) :
    ((bindRun l.shape args).1 = true ↔ ∃ a ∈ args, argRefused a = true) ∧
    ((bindRun l.shape args).1 = false → (bindRun l.shape args).2 = args.map (fun _ => true)) := by
  have hs : l.shape = .eachChecked := by
    unfold BindLoop.ok at hok
    exact eq_of_beq hok
  rw [hs]
  refine ⟨?_, bindEach_bound args⟩
  show (bindEach args).1 = true ↔ _
  rw [bindEach_refused, List.any_eq_true]

/-- **Generic.** One position of a call is one `param` site: a well-formed site (`C19_sites_obligation`) refuses the
value at that position exactly when `argRefused` says so for the parameter's effective type under the receiver's own
instantiation, whatever the executing node kept. -/
theorem C19_bind_position_is_site (s : Site) (hok : s.ok = true) (hk : s.kind = .param)
    (own kept : Option Ty) (extra : Bool) (v : Val) :
    s.rejected own kept extra v = argRefused (own, v) :=
  site_param s hok hk own kept extra v

/-- **Generic.** The loop that keeps the results in one variable tested after the loop answers by the LAST
argument alone (an empty call is accepted). -/
theorem C19_bind_loop_last_only (args : List Arg) :
    (bindRun .lastOnly args).1 = (match args.getLast? with | none => false | some a => argRefused a) :=
  bindLastGo_eq false args

/-- **Characterisation.** Of the shapes the translator distinguishes, testing every iteration is the only one
under which a call is refused iff some argument is. -/
theorem C19_bind_loop_shape_iff (sh : LoopShape) :
    (∀ args, (bindRun sh args).1 = args.any argRefused) ↔ sh = .eachChecked :=
  bindRun_right_iff sh

/-- Obligation on the regenerated table: every binding loop of the generic path (the constructor of
`new C<…>(…)` in `new.go`, the method call in `call_object_method.go`) tests each iteration's result. -/
theorem C19_bind_loops_obligation : BindLoopsWF Generated.C19.bindLoops = true := by decide

/-- **Negation witness** (seed `C19-generic-ctor-bind-last-wins`): `new Pair<int,string>("x", "s")` through the
single-variable loop is accepted and the body runs with the refused parameter unbound; the loop of the unchanged
code refuses it before anything else is bound. -/
theorem C19_ctor_bind_last_wins_witness :
    bindRun .lastOnly [(some .int, .string), (some .string, .string)] = (false, [false, true]) ∧
    bindRun .eachChecked [(some .int, .string), (some .string, .string)] = (true, []) ∧
    bindRun .lastOnly [(some .int, .int), (some .string, .int)] = (true, [true, false]) := by decide

/-! ### D. the written type argument -/

/-- **Generic.** Names compared through `q` (`q = id`: `==`; `q = lower-case`: `EqualFold`): normalising the
written argument with `f` leaves acceptance as written iff `f` keeps every name in its comparison class. -/
theorem C19_type_argument_commutes_iff {N Q : Type} (q : N → Q) (f : N → N) :
    (∀ a d, q (f a) = q d ↔ q a = q d) ↔ ∀ a, q (f a) = q a := commutes_iff_class q f

/-- **Generic.** Argument normalised with `f`, class name of the value with `g`: acceptance is equality of
the written names iff `f` and `g` agree and are injective. -/
theorem C19_type_argument_injective_iff {N : Type} (f g : N → N) :
    (∀ a d, f a = g d ↔ a = d) ↔ ((∀ a, f a = g a) ∧ ∀ x y, g x = g y → x = y) := commutes_iff_injective f g

/-- **Generic.** Well-formed name facts: whatever the wrappers mean, the specialised type for a written class
name accepts exactly the objects whose class name is that name (`Ty.accepts (.cls n) (.obj m) = (n == m)`),
and the loop of `resolveClass` is `Model.Gen.buildMap`. -/
theorem C19_names_generic (arg parse : List NameStep) (cmps : List NameCmp) (loop : BuildLoop) (dflt : Bool)
    (h : NamesWF arg parse cmps loop dflt = true) {N : Type} [DecidableEq N] (sem : NameStep → N → N) (a d : N)
    (args : List Ty) (ps : List Nat) :
    acceptsName (fun n => n) (applyChain sem (parse ++ arg)) a d = (a == d) ∧
    buildMapIx (fun k => k) args ps 0 GMap.empty = buildMap ps args GMap.empty := by
  simp only [NamesWF, Bool.and_eq_true, List.isEmpty_iff] at h
  obtain ⟨⟨⟨⟨⟨⟨⟨⟨⟨ha, hp⟩, _⟩, _⟩, _⟩, _⟩, _⟩, _⟩, _⟩, _⟩ := h
  subst ha; subst hp
  exact ⟨rfl, by simpa using buildMapIx_id args ps 0 GMap.empty⟩

/-- **Obligation.** -/
theorem C19_names_obligation :
    NamesWF Generated.C19.argChain Generated.C19.parseChain Generated.C19.nameCmps Generated.C19.buildLoop
      Generated.C19.baseDefaultIsClassOfArg = true := by decide

/-- **Obligation.** `data.NewBaseType` maps the scalar names of the model to the types `Ty.accepts` mirrors. -/
theorem C19_base_types_obligation :
    Generated.C19.baseTypes.lookup "int" = some "Int{}" ∧ Generated.C19.baseTypes.lookup "string" = some "String{}" ∧
    Generated.C19.baseTypes.lookup "array" = some "Arrays{}" := by decide

/-- **Negation witness** (seed `C19-type-argument-lowercased`): `strings.ToLower` on the argument while
`Class.Is` compares with `==` — `Box<Item>` refuses an `Item`; the same wrapper would be consistent with a
case-folding comparison. -/
theorem C19_lowercased_argument_witness :
    NamesWF [.lower] [] Generated.C19.nameCmps Generated.C19.buildLoop true = false ∧
    acceptsName (fun n : Name => n) (applyChain charSem [.lower]) ['I', 't', 'e', 'm'] ['I', 't', 'e', 'm'] = false ∧
    acceptsName (fun n : Name => n) (applyChain charSem []) ['I', 't', 'e', 'm'] ['I', 't', 'e', 'm'] = true ∧
    acceptsName lowerName (applyChain charSem [.lower]) ['I', 't', 'e', 'm'] ['I', 't', 'e', 'm'] = true := by
  decide

/-- … in the form of `C19_type_argument_commutes_iff`: lower-casing does not commute with `==`. -/
theorem C19_lowercasing_breaks_identity : ¬ ∀ a d : Name, (lowerName a = d ↔ a = d) := by
  intro h
  have := (commutes_iff_class (fun n : Name => n) lowerName).1 h ['I']
  revert this
  decide

/-- **Negation witness**: arguments read in reverse (`n.T[len-1-i]`) give `Pair<int,string>` the map of
`Pair<string,int>`. -/
theorem C19_reversed_arguments_witness :
    ((buildMapIx (fun k => 1 - k) [.int, .string] [0, 1] 0 GMap.empty).map (fun m => (m.get 0, m.get 1)),
     (buildMap [0, 1] [.int, .string] GMap.empty).map (fun m => (m.get 0, m.get 1))) =
      (some (some .string, some .int), some (some .int, some .string)) := by decide

/-! ### Non-vacuity: the generic theorems at the regenerated tables -/

example : trunOf Generated.C19.classFields box [.lookup 0 0, .clone (GMap.empty.set 0 .int), .lookup 1 0] =
    [some (some none), none, some (some (some .int))] := by decide
example : cloneRunOf Generated.C19.cloneReturns sortedKey [[.int, .string], [.string, .int]] =
    [[.int, .string], [.string, .int]] := by decide
example : Generated.C19.resolvers.all Resolver.ok = true := by decide
example : nodeRuns rawResolver (0 : Nat) 1 3 none = [1, 0, 0] := by decide
example : Generated.C19.sites.isEmpty = false ∧ Generated.C19.nameCmps.isEmpty = false := by decide
example : Generated.C19.bindLoops.isEmpty = false ∧
    Generated.C19.bindLoops.all (fun l => (bindRun l.shape forgotten).1) = true := by decide

end Tie

end C19
